(** Arithmetic helper lemmas for the binning schemes (C16): shifts as floor
    division, monotonicity, uint32 wrap-around that does not happen, counted
    ranges, the geometric series 1 + 8 + ... + 8^(l-1). *)
From Coq Require Import ZArith Lia List Bool.
From Hts Require Import Base.Prim Base.Bits.
Import ListNotations.
Open Scope Z_scope.

Lemma shiftr_mono (a b s : Z) : 0 <= s -> a <= b -> Z.shiftr a s <= Z.shiftr b s.
Proof.
  intros Hs H. rewrite !shiftr_div by assumption.
  apply Z.div_le_mono; [apply Z.pow_pos_nonneg; lia | assumption].
Qed.

Lemma shiftr_nonneg (a s : Z) : 0 <= a -> 0 <= Z.shiftr a s.
Proof. intros. apply Z.shiftr_nonneg. assumption. Qed.

Lemma shiftr_lt_pow (a s k : Z) : 0 <= s -> 0 <= k -> a < 2 ^ (s + k) -> Z.shiftr a s < 2 ^ k.
Proof.
  intros Hs Hk H. rewrite shiftr_div by assumption.
  apply Z.div_lt_upper_bound; [apply Z.pow_pos_nonneg; lia|].
  rewrite <- Z.pow_add_r by lia. assumption.
Qed.

Lemma shiftr_neg1 (s : Z) : 0 <= s -> Z.shiftr (-1) s = -1.
Proof.
  intros Hs. rewrite shiftr_div by assumption.
  assert (0 < 2 ^ s) by (apply Z.pow_pos_nonneg; lia).
  symmetry. apply Z.div_unique with (r := 2 ^ s - 1); lia.
Qed.

(** [i] is the tile of [x] at width [2^s] iff [x] lies in the tile. *)
Lemma shiftr_le_iff (x i s : Z) : 0 <= s -> (Z.shiftr x s <= i <-> x < (i + 1) * 2 ^ s).
Proof.
  intros Hs. rewrite shiftr_div by assumption.
  assert (Hp : 0 < 2 ^ s) by (apply Z.pow_pos_nonneg; lia).
  pose proof (Z.div_mod x (2 ^ s) ltac:(lia)) as Hd.
  pose proof (Z.mod_pos_bound x (2 ^ s) Hp) as Hm.
  split; intros H; nia.
Qed.

Lemma shiftr_ge_iff (x i s : Z) : 0 <= s -> (i <= Z.shiftr x s <-> i * 2 ^ s <= x).
Proof.
  intros Hs. rewrite shiftr_div by assumption.
  assert (Hp : 0 < 2 ^ s) by (apply Z.pow_pos_nonneg; lia).
  pose proof (Z.div_mod x (2 ^ s) ltac:(lia)) as Hd.
  pose proof (Z.mod_pos_bound x (2 ^ s) Hp) as Hm.
  split; intros H; nia.
Qed.

(** uint32 arithmetic that stays in range. *)
Lemma u32_id (x : Z) : 0 <= x < 2 ^ 32 -> u32 x = x.
Proof. intros H. unfold u32, wrapu. apply Z.mod_small. assumption. Qed.

Lemma u32_add_u32 (a b : Z) : u32 (a + u32 b) = u32 (a + b).
Proof. unfold u32, wrapu. apply Zplus_mod_idemp_r. Qed.

Lemma u32_sub_u32 (a b : Z) : u32 (a - u32 b) = u32 (a - b).
Proof. unfold u32, wrapu. apply Zminus_mod_idemp_r. Qed.

Lemma u32_add_small (a b : Z) : 0 <= a + b < 2 ^ 32 -> u32 (a + u32 b) = a + b.
Proof. intros H. rewrite u32_add_u32. apply u32_id. assumption. Qed.

Lemma s64_id (x : Z) : - 2 ^ 63 <= x < 2 ^ 63 -> s64 x = x.
Proof.
  intros H. unfold s64, wraps. change (64 - 1) with 63.
  rewrite Z.mod_small; lia.
Qed.

(** Counted ranges. *)
Fixpoint zcount (b : Z) (n : nat) : list Z :=
  match n with O => [] | S n' => b :: zcount (b + 1) n' end.

Lemma In_zcount (x b : Z) (n : nat) : In x (zcount b n) <-> b <= x < b + Z.of_nat n.
Proof.
  revert b; induction n as [|n IH]; intros b; simpl.
  - lia.
  - rewrite IH. lia.
Qed.

Lemma zcount_length (b : Z) (n : nat) : length (zcount b n) = n.
Proof. revert b; induction n; intros; simpl; auto. Qed.

Lemma NoDup_zcount (b : Z) (n : nat) : NoDup (zcount b n).
Proof.
  revert b; induction n as [|n IH]; intros b; simpl; constructor.
  - rewrite In_zcount. lia.
  - apply IH.
Qed.

(** 1 + 8 + ... + 8^(l-1), the number of the first bin of level [l]. *)
Fixpoint geo8 (l : nat) : Z :=
  match l with O => 0 | S l' => geo8 l' + 8 ^ Z.of_nat l' end.

Lemma geo8_closed (l : nat) : 7 * geo8 l = 8 ^ Z.of_nat l - 1.
Proof.
  induction l as [|l IH]; [reflexivity|].
  cbn [geo8]. rewrite Nat2Z.inj_succ, Z.pow_succ_r by lia. lia.
Qed.

Lemma geo8_div (l : nat) : geo8 l = (8 ^ Z.of_nat l - 1) / 7.
Proof. rewrite <- geo8_closed. rewrite Z.mul_comm, Z.div_mul; lia. Qed.

Lemma geo8_nonneg (l : nat) : 0 <= geo8 l.
Proof. pose proof (geo8_closed l). assert (0 < 8 ^ Z.of_nat l) by (apply Z.pow_pos_nonneg; lia). lia. Qed.

Lemma pow8_pow2 (k : Z) : 0 <= k -> 8 ^ k = 2 ^ (3 * k).
Proof. intros. change 8 with (2 ^ 3). rewrite <- Z.pow_mul_r; lia. Qed.

Lemma pow8_mono (a b : Z) : 0 <= a <= b -> 8 ^ a <= 8 ^ b.
Proof. intros. apply Z.pow_le_mono_r; lia. Qed.

(** Levels up to 11 keep every bin number below 2^32. *)
Lemma geo8_bound (l : nat) : (l <= 11)%nat -> geo8 l <= geo8 11.
Proof.
  intros H. do 12 (destruct l as [|l]; [vm_compute; discriminate|]). lia.
Qed.

Lemma geo8_11 : geo8 11 = 1227133513.
Proof. reflexivity. Qed.

Lemma shiftl_1 (k : Z) : 0 <= k -> Z.shiftl 1 k = 2 ^ k.
Proof. intros. rewrite shiftl_mul by assumption. lia. Qed.
