(** Lemma layer turning the shifts, masks and wrap-arounds that the Go code
    writes into div/mod arithmetic that lia can close. *)
From Coq Require Import ZArith Lia List Bool.
From Hts Require Import Base.Prim.
Open Scope Z_scope.

Lemma shiftr_div (a n : Z) : 0 <= n -> Z.shiftr a n = a / 2 ^ n.
Proof. intros; apply Z.shiftr_div_pow2; assumption. Qed.

Lemma shiftl_mul (a n : Z) : 0 <= n -> Z.shiftl a n = a * 2 ^ n.
Proof. intros; apply Z.shiftl_mul_pow2; assumption. Qed.

Lemma land_ones_mod (a n : Z) : 0 <= n -> Z.land a (2 ^ n - 1) = a mod 2 ^ n.
Proof.
  intros Hn. replace (2 ^ n - 1) with (Z.ones n) by (rewrite Z.ones_equiv; lia).
  apply Z.land_ones; assumption.
Qed.

Lemma lnot_neg (a : Z) : Z.lnot a = - a - 1.
Proof. unfold Z.lnot. lia. Qed.

(** Disjoint or is addition. *)
Lemma lor_add_disjoint (a b : Z) : Z.land a b = 0 -> Z.lor a b = a + b.
Proof.
  intros H. rewrite <- Z.lxor_lor by assumption. symmetry. apply Z.add_nocarry_lxor; assumption.
Qed.

Lemma land_low_high (a b k : Z) : 0 <= k -> 0 <= a < 2 ^ k -> Z.land a (b * 2 ^ k) = 0.
Proof.
  intros Hk Ha. apply Z.bits_inj'. intros n Hn.
  rewrite Z.land_spec, Z.bits_0.
  destruct (Z.lt_ge_cases n k) as [Hlt|Hge].
  - rewrite Z.mul_pow2_bits_low by assumption. apply andb_false_r.
  - destruct (Z.eq_dec a 0) as [->|Hne]; [rewrite Z.bits_0; reflexivity|].
    rewrite (Z.bits_above_log2 a n); [reflexivity|lia|].
    apply Z.lt_le_trans with k; [|assumption].
    apply Z.log2_lt_pow2; lia.
Qed.

Lemma lor_low_high (a b k : Z) : 0 <= k -> 0 <= a < 2 ^ k -> Z.lor a (b * 2 ^ k) = a + b * 2 ^ k.
Proof. intros. apply lor_add_disjoint. apply land_low_high; assumption. Qed.

Lemma lor_high_low (a b k : Z) : 0 <= k -> 0 <= a < 2 ^ k -> Z.lor (b * 2 ^ k) a = b * 2 ^ k + a.
Proof. intros. rewrite Z.lor_comm, lor_low_high by assumption. lia. Qed.

(** Properties of a byte proved by running through all 256 values. *)
Lemma byte_forall (P : Z -> bool) :
  forallb P (map Z.of_nat (seq 0 256)) = true -> forall x, 0 <= x < 256 -> P x = true.
Proof.
  intros H x Hx. rewrite forallb_forall in H. apply H.
  apply in_map_iff. exists (Z.to_nat x). split; [lia|]. apply in_seq. lia.
Qed.

Ltac unwrap :=
  unfold u8, u16, u32, u64, s8, s16, s32, s64, wrapu, wraps in *.

(** Slices represented as an explicit prefix followed by an arbitrary tail. *)
Lemma zlen_app {A} (a b : list A) : zlen (a ++ b) = zlen a + zlen b.
Proof. unfold zlen. rewrite app_length. lia. Qed.

Lemma zlen_nonneg {A} (a : list A) : 0 <= zlen a.
Proof. unfold zlen. lia. Qed.

Lemma inb_app (pre tl : list Z) (i : Z) : 0 <= i < zlen pre -> inb (pre ++ tl) i = true.
Proof.
  intros H. unfold inb. rewrite zlen_app. pose proof (zlen_nonneg tl).
  apply andb_true_intro; split; [apply Z.leb_le|apply Z.ltb_lt]; lia.
Qed.

Lemma upd_nat_app {A} (pre tl : list A) (i : nat) (x : A) :
  (i < length pre)%nat -> upd_nat (pre ++ tl) i x = upd_nat pre i x ++ tl.
Proof.
  revert i; induction pre as [|h t IH]; intros i Hi; simpl in *; [lia|].
  destruct i; [reflexivity|]. simpl. rewrite IH by lia. reflexivity.
Qed.

Lemma updz_app (pre tl : list Z) (i x : Z) :
  0 <= i < zlen pre -> updz (pre ++ tl) i x = updz pre i x ++ tl.
Proof. intros H. unfold updz. apply upd_nat_app. unfold zlen in H. lia. Qed.

Lemma getz_app (pre tl : list Z) (i : Z) :
  0 <= i < zlen pre -> getz (pre ++ tl) i = getz pre i.
Proof. intros H. unfold getz. apply app_nth1. unfold zlen in H. lia. Qed.

Lemma length_upd_nat {A} (l : list A) i x : length (upd_nat l i x) = length l.
Proof. revert i; induction l as [|h t IH]; intros [|i]; simpl; auto. Qed.

Lemma zlen_updz (l : list Z) i x : zlen (updz l i x) = zlen l.
Proof. unfold zlen, updz. rewrite length_upd_nat. reflexivity. Qed.
