(** Little-endian integers over byte lists, firstn/skipn with Z lengths:
    general lemmas used by the BAM codec proofs (C05). *)
From Coq Require Import ZArith Lia List Bool.
From Hts Require Import Base.Prim Base.Bits Model.BamCodec.
Import ListNotations.
Open Scope Z_scope.
Ltac Zify.zify_post_hook ::= Z.div_mod_to_equations.

Lemma zlen_nil {A} : zlen (@nil A) = 0.
Proof. reflexivity. Qed.

Lemma zlen_cons {A} (a : A) l : zlen (a :: l) = 1 + zlen l.
Proof. unfold zlen. simpl length. lia. Qed.

Lemma zlen_repeat {A} (a : A) n : zlen (repeat a n) = Z.of_nat n.
Proof. unfold zlen. rewrite repeat_length. reflexivity. Qed.

Lemma zfirstn_app {A} (a b : list A) : zfirstn (zlen a) (a ++ b) = a.
Proof.
  unfold zfirstn, zlen. rewrite Nat2Z.id.
  rewrite firstn_app, Nat.sub_diag, firstn_all. simpl. apply app_nil_r.
Qed.

Lemma zskipn_app {A} (a b : list A) : zskipn (zlen a) (a ++ b) = b.
Proof.
  unfold zskipn, zlen. rewrite Nat2Z.id.
  rewrite skipn_app, Nat.sub_diag, skipn_all. reflexivity.
Qed.

Lemma zfirstn_app_n {A} (a b : list A) n : n = zlen a -> zfirstn n (a ++ b) = a.
Proof. intros ->. apply zfirstn_app. Qed.

Lemma zskipn_app_n {A} (a b : list A) n : n = zlen a -> zskipn n (a ++ b) = b.
Proof. intros ->. apply zskipn_app. Qed.

Lemma zfirstn_all {A} (a : list A) n : n = zlen a -> zfirstn n a = a.
Proof. intros ->. rewrite <- (app_nil_r a) at 2. apply zfirstn_app. Qed.

Lemma zskipn_all {A} (a : list A) n : n = zlen a -> zskipn n a = [].
Proof. intros ->. rewrite <- (app_nil_r a) at 2. apply zskipn_app. Qed.

Lemma firstn_app_len {A} (a b : list A) n : n = length a -> firstn n (a ++ b) = a.
Proof. intros ->. rewrite firstn_app, Nat.sub_diag, firstn_all. simpl. apply app_nil_r. Qed.

Lemma skipn_app_len {A} (a b : list A) n : n = length a -> skipn n (a ++ b) = b.
Proof. intros ->. rewrite skipn_app, Nat.sub_diag, skipn_all. reflexivity. Qed.

(** * le_put / le_get *)

Lemma le_put_length n v : length (le_put n v) = n.
Proof. revert v; induction n; intros; simpl; auto. Qed.

Lemma zlen_le_put n v : zlen (le_put n v) = Z.of_nat n.
Proof. unfold zlen. rewrite le_put_length. reflexivity. Qed.

Lemma all_bytes_cons b l : all_bytes (b :: l) = true <-> (0 <= b < 256 /\ all_bytes l = true).
Proof.
  unfold all_bytes. simpl. rewrite andb_true_iff. unfold is_byte. rewrite andb_true_iff, Z.leb_le, Z.ltb_lt. tauto.
Qed.

Lemma le_put_bytes n v : all_bytes (le_put n v) = true.
Proof.
  revert v; induction n; intros; [reflexivity|].
  cbn [le_put]. apply all_bytes_cons. split; [|apply IHn].
  apply Z.mod_pos_bound. reflexivity.
Qed.

Lemma le_get_put n v : 0 <= v -> le_get (le_put n v) = v mod 256 ^ Z.of_nat n.
Proof.
  revert v; induction n; intros v Hv.
  - simpl. rewrite Z.mod_1_r. reflexivity.
  - cbn [le_put le_get]. rewrite IHn by (apply Z.div_pos; lia).
    rewrite Nat2Z.inj_succ, Z.pow_succ_r by lia.
    set (m := 256 ^ Z.of_nat n). assert (0 < m) by (apply Z.pow_pos_nonneg; lia).
    rewrite Z.rem_mul_r by lia. reflexivity.
Qed.

Lemma le_get_put_small n v : 0 <= v < 256 ^ Z.of_nat n -> le_get (le_put n v) = v.
Proof. intros H. rewrite le_get_put by lia. apply Z.mod_small; lia. Qed.

Lemma all_bytes_app a b : all_bytes (a ++ b) = all_bytes a && all_bytes b.
Proof. unfold all_bytes. apply forallb_app. Qed.

Lemma le_get_range l : all_bytes l = true -> 0 <= le_get l < 256 ^ Z.of_nat (length l).
Proof.
  induction l as [|b t IH]; intros H.
  - simpl. lia.
  - apply all_bytes_cons in H. destruct H as [Hb Ht]. specialize (IH Ht).
    cbn [le_get length]. rewrite Nat2Z.inj_succ, Z.pow_succ_r by lia. lia.
Qed.

Lemma le_put_get l : all_bytes l = true -> le_put (length l) (le_get l) = l.
Proof.
  induction l as [|b t IH]; intros H; [reflexivity|].
  apply all_bytes_cons in H. destruct H as [Hb Ht].
  cbn [le_get length le_put]. set (x := le_get t) in *.
  replace ((b + 256 * x) mod 256) with b by lia.
  replace ((b + 256 * x) / 256) with x by lia.
  rewrite IH by assumption. reflexivity.
Qed.

(** * Fixed-width conversions *)

Lemma s32_u32 x : - 2 ^ 31 <= x < 2 ^ 31 -> s32 (u32 x) = x.
Proof. intros H. unfold s32, u32, wraps, wrapu. change (2 ^ (32 - 1)) with 2147483648. change (2 ^ 32) with 4294967296. change (2 ^ 31) with 2147483648 in H. lia. Qed.

Lemma u32_s32 x : u32 (s32 x) = u32 x.
Proof. unfold s32, u32, wraps, wrapu. change (2 ^ (32 - 1)) with 2147483648. change (2 ^ 32) with 4294967296. lia. Qed.

Lemma u32_range x : 0 <= u32 x < 2 ^ 32.
Proof. unfold u32, wrapu. apply Z.mod_pos_bound. reflexivity. Qed.

Lemma u32_small x : 0 <= x < 2 ^ 32 -> u32 x = x.
Proof. intros. unfold u32, wrapu. apply Z.mod_small; lia. Qed.
Lemma u16_small x : 0 <= x < 2 ^ 16 -> u16 x = x.
Proof. intros. unfold u16, wrapu. apply Z.mod_small; lia. Qed.
Lemma u8_small x : 0 <= x < 2 ^ 8 -> u8 x = x.
Proof. intros. unfold u8, wrapu. apply Z.mod_small; lia. Qed.
Lemma u16_range x : 0 <= u16 x < 2 ^ 16.
Proof. unfold u16, wrapu. apply Z.mod_pos_bound. reflexivity. Qed.
Lemma u8_range x : 0 <= u8 x < 2 ^ 8.
Proof. unfold u8, wrapu. apply Z.mod_pos_bound. reflexivity. Qed.

Lemma s32_small x : 0 <= x < 2 ^ 31 -> s32 x = x.
Proof. intros H. unfold s32, wraps. change (2 ^ (32 - 1)) with 2147483648. change (2 ^ 32) with 4294967296. change (2 ^ 31) with 2147483648 in H. lia. Qed.

(** bool reflection helpers *)
Lemma is_byte_iff x : is_byte x = true <-> 0 <= x < 256.
Proof. unfold is_byte. rewrite andb_true_iff, Z.leb_le, Z.ltb_lt. tauto. Qed.

Lemma all_bytes_forall l : all_bytes l = true <-> Forall (fun x => 0 <= x < 256) l.
Proof.
  unfold all_bytes. rewrite forallb_forall, Forall_forall. split; intros H x Hx; specialize (H x Hx); apply is_byte_iff; assumption.
Qed.

Lemma all_bytes_firstn n l : all_bytes l = true -> all_bytes (firstn n l) = true.
Proof.
  intros H. rewrite <- (firstn_skipn n l), all_bytes_app in H. apply andb_true_iff in H. tauto.
Qed.

Lemma all_bytes_skipn n l : all_bytes l = true -> all_bytes (skipn n l) = true.
Proof.
  intros H. rewrite <- (firstn_skipn n l), all_bytes_app in H. apply andb_true_iff in H. tauto.
Qed.
