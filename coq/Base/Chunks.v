(** Vocabulary for bgzf.Offset / bgzf.Chunk values and slices of chunks.
    Executable definitions only; used by the generated translation of
    bgzf/index/strategy.go (coq/Generated.v, section 50_strategy) and by the
    hand-written models of C17.

    bgzf.Offset{File int64; Block uint16} is a pair (File, Block);
    bgzf.Chunk{Begin, End Offset} is a pair (Begin, End).  A []bgzf.Chunk is
    the list of its elements (the view through the slice header; the backing
    array beyond len is not modelled). *)
From Hts Require Import Base.Prim.
Open Scope Z_scope.

Definition offset := (Z * Z)%type.
Definition chunk := (offset * offset)%type.

Definition o_File (o : offset) : Z := fst o.
Definition o_Block (o : offset) : Z := snd o.
Definition c_Begin (c : chunk) : offset := fst c.
Definition c_End (c : chunk) : offset := snd c.
Definition mk_chunk (b e : offset) : chunk := (b, e).
(** Field stores through a pointer to a chunk. *)
Definition set_Begin (c : chunk) (b : offset) : chunk := (b, snd c).
Definition set_End (c : chunk) (e : offset) : chunk := (fst c, e).

Definition zero_chunk : chunk := ((0, 0), (0, 0)).

(** chunks[i] (the caller checks bounds with [inb]). *)
Definition getc (l : list chunk) (i : Z) : chunk := nth (Z.to_nat i) l zero_chunk.
(** chunks[i] = x *)
Definition setc (l : list chunk) (i : Z) (x : chunk) : list chunk := upd_nat l (Z.to_nat i) x.
(** chunks[:i] and chunks[i:]; [slb] is Go's bounds check for both
    (0 <= i <= len; the capacity is not modelled, it is never smaller). *)
Definition slb {A} (l : list A) (i : Z) : bool := (0 <=? i) && (i <=? zlen l).
Definition slice_to {A} (l : list A) (i : Z) : list A := firstn (Z.to_nat i) l.
Definition slice_from {A} (l : list A) (i : Z) : list A := skipn (Z.to_nat i) l.

(** int64 wrap-around with literal constants and a fast path for values in
    range (cheap to evaluate inside vm_compute); equal to
    [Prim.s64], see Proofs/StrategyLoop.v [i64_s64]. *)
Definition i64 (x : Z) : Z :=
  if (-9223372036854775808 <=? x) && (x <? 9223372036854775808) then x
  else Z.land (x + 9223372036854775808) 18446744073709551615 - 9223372036854775808.

Definition offset_eqb (a b : offset) : bool := (fst a =? fst b) && (snd a =? snd b).
Definition chunk_eqb (a b : chunk) : bool := offset_eqb (fst a) (fst b) && offset_eqb (snd a) (snd b).
Fixpoint chunks_eqb (a b : list chunk) : bool :=
  match a, b with
  | [], [] => true
  | x :: a', y :: b' => chunk_eqb x y && chunks_eqb a' b'
  | _, _ => false
  end.
