(** Vocabulary of the panic-aware decoder models (C11): checked Go slice
    expressions, byte-stream reads, outcome classes. Executable definitions and
    the few generic lemmas every decoder proof uses. *)
From Coq Require Import ZArith Lia List Bool.
From Hts Require Import Base.Prim.
Open Scope Z_scope.

(** [safe o]: the modelled call returned a value or an error. *)
Definition safe {A} (o : outcome A) : Prop :=
  match o with Panic _ => False | Stuck => False | _ => True end.

(** Outcome class as the harness reports it: 0 ok, 1 error, 2 panic, 3 stuck. *)
Definition cls {A} (o : outcome A) : Z :=
  match o with Ok _ => 0 | Err _ => 1 | Panic _ => 2 | Stuck => 3 end.

Notation "x <- a ;; b" := (obind a (fun x => b)) (at level 61, a at next level, right associativity).

(** Go [l[lo:hi]] on a slice whose capacity equals its length (what
    bytes.Split, make and a full slice expression hand out). *)
Definition sub (l : list Z) (lo hi : Z) : list Z :=
  firstn (Z.to_nat (hi - lo)) (skipn (Z.to_nat lo) l).
Definition slice_ok (l : list Z) (lo hi : Z) : bool :=
  (0 <=? lo) && (lo <=? hi) && (hi <=? zlen l).
(** [make([]T, n)] with a length taken from the input. *)
Definition make_ok (n : Z) : bool := 0 <=? n.

(** A byte source with bytes.Reader semantics: reads are short only at the end. *)
Definition take (n : Z) (s : list Z) : option (list Z * list Z) :=
  if (0 <=? n) && (n <=? zlen s) then Some (firstn (Z.to_nat n) s, skipn (Z.to_nat n) s) else None.

Fixpoint le_bytes (l : list Z) : Z :=
  match l with [] => 0 | b :: t => b + 256 * le_bytes t end.

(** binary.Read of a little-endian signed/unsigned integer of [n] bytes;
    any short read is the error EOF / ErrUnexpectedEOF. *)
Definition rd_u (n : Z) (s : list Z) : outcome (Z * list Z) :=
  match take n s with Some (b, s') => Ok (le_bytes b, s') | None => Err 9 end.
Definition rd_i32 (s : list Z) : outcome (Z * list Z) :=
  match take 4 s with Some (b, s') => Ok (s32 (le_bytes b), s') | None => Err 9 end.

Lemma zlen_nonneg {A} (l : list A) : 0 <= zlen l.
Proof. unfold zlen. lia. Qed.

Lemma zlen_cons {A} (x : A) l : zlen (x :: l) = 1 + zlen l.
Proof. unfold zlen. simpl length. lia. Qed.

Lemma zlen_nil {A} : zlen (@nil A) = 0.
Proof. reflexivity. Qed.

Lemma zlen_skipn {A} (n : nat) (l : list A) : zlen (skipn n l) = Z.max 0 (zlen l - Z.of_nat n).
Proof. unfold zlen. rewrite skipn_length. lia. Qed.

Lemma zlen_firstn {A} (n : nat) (l : list A) : zlen (firstn n l) = Z.min (Z.of_nat n) (zlen l).
Proof. unfold zlen. rewrite firstn_length. lia. Qed.

Lemma zlen_app {A} (a b : list A) : zlen (a ++ b) = zlen a + zlen b.
Proof. unfold zlen. rewrite app_length. lia. Qed.

Lemma take_len n s b s' : take n s = Some (b, s') -> zlen b = n /\ zlen s' = zlen s - n /\ 0 <= n.
Proof.
  unfold take. destruct ((0 <=? n) && (n <=? zlen s)) eqn:E; [|discriminate].
  intros H; inversion H; subst; clear H.
  apply andb_true_iff in E as [E1 E2]. apply Z.leb_le in E1, E2.
  rewrite zlen_firstn, zlen_skipn. rewrite Z2Nat.id by lia. lia.
Qed.

Lemma safe_bind {A B} (o : outcome A) (f : A -> outcome B) :
  safe o -> (forall a, o = Ok a -> safe (f a)) -> safe (obind o f).
Proof. destruct o; simpl; auto. Qed.

Lemma safe_chk {A} (c : bool) (k : outcome A) : c = true -> safe k -> safe (chk c k).
Proof. intros ->. auto. Qed.

Lemma rd_u_safe n s : safe (rd_u n s).
Proof. unfold rd_u. destruct (take n s) as [[? ?]|]; exact I. Qed.
Lemma rd_i32_safe s : safe (rd_i32 s).
Proof. unfold rd_i32. destruct (take 4 s) as [[? ?]|]; exact I. Qed.

Lemma rd_u_len n s v s' : rd_u n s = Ok (v, s') -> zlen s' = zlen s - n /\ 0 <= n.
Proof.
  unfold rd_u. destruct (take n s) as [[b r]|] eqn:E; [|discriminate].
  intros H; inversion H; subst. apply take_len in E. lia.
Qed.
Lemma rd_i32_len s v s' : rd_i32 s = Ok (v, s') -> zlen s' = zlen s - 4.
Proof.
  unfold rd_i32. destruct (take 4 s) as [[b r]|] eqn:E; [|discriminate].
  intros H; inversion H; subst. apply take_len in E. lia.
Qed.

Lemma s32_range x : - 2^31 <= s32 x < 2^31.
Proof. unfold s32, wraps. change (2 ^ (32 - 1)) with 2147483648. change (2^32) with 4294967296. change (2^31) with 2147483648.
  pose proof (Z.mod_pos_bound (x + 2147483648) 4294967296). lia. Qed.
