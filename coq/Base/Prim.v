(** Primitive vocabulary shared by generated and hand-written models.
    Executable definitions only. *)
From Coq Require Export ZArith List Bool.
Export ListNotations.
Open Scope Z_scope.

(** Outcome of a modelled Go call: a value, an error value, a run-time panic
    (index out of range, nil dereference, explicit panic) or a blocked call. *)
Inductive outcome (A : Type) : Type :=
| Ok (a : A)
| Err (e : Z)
| Panic (why : Z)
| Stuck.
Arguments Ok {A} a.
Arguments Err {A} e.
Arguments Panic {A} why.
Arguments Stuck {A}.

Definition obind {A B} (o : outcome A) (f : A -> outcome B) : outcome B :=
  match o with Ok a => f a | Err e => Err e | Panic w => Panic w | Stuck => Stuck end.

Definition is_panic {A} (o : outcome A) : bool :=
  match o with Panic _ => true | _ => false end.
Definition is_ok {A} (o : outcome A) : bool :=
  match o with Ok _ => true | _ => false end.

(** Go fixed-width integer conversions. *)
Definition wrapu (n : Z) (x : Z) : Z := x mod 2 ^ n.
Definition wraps (n : Z) (x : Z) : Z := (x + 2 ^ (n - 1)) mod 2 ^ n - 2 ^ (n - 1).
Definition u8 := wrapu 8.
Definition u16 := wrapu 16.
Definition u32 := wrapu 32.
Definition u64 := wrapu 64.
Definition s8 := wraps 8.
Definition s16 := wraps 16.
Definition s32 := wraps 32.
Definition s64 := wraps 64.

(** Slices of bytes are lists of Z. *)
Definition zlen {A} (l : list A) : Z := Z.of_nat (length l).
Definition getz (l : list Z) (i : Z) : Z := nth (Z.to_nat i) l 0.
Fixpoint upd_nat {A} (l : list A) (i : nat) (x : A) : list A :=
  match l, i with
  | [], _ => []
  | _ :: t, O => x :: t
  | h :: t, S i' => h :: upd_nat t i' x
  end.
Definition updz (l : list Z) (i : Z) (x : Z) : list Z := upd_nat l (Z.to_nat i) x.
Definition inb {A} (l : list A) (i : Z) : bool := (0 <=? i) && (i <? zlen l).

(** Bounds-checked continuation: Go's index expression panics when out of range. *)
Definition chk {A} (c : bool) (k : outcome A) : outcome A :=
  if c then k else Panic 1.

(** math/bits.LeadingZeros8 *)
Definition clz8 (x : Z) : Z :=
  if x <? 1 then 8 else if x <? 2 then 7 else if x <? 4 then 6 else if x <? 8 then 5
  else if x <? 16 then 4 else if x <? 32 then 3 else if x <? 64 then 2
  else if x <? 128 then 1 else 0.

Definition is_byte (x : Z) : bool := (0 <=? x) && (x <? 256).
Definition all_bytes (l : list Z) : bool := forallb is_byte l.
