(** List lemmas used by the BGZF writer proofs (lengths as Z). *)
From Coq Require Import ZArith Lia List Bool.
From Hts Require Import Base.Prim.
Import ListNotations.
Open Scope Z_scope.

Lemma zlen_nonneg {A} (l : list A) : 0 <= zlen l.
Proof. unfold zlen. lia. Qed.

Lemma zlen_nil {A} : zlen (@nil A) = 0.
Proof. reflexivity. Qed.

Lemma zlen_cons {A} (x : A) l : zlen (x :: l) = 1 + zlen l.
Proof. unfold zlen. cbn [length]. lia. Qed.

Lemma zlen_app' {A} (a b : list A) : zlen (a ++ b) = zlen a + zlen b.
Proof. unfold zlen. rewrite app_length. lia. Qed.

Lemma zlen_0_nil {A} (l : list A) : zlen l = 0 -> l = [].
Proof. destruct l; [reflexivity|]. rewrite zlen_cons. pose proof (zlen_nonneg l). lia. Qed.

Lemma zlen_firstn {A} (n : Z) (l : list A) : 0 <= n <= zlen l -> zlen (firstn (Z.to_nat n) l) = n.
Proof. intros H. unfold zlen in *. rewrite firstn_length. lia. Qed.

Lemma zlen_skipn {A} (n : Z) (l : list A) : 0 <= n <= zlen l -> zlen (skipn (Z.to_nat n) l) = zlen l - n.
Proof. intros H. unfold zlen in *. rewrite skipn_length. lia. Qed.

Lemma firstn_zlen_app {A} (a b : list A) : firstn (Z.to_nat (zlen a)) (a ++ b) = a.
Proof.
  unfold zlen. rewrite Nat2Z.id. rewrite firstn_app, Nat.sub_diag, firstn_all. cbn. apply app_nil_r.
Qed.

Lemma skipn_zlen_app {A} (a b : list A) : skipn (Z.to_nat (zlen a)) (a ++ b) = b.
Proof.
  unfold zlen. rewrite Nat2Z.id. rewrite skipn_app, Nat.sub_diag, skipn_all. reflexivity.
Qed.

Lemma isnil_zlen {A} (l : list A) : (zlen l =? 0) = match l with [] => true | _ => false end.
Proof. destruct l; [reflexivity|]. rewrite zlen_cons. pose proof (zlen_nonneg l). apply Z.eqb_neq. lia. Qed.

Lemma concat_snoc {A} (l : list (list A)) x : concat (l ++ [x]) = concat l ++ x.
Proof. rewrite concat_app. cbn. rewrite app_nil_r. reflexivity. Qed.

Lemma Forall2_snoc {A B} (R : A -> B -> Prop) l1 l2 a b :
  Forall2 R l1 l2 -> R a b -> Forall2 R (l1 ++ [a]) (l2 ++ [b]).
Proof. intros. apply Forall2_app; [assumption|]. constructor; [assumption|constructor]. Qed.

Lemma Forall_snoc {A} (P : A -> Prop) l a : Forall P l -> P a -> Forall P (l ++ [a]).
Proof. intros. apply Forall_app. split; [assumption|]. constructor; [assumption|constructor]. Qed.

Definition prefix_of {A} (a b : list A) : Prop := exists t, b = a ++ t.

Lemma prefix_of_refl {A} (a : list A) : prefix_of a a.
Proof. exists []. rewrite app_nil_r. reflexivity. Qed.

Lemma prefix_of_app {A} (a b c : list A) : prefix_of a b -> prefix_of a (b ++ c).
Proof. intros [t ->]. exists (t ++ c). rewrite app_assoc. reflexivity. Qed.

Lemma prefix_of_trans {A} (a b c : list A) : prefix_of a b -> prefix_of b c -> prefix_of a c.
Proof. intros [t ->] [u ->]. exists (t ++ u). rewrite app_assoc. reflexivity. Qed.
