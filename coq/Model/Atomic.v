(** C14 — interleaving semantics for operations of shape
      lock; body; unlock
    on one RW mutex (executable definitions only).

    Threads run programs (lists of operations). An operation goes through
      invoke -> acquire -> begin -> finish -> release -> respond.
    The body is NOT atomic: [begin] copies the shared state into the thread
    ([Mid o snap]); [finish] computes [step snap o] from that copy and - for a
    writer - stores the new state. Between the two, any other thread may take
    steps. Without the mutex this loses updates; the theorem in
    Proofs/Atomic.v shows that with it every execution equals the sequential
    one in the order of the [finish] steps, each of which lies between the
    invocation and the response of its operation.

    An operation takes the read lock iff [is_read]; readers share the mutex
    and do not store. A schedule is a list of thread ids; a scheduled thread
    that cannot move (blocked on the mutex, or finished) stutters. *)
From Coq Require Import List Bool Arith.
Import ListNotations.

Section Atomic.
  Variables (S O R : Type).
  Variable step : S -> O -> S * R.
  Variable is_read : O -> bool.

  Inductive phase :=
  | Idle | Waiting (o : O) | Holding (o : O) | Mid (o : O) (snap : S)
  | Ran (o : O) (r : R) | Released (o : O) (r : R).

  Inductive lockst := LFree | LW (t : nat) | LR (ts : list nat).

  Inductive event :=
  | EInv (t : nat) (o : O)
  | ELin (t : nat) (o : O) (r : R)     (* the finish step: linearization point *)
  | ERes (t : nat) (o : O) (r : R).

  Record config := mkcfg {
    sh : S;
    lk : lockst;
    prog : nat -> list O;
    ph : nat -> phase;
    hist : list event;              (* newest first *)
    lin : list (nat * O * R) }.     (* finished bodies, oldest first *)

  Definition upd {A} (f : nat -> A) (t : nat) (v : A) : nat -> A :=
    fun x => if Nat.eqb x t then v else f x.

  Fixpoint remove1 (t : nat) (l : list nat) : list nat :=
    match l with [] => [] | x :: r => if Nat.eqb x t then r else x :: remove1 t r end.

  Definition acquire (c : config) (t : nat) (o : O) : option lockst :=
    if is_read o then
      match lk c with LFree => Some (LR [t]) | LR ts => Some (LR (t :: ts)) | LW _ => None end
    else
      match lk c with LFree => Some (LW t) | _ => None end.

  Definition release (c : config) (t : nat) : lockst :=
    match lk c with
    | LW _ => LFree
    | LR ts => match remove1 t ts with [] => LFree | ts' => LR ts' end
    | LFree => LFree
    end.

  (** one step of thread [t] *)
  Definition tstep (c : config) (t : nat) : config :=
    match ph c t with
    | Idle =>
        match prog c t with
        | [] => c
        | o :: rest => mkcfg (sh c) (lk c) (upd (prog c) t rest) (upd (ph c) t (Waiting o))
                             (EInv t o :: hist c) (lin c)
        end
    | Waiting o =>
        match acquire c t o with
        | Some l => mkcfg (sh c) l (prog c) (upd (ph c) t (Holding o)) (hist c) (lin c)
        | None => c
        end
    | Holding o => mkcfg (sh c) (lk c) (prog c) (upd (ph c) t (Mid o (sh c))) (hist c) (lin c)
    | Mid o snap =>
        let '(s', r) := step snap o in
        mkcfg (if is_read o then sh c else s') (lk c) (prog c) (upd (ph c) t (Ran o r))
              (ELin t o r :: hist c) (lin c ++ [(t, o, r)])
    | Ran o r => mkcfg (sh c) (release c t) (prog c) (upd (ph c) t (Released o r)) (hist c) (lin c)
    | Released o r => mkcfg (sh c) (lk c) (prog c) (upd (ph c) t Idle) (ERes t o r :: hist c) (lin c)
    end.

  Fixpoint exec (c : config) (sched : list nat) : config :=
    match sched with [] => c | t :: r => exec (tstep c t) r end.

  Definition init (s0 : S) (p : nat -> list O) : config :=
    mkcfg s0 LFree p (fun _ => Idle) [] [].

  (** the sequential execution *)
  Fixpoint seq_run (s : S) (os : list O) : S * list R :=
    match os with
    | [] => (s, [])
    | o :: r => let '(s', x) := step s o in
                let '(s'', xs) := seq_run s' r in (s'', x :: xs)
    end.

  (** per-thread shape of a history: Inv, then Lin, then Res of the same
      operation with the same result, repeated. [last_of t h] is the newest
      event of thread [t]. *)
  Definition ev_thread (e : event) : nat :=
    match e with EInv t _ | ELin t _ _ | ERes t _ _ => t end.
  Fixpoint last_of (t : nat) (h : list event) : option event :=
    match h with
    | [] => None
    | e :: r => if Nat.eqb (ev_thread e) t then Some e else last_of t r
    end.
  Inductive ok_next : option event -> event -> Prop :=
  | ok_inv0 : forall t o, ok_next None (EInv t o)
  | ok_inv : forall t o o' r', ok_next (Some (ERes t o' r')) (EInv t o)
  | ok_lin : forall t o r, ok_next (Some (EInv t o)) (ELin t o r)
  | ok_res : forall t o r, ok_next (Some (ELin t o r)) (ERes t o r).
  Inductive bracketed : list event -> Prop :=
  | br_nil : bracketed []
  | br_cons : forall e h, bracketed h -> ok_next (last_of (ev_thread e) h) e -> bracketed (e :: h).

  (** the linearization events of a history, oldest first *)
  Fixpoint lin_of (h : list event) : list (nat * O * R) :=
    match h with
    | [] => []
    | ELin t o r :: rest => lin_of rest ++ [(t, o, r)]
    | _ :: rest => lin_of rest
    end.
End Atomic.
