(** C14 — interleaving semantics for operations of shape
      lock; body; unlock
    on one RW mutex (executable definitions only).

    Threads run programs (lists of operations). An operation goes through
      invoke -> acquire -> body micro-steps ... -> release -> respond.
    The body is NOT atomic and does NOT work on a private copy: it is an
    arbitrary small-step program [bstep o s l] over the SHARED state [s] and a
    thread-local state [l] (initially [l0 o]); every micro-step may read and
    write the shared state and either continues with a new local state or
    finishes with the result. Any other thread may take steps between two
    micro-steps. This is exactly what "every access to the shared state lies
    between Lock and Unlock" (the generated-skeleton theorem
    accesses_inside_critical_section) gives: however the Go method body is
    cut into accesses, each access is one micro-step taken while the thread
    holds the mutex. Proofs/Atomic.v shows that every execution equals the
    sequential execution of the same bodies in the order of their last
    micro-steps, each of which lies between invocation and response.

    An operation takes the read lock iff [is_read]; readers share the mutex.
    A schedule is a list of thread ids; a scheduled thread that cannot move
    (blocked on the mutex, or finished) stutters. *)
From Coq Require Import List Bool Arith.
Import ListNotations.

Section Atomic.
  Variables (St Op Rs Lc : Type).
  Variable l0 : Op -> Lc.
  Variable bstep : Op -> St -> Lc -> St * (Lc + Rs).
  Variable is_read : Op -> bool.

  Inductive phase :=
  | Idle | Waiting (o : Op) | Body (o : Op) (l : Lc)
  | Ran (o : Op) (r : Rs) | Released (o : Op) (r : Rs).

  Inductive lockst := LFree | LW (t : nat) | LR (ts : list nat).

  Inductive event :=
  | EInv (t : nat) (o : Op)
  | ELin (t : nat) (o : Op) (r : Rs)     (* the last micro-step: linearization point *)
  | ERes (t : nat) (o : Op) (r : Rs).

  Record config := mkcfg {
    sh : St;
    lk : lockst;
    prog : nat -> list Op;
    ph : nat -> phase;
    hist : list event;              (* newest first *)
    lin : list (nat * Op * Rs) }.     (* finished bodies, oldest first *)

  Definition upd {A} (f : nat -> A) (t : nat) (v : A) : nat -> A :=
    fun x => if Nat.eqb x t then v else f x.

  Fixpoint remove1 (t : nat) (l : list nat) : list nat :=
    match l with [] => [] | x :: r => if Nat.eqb x t then r else x :: remove1 t r end.

  Definition acquire (c : config) (t : nat) (o : Op) : option lockst :=
    if is_read o then
      match lk c with LFree => Some (LR [t]) | LR ts => Some (LR (t :: ts)) | LW _ => None end
    else
      match lk c with LFree => Some (LW t) | _ => None end.

  Definition release (c : config) (t : nat) : lockst :=
    match lk c with
    | LW _ => LFree
    | LR ts => match remove1 t ts with [] => LFree | ts' => LR ts' end
    | LFree => LFree
    end.

  (** one step of thread [t] *)
  Definition tstep (c : config) (t : nat) : config :=
    match ph c t with
    | Idle =>
        match prog c t with
        | [] => c
        | o :: rest => mkcfg (sh c) (lk c) (upd (prog c) t rest) (upd (ph c) t (Waiting o))
                             (EInv t o :: hist c) (lin c)
        end
    | Waiting o =>
        match acquire c t o with
        | Some l => mkcfg (sh c) l (prog c) (upd (ph c) t (Body o (l0 o))) (hist c) (lin c)
        | None => c
        end
    | Body o l =>
        match bstep o (sh c) l with
        | (s', inl l') => mkcfg s' (lk c) (prog c) (upd (ph c) t (Body o l')) (hist c) (lin c)
        | (s', inr r) => mkcfg s' (lk c) (prog c) (upd (ph c) t (Ran o r))
                               (ELin t o r :: hist c) (lin c ++ [(t, o, r)])
        end
    | Ran o r => mkcfg (sh c) (release c t) (prog c) (upd (ph c) t (Released o r)) (hist c) (lin c)
    | Released o r => mkcfg (sh c) (lk c) (prog c) (upd (ph c) t Idle) (ERes t o r :: hist c) (lin c)
    end.

  Fixpoint exec (c : config) (sched : list nat) : config :=
    match sched with [] => c | t :: r => exec (tstep c t) r end.

  Definition init (s0 : St) (p : nat -> list Op) : config :=
    mkcfg s0 LFree p (fun _ => Idle) [] [].

  (** a body run alone: [k] continuing micro-steps / then the finishing one *)
  Fixpoint iterp (k : nat) (o : Op) (s : St) (l : Lc) : option (St * Lc) :=
    match k with
    | O => Some (s, l)
    | S k' => match bstep o s l with
                        | (s', inl l') => iterp k' o s' l'
                        | _ => None
                        end
    end.
  Definition runs (o : Op) (s s' : St) (r : Rs) : Prop :=
    exists k s1 l1, iterp k o s (l0 o) = Some (s1, l1) /\ bstep o s1 l1 = (s', inr r).

  (** the sequential execution of a list of finished operations *)
  Inductive seq_rel : St -> list (nat * Op * Rs) -> St -> Prop :=
  | seq_nil : forall s, seq_rel s [] s
  | seq_snoc : forall s l s1 t o r s2,
      seq_rel s l s1 -> runs o s1 s2 r -> seq_rel s (l ++ [(t, o, r)]) s2.

  (** with a step function that the bodies implement *)
  Fixpoint seq_run (step : St -> Op -> St * Rs) (s : St) (os : list Op) : St * list Rs :=
    match os with
    | [] => (s, [])
    | o :: r => let '(s', x) := step s o in
                let '(s'', xs) := seq_run step s' r in (s'', x :: xs)
    end.

  (** per-thread shape of a history: Inv, then Lin, then Res of the same
      operation with the same result, repeated. [last_of t h] is the newest
      event of thread [t]. *)
  Definition ev_thread (e : event) : nat :=
    match e with EInv t _ | ELin t _ _ | ERes t _ _ => t end.
  Fixpoint last_of (t : nat) (h : list event) : option event :=
    match h with
    | [] => None
    | e :: r => if Nat.eqb (ev_thread e) t then Some e else last_of t r
    end.
  Inductive ok_next : option event -> event -> Prop :=
  | ok_inv0 : forall t o, ok_next None (EInv t o)
  | ok_inv : forall t o o' r', ok_next (Some (ERes t o' r')) (EInv t o)
  | ok_lin : forall t o r, ok_next (Some (EInv t o)) (ELin t o r)
  | ok_res : forall t o r, ok_next (Some (ELin t o r)) (ERes t o r).
  Inductive bracketed : list event -> Prop :=
  | br_nil : bracketed []
  | br_cons : forall e h, bracketed h -> ok_next (last_of (ev_thread e) h) e -> bracketed (e :: h).

  (** the linearization events of a history, oldest first *)
  Fixpoint lin_of (h : list event) : list (nat * Op * Rs) :=
    match h with
    | [] => []
    | ELin t o r :: rest => lin_of rest ++ [(t, o, r)]
    | _ :: rest => lin_of rest
    end.

  (** no writer is in the middle of its body *)
  Definition no_writer_mid (c : config) : Prop :=
    forall t o l, ph c t = Body o l -> is_read o = true.
End Atomic.

(** the one-micro-step body of a step function (used for running examples) *)
Definition atomic_body {S O R} (step : S -> O -> S * R) (o : O) (s : S) (l : unit) : S * (unit + R) :=
  let '(s', r) := step s o in (s', inr r).
