(** C05 — model of the BAM record codec of biogo/hts as the code is:
    [bam.Writer.Write] (encode_record), [bam.Reader.Read] (decode_record, with
    the light-weight buffer and its sticky unexpected-EOF error), [parseAux] /
    [buildAux], [sam.NewSeq]/[Seq.Expand] (nybble packing), the binary header
    frame of [sam.Header.EncodeBinary/DecodeBinary] (text opaque) and the
    record loop of the reader (read_stream).

    Tables, sizes and the order/width of the fixed-part fields of writer and
    reader are taken from [Generated] (regenerated from the Go source).
    Executable definitions only. *)
From Hts Require Import Base.Prim Generated.
Open Scope Z_scope.

(** * Little-endian integers (encoding/binary.LittleEndian) *)

Fixpoint le_put (n : nat) (v : Z) : list Z :=
  match n with O => [] | S n' => v mod 256 :: le_put n' (v / 256) end.

Fixpoint le_get (l : list Z) : Z :=
  match l with [] => 0 | b :: t => b + 256 * le_get t end.

Definition zfirstn {A} (n : Z) (l : list A) : list A := firstn (Z.to_nat n) l.
Definition zskipn {A} (n : Z) (l : list A) : list A := skipn (Z.to_nat n) l.

(** * Records *)

(** [sam.Record]; references are header indices (-1 = nil), the sequence is
    the packed doublet slice together with [Seq.Length], the quality slice may
    be nil, every [sam.Aux] is its byte string (tag, type, value; without the
    terminating NUL of Z and H). *)
Record rec := mkRec {
  r_name : list Z;
  r_ref : Z;
  r_pos : Z;
  r_mapq : Z;
  r_cigar : list Z;
  r_flags : Z;
  r_mref : Z;
  r_mpos : Z;
  r_tlen : Z;
  r_lseq : Z;
  r_seq : list Z;
  r_qual : option (list Z);
  r_aux : list (list Z)
}.

(** * Nybble packing: sam.contract (NewSeq) and Seq.Expand *)

(** The loop of [contract] carries [np] across iterations; written here over
    pairs, which is the same computation (even index: np = tbl<<4; odd index:
    store np|tbl; a trailing odd base stores np alone). *)
Fixpoint contract (s : list Z) : list Z :=
  match s with
  | [] => []
  | [b] => [u8 (Z.shiftl (getz sam_n16Table b) 4)]
  | b :: c :: t => Z.lor (u8 (Z.shiftl (getz sam_n16Table b) 4)) (getz sam_n16Table c) :: contract t
  end.

Definition new_seq (s : list Z) : Z * list Z := (zlen s, contract s).

(** [Seq.Expand]: index i reads doublet i>>1, high nybble for even i. The
    index expressions are bounds checked. *)
Fixpoint expand_from (i : nat) (n : nat) (dbl : list Z) : outcome (list Z) :=
  match n with
  | O => Ok []
  | S n' =>
    let iz := Z.of_nat i in
    chk (inb dbl (Z.shiftr iz 1)) (
      let d := getz dbl (Z.shiftr iz 1) in
      let k := if Z.land iz 1 =? 0 then Z.shiftr d 4 else Z.land d 15 in
      chk (inb sam_n16TableRev k) (
        match expand_from (S i) n' dbl with
        | Ok t => Ok (getz sam_n16TableRev k :: t)
        | o => o
        end))
  end.
Definition expand (lseq : Z) (dbl : list Z) : outcome (list Z) :=
  if lseq <? 0 then Panic 2 (* make([]byte, negative) *) else expand_from O (Z.to_nat lseq) dbl.

(** * Record.Bin (bytes 10..11 of the record; judged by C16, computed here so
    that the model's bytes are the implementation's bytes) *)

Definition cig_len (op : Z) : Z := Z.shiftr op 4.
Definition cig_type (op : Z) : Z := Z.land op 15.

(** [CigarOpType.Consumes]: an operation type above lastCigar uses the
    lastCigar entry of the table. *)
Definition consumes_idx (ct : Z) : Z := if sam_lastCigar <? ct then sam_lastCigar else ct.

Fixpoint rec_end_loop (cig : list Z) (pos e : Z) : outcome Z :=
  match cig with
  | [] => Ok e
  | co :: t =>
    let ct := consumes_idx (cig_type co) in
    chk (inb sam_consumeRef ct) (
      let pos := pos + cig_len co * getz sam_consumeRef ct in
      rec_end_loop t pos (Z.max e pos))
  end.

Definition rec_end (r : rec) : outcome Z :=
  if negb (Z.land (r_flags r) sam_Unmapped =? 0) || (zlen (r_cigar r) =? 0) then Ok (r_pos r + 1)
  else rec_end_loop (r_cigar r) (r_pos r) (r_pos r).

(** [sam_Record_Bin] is the translation of Record.Bin regenerated from the Go
    source (gen/emit_c16.go), so the bin bytes follow the code as it is. *)
Definition rec_bin (r : rec) : outcome Z :=
  sam_Record_Bin (r_flags r) (r_pos r) (rec_end r).

(** * buildAux *)

Fixpoint build_aux (aa : list (list Z)) : outcome (list Z) :=
  match aa with
  | [] => Ok []
  | a :: t =>
    chk (inb a 2) ( (* a.Type() = a[2] *)
      let ty := getz a 2 in
      let term := if (ty =? 90) || (ty =? 72) then [0] else [] in
      match build_aux t with
      | Ok rest => Ok (a ++ term ++ rest)
      | o => o
      end)
  end.

(** * sam.NewAux for typed values (int8 .. uint32, float32 as its bits, ASCII,
    Text, Hex, typed slices): tag, type, value bytes in little endian.
    [Hex]: [a = append(a, v...)], the value bytes as they are. *)
Definition aux_width (t : Z) : Z :=
  if (t =? 65) || (t =? 99) || (t =? 67) then 1
  else if (t =? 115) || (t =? 83) then 2
  else if (t =? 105) || (t =? 73) || (t =? 102) then 4
  else 0.

Definition new_aux (t1 t2 t sub v : Z) (l : list Z) : list Z :=
  if 0 <? aux_width t then [t1; t2; t] ++ le_put (Z.to_nat (aux_width t)) (v mod 2 ^ (8 * aux_width t))
  else if (t =? 90) || (t =? 72) then [t1; t2; t] ++ l
  else [t1; t2; 66; sub] ++ le_put 4 (u32 (zlen l))
       ++ flat_map (fun x => le_put (Z.to_nat (aux_width sub)) (x mod 2 ^ (8 * aux_width sub))) l.

(** * Writer.Write *)

(** Value written for field [f] of [bam_Write_fixed], after the conversion
    the source applies ([int32(x)] then [PutUint32(uint32(v))], [byte(..)],
    [uint16(..)]). *)
Definition wfield (r : rec) (recLen bin : Z) (f : Z) : Z :=
  if f =? 0 then u32 (s32 recLen)
  else if f =? 1 then u32 (s32 (r_ref r))
  else if f =? 2 then u32 (s32 (r_pos r))
  else if f =? 3 then u8 (zlen (r_name r) + 1)
  else if f =? 4 then u8 (r_mapq r)
  else if f =? 5 then u16 bin
  else if f =? 6 then u16 (zlen (r_cigar r))
  else if f =? 7 then u16 (r_flags r)
  else if f =? 8 then u32 (s32 (r_lseq r))
  else if f =? 9 then u32 (s32 (r_mref r))
  else if f =? 10 then u32 (s32 (r_mpos r))
  else if f =? 11 then u32 (s32 (r_tlen r))
  else 0.

Definition enc_fixed (r : rec) (recLen bin : Z) : list Z :=
  flat_map (fun wf => le_put (Z.to_nat (fst wf)) (wfield r recLen bin (snd wf))) bam_Write_fixed.

Definition qual_bytes (r : rec) : list Z :=
  match r_qual r with
  | Some q => q
  | None => repeat 255 (Z.to_nat (r_lseq r)) (* for i := 0; i < r.Seq.Length; i++ *)
  end.

Definition enc_var (r : rec) (tags : list Z) (part : Z) : list Z :=
  if part =? 20 then r_name r
  else if part =? 21 then [0]
  else if part =? 22 then flat_map (fun op => le_put 4 (u32 op)) (r_cigar r)
  else if part =? 23 then r_seq r
  else if part =? 24 then qual_bytes r
  else if part =? 25 then tags
  else [].

Definition rec_len (r : rec) (tags : list Z) : Z :=
  bam_bamFixedRemainder + zlen (r_name r) + 1 + Z.shiftl (zlen (r_cigar r)) 2
  + zlen (r_seq r) + r_lseq r + zlen tags.

(** Errors: 1 name absent or too long, 2 sequence/quality length mismatch. *)
Definition encode_record (r : rec) : outcome (list Z) :=
  if (zlen (r_name r) =? 0) || (254 <? zlen (r_name r)) then Err 1
  else if (match r_qual r with Some q => negb (zlen q =? r_lseq r) | None => false end) then Err 2
  else
    obind (build_aux (r_aux r)) (fun tags =>
    obind (rec_bin r) (fun bin =>
      Ok (enc_fixed r (rec_len r tags) bin ++ flat_map (enc_var r tags) bam_Write_var))).

(** * The reader's light-weight buffer

    [b.data[b.off:]] and the sticky error.  The offset only ever moves
    forward, so the cursor is represented by the remaining bytes. *)
Definition buf := (list Z * bool)%type.

Definition b_len (b : buf) : Z := zlen (fst b).

(** unsafeBytes: nil (None) on error. *)
Definition b_unsafe (b : buf) (n : Z) : option (list Z) * buf :=
  let '(d, e) := b in
  if e then (None, b)
  else if zlen d <? n then (None, (d, true))
  else (Some (zfirstn n d), (zskipn n d, false)).

(** bytes: the same slice, copied when the buffer is the shared one; the
    value is the same, what changes is whether it aliases [Reader.buf]. *)
Definition b_bytes (shared : bool) (b : buf) (n : Z) : option (list Z) * buf := b_unsafe b n.

Definition b_discard (b : buf) (n : Z) : buf :=
  let '(d, e) := b in
  if e then b else if zlen d <? n then (d, true) else (zskipn n d, false).

(** readUint8 / readUint16 / readInt32 (kind 0: unsigned, 1: int32) and
    discard (kind 2) of [bam_Read_fixed]. *)
Definition b_read (b : buf) (w kind : Z) : Z * buf :=
  if kind =? 2 then (0, b_discard b w)
  else
    let '(d, e) := b in
    if e then (0, b)
    else if zlen d <? w then (0, (d, true))
    else
      let v := le_get (zfirstn w d) in
      (if kind =? 1 then s32 v else v, (zskipn w d, false)).

Fixpoint read_fixed (l : list (Z * Z * Z)) (b : buf) (env : Z -> Z) : (Z -> Z) * buf :=
  match l with
  | [] => (env, b)
  | (w, k, dst) :: t =>
    let '(v, b') := b_read b w k in
    read_fixed t b' (fun i => if i =? dst then v else env i)
  end.

(** readCigarOps: len(cb)/4 operations. *)
Fixpoint read_cigar_ops (n : nat) (cb : list Z) : list Z :=
  match n with
  | O => []
  | S n' => le_get (firstn 4 cb) :: read_cigar_ops n' (skipn 4 cb)
  end.

(** * parseAux

    [rest] is [aux[i:]].  Every field is checked against the end of the
    record before it is sliced.  Errors: 20 no terminating zero, 21 invalid
    array length, 22 unrecognised type, 23 truncated fixed-size field,
    24 truncated array header, 25 unrecognised array element type.  Panic 3:
    an index expression out of range (the type byte is a byte, the table has
    256 entries).  Fuel exhaustion (no progress) is [Stuck]. *)
Fixpoint index_byte (l : list Z) (c : Z) : option Z :=
  match l with
  | [] => None
  | b :: t => if b =? c then Some 0 else match index_byte t c with Some j => Some (j + 1) | None => None end
  end.

Definition ocons {A} (a : A) (o : outcome (list A)) : outcome (list A) :=
  match o with Ok l => Ok (a :: l) | Err e => Err e | Panic w => Panic w | Stuck => Stuck end.

Definition chk3 {A} (c : bool) (k : outcome A) : outcome A := if c then k else Panic 3.

Fixpoint parse_aux_loop (fuel : nat) (rest : list Z) : outcome (list (list Z)) :=
  match fuel with
  | O => Stuck
  | S f =>
    if negb (2 <? zlen rest) then Ok []
    else
      let t := getz rest 2 in
      chk3 (inb bam_jumps t) (
      let j := getz bam_jumps t in
      if 0 <? j then
        let j := j + 3 in
        if zlen rest <? j then Err 23
        else ocons (zfirstn j rest) (parse_aux_loop f (zskipn j rest))
      else if j <? 0 then
        if (t =? 90) || (t =? 72) then
          (* the terminator is looked for after the tag and type bytes *)
          match index_byte (zskipn 3 rest) 0 with
          | None => Err 20
          | Some j => let j := j + 3 in ocons (zfirstn j rest) (parse_aux_loop f (zskipn (j + 1) rest))
          end
        else if t =? 66 then
          if zlen rest <? 8 then Err 24
          else
            chk3 (inb bam_jumps (getz rest 3)) (
            let size := getz bam_jumps (getz rest 3) in
            if size <=? 0 then Err 25
            else
              let length := le_get (zfirstn 4 (zskipn 4 rest)) in
              let j := length * size + 4 + 4 in
              if (j <? 0) || (zlen rest <? j) then Err 21
              else ocons (zfirstn j rest) (parse_aux_loop f (zskipn j rest)))
        else parse_aux_loop f rest (* inner switch without default: no progress *)
      else Err 22)
  end.

Definition parse_aux (aux : list Z) : outcome (list (list Z)) :=
  if zlen aux =? 0 then Ok [] else parse_aux_loop (S (length aux)) aux.

(** * Reader.Read on the bytes of one record (after the block size)

    Result: the record and whether any retained field still aliases storage
    the reader reuses for a later record ([storage_reused]; name and CIGAR are
    always copied).  Errors: 10 invalid read name length, 11 invalid
    sequence length, 12 reference id out of range, 13 mate reference id out of
    range, 20..25 from parseAux, 30 the block is shorter than its own length
    fields say (the buffer's sticky unexpected-EOF error, reported at [done]). *)
Definition odef {A} (d : A) (o : option A) : A := match o with Some x => x | None => d end.

(** Whether the slices [buffer.bytes] hands out (Seq, Qual, aux) lie in storage
    that a later Read overwrites.  Inline block: [Reader.buf], unless the block
    is marked shared and [bytes] copies.  Long block: only if newBuffer does
    not allocate it in this call.  The three facts are read off newBuffer and
    buffer.bytes by gen (a block of a record above 4096 bytes is
    [make([]byte, size)]: each long record has its own allocation). *)
Definition storage_reused (shared : bool) : bool :=
  if shared then negb (bam_newBuffer_inline_shared && bam_buffer_bytes_copies)
  else negb bam_newBuffer_private_fresh.

Definition decode_record (omit nrefs : Z) (shared : bool) (data : list Z) : outcome (rec * bool) :=
  let '(env, b) := read_fixed bam_Read_fixed (data, false) (fun _ => 0) in
  let refID := env 1 in
  let pos := env 2 in
  let nLen := env 3 in
  let mapq := env 4 in
  let nCigar := env 6 in
  let flags := env 7 in
  let lSeq := env 8 in
  let nextRefID := env 9 in
  let mpos := env 10 in
  let tlen := env 11 in
  if nLen <? 1 then Err 10
  else
    let '(nm, b) := b_unsafe b (bam_Read_nameLen nLen) in   (* string(...) copies *)
    let b := b_discard b 1 in
    let '(cb, b) := b_unsafe b (bam_Read_cigarLen nCigar) in (* readCigarOps copies; length in the source's arithmetic *)
    let cigar := read_cigar_ops (Z.to_nat (Z.quot (zlen (odef [] cb)) 4)) (odef [] cb) in
    let var :=
      if bam_AllVariableLengthData <=? omit then Ok (0, [], None, [], false, snd b)
      else if lSeq <? 0 then Err 11
      else
        let '(sq, b) := b_bytes shared b (bam_Read_seqLen lSeq) in
        let '(ql, b) := b_bytes shared b lSeq in
        if bam_AuxTags <=? omit then Ok (lSeq, odef [] sq, ql, [], storage_reused shared, snd b)
        else
          let '(ax, b) := b_bytes shared b (b_len b) in
          match parse_aux (odef [] ax) with
          | Ok aa => Ok (lSeq, odef [] sq, ql, aa, storage_reused shared, snd b)
          | Err e => Err e
          | Panic w => Panic w
          | Stuck => Stuck
          end in
    obind var (fun v =>
      let '(ls, sq, ql, aa, alias, berr) := v in
      if berr then Err 30 (* done: if b.err != nil { return nil, b.err } *)
      else
      let mk ref mref := mkRec (odef [] nm) ref pos mapq cigar flags mref mpos tlen ls sq ql aa in
      obind (if negb (refID =? -1)
             then if (refID <? -1) || (nrefs <=? refID) then Err 12 else Ok refID
             else Ok (-1)) (fun ref =>
        if negb (nextRefID =? -1) then
          if refID =? nextRefID then Ok (mk ref ref, alias)
          else if (nextRefID <? -1) || (nrefs <=? nextRefID) then Err 13
          else Ok (mk ref nextRefID, alias)
        else Ok (mk ref (-1), alias)))
  .

(** * Binary header frame (text opaque; C07 owns the text codec) *)
Record hdr := mkHdr { h_text : list Z; h_refs : list (list Z * Z) }.

Definition enc_ref (nl : list Z * Z) : list Z :=
  le_put 4 (u32 (s32 (zlen (fst nl) + 1))) ++ fst nl ++ [0] ++ le_put 4 (u32 (s32 (snd nl))).

Definition encode_header (h : hdr) : list Z :=
  sam_bamMagic ++ le_put 4 (u32 (s32 (zlen (h_text h)))) ++ h_text h
  ++ le_put 4 (u32 (s32 (zlen (h_refs h)))) ++ flat_map enc_ref (h_refs h).

(** Errors: 40 short read (EOF / unexpected EOF), 41 magic, 42 text length,
    43 truncated header, 44 reference count, 45 name length, 46 truncated name. *)
Fixpoint read_refs (n : nat) (bs : list Z) : outcome (list (list Z * Z) * list Z) :=
  match n with
  | O => Ok ([], bs)
  | S n' =>
    if zlen bs <? 4 then Err 40
    else
      let lName := s32 (le_get (zfirstn 4 bs)) in
      let bs := zskipn 4 bs in
      if lName <? 1 then Err 45
      else if zlen bs <? lName then Err 46
      else
        let name := zfirstn lName bs in
        let bs := zskipn lName bs in
        if negb (getz name (lName - 1) =? 0) then Err 46
        else if zlen bs <? 4 then Err 40
        else
          let lRef := s32 (le_get (zfirstn 4 bs)) in
          match read_refs n' (zskipn 4 bs) with
          | Ok (rs, rest) => Ok ((zfirstn (lName - 1) name, lRef) :: rs, rest)
          | o => o
          end
  end.

Fixpoint zlist_eqb (a b : list Z) : bool :=
  match a, b with
  | [], [] => true
  | x :: a', y :: b' => (x =? y) && zlist_eqb a' b'
  | _, _ => false
  end.

Definition decode_header (bs : list Z) : outcome (hdr * list Z) :=
  if zlen bs <? 4 then Err 40
  else if negb (zlist_eqb (zfirstn 4 bs) sam_bamMagic) then Err 41
  else
    let bs := zskipn 4 bs in
    if zlen bs <? 4 then Err 40
    else
      let lText := s32 (le_get (zfirstn 4 bs)) in
      let bs := zskipn 4 bs in
      if lText <? 0 then Err 42
      else if zlen bs <? lText then Err 43
      else
        let text := zfirstn lText bs in
        let bs := zskipn lText bs in
        if zlen bs <? 4 then Err 40
        else
          let nRef := s32 (le_get (zfirstn 4 bs)) in
          if nRef <? 0 then Err 44
          else
            match read_refs (Z.to_nat nRef) (zskipn 4 bs) with
            | Ok (rs, rest) => Ok (mkHdr text rs, rest)
            | Err e => Err e
            | Panic w => Panic w
            | Stuck => Stuck
            end.

(** * The record loop: newBuffer + Read until the stream ends *)
Inductive stream_end := EndEOF | EndErr (e : Z) | EndPanic (w : Z) | EndStuck.

(** Errors of newBuffer: 30 unexpected EOF, 31 invalid block size. A block
    size of 0 and an input that ends right after a block size both read as a
    clean EOF (io.ReadFull reports io.EOF when nothing was read). *)
Fixpoint read_records (fuel : nat) (omit nrefs : Z) (bs : list Z) : list (rec * bool) * stream_end :=
  match fuel with
  | O => ([], EndStuck)
  | S f =>
    if zlen bs =? 0 then ([], EndEOF)
    else if zlen bs <? 4 then ([], EndErr 30)
    else
      let size := s32 (le_get (zfirstn 4 bs)) in
      let rest := zskipn 4 bs in
      if size =? 0 then ([], EndEOF)
      else if size <? 0 then ([], EndErr 31)
      else
        let shared := negb (bam_readerBufSize <? size) in
        if zlen rest <? size then ([], if zlen rest =? 0 then EndEOF else EndErr 30)
        else
          match decode_record omit nrefs shared (zfirstn size rest) with
          | Ok r => let '(rs, e) := read_records f omit nrefs (zskipn size rest) in (r :: rs, e)
          | Err e => ([], EndErr e)
          | Panic w => ([], EndPanic w)
          | Stuck => ([], EndStuck)
          end
  end.

Definition read_stream (omit : Z) (bs : list Z) : outcome (hdr * (list (rec * bool) * stream_end)) :=
  match decode_header bs with
  | Ok (h, rest) => Ok (h, read_records (S (length rest)) omit (zlen (h_refs h)) rest)
  | Err e => Err e
  | Panic w => Panic w
  | Stuck => Stuck
  end.

(** The writer's stream: header, then the records in order; stops at the
    first record Write refuses (the error is returned to the caller and
    nothing of that record is written). *)
Fixpoint encode_records (rs : list rec) : outcome (list Z) :=
  match rs with
  | [] => Ok []
  | r :: t => obind (encode_record r) (fun b => obind (encode_records t) (fun bt => Ok (b ++ bt)))
  end.

Definition encode_stream (h : hdr) (rs : list rec) : outcome (list Z) :=
  obind (encode_records rs) (fun b => Ok (encode_header h ++ b)).

(** * What the round trip returns *)

(** Absent qualities come back as Seq.Length bytes 0xff (the format's
    representation of absence). *)
Definition canon (r : rec) : rec :=
  mkRec (r_name r) (r_ref r) (r_pos r) (r_mapq r) (r_cigar r) (r_flags r) (r_mref r) (r_mpos r)
        (r_tlen r) (r_lseq r) (r_seq r) (Some (qual_bytes r)) (r_aux r).

Definition omit_view (omit : Z) (r : rec) : rec :=
  if bam_AllVariableLengthData <=? omit then
    mkRec (r_name r) (r_ref r) (r_pos r) (r_mapq r) (r_cigar r) (r_flags r) (r_mref r) (r_mpos r)
          (r_tlen r) 0 [] None []
  else if bam_AuxTags <=? omit then
    mkRec (r_name r) (r_ref r) (r_pos r) (r_mapq r) (r_cigar r) (r_flags r) (r_mref r) (r_mpos r)
          (r_tlen r) (r_lseq r) (r_seq r) (r_qual r) []
  else r.

(** * Validity: the records the BAM format can represent *)

Definition in_i32 (x : Z) : bool := (- 2 ^ 31 <=? x) && (x <? 2 ^ 31).

(** Width of a fixed-size aux type by the SAM specification (section 4.2.4):
    A c C 1, s S 2, i I f 4; 0 for anything else. *)
Definition spec_width (t : Z) : Z :=
  if (t =? 65) || (t =? 99) || (t =? 67) then 1
  else if (t =? 115) || (t =? 83) then 2
  else if (t =? 105) || (t =? 73) || (t =? 102) then 4
  else 0.

Definition nonzero_bytes (l : list Z) : bool := forallb (fun b => negb (b =? 0)) l.

(** One [sam.Aux]: tag, type, value. *)
Definition wf_aux (a : list Z) : bool :=
  all_bytes a && (3 <=? zlen a) &&
  (let t := getz a 2 in
   if 0 <? spec_width t then zlen a =? 3 + spec_width t
   else if (t =? 90) || (t =? 72) then nonzero_bytes (zskipn 3 a)
   else if t =? 66 then
     (8 <=? zlen a) && (negb (getz a 3 =? 65)) && (0 <? spec_width (getz a 3))
     && (zlen a =? 8 + le_get (zfirstn 4 (zskipn 4 a)) * spec_width (getz a 3))
   else false).

Definition wf_cigar_op (op : Z) : bool := (0 <=? op) && (op <? 2 ^ 32).

(** Bytes buildAux produces for the aux fields, and the block size of the
    record: the format stores it in an int32. *)
Fixpoint tags_len (aa : list (list Z)) : Z :=
  match aa with
  | [] => 0
  | a :: t => zlen a + (if (getz a 2 =? 90) || (getz a 2 =? 72) then 1 else 0) + tags_len t
  end.

Definition block_size (r : rec) : Z :=
  32 + zlen (r_name r) + 1 + 4 * zlen (r_cigar r) + zlen (r_seq r) + r_lseq r + tags_len (r_aux r).

Definition valid_rec (nrefs : Z) (r : rec) : bool :=
  all_bytes (r_name r) && nonzero_bytes (r_name r) && (1 <=? zlen (r_name r)) && (zlen (r_name r) <=? 254)
  && (-1 <=? r_ref r) && (r_ref r <? nrefs) && (-1 <=? r_mref r) && (r_mref r <? nrefs) && (nrefs <? 2 ^ 31)
  && in_i32 (r_pos r) && in_i32 (r_mpos r) && in_i32 (r_tlen r)
  && is_byte (r_mapq r) && (0 <=? r_flags r) && (r_flags r <? 65536)
  && forallb wf_cigar_op (r_cigar r) && (zlen (r_cigar r) <=? 65535)
  && (0 <=? r_lseq r) && (r_lseq r <? 2 ^ 31) && all_bytes (r_seq r)
  && (zlen (r_seq r) =? (r_lseq r + 1) / 2)
  && (match r_qual r with Some q => all_bytes q && (zlen q =? r_lseq r) | None => true end)
  && forallb wf_aux (r_aux r)
  && (block_size r <? 2 ^ 31).

Definition valid_hdr (h : hdr) : bool :=
  all_bytes (h_text h) && (zlen (h_text h) <? 2 ^ 31) && (zlen (h_refs h) <? 2 ^ 31)
  && forallb (fun nl => all_bytes (fst nl) && nonzero_bytes (fst nl) && (zlen (fst nl) <? 2 ^ 31 - 1) && in_i32 (snd nl)) (h_refs h).
