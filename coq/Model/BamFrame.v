(** C10 — framing-level model of bam.Reader's record loop (bam/reader.go newBuffer):
    4-byte little-endian block_size, then that many bytes, over the data the
    BGZF layer delivers.  Field decoding is not modelled.  Executable definitions only. *)
From Coq Require Import ZArith List Bool.
From Hts Require Import Base.Prim Generated Model.Corrupt.
Import ListNotations.
Open Scope Z_scope.

(** [strict] = bam/reader.go after commit 8134fd9 (zero bytes of a record body
    are io.ErrUnexpectedEOF); before it they were a clean io.EOF.
    Result: the record bodies read, and whether the end was clean (io.EOF). *)
Fixpoint bam_recs (strict : bool) (fuel : nat) (d : list Z) : list (list Z) * bool :=
  match fuel with
  | O => ([], false)
  | S f =>
    match d with
    | [] => ([], true)                               (* io.ReadFull read nothing: io.EOF *)
    | a :: b :: c :: e :: rest =>
      let size := le32 [a; b; c; e] in
      if size =? 0 then ([], true)                   (* "size == 0 -> io.EOF", as the code has it *)
      else if 2147483648 <=? size then ([], false)   (* int32 negative: invalid block size *)
      else if (zlen rest =? 0) && negb strict then ([], true)
      else if zlen rest <? size then ([], false)     (* io.ErrUnexpectedEOF *)
      else let '(rs, ok) := bam_recs strict f (skipn (Z.to_nat size) rest) in
           (firstn (Z.to_nat size) rest :: rs, ok)
    | _ => ([], false)                               (* 1..3 bytes of a length prefix *)
    end
  end.

Definition bam_read (strict : bool) (d : list Z) : list (list Z) * bool := bam_recs strict (S (length d)) d.

(** bam.Reader over the BGZF reader: a record stream ends cleanly only if both layers do.
    (When the BGZF layer ends with an error, io.ReadFull passes that error on at
    the point where the data runs out.) *)
Definition bam_over_bgzf (strict : bool) (layer : list Z * bool) : list (list Z) * bool :=
  let '(d, ok) := layer in
  let '(rs, ok2) := bam_read strict d in (rs, ok && ok2).
