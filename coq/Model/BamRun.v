(** Correspondence glue for C05: compares what the implementation did on a
    case with the model ([BamCodec]) and with the specification encoder
    ([BamSpec]). Executable definitions only. *)
From Hts Require Import Base.Prim Generated Model.BamCodec Model.BamSpec.
Open Scope Z_scope.

Definition opt_eqb (a b : option (list Z)) : bool :=
  match a, b with
  | None, None => true
  | Some x, Some y => zlist_eqb x y
  | _, _ => false
  end.

Fixpoint zll_eqb (a b : list (list Z)) : bool :=
  match a, b with
  | [], [] => true
  | x :: a', y :: b' => zlist_eqb x y && zll_eqb a' b'
  | _, _ => false
  end.

Definition rec_eqb (a b : rec) : bool :=
  zlist_eqb (r_name a) (r_name b) && (r_ref a =? r_ref b) && (r_pos a =? r_pos b)
  && (r_mapq a =? r_mapq b) && zlist_eqb (r_cigar a) (r_cigar b) && (r_flags a =? r_flags b)
  && (r_mref a =? r_mref b) && (r_mpos a =? r_mpos b) && (r_tlen a =? r_tlen b)
  && (r_lseq a =? r_lseq b) && zlist_eqb (r_seq a) (r_seq b) && opt_eqb (r_qual a) (r_qual b)
  && zll_eqb (r_aux a) (r_aux b).

Fixpoint recs_eqb (a b : list rec) : bool :=
  match a, b with
  | [], [] => true
  | x :: a', y :: b' => rec_eqb x y && recs_eqb a' b'
  | _, _ => false
  end.

Fixpoint refs_eqb (a b : list (list Z * Z)) : bool :=
  match a, b with
  | [], [] => true
  | (n, l) :: a', (m, k) :: b' => zlist_eqb n m && (l =? k) && refs_eqb a' b'
  | _, _ => false
  end.

(** Records Write accepts, in order, with their bytes; [refused] must name
    exactly the others. *)
Fixpoint enc_accepted (rs : list rec) (refused : list bool) : option (list Z) :=
  match rs, refused with
  | [], [] => Some []
  | r :: t, f :: ft =>
    match encode_record r, enc_accepted t ft with
    | Ok b, Some bt => if f then None else Some (b ++ bt)
    | Err _, Some bt => if f then Some bt else None
    | _, _ => None
    end
  | _, _ => None
  end.

(** Specification side: every accepted valid record with a clean pad nybble
    has the bytes of [spec_encode] except for the bin field. *)
Definition spec_ok (nrefs : Z) (r : rec) : bool :=
  if valid_rec nrefs r && pad_ok r then
    match encode_record r with
    | Ok e => zlist_eqb (mask_bin e) (mask_bin (spec_encode (abs 0 r)))
    | _ => false
    end
  else true.

(** end: 0 clean EOF, 1 error, 2 panic *)
Definition end_code (e : stream_end) : Z :=
  match e with EndEOF => 0 | EndErr _ => 1 | EndPanic _ => 2 | EndStuck => 3 end.

(** [None]: the harness saw exactly [omit_view omit (canon r)] for the accepted
    records (an abbreviation that keeps the case files small; the comparison
    is redone here against the model's reading of the observed bytes). *)
Fixpoint accepted (rs : list rec) (refused : list bool) : list rec :=
  match rs, refused with
  | r :: t, f :: ft => if f then accepted t ft else r :: accepted t ft
  | _, _ => []
  end.

Definition read_agree (raw : list Z) (h : hdr) (acc : list rec) (rd : Z * option (list rec) * Z) : bool :=
  let '(omit, orecs, e) := rd in
  let recs := match orecs with Some l => l | None => map (fun r => omit_view omit (canon r)) acc end in
  match read_stream omit raw with
  | Ok (h', (rs, e')) =>
    zlist_eqb (h_text h') (h_text h) && refs_eqb (h_refs h') (h_refs h)
    && recs_eqb (map fst rs) recs && (end_code e' =? e) && forallb (fun x => negb (snd x)) rs
  | _ => false
  end.

Inductive c05case :=
| RT (h : hdr) (rs : list rec) (valid : list bool) (refused : list bool) (raw : list Z)
     (reads : list (Z * option (list rec) * Z))
| DEC (omit nrefs : Z) (data : list Z) (cls : Z) (r : rec)   (* cls 0 record, 1 error, 2 panic *)
| SEQ (s : list Z) (len : Z) (dbl : list Z) (exp : list Z)
| NA (t1 t2 t sub v : Z) (l : list Z) (built : list Z).   (* sam.NewAux *)

Definition c05_agree (c : c05case) : bool :=
  match c with
  | RT h rs valid refused raw reads =>
    let nrefs := zlen (h_refs h) in
    match enc_accepted rs refused with
    | Some b => zlist_eqb (encode_header h ++ b) raw
    | None => false
    end
    && zlist_eqb (map (fun r => if valid_rec nrefs r then 1 else 0) rs) (map (fun v : bool => if v then 1 else 0) valid)
    && forallb (spec_ok nrefs) rs
    && forallb (read_agree raw h (accepted rs refused)) reads
  | DEC omit nrefs data cls r =>
    let shared := negb (bam_readerBufSize <? zlen data) in
    match decode_record omit nrefs shared data with
    | Ok (r', al) => (cls =? 0) && rec_eqb r' r && negb al
    | Err _ => cls =? 1
    | Panic _ => cls =? 2
    | Stuck => false
    end
  | SEQ s len dbl exp =>
    let '(l, d) := new_seq s in
    (l =? len) && zlist_eqb d dbl
    && match expand len dbl with Ok e => zlist_eqb e exp | _ => false end
  | NA t1 t2 t sub v l built => zlist_eqb (new_aux t1 t2 t sub v l) built
  end.
