(** C05 — the BAM alignment record layout written from the SAM specification
    (SAMv1, section 4.2 "The BAM format", table of the alignment section and
    4.2.4 "Auxiliary data encoding"), field by field, over a record whose
    fields are *values* (operation length/type pairs, base codes, typed
    auxiliary values), not the byte strings the library keeps in memory.
    This is the independent encoder of the property statement.  Nothing here
    refers to Generated.v or to the code model except the shared record type
    used by [abs] (the reading of a library record as specification values). *)
From Hts Require Import Base.Prim Model.BamCodec.
Open Scope Z_scope.

(** Integer of [w] bytes, little endian, two's complement: byte k is bits
    8k..8k+7 of v modulo 2^(8w). *)
Definition spec_le (w : nat) (v : Z) : list Z :=
  map (fun k => (v mod 2 ^ (8 * Z.of_nat w)) / 2 ^ (8 * Z.of_nat k) mod 256) (seq 0 w).

(** Auxiliary values.  [VInt t v]: one of A c C s S i I f with its value (A:
    the character, c s i: signed, C S I: unsigned, f: the 32 bit pattern of
    the float).  [VStr t s]: Z or H with its text (H: the hex digits).
    [VArr sub vs]: B array of subtype [sub] with its element values. *)
Inductive aval :=
| VInt (t : Z) (v : Z)
| VStr (t : Z) (s : list Z)
| VArr (sub : Z) (vs : list Z).

Record saux := mkSaux { a_tag1 : Z; a_tag2 : Z; a_val : aval }.

Record srec := mkSrec {
  s_ref : Z; s_pos : Z; s_name : list Z; s_mapq : Z; s_bin : Z;
  s_cigar : list (Z * Z);          (* (op_len, op) *)
  s_flag : Z; s_mref : Z; s_mpos : Z; s_tlen : Z;
  s_seq : list Z;                  (* l_seq base codes 0..15: =ACMGRSVTWYHKDBN *)
  s_qual : option (list Z);        (* None: absent, stored as 0xFF *)
  s_aux : list saux
}.

(** Size in bytes of a fixed-size value type. *)
Definition type_size (t : Z) : nat :=
  if (t =? 65) || (t =? 99) || (t =? 67) then 1%nat
  else if (t =? 115) || (t =? 83) then 2%nat
  else if (t =? 105) || (t =? 73) || (t =? 102) then 4%nat
  else 0%nat.

Definition spec_aux (a : saux) : list Z :=
  [a_tag1 a; a_tag2 a] ++
  match a_val a with
  | VInt t v => [t] ++ spec_le (type_size t) v
  | VStr t s => [t] ++ s ++ [0]
  | VArr sub vs => [66; sub] ++ spec_le 4 (zlen vs) ++ flat_map (spec_le (type_size sub)) vs
  end.

(** 4-bit packed bases, first base in the high nybble; an odd trailing base
    is followed by a zero nybble. *)
Fixpoint spec_pack (codes : list Z) : list Z :=
  match codes with
  | [] => []
  | [a] => [a * 16]
  | a :: b :: t => (a * 16 + b) :: spec_pack t
  end.

Definition spec_body (r : srec) : list Z :=
  spec_le 4 (s_ref r) ++ spec_le 4 (s_pos r)
  ++ spec_le 1 (zlen (s_name r) + 1) ++ spec_le 1 (s_mapq r) ++ spec_le 2 (s_bin r)
  ++ spec_le 2 (zlen (s_cigar r)) ++ spec_le 2 (s_flag r) ++ spec_le 4 (zlen (s_seq r))
  ++ spec_le 4 (s_mref r) ++ spec_le 4 (s_mpos r) ++ spec_le 4 (s_tlen r)
  ++ s_name r ++ [0]
  ++ flat_map (fun lo => spec_le 4 (fst lo * 16 + snd lo)) (s_cigar r)
  ++ spec_pack (s_seq r)
  ++ (match s_qual r with Some q => q | None => repeat 255 (length (s_seq r)) end)
  ++ flat_map spec_aux (s_aux r).

(** block_size followed by the block. *)
Definition spec_encode (r : srec) : list Z :=
  spec_le 4 (zlen (spec_body r)) ++ spec_body r.

(** * Reading a library record as specification values *)

Definition is_signed_type (t : Z) : bool := (t =? 99) || (t =? 115) || (t =? 105).

Definition interp (t : Z) (u : Z) : Z :=
  if is_signed_type t then
    let m := 2 ^ (8 * Z.of_nat (type_size t)) in if u <? m / 2 then u else u - m
  else u.

Fixpoint split_le (w : nat) (count : nat) (data : list Z) : list Z :=
  match count with
  | O => []
  | S c => le_get (firstn w data) :: split_le w c (skipn w data)
  end.

Definition abs_aux (a : list Z) : saux :=
  let t := getz a 2 in
  mkSaux (getz a 0) (getz a 1)
    (if (t =? 90) || (t =? 72) then VStr t (skipn 3 a)
     else if t =? 66 then
       let sub := getz a 3 in
       let count := le_get (firstn 4 (skipn 4 a)) in
       VArr sub (map (interp sub) (split_le (type_size sub) (Z.to_nat count) (skipn 8 a)))
     else VInt t (interp t (le_get (skipn 3 a)))).

(** Base codes of a packed sequence of [n] bases. *)
Fixpoint unpack (n : nat) (dbl : list Z) : list Z :=
  match n, dbl with
  | O, _ => []
  | S O, d :: _ => [d / 16]
  | S (S n'), d :: t => d / 16 :: d mod 16 :: unpack n' t
  | _, [] => []
  end.

Definition abs (bin : Z) (r : rec) : srec :=
  mkSrec (r_ref r) (r_pos r) (r_name r) (r_mapq r) bin
    (map (fun op => (op / 16, op mod 16)) (r_cigar r))
    (r_flags r) (r_mref r) (r_mpos r) (r_tlen r)
    (unpack (Z.to_nat (r_lseq r)) (r_seq r))
    (r_qual r)
    (map abs_aux (r_aux r)).

(** The pad nybble after an odd-length sequence is zero (what [sam.NewSeq]
    produces; the specification does not give it a meaning). *)
Definition pad_ok (r : rec) : bool :=
  if Z.odd (r_lseq r) then (last (r_seq r) 0 mod 16 =? 0) else true.

Definition set_bin (b : Z) (s : srec) : srec :=
  mkSrec (s_ref s) (s_pos s) (s_name s) (s_mapq s) b (s_cigar s) (s_flag s) (s_mref s) (s_mpos s) (s_tlen s)
         (s_seq s) (s_qual s) (s_aux s).

(** The text of an H field whose value is the byte string [v]: two hex digits
    per byte (SAMv1 1.5: [0-9A-F]+). *)
Definition hex_digit (n : Z) : Z := if n <? 10 then 48 + n else 55 + n.
Definition hex_text (v : list Z) : list Z := flat_map (fun b => [hex_digit (b / 16); hex_digit (b mod 16)]) v.

(** The specification value of what sam.NewAux is given. *)
Definition typed_of (t sub v : Z) (l : list Z) : aval :=
  if 0 <? spec_width t then VInt t v
  else if t =? 90 then VStr 90 l
  else if t =? 72 then VStr 72 (hex_text l)
  else VArr sub l.

(** Positions (from the start of the encoded record, block size included) of
    the bin field. *)
Definition mask_bin (e : list Z) : list Z := firstn 14 e ++ [0; 0] ++ skipn 16 e.
