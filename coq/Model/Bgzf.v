(** BGZF member framing at byte level (RFC 1952 gzip member with FEXTRA and
    the BC subfield, SAM specification section 4.1), as produced by
    bgzf/writer.go:writeBlock through compress/gzip, and two readers written
    from the specifications: [read_all] walks members by BSIZE (a BGZF reader),
    [gunzip_multi] walks them by gzip structure alone (a standard
    multi-member gzip decoder).

    DEFLATE and CRC-32 are parameters: every definition that needs them takes
    [deflate], [inflate], [crc32] as arguments (Section variables); the laws
    are stated in Proofs/Bgzf.v as Section hypotheses.  Executable
    definitions only. *)
From Coq Require Import ZArith List Bool.
From Hts Require Import Base.Prim Generated.
Import ListNotations.
Open Scope Z_scope.

Definition le16 (x : Z) : list Z := [x mod 256; (x / 256) mod 256].
Definition le32 (x : Z) : list Z :=
  [x mod 256; (x / 256) mod 256; (x / 65536) mod 256; (x / 16777216) mod 256].

Fixpoint zeqb (a b : list Z) : bool :=
  match a, b with
  | [], [] => true
  | x :: a', y :: b' => (x =? y) && zeqb a' b'
  | _, _ => false
  end.

Definition isnil {A} (l : list A) : bool := match l with [] => true | _ => false end.

(** The gzip.Header fields a bgzf.Writer exposes.  [h_mtime] is
    ModTime.Unix() (seconds; a zero time.Time is far below 0), [h_name] and
    [h_comment] are the Latin-1 code points of Name and Comment, [h_extra] the
    user's Extra bytes (writeBlock prepends bgzfExtra). *)
Record gzhdr := { h_mtime : Z; h_os : Z; h_extra : list Z; h_name : list Z; h_comment : list Z }.

Definition default_hdr : gzhdr := {| h_mtime := 0; h_os := 255; h_extra := []; h_name := []; h_comment := [] |}.

(** compress/gzip Writer.Write, header part. *)
Definition gz_flg (h : gzhdr) : Z :=
  4 + (if isnil (h_name h) then 0 else 8) + (if isnil (h_comment h) then 0 else 16).
Definition gz_mtime (h : gzhdr) : Z := if h_mtime h <=? 0 then 0 else h_mtime h mod 4294967296.
Definition gz_xfl (lvl : Z) : Z := if lvl =? 9 then 2 else if lvl =? 1 then 4 else 0.
Definition zstr (s : list Z) : list Z := if isnil s then [] else s ++ [0].
Definition gz_extra (h : gzhdr) : list Z := bgzf_bgzfExtra ++ h_extra h.

Definition gz_header (lvl : Z) (h : gzhdr) : list Z :=
  [31; 139; 8; gz_flg h] ++ le32 (gz_mtime h) ++ [gz_xfl lvl; h_os h mod 256]
  ++ le16 (zlen (gz_extra h)) ++ gz_extra h ++ zstr (h_name h) ++ zstr (h_comment h).

(** gzip.Writer refuses: Extra longer than 0xffff, NUL or non-Latin-1 in strings. *)
Definition latin1_ok (s : list Z) : bool := forallb (fun x => (0 <? x) && (x <? 256)) s.
Definition hdr_err (h : gzhdr) : bool :=
  (65535 <? zlen (gz_extra h)) || negb (latin1_ok (h_name h)) || negb (latin1_ok (h_comment h)).

(** bytes.Index *)
Fixpoint prefixb (p l : list Z) : bool :=
  match p, l with
  | [], _ => true
  | x :: p', y :: l' => (x =? y) && prefixb p' l'
  | _ :: _, [] => false
  end.
Fixpoint find_sub (p l : list Z) (i : Z) : option Z :=
  if prefixb p l then Some i else
  match l with [] => None | _ :: t => find_sub p t (i + 1) end.

Definition bgzfExtraPrefix : list Z := firstn 4 bgzf_bgzfExtra.

Section Codec.
  Variable deflate : Z -> list Z -> list Z.
  Variable inflate : list Z -> option (list Z * list Z).
  Variable crc32 : list Z -> Z.

  Definition gz_trailer (p : list Z) : list Z := le32 (crc32 p) ++ le32 (zlen p).

  (** What gz.Write(block[:next]); gz.Close() appends to the buffer. *)
  Definition raw_member (lvl : Z) (h : gzhdr) (p : list Z) : list Z :=
    gz_header lvl h ++ deflate lvl p ++ gz_trailer p.

  (** writeBlock after gz.Close(): locate the BSIZE bytes, check the size,
      back-patch.  [pm], [guard], [ovf] are read off the Go source by gen/
      (Generated.bgzf_wr_patch_mode ...).  Error codes: 3 gzip header error,
      4 gzip.ErrHeader, 5 ErrBlockOverflow. *)
  Definition patch_pos (pm : wr_patch) (guard : bool) (b : list Z) : option Z :=
    match pm with
    | PatchFirstIndex =>
        match find_sub bgzfExtraPrefix b 0 with
        | Some i => Some i
        | None => if guard then None else Some (-1)
        end
    | PatchFixed k =>
        if guard && negb (prefixb bgzfExtraPrefix (skipn (Z.to_nat k) b)) then None else Some k
    end.

  Definition finish_block (pm : wr_patch) (guard ovf : bool) (b : list Z) : outcome (list Z) :=
    match patch_pos pm guard b with
    | None => Err 4
    | Some i =>
        let size := zlen b - 1 in
        if ovf && (bgzf_MaxBlockSize <=? size) then Err 5
        else Ok (updz (updz b (i + 4) (size mod 256)) (i + 5) ((size / 256) mod 256))
    end.

  (** [buf0] is what the compressor's bytes.Buffer held before (empty unless
      an earlier failure left data behind). *)
  Definition write_block (pm : wr_patch) (guard ovf : bool) (lvl : Z) (h : gzhdr) (buf0 p : list Z)
    : outcome (list Z) :=
    if hdr_err h then Err 3
    else finish_block pm guard ovf (buf0 ++ raw_member lvl h p).

  (** ---- readers, from the specifications -------------------------------- *)

  Definition take (n : Z) (l : list Z) : option (list Z * list Z) :=
    if (0 <=? n) && (n <=? zlen l) then Some (firstn (Z.to_nat n) l, skipn (Z.to_nat n) l) else None.

  Fixpoint take_zstr (l : list Z) : option (list Z * list Z) :=
    match l with
    | [] => None
    | x :: t => if x =? 0 then Some ([], t)
                else match take_zstr t with Some (s, r) => Some (x :: s, r) | None => None end
    end.

  Definition testbit (flg k : Z) : bool := Z.odd (flg / k).

  (** RFC 1952 header: returns FLG, the extra field, and the rest. *)
  Definition parse_gz_header (l : list Z) : option (Z * list Z * list Z) :=
    match l with
    | i1 :: i2 :: cm :: flg :: _ :: _ :: _ :: _ :: _ :: _ :: r =>
        if (i1 =? 31) && (i2 =? 139) && (cm =? 8) && (flg <? 32) then
          let ex :=
            if testbit flg 4 then
              match r with
              | x0 :: x1 :: r1 => take (x0 + 256 * x1) r1
              | _ => None
              end
            else Some ([], r) in
          match ex with
          | None => None
          | Some (extra, r2) =>
              let nm := if testbit flg 8 then take_zstr r2 else Some ([], r2) in
              match nm with
              | None => None
              | Some (_, r3) =>
                  let cmt := if testbit flg 16 then take_zstr r3 else Some ([], r3) in
                  match cmt with
                  | None => None
                  | Some (_, r4) =>
                      if testbit flg 2 then
                        match take 2 r4 with Some (_, r5) => Some (flg, extra, r5) | None => None end
                      else Some (flg, extra, r4)
                  end
              end
          end
        else None
    | _ => None
    end.

  (** SAM spec 4.1: the BC subfield (SI1=66, SI2=67, SLEN=2) found by walking
      the subfields of the extra field; returns BSIZE. *)
  Fixpoint find_bc (fuel : nat) (ex : list Z) : option Z :=
    match fuel with
    | O => None
    | S f =>
        match ex with
        | s1 :: s2 :: l0 :: l1 :: r =>
            match take (l0 + 256 * l1) r with
            | None => None
            | Some (d, r') =>
                if (s1 =? 66) && (s2 =? 67) && (l0 + 256 * l1 =? 2)
                then Some (getz d 0 + 256 * getz d 1)
                else find_bc f r'
            end
        | _ => None
        end
    end.

  (** One member by gzip structure alone. *)
  Definition gunzip_member (l : list Z) : option (list Z * list Z) :=
    match parse_gz_header l with
    | None => None
    | Some (_, _, body) =>
        match inflate body with
        | None => None
        | Some (d, r) =>
            match take 8 r with
            | None => None
            | Some (tr, rest) => if zeqb tr (gz_trailer d) then Some (d, rest) else None
            end
        end
    end.

  (** One member as a BGZF reader takes it: BSIZE+1 bytes, which must be
      exactly one gzip member. *)
  Definition bgzf_member (l : list Z) : option (list Z * list Z) :=
    match parse_gz_header l with
    | None => None
    | Some (_, extra, _) =>
        match find_bc (length extra) extra with
        | None => None
        | Some bsize =>
            match take (bsize + 1) l with
            | None => None
            | Some (m, rest) =>
                match gunzip_member m with
                | Some (d, []) => Some (d, rest)
                | _ => None
                end
            end
        end
    end.

  Fixpoint walk (one : list Z -> option (list Z * list Z)) (fuel : nat) (l : list Z) : option (list Z) :=
    match fuel with
    | O => None
    | S f =>
        if isnil l then Some []
        else match one l with
             | None => None
             | Some (d, rest) =>
                 match walk one f rest with Some ds => Some (d ++ ds) | None => None end
             end
    end.

  Definition read_all (l : list Z) : option (list Z) := walk bgzf_member (S (length l)) l.
  Definition gunzip_multi (l : list Z) : option (list Z) := walk gunzip_member (S (length l)) l.

  (** bgzf.HasEOF: the last 28 bytes equal the marker. *)
  Definition has_eof (l : list Z) : bool :=
    (zlen bgzf_magicBlock <=? zlen l)
    && zeqb (skipn (length l - length bgzf_magicBlock) l) bgzf_magicBlock.
End Codec.
