(** C16, model of the bin functions: internal.BinFor (generated),
    internal.OverlappingBinsFor, csi.reg2bin, csi.reg2bins, as written in Go,
    with uint32 wrap-around where the code computes in uint32 and int64 wrap
    where it decrements [end]. Go [int] is unbounded [Z].
    Also the correspondence case type of C16 and its [agree] function.
    Executable definitions only. *)
From Hts Require Import Base.Prim Generated Model.SamSpecArith Model.Cigar.
Open Scope Z_scope.

Fixpoint zrange (b : Z) (n : nat) : list Z :=
  match n with O => [] | S n' => b :: zrange (b + 1) n' end.

(** [for k := b; k <= e; k++ { list = append(list, k) }] with k, b, e uint32.
    When e is the largest uint32 the condition never fails. *)
Definition loop_u32 (b e : Z) : outcome (list Z) :=
  if e =? 2 ^ 32 - 1 then Stuck else Ok (zrange b (Z.to_nat (e - b + 1))).

(** func OverlappingBinsFor(beg, end int) []uint32:
      end--
      list := []uint32{level0}
      for _, r := range []struct{ offset, shift uint32 }{
          {level1, level1Shift}, ..., {level5, level5Shift}} {
          for k := r.offset + uint32(beg>>r.shift); k <= r.offset+uint32(end>>r.shift); k++ {
              list = append(list, k)
          }
      } *)
Definition bai_levels : list (Z * Z) :=
  [(internal_level1, internal_level1Shift); (internal_level2, internal_level2Shift);
   (internal_level3, internal_level3Shift); (internal_level4, internal_level4Shift);
   (internal_level5, internal_level5Shift)].

Fixpoint obf_loop (ls : list (Z * Z)) (beg e : Z) (acc : list Z) : outcome (list Z) :=
  match ls with
  | [] => Ok acc
  | (off, sh) :: tl =>
      obind (loop_u32 (u32 (off + u32 (Z.shiftr beg sh))) (u32 (off + u32 (Z.shiftr e sh))))
            (fun ks => obf_loop tl beg e (acc ++ ks))
  end.

Definition overlapping_bins_for (beg end_ : Z) : outcome (list Z) :=
  let e := end_ - 1 in
  obf_loop bai_levels beg e [internal_level0].

(** func reg2bin(beg, end int64, minShift, depth uint32) uint32:
      end--
      s := minShift
      t := uint32(((1 << (depth * nextBinShift)) - 1) / 7)
      for level := depth; level > 0; level-- {
          offset := beg >> s
          if offset == end>>s { return t + uint32(offset) }
          s += nextBinShift
          t -= 1 << ((level - 1) * nextBinShift)
      }
      return 0
    All of t's arithmetic is uint32 (the untyped 1 takes the type of the
    conversion / of t). [n] is the number of iterations left = level. *)
Definition csi_t0 (depth : Z) : Z :=
  u32 (Z.quot (u32 (u32 (Z.shiftl 1 (u32 (depth * csi_nextBinShift))) - 1)) 7).

Fixpoint reg2bin_loop (n : nat) (level beg e s t : Z) : outcome Z :=
  match n with
  | O => Ok 0
  | S n' =>
      let offset := Z.shiftr beg s in
      if offset =? Z.shiftr e s then Ok (u32 (t + u32 offset))
      else reg2bin_loop n' (u32 (level - 1)) beg e (u32 (s + csi_nextBinShift))
             (u32 (t - u32 (Z.shiftl 1 (u32 (u32 (level - 1) * csi_nextBinShift)))))
  end.

Definition csi_reg2bin (beg end_ min_shift depth : Z) : outcome Z :=
  let e := s64 (end_ - 1) in
  reg2bin_loop (Z.to_nat depth) depth beg e min_shift (csi_t0 depth).

(** func reg2bins(beg, end int64, minShift, depth uint32) []uint32:
      end--
      var list []uint32
      s := minShift + depth*nextBinShift
      for level, t := uint32(0), uint32(0); level <= depth; level++ {
          b := t + uint32(beg>>s)
          e := t + uint32(end>>s)
          for i := b; i <= e; i++ { list = append(list, i) }
          s -= nextBinShift
          t += 1 << (level * nextBinShift)
      }
    [n] is the number of iterations left (depth - level + 1). *)
Fixpoint reg2bins_loop (n : nat) (level beg e s t : Z) (acc : list Z) : outcome (list Z) :=
  match n with
  | O => Ok acc
  | S n' =>
      let b := u32 (t + u32 (Z.shiftr beg s)) in
      let e' := u32 (t + u32 (Z.shiftr e s)) in
      obind (loop_u32 b e') (fun ks =>
        reg2bins_loop n' (u32 (level + 1)) beg e (u32 (s - csi_nextBinShift))
          (u32 (t + u32 (Z.shiftl 1 (u32 (level * csi_nextBinShift))))) (acc ++ ks))
  end.

Definition csi_reg2bins (beg end_ min_shift depth : Z) : outcome (list Z) :=
  let e := s64 (end_ - 1) in
  reg2bins_loop (S (Z.to_nat depth)) 0 beg e (u32 (min_shift + u32 (depth * csi_nextBinShift))) 0 [].

Fixpoint wsum (i : Z) (l : list Z) : Z :=
  match l with [] => 0 | x :: t => i * x + wsum (i + 1) t end.

(** ** Correspondence: one case = inputs + what the implementation returned
    ([None] = the call panicked). *)
Inductive c16case :=
| CRec (flags pos : Z) (cigar : list Z) (seqlen : Z)
       (tsum lsum : Z)   (* position-weighted sums of the Type() and Len() values the implementation reported *)
       (oend olen obin : option Z) (olens : option (Z * Z)) (ovalid : option bool)
| CNewOp (t n : Z) (r : option (Z * (Z * Z)))
| CBai (b1 e1 b2 e2 : Z) (bin : option Z) (bins : option (list (Z * Z)))
| CCsi (ms depth b1 e1 b2 e2 : Z) (bin : option Z) (bins : option (list (Z * Z))).

(** The observed bin list is written as maximal runs (first, count) of
    consecutive numbers; [expand_runs] gives back the list itself. *)
Definition expand_runs (rs : list (Z * Z)) : list Z :=
  flat_map (fun r => zrange (fst r) (Z.to_nat (snd r))) rs.
Definition runs_eqb (l : list Z) (rs : list (Z * Z)) : bool := list_eqb l (expand_runs rs).

Definition out_is' {A B} (eqb : A -> B -> bool) (o : outcome A) (x : option B) : bool :=
  match o, x with
  | Ok a, Some b => eqb a b
  | Panic _, None => true
  | _, _ => false
  end.

Definition model_agree (c : c16case) : bool :=
  match c with
  | CRec flags pos cg seqlen tsum lsum oend olen obin olens ovalid =>
      (wsum 1 (map (fun co => unwrap0 (sam_CigarOp_Type co)) cg) =? tsum)
      && (wsum 1 (map (fun co => unwrap0 (sam_CigarOp_Len co)) cg) =? lsum)
      && out_is Z.eqb (record_end flags pos cg) oend
      && out_is Z.eqb (record_len flags pos cg) olen
      && out_is Z.eqb (record_bin flags pos cg) obin
      && out_is pair_eqb (cigar_lengths cg) olens
      && out_is Bool.eqb (cigar_isvalid cg seqlen) ovalid
  | CNewOp t n r =>
      match sam_NewCigarOp t n, r with
      | Ok a, Some (w, (ty, ln)) =>
          (a =? w) && (unwrap0 (sam_CigarOp_Type a) =? ty) && (unwrap0 (sam_CigarOp_Len a) =? ln)
      | Panic _, None => true
      | _, _ => false
      end
  | CBai b1 e1 b2 e2 bin bins =>
      out_is Z.eqb (internal_BinFor b1 e1) bin
      && out_is' runs_eqb (overlapping_bins_for b2 e2) bins
  | CCsi ms depth b1 e1 b2 e2 bin bins =>
      out_is Z.eqb (csi_reg2bin b1 e1 ms depth) bin
      && out_is Z.eqb (csigen_reg2bin (S (Z.to_nat depth)) b1 e1 ms depth) bin   (* the translation of the loop *)
      && out_is' runs_eqb (csi_reg2bins b2 e2 ms depth) bins
  end.

(** The specification side evaluated on the same observations, inside the
    ranges in which the theorems of Props/C16.v equate model and
    specification (all operation codes known; coordinates in the indexable
    range; depth at most 10). *)
Definition in_range (lo x hi : Z) : bool := (lo <=? x) && (x <=? hi).

Definition spec_agree (c : c16case) : bool :=
  match c with
  | CRec flags pos cg seqlen tsum lsum oend olen obin olens ovalid =>
      match spec_decode cg with
      | None => true
      | Some sc =>
          match oend, olen, olens, ovalid with
          | Some e, Some l, Some ls, Some v =>
              (e =? spec_end flags pos sc) && (l =? spec_len flags pos sc)
              && pair_eqb ls (spec_reflen sc, spec_querylen sc)
              && Bool.eqb v (spec_valid sc seqlen)
              && (if in_range (-1) pos (2 ^ 29 - 1) && in_range 0 e (2 ^ 29)
                  then match obin with Some b => b =? spec_bin flags pos sc | None => false end
                  else true)
          | _, _, _, _ => false
          end
      end
  | CNewOp t n r => true
  | CBai b1 e1 b2 e2 bin bins =>
      (if in_range 0 b1 (2 ^ 29) && in_range 0 e1 (2 ^ 29)
       then match bin with Some b => b =? spec_reg2bin b1 e1 | None => false end else true)
      && (if in_range 0 b2 (2 ^ 29) && in_range 0 e2 (2 ^ 29)
          then match bins with Some l => runs_eqb (spec_reg2bins b2 e2) l | None => false end else true)
  | CCsi ms depth b1 e1 b2 e2 bin bins =>
      if in_range 0 depth 10 && in_range 0 ms 32 then
        let top := 2 ^ (ms + 3 * depth) in
        (if in_range 0 b1 top && in_range 0 e1 top
         then match bin with Some b => b =? spec_csi_reg2bin b1 e1 ms depth | None => false end else true)
        && (if in_range 0 b2 top && in_range 0 e2 top
            then match bins with Some l => runs_eqb (spec_csi_reg2bins b2 e2 ms depth) l | None => false end else true)
      else true
  end.

Definition c16_agree (c : c16case) : bool := model_agree c && spec_agree c.
