(** C14 — block caches of bgzf/cache (LRU, FIFO, Random, StatsRecorder, Free).
    Executable definitions only: the model of the code as it is, the client
    protocol, the contract written independently (what a cache with the stated
    policy holds), and the case type of the correspondence check.

    Blocks are pointers in Go; here they are ids into a store that gives the
    current base and used flag (the client may overwrite both: "re-base").
    [bsize] is the member size the harness gives block [b], so that
    NextBase() = base + bsize identifies the block an answer came from. *)
From Coq Require Import ZArith List Bool Arith.
From Hts Require Import Base.Prim.
Import ListNotations.
Open Scope Z_scope.

Definition bid := nat.
Record blk := mkblk { bbase : Z; bused : bool }.
Definition store := bid -> blk.
Definition store0 : store := fun _ => mkblk (-1) false.
Definition sset (s : store) (b : bid) (v : blk) : store :=
  fun x => if Nat.eqb x b then v else s x.
Definition bsize (b : bid) : Z := 100 + 10 * Z.of_nat b.
Definition bnext (s : store) (b : bid) : Z := bbase (s b) + bsize b.

Inductive op :=
| Put (b : bid) | Get (k : Z) | Peek (k : Z) | Len | Cap
| Resize (n : Z) | Drop (n : Z) | Free (n : Z)
| Rebase (b : bid) (k : Z) (u : bool).

Inductive out :=
| OPut (ev : option bid) (retained : bool)
| OGet (b : option bid)
| OPeek (next : option Z)
| ONum (n : Z)
| OUnit
| OBool (b : bool)
| OStats (gets misses puts retains evictions : Z)
| OStuck
| OPanic.

(** Go map[int64]X as an association list kept in insertion order. *)
Definition table := list (Z * bid).
Definition tget (k : Z) (t : table) : option bid :=
  match find (fun p => fst p =? k) t with Some p => Some (snd p) | None => None end.
Definition tdel (k : Z) (t : table) : table := filter (fun p => negb (fst p =? k)) t.
Definition tset (k : Z) (b : bid) (t : table) : table := tdel k t ++ [(k, b)].
Definition tlen (t : table) : Z := zlen t.
Definition blocks (t : table) : list bid := map snd t.

Fixpoint last_opt {A} (l : list A) : option A :=
  match l with [] => None | [x] => Some x | _ :: t => last_opt t end.

(** * LRU and FIFO: table + intrusive list (root.next ... root.prev).
    A node is identified with the block it wraps. *)
Record lf := mklf { lst : list bid; tab : table; cap : Z }.
Definition lf_empty (n : Z) : lf := mklf [] [] n.

(** remove(n, table): delete(table, n.b.Base()); unlink n. *)
Definition lf_remove (s : store) (c : lf) (b : bid) : lf :=
  mklf (remove Nat.eq_dec b (lst c)) (tdel (bbase (s b)) (tab c)) (cap c).

(** n := &node{b}; table[b.Base()] = n; insertAfter(&root, n) if used,
    insertAfter(root.prev, n) otherwise. *)
Definition lf_insert (s : store) (c : lf) (b : bid) : lf :=
  mklf (if bused (s b) then b :: lst c else lst c ++ [b])
       (tset (bbase (s b)) b (tab c)) (cap c).

(** drop: for ; n > 0 && len(table) > 0; n-- { remove(root.prev, table) }.
    root.prev of an empty list is the root itself, whose block is nil. *)
Fixpoint lf_drop (s : store) (fuel : nat) (c : lf) : outcome lf :=
  match fuel with
  | O => Ok c
  | S f => if tlen (tab c) >? 0
           then match last_opt (lst c) with
                | None => Panic 2
                | Some d => lf_drop s f (lf_remove s c d)
                end
           else Ok c
  end.

(** [relock]: the loop condition of drop calls a method that takes the read
    lock while the caller holds the write lock (read off the generated lock
    skeleton). sync.RWMutex is not reentrant: the call blocks forever. *)
Definition lf_dropZ (relock : bool) (s : store) (n : Z) (c : lf) : outcome lf :=
  if relock && (n >? 0) then Stuck else lf_drop s (Z.to_nat n) c.

Definition with_cap (c : lf) (n : Z) : lf := mklf (lst c) (tab c) n.

Definition lf_step (fifo relock : bool) (s : store) (c : lf) (o : op) : lf * out :=
  match o with
  | Put b =>
      let k := bbase (s b) in
      match tget k (tab c) with
      | Some b' => if fifo && Nat.eqb b' b then (c, OPut None false) else (c, OPut (Some b) false)
      | None =>
          if tlen (tab c) =? cap c then
            if negb (bused (s b)) then (c, OPut (Some b) false)
            else match last_opt (lst c) with
                 | None => (c, OPanic)
                 | Some d => (lf_insert s (lf_remove s c d) b, OPut (Some d) true)
                 end
          else (lf_insert s c b, OPut None true)
      end
  | Get k =>
      match tget k (tab c) with
      | None => (c, OGet None)
      | Some b => if fifo && bused (s b) then (c, OGet (Some b))
                  else (lf_remove s c b, OGet (Some b))
      end
  | Peek k =>
      match tget k (tab c) with
      | None => (c, OPeek None)
      | Some b => (c, OPeek (Some (bnext s b)))
      end
  | Len => (c, ONum (tlen (tab c)))
  | Cap => (c, ONum (cap c))
  | Resize n =>
      match (if n <? tlen (tab c) then lf_dropZ relock s (tlen (tab c) - n) c else Ok c) with
      | Ok c' => (with_cap c' n, OUnit)
      | Stuck => (c, OStuck)
      | _ => (c, OPanic)
      end
  | Drop n =>
      match lf_dropZ relock s n c with
      | Ok c' => (c', OUnit)
      | Stuck => (c, OStuck)
      | _ => (c, OPanic)
      end
  | Free _ => (c, OUnit)
  | Rebase _ _ _ => (c, OUnit)
  end.

(** * Random: table only. Go's map iteration order is unspecified; every
    range loop takes its order from an explicit choice: the keys of [ch] that
    are present first, in that order, then the remaining keys. *)
Record rnd := mkrnd { rtab : table; rcap : Z }.
Definition rnd_empty (n : Z) : rnd := mkrnd [] n.

Definition zmem (k : Z) (l : list Z) : bool := existsb (Z.eqb k) l.
Fixpoint znodup (l : list Z) : list Z :=
  match l with [] => [] | x :: t => if zmem x t then znodup t else x :: znodup t end.
Definition iter_order (ch : list Z) (t : table) : list Z :=
  filter (fun k => zmem k (map fst t)) (znodup ch)
  ++ filter (fun k => negb (zmem k ch)) (map fst t).

Definition unused_key (s : store) (t : table) (k : Z) : bool :=
  match tget k t with Some b => negb (bused (s b)) | None => false end.

(** Put on a full cache: first loop takes the first unused block met, the
    second loop the first block met. *)
Definition rnd_victim (s : store) (ch1 ch2 : list Z) (t : table) : option Z :=
  match find (unused_key s t) (iter_order ch1 t) with
  | Some k => Some k
  | None => match iter_order ch2 t with k :: _ => Some k | [] => None end
  end.

(** drop, first loop: skip used blocks, delete, stop when n reaches 0. *)
Fixpoint rnd_drop1 (s : store) (order : list Z) (n : nat) (t : table) : table * nat :=
  match order with
  | [] => (t, n)
  | k :: r =>
      match n with
      | O => (t, O)
      | S n' => if unused_key s t k then rnd_drop1 s r n' (tdel k t) else rnd_drop1 s r n t
      end
  end.
Fixpoint rnd_drop2 (order : list Z) (n : nat) (t : table) : table :=
  match order with
  | [] => t
  | k :: r => match n with O => t | S n' => rnd_drop2 r n' (tdel k t) end
  end.
Definition rnd_drop (s : store) (ch1 ch2 : list Z) (n : Z) (t : table) : table :=
  if n <? 1 then t else
  let '(t1, n1) := rnd_drop1 s (iter_order ch1 t) (Z.to_nat n) t in
  match n1 with O => t1 | _ => rnd_drop2 (iter_order ch2 t1) n1 t1 end.

Definition rop : Type := op * list Z * list Z.

Definition rnd_step (s : store) (c : rnd) (ro : rop) : rnd * out :=
  let '(o, ch1, ch2) := ro in
  match o with
  | Put b =>
      let k := bbase (s b) in
      match tget k (rtab c) with
      | Some _ => (c, OPut (Some b) false)
      | None =>
          if tlen (rtab c) =? rcap c then
            if negb (bused (s b)) then (c, OPut (Some b) false)
            else match rnd_victim s ch1 ch2 (rtab c) with
                 | Some vk => (mkrnd (tset k b (tdel vk (rtab c))) (rcap c), OPut (tget vk (rtab c)) true)
                 | None => (mkrnd (tset k b (rtab c)) (rcap c), OPut None true)
                 end
          else (mkrnd (tset k b (rtab c)) (rcap c), OPut None true)
      end
  | Get k =>
      match tget k (rtab c) with
      | None => (c, OGet None)
      | Some b => (mkrnd (tdel k (rtab c)) (rcap c), OGet (Some b))
      end
  | Peek k =>
      match tget k (rtab c) with
      | None => (c, OPeek None)
      | Some b => (c, OPeek (Some (bnext s b)))
      end
  | Len => (c, ONum (tlen (rtab c)))
  | Cap => (c, ONum (rcap c))
  | Resize n =>
      (mkrnd (if n <? tlen (rtab c) then rnd_drop s ch1 ch2 (tlen (rtab c) - n) (rtab c) else rtab c) n, OUnit)
  | Drop n => (mkrnd (rnd_drop s ch1 ch2 n (rtab c)) (rcap c), OUnit)
  | Free _ => (c, OUnit)
  | Rebase _ _ _ => (c, OUnit)
  end.

(** * Free(n, c): empty := c.Cap() - c.Len(); if n <= empty return true;
    c.Drop(n - empty); return c.Cap()-c.Len() >= n.  Generic in the cache. *)
Section World.
  Variable C : Type.
  Variable O : Type.               (* operation with the choices it needs *)
  Variable pi : O -> op.
  Variable re : O -> op -> O.      (* same choices, other operation *)
  Variable cstep : store -> C -> O -> C * out.

  Definition free_via (s : store) (c : C) (o : O) (n : Z) : C * out :=
    match snd (cstep s c (re o Cap)), snd (cstep s c (re o Len)) with
    | ONum cp, ONum ln =>
        let empty := cp - ln in
        if n <=? empty then (c, OBool true) else
        match cstep s c (re o (Drop (n - empty))) with
        | (c', OUnit) =>
            match snd (cstep s c' (re o Cap)), snd (cstep s c' (re o Len)) with
            | ONum cp', ONum ln' => (c', OBool (n <=? cp' - ln'))
            | _, _ => (c', OPanic)
            end
        | (c', x) => (c', x)
        end
    | _, _ => (c, OPanic)
    end.

  (** One step of client + cache: Rebase is the client's write to a block. *)
  Definition wstep (w : store * C) (o : O) : (store * C) * out :=
    let '(s, c) := w in
    match pi o with
    | Rebase b k u => ((sset s b (mkblk k u), c), OUnit)
    | Free n => let '(c', x) := free_via s c o n in ((s, c'), x)
    | _ => let '(c', x) := cstep s c o in ((s, c'), x)
    end.

  Fixpoint wrun (w : store * C) (os : list O) : (store * C) * list out :=
    match os with
    | [] => (w, [])
    | o :: r => let '(w', x) := wstep w o in
                let '(w'', xs) := wrun w' r in (w'', x :: xs)
    end.
End World.

Definition lf_wstep (fifo relock : bool) := wstep lf op (fun o => o) (fun _ o => o) (lf_step fifo relock).
Definition rnd_wstep := wstep rnd rop (fun o => fst (fst o)) (fun o x => (x, snd (fst o), snd o)) rnd_step.

(** * Client protocol (ghost state): which blocks the client may overwrite. *)
Inductive status := Mine | Borrowed | Given.
Definition client := bid -> status.
Definition client0 : client := fun _ => Mine.
Definition cset (cl : client) (b : bid) (v : status) : client :=
  fun x => if Nat.eqb x b then v else cl x.
Definition status_eqb (a b : status) : bool :=
  match a, b with Mine, Mine | Borrowed, Borrowed | Given, Given => true | _, _ => false end.

(** The client puts only blocks it holds, re-bases only blocks it owns and
    resizes to at least one slot (the constructors refuse less). *)
Definition allowedb (cl : client) (o : op) : bool :=
  match o with
  | Put b => negb (status_eqb (cl b) Given)
  | Rebase b _ _ => status_eqb (cl b) Mine
  | Resize n => 1 <=? n
  | _ => true
  end.

(** [strong]: a block returned by Get belongs to the client (the bgzf.Cache
    documentation: "the returned Block must be removed from the Cache").
    Otherwise (the way bgzf.Reader behaves) only a block that Put hands back -
    as evicted or as not retained - may be overwritten; one returned by Get may
    only be put back. *)
Definition cl_update (strong : bool) (cl : client) (o : op) (x : out) : client :=
  match o, x with
  | Put b, OPut ev ret =>
      let cl1 := if ret then cset cl b Given else cl in
      match ev with Some e => cset cl1 e Mine | None => cl1 end
  | Get _, OGet (Some b) =>
      if strong then cset cl b Mine
      else match cl b with Given => cset cl b Borrowed | _ => cl end
  | _, _ => cl
  end.

(** All histories: states reachable from the empty cache by operations the
    protocol allows. *)
Section Reach.
  Variable C : Type.
  Variable O : Type.
  Variable pi : O -> op.
  Variable step : store * C -> O -> (store * C) * out.
  Variable strong : bool.
  Variable c0 : C.

  Inductive reach : store * C -> client -> Prop :=
  | reach_init : reach (store0, c0) client0
  | reach_step : forall w cl o w' x,
      reach w cl -> allowedb cl (pi o) = true -> step w o = (w', x) ->
      reach w' (cl_update strong cl (pi o) x).

  (** The same as a function, for running cases. *)
  Fixpoint prun (w : store * C) (cl : client) (os : list O) : option (list out) :=
    match os with
    | [] => Some []
    | o :: r =>
        if allowedb cl (pi o) then
          let '(w', x) := step w o in
          match prun w' (cl_update strong cl (pi o) x) r with
          | Some xs => Some (x :: xs)
          | None => None
          end
        else None
    end.
End Reach.

(** * The contract, written independently of table/list: a cache holds blocks
    in insertion order (oldest first). LRU and FIFO evict the most recently
    inserted unused block if one is held and the oldest block otherwise. *)
Record sstate := mks { ent : list bid; scap : Z }.

Definition sfind (s : store) (k : Z) (l : list bid) : option bid :=
  find (fun b => bbase (s b) =? k) l.

Definition svictim (s : store) (l : list bid) : option bid :=
  match last_opt (filter (fun b => negb (bused (s b))) l) with
  | Some v => Some v
  | None => match l with v :: _ => Some v | [] => None end
  end.

Fixpoint sdrop (s : store) (fuel : nat) (l : list bid) : list bid :=
  match fuel with
  | O => l
  | S f => match svictim s l with
           | Some v => sdrop s f (remove Nat.eq_dec v l)
           | None => l
           end
  end.

Definition spec_step (fifo : bool) (s : store) (c : sstate) (o : op) : sstate * out :=
  match o with
  | Put b =>
      match sfind s (bbase (s b)) (ent c) with
      | Some b' => if fifo && Nat.eqb b' b then (c, OPut None false) else (c, OPut (Some b) false)
      | None =>
          if zlen (ent c) =? scap c then
            if negb (bused (s b)) then (c, OPut (Some b) false)
            else match svictim s (ent c) with
                 | Some v => (mks (remove Nat.eq_dec v (ent c) ++ [b]) (scap c), OPut (Some v) true)
                 | None => (c, OPanic)
                 end
          else (mks (ent c ++ [b]) (scap c), OPut None true)
      end
  | Get k =>
      match sfind s k (ent c) with
      | None => (c, OGet None)
      | Some b => if fifo && bused (s b) then (c, OGet (Some b))
                  else (mks (remove Nat.eq_dec b (ent c)) (scap c), OGet (Some b))
      end
  | Peek k =>
      match sfind s k (ent c) with
      | None => (c, OPeek None)
      | Some b => (c, OPeek (Some (bnext s b)))
      end
  | Len => (c, ONum (zlen (ent c)))
  | Cap => (c, ONum (scap c))
  | Resize n => (mks (sdrop s (Z.to_nat (zlen (ent c) - n)) (ent c)) n, OUnit)
  | Drop n => (mks (sdrop s (Z.to_nat n) (ent c)) (scap c), OUnit)
  | Free _ => (c, OUnit)
  | Rebase _ _ _ => (c, OUnit)
  end.

Definition lf_abs (c : lf) : sstate := mks (blocks (tab c)) (cap c).

(** * StatsRecorder: counts around the Get and Put of any bgzf.Cache. *)
Record stats := mkst { gets : Z; misses : Z; nputs : Z; retains : Z; evictions : Z }.
Definition stats0 := mkst 0 0 0 0 0.
Inductive sop (O : Type) := SInner (o : O) | SStats | SReset.
Arguments SInner {O} o.
Arguments SStats {O}.
Arguments SReset {O}.

Definition stats_count (st : stats) (o : op) (x : out) : stats :=
  match o, x with
  | Get _, OGet r =>
      mkst (gets st + 1) (match r with None => misses st + 1 | Some _ => misses st end)
           (nputs st) (retains st) (evictions st)
  | Put _, OPut ev ret =>
      mkst (gets st) (misses st) (nputs st + 1)
           (if ret then retains st + 1 else retains st)
           (if ret then match ev with Some _ => evictions st + 1 | None => evictions st end
            else evictions st)
  | _, _ => st
  end.

Section Stats.
  Variable W : Type.
  Variable O : Type.
  Variable pi : O -> op.
  Variable step : W -> O -> W * out.
  Definition st_step (w : W * stats) (o : sop O) : (W * stats) * out :=
    match o with
    | SInner i => let '(w', x) := step (fst w) i in ((w', stats_count (snd w) (pi i) x), x)
    | SStats => (w, OStats (gets (snd w)) (misses (snd w)) (nputs (snd w)) (retains (snd w)) (evictions (snd w)))
    | SReset => ((fst w, stats0), OUnit)
    end.
End Stats.

(** * Correspondence: cases carry what the implementation answered. *)
Definition opt_eqb {A} (e : A -> A -> bool) (a b : option A) : bool :=
  match a, b with Some x, Some y => e x y | None, None => true | _, _ => false end.

Definition out_eqb (a b : out) : bool :=
  match a, b with
  | OPut e r, OPut e' r' => opt_eqb Nat.eqb e e' && Bool.eqb r r'
  | OGet x, OGet y => opt_eqb Nat.eqb x y
  | OPeek x, OPeek y => opt_eqb Z.eqb x y
  | ONum x, ONum y => x =? y
  | OUnit, OUnit => true
  | OBool x, OBool y => Bool.eqb x y
  | OStats a1 a2 a3 a4 a5, OStats b1 b2 b3 b4 b5 => (a1 =? b1) && (a2 =? b2) && (a3 =? b3) && (a4 =? b4) && (a5 =? b5)
  | OStuck, OStuck => true
  | OPanic, OPanic => true
  | _, _ => false
  end.

Fixpoint zlist_eqb (a b : list Z) : bool :=
  match a, b with
  | [], [] => true
  | x :: a', y :: b' => (x =? y) && zlist_eqb a' b'
  | _, _ => false
  end.

(** one observed step: operation, victims seen (choice for Random), answer,
    and the probe after it: Len, Cap, then per base 0..nb-1 the NextBase that
    Peek reports or -1. [None]: no probe was taken (Rebase, hang). *)
Definition cstepobs : Type := sop op * list Z * out * option (list Z).

Inductive ckind := KLru | KFifo | KRandom.

(** what the three models look like from outside *)
Inductive anyw :=
| WLf (fifo : bool) (w : store * lf)
| WRnd (w : store * rnd).

Definition any_step (relock : bool) (w : anyw) (o : op) (ch : list Z) : anyw * out :=
  match w with
  | WLf f w => let '(w', x) := lf_wstep f relock w o in (WLf f w', x)
  | WRnd w => let '(w', x) := rnd_wstep w (o, ch, ch) in (WRnd w', x)
  end.

Definition any_init (k : ckind) (n : Z) : anyw :=
  match k with
  | KLru => WLf false (store0, lf_empty n)
  | KFifo => WLf true (store0, lf_empty n)
  | KRandom => WRnd (store0, rnd_empty n)
  end.

Definition any_probe (relock : bool) (w : anyw) (nb : nat) : list Z :=
  let num x := match x with ONum n => n | _ => -2 end in
  let pk x := match x with OPeek (Some n) => n | OPeek None => -1 | _ => -2 end in
  num (snd (any_step relock w Len [])) :: num (snd (any_step relock w Cap []))
  :: map (fun k => pk (snd (any_step relock w (Peek (Z.of_nat k)) []))) (seq 0 nb).

Fixpoint any_agree (relock : bool) (nb : nat) (w : anyw * stats) (l : list cstepobs) : bool :=
  match l with
  | [] => true
  | (o, ch, x, pr) :: r =>
      let '(w', x') := st_step anyw (op * list Z) fst (fun w oc => any_step relock w (fst oc) (snd oc)) w
                         (match o with SInner i => SInner (i, ch) | SStats => SStats | SReset => SReset end) in
      out_eqb x x'
      && match pr with Some p => zlist_eqb p (any_probe relock (fst w') nb) | None => true end
      && match x with OStuck => true | _ => any_agree relock nb w' r end
  end.

(** Concurrent run: the calls in the order the linearizability search found,
    each with thread, invocation and response stamp. The order must respect
    real time and the sequential model must give the same answers. *)
Definition cev : Type := Z * Z * Z * cstepobs.   (* thread, inv, res, step *)

Fixpoint realtime_ok (l : list cev) : bool :=
  match l with
  | [] => true
  | (_, inv, _, _) :: r =>
      forallb (fun e => let '(_, _, res', _) := e in negb (res' <? inv)) r && realtime_ok r
  end.

Inductive c14case :=
| CSeq (k : ckind) (n : Z) (nb : nat) (l : list cstepobs)
| CConc (k : ckind) (n : Z) (nb : nat) (l : list cev).

Definition c14_agree (relock_lru relock_fifo : bool) (c : c14case) : bool :=
  let rl k := match k with KLru => relock_lru | KFifo => relock_fifo | KRandom => false end in
  match c with
  | CSeq k n nb l => any_agree (rl k) nb (any_init k n, stats0) l
  | CConc k n nb l => realtime_ok l && any_agree (rl k) nb (any_init k n, stats0) (map snd l)
  end.

(** * Flat encoding of cases (lists of integers elaborate much faster than
    nested constructor terms). Layout:
      case  = mode (0 seq, 1 concurrent) :: kind (0 LRU, 1 FIFO, 2 Random) :: cap :: nb :: nsteps :: steps
      step  = thread :: inv :: res :: opcode :: a :: b :: c :: nch :: ch.. ::
              outcode :: o1 :: o2 :: o3 :: o4 :: o5 :: nprobe (or -1) :: probe.. *)
Definition dec_op (c a b d : Z) : option (sop op) :=
  let n := Z.to_nat a in
  if c =? 0 then Some (SInner (Put n)) else
  if c =? 1 then Some (SInner (Get a)) else
  if c =? 2 then Some (SInner (Peek a)) else
  if c =? 3 then Some (SInner Len) else
  if c =? 4 then Some (SInner Cap) else
  if c =? 5 then Some (SInner (Resize a)) else
  if c =? 6 then Some (SInner (Drop a)) else
  if c =? 7 then Some (SInner (Free a)) else
  if c =? 8 then Some (SInner (Rebase n b (d =? 1))) else
  if c =? 9 then Some SStats else
  if c =? 10 then Some SReset else None.

Definition dec_out (c a1 a2 a3 a4 a5 : Z) : option out :=
  if c =? 0 then Some (OPut (if a1 <? 0 then None else Some (Z.to_nat a1)) (a2 =? 1)) else
  if c =? 1 then Some (OGet (if a1 <? 0 then None else Some (Z.to_nat a1))) else
  if c =? 2 then Some (OPeek (if a1 =? 1 then Some a2 else None)) else
  if c =? 3 then Some (ONum a1) else
  if c =? 4 then Some OUnit else
  if c =? 5 then Some (OBool (a1 =? 1)) else
  if c =? 6 then Some (OStats a1 a2 a3 a4 a5) else
  if c =? 7 then Some OStuck else
  if c =? 8 then Some OPanic else None.

Fixpoint dec_steps (n : nat) (l : list Z) : option (list cev) :=
  match n with
  | O => match l with [] => Some [] | _ => None end
  | S n' =>
      match l with
      | t :: i :: r :: oc :: a :: b :: d :: nch :: l1 =>
          let ch := firstn (Z.to_nat nch) l1 in
          match skipn (Z.to_nat nch) l1 with
          | xc :: x1 :: x2 :: x3 :: x4 :: x5 :: np :: l3 =>
              let pr := if np <? 0 then None else Some (firstn (Z.to_nat np) l3) in
              let l4 := if np <? 0 then l3 else skipn (Z.to_nat np) l3 in
              match dec_op oc a b d, dec_out xc x1 x2 x3 x4 x5, dec_steps n' l4 with
              | Some o, Some x, Some rest => Some ((t, i, r, (o, ch, x, pr)) :: rest)
              | _, _, _ => None
              end
          | _ => None
          end
      | _ => None
      end
  end.

Definition dec_case (l : list Z) : option c14case :=
  match l with
  | mode :: kind :: n :: nb :: ns :: rest =>
      match dec_steps (Z.to_nat ns) rest with
      | Some steps =>
          let k := if kind =? 0 then KLru else if kind =? 1 then KFifo else KRandom in
          if mode =? 0 then Some (CSeq k n (Z.to_nat nb) (map snd steps))
          else Some (CConc k n (Z.to_nat nb) steps)
      | None => None
      end
  | _ => None
  end.

Definition c14_agree_flat (rl rf : bool) (l : list Z) : bool :=
  match dec_case l with Some c => c14_agree rl rf c | None => false end.
