(** C13 — clients of the bgzf.Reader API, written over an abstract reader
    machine so that the same definitions run on the block-value reader, on the
    reader with store objects and a cache, and (for the proofs) on anything
    that is observation-equivalent:
    - bgzf/index.ChunkReader: NewChunkReader / Read as written (clamp to the
      chunk end inside a block, the End.Block = 0 special case, the progress
      test, skipping of exhausted chunks, seek to the next chunk);
    - bam.Reader at the record-framing level: newBuffer (io.ReadFull of the
      4-byte length, Tx begin, io.ReadFull of the body), the chunk limit test
      of Read, SetChunk, and bam.Iterator.Next.
    Executable definitions only. *)
From Hts Require Import Base.Prim Model.Flat Model.Reader.
Open Scope Z_scope.

Record machine := mkM {
  MS : Type;
  m_step : MS -> rop -> outcome (MS * fret);
  m_lc : MS -> chunk;          (* LastChunk() *)
  m_blen : MS -> Z }.          (* BlockLen() *)

Definition vM (F : file) : machine := mkM vstate (v_step F) v_lc (fun s => b_len (v_cur s)).
Definition rM (F : file) (ch : list nat) : machine := mkM rstate (r_step F ch) r_lc r_blen.

Definition voffset (o : voff) : Z := fst o * 65536 + snd o.   (* o.File<<16 | int64(o.Block) *)

Section Clients.
Variable M : machine.
Notation S := (MS M).

(** ---------------------------------------------------- index.ChunkReader *)

Definition cr_new (s : S) (chunks : list chunk) : outcome (S * Z) :=
  match m_step M s (OBlocked true) with
  | Ok (s1, _) =>
      match chunks with
      | [] => Ok (s1, eNil)
      | c :: _ => match m_step M s1 (OSeek (fst (fst c)) (snd (fst c))) with
                  | Ok (s2, (_, e)) => Ok (s2, e)
                  | Err e => Err e | Panic w => Panic w | Stuck => Stuck
                  end
      end
  | Err e => Err e | Panic w => Panic w | Stuck => Stuck
  end.

(** The loop at the head of Read that leaves exhausted (or empty) chunks:
    result (state, remaining chunks, error); error eEOF: the stream is over. *)
Fixpoint cr_skip (s : S) (chunks : list chunk) : outcome (S * list chunk * Z) :=
  match chunks with
  | [] => Ok (s, [], eEOF)
  | c :: rest =>
      if voffset (snd c) <=? voffset (snd (m_lc M s)) then
        match rest with
        | [] => Ok (s, [], eEOF)
        | c' :: _ =>
            match m_step M s (OSeek (fst (fst c')) (snd (fst c'))) with
            | Ok (s1, (_, e)) => if e =? eNil then cr_skip s1 rest else Ok (s1, rest, e)
            | Err e => Err e | Panic w => Panic w | Stuck => Stuck
            end
        end
      else Ok (s, chunks, eNil)
  end.

Definition chunk_eqb (a b : chunk) : bool :=
  (fst (fst a) =? fst (fst b)) && (snd (fst a) =? snd (fst b)) && (fst (snd a) =? fst (snd b)) && (snd (snd a) =? snd (snd b)).

(** ChunkReader.Read(p), len(p) = n: (state, chunks, bytes, error). *)
Definition cr_read (s : S) (chunks : list chunk) (n : Z) : outcome (S * list chunk * list Z * Z) :=
  match chunks with
  | [] => Ok (s, [], [], eEOF)
  | _ =>
      match cr_skip s chunks with
      | Ok (s1, chunks1, e) =>
          if negb (e =? eNil) then Ok (s1, chunks1, [], e)
          else
            match chunks1 with
            | [] => Ok (s1, [], [], eEOF)
            | c0 :: rest =>
                let last := m_lc M s1 in
                let want := if (snd (snd c0) =? 0) && (fst (snd last) <? fst (snd c0)) then m_blen M s1 else snd (snd c0) in
                let cursor := if fst (snd last) =? fst (snd c0) then snd (snd last) else 0 in
                if want - cursor <? 0 then Panic 6          (* p[:negative] *)
                else
                  match m_step M s1 (ORead (Z.min n (want - cursor))) with
                  | Ok (s2, (bs, err)) =>
                      if negb (err =? eNil) then
                        Ok (s2, chunks1, bs, if negb (zlen bs =? 0) && (err =? eEOF) then eNil else err)
                      else
                        let this := m_lc M s2 in
                        if (negb (n =? 0) && chunk_eqb this last) || (voffset (snd c0) <=? voffset (snd this)) then
                          match rest with
                          | [] => Ok (s2, [], bs, eEOF)
                          | c' :: _ =>
                              match m_step M s2 (OSeek (fst (fst c')) (snd (fst c'))) with
                              | Ok (s3, (_, e3)) => Ok (s3, rest, bs, e3)
                              | Err e => Err e | Panic w => Panic w | Stuck => Stuck
                              end
                          end
                        else Ok (s2, chunks1, bs, eNil)
                  | Err e => Err e | Panic w => Panic w | Stuck => Stuck
                  end
            end
      | Err e => Err e | Panic w => Panic w | Stuck => Stuck
      end
  end.

(** A sequence of reads with the given buffer sizes, stopping at the first error:
    what each Read returned. *)
Fixpoint cr_reads (s : S) (chunks : list chunk) (bufs : list Z) : outcome (list (list Z * Z)) :=
  match bufs with
  | [] => Ok []
  | n :: bufs' =>
      match cr_read s chunks n with
      | Ok (s1, ch1, bs, e) =>
          if negb (e =? eNil) then Ok [(bs, e)]
          else match cr_reads s1 ch1 bufs' with
               | Ok l => Ok ((bs, e) :: l)
               | Err e => Err e | Panic w => Panic w | Stuck => Stuck
               end
      | Err e => Err e | Panic w => Panic w | Stuck => Stuck
      end
  end.

(** ------------------------------------------------------------ bam.Reader *)

(** io.ReadFull(r, buf[:k]). *)
Fixpoint readfull (fuel : nat) (s : S) (k : Z) (acc : list Z) (err : Z) : outcome (S * list Z * Z) :=
  if (zlen acc <? k) && (err =? eNil) then
    match fuel with
    | O => Stuck
    | Datatypes.S fuel' =>
        match m_step M s (ORead (k - zlen acc)) with
        | Ok (s1, (bs, e)) => readfull fuel' s1 k (acc ++ bs) e
        | Err e => Err e | Panic w => Panic w | Stuck => Stuck
        end
    end
  else
    Ok (s, acc, if k <=? zlen acc then eNil
                else if (0 <? zlen acc) && (err =? eEOF) then eOther (* io.ErrUnexpectedEOF *) else err).

Definition le32s (b : list Z) : Z :=
  s32 (getz b 0 + getz b 1 * 256 + getz b 2 * 65536 + getz b 3 * 16777216).

Record bstate := mkBR { br_s : S; br_limit : option chunk; br_lc : chunk }.

(** What Read returns at the framing level: the record body, io.EOF, or an error. *)
Inductive bres := BRec (body : list Z) | BEOF | BErr.

Definition rf_fuel : nat := 8.

(** bam.Reader.Read down to newBuffer; decoding of the body is not modelled. *)
Definition br_read (b : bstate) : outcome (bstate * bres) :=
  let s := br_s b in
  let limited := match br_limit b with
                 | Some c => voffset (snd c) <=? voffset (snd (m_lc M s))
                 | None => false end in
  if limited then Ok (b, BEOF)
  else
    match readfull rf_fuel s 4 [] eNil with
    | Ok (s1, hd, e1) =>
        let begin := fst (m_lc M s1) in                       (* tx := br.r.Begin() *)
        let fin (s' : S) (r : bres) := Ok (mkBR s' (br_limit b) (begin, snd (m_lc M s')), r) in
        if e1 =? eEOF then fin s1 BEOF
        else if negb (e1 =? eNil) then fin s1 BErr
        else
          let size := le32s hd in
          if size =? 0 then fin s1 BEOF
          else if size <? 0 then fin s1 BErr
          else
            match readfull rf_fuel s1 size [] eNil with
            | Ok (s2, body, e2) =>
                if e2 =? eEOF then fin s2 BEOF
                else if negb (e2 =? eNil) then fin s2 BErr
                else fin s2 (BRec body)
            | Err e => Err e | Panic w => Panic w | Stuck => Stuck
            end
    | Err e => Err e | Panic w => Panic w | Stuck => Stuck
    end.

(** SetChunk(&c). *)
Definition br_setchunk (b : bstate) (c : chunk) : outcome (bstate * Z) :=
  match m_step M (br_s b) (OSeek (fst (fst c)) (snd (fst c))) with
  | Ok (s1, (_, e)) =>
      if negb (e =? eNil) then Ok (mkBR s1 (br_limit b) (br_lc b), e)
      else Ok (mkBR s1 (Some c) (br_lc b), eNil)
  | Err e => Err e | Panic w => Panic w | Stuck => Stuck
  end.

Definition br_clear (b : bstate) : bstate := mkBR (br_s b) None (br_lc b).

(** Sequential reading until something other than a record comes back:
    the records with the chunk LastChunk() reported for each. *)
Fixpoint br_readall (fuel : nat) (b : bstate) : outcome (bstate * list (list Z * chunk) * bres) :=
  match fuel with
  | O => Stuck
  | Datatypes.S fuel' =>
      match br_read b with
      | Ok (b1, BRec body) =>
          match br_readall fuel' b1 with
          | Ok (b2, l, r) => Ok (b2, (body, br_lc b1) :: l, r)
          | Err e => Err e | Panic w => Panic w | Stuck => Stuck
          end
      | Ok (b1, r) => Ok (b1, [], r)
      | Err e => Err e | Panic w => Panic w | Stuck => Stuck
      end
  end.

(** bam.Iterator: Next (one step) over the remaining chunk list;
    result: (state, remaining chunks, Some record | None with the error left in i.err). *)
Fixpoint it_next (b : bstate) (rest : list chunk) : outcome (bstate * list chunk * option (list Z) * Z) :=
  match br_read b with
  | Ok (b1, r) =>
      match r, rest with
      | BRec body, _ => Ok (b1, rest, Some body, eNil)
      | BEOF, c :: rest' =>
          match br_setchunk b1 c with
          | Ok (b2, e) => if negb (e =? eNil) then Ok (b2, rest', None, e) else it_next b2 rest'
          | Err e => Err e | Panic w => Panic w | Stuck => Stuck
          end
      | BEOF, [] => Ok (b1, [], None, eEOF)
      | BErr, _ => Ok (b1, rest, None, eOther)
      end
  | Err e => Err e | Panic w => Panic w | Stuck => Stuck
  end.

Fixpoint it_all (fuel : nat) (b : bstate) (rest : list chunk) : outcome (bstate * list (list Z) * Z) :=
  match fuel with
  | O => Stuck
  | Datatypes.S fuel' =>
      match it_next b rest with
      | Ok (b1, rest1, Some body, _) =>
          match it_all fuel' b1 rest1 with
          | Ok (b2, l, e) => Ok (b2, body :: l, e)
          | Err e => Err e | Panic w => Panic w | Stuck => Stuck
          end
      | Ok (b1, _, None, e) => Ok (b1, [], e)
      | Err e => Err e | Panic w => Panic w | Stuck => Stuck
      end
  end.

(** NewIterator(r, chunks) followed by Next until false. *)
Definition it_run (fuel : nat) (b : bstate) (chunks : list chunk) : outcome (bstate * list (list Z) * Z) :=
  match chunks with
  | [] => it_all fuel b []
  | c :: rest =>
      match br_setchunk b c with
      | Ok (b1, e) => if negb (e =? eNil) then Ok (b1, [], e) else it_all fuel b1 rest
      | Err e => Err e | Panic w => Panic w | Stuck => Stuck
      end
  end.

End Clients.

(** ------------------------------------------------------------------
    Correspondence. *)

(** ChunkReader case: file, optional cache set before (kind, capacity), Blocked
    flag before, chunks, buffer sizes, and per Read what the implementation
    returned: (n, adler, error class). *)
Record crcase := mkCR {
  cr_file : file; cr_cache : option (ckind * Z); cr_blocked : bool;
  cr_chunks : list chunk; cr_bufs : list Z; cr_obs : list (Z * Z * Z) }.

Fixpoint crobs_all (m : list (list Z * Z)) (i : list (Z * Z * Z)) : bool :=
  match m, i with
  | [], [] => true
  | (bs, e) :: m', (n, ad, e') :: i' => (zlen bs =? n) && (adler bs =? ad) && (e =? e') && crobs_all m' i'
  | _, _ => false
  end.

Definition cr_run_on (M : machine) (s0 : MS M) (c : crcase) : bool :=
  let pre := match cr_cache c with Some (k, cap) => [OSetCache k cap] | None => [] end ++ [OBlocked (cr_blocked c)] in
  let s1 := fold_left (fun s o => match m_step M s o with Ok (s', _) => s' | _ => s end) pre s0 in
  match cr_new M s1 (cr_chunks c) with
  | Ok (s2, e) =>
      if negb (e =? eNil) then false
      else match cr_reads M s2 (cr_chunks c) (cr_bufs c) with
           | Ok l => crobs_all l (cr_obs c)
           | _ => false
           end
  | _ => false
  end.

Definition c13_agree (c : crcase) : bool :=
  wf_file (cr_file c) &&
  cr_run_on (rM (cr_file c) []) (fst (r_init (cr_file c))) c &&
  match cr_cache c with
  | None => cr_run_on (vM (cr_file c)) (fst (v_init (cr_file c))) c
  | Some _ => true
  end.

(** BAM case: file (explicit data), per record of the sequential pass (name
    bytes, LastChunk), pairs (i, j) with the names SetChunk(Begin_i, End_j)
    yielded, iterator runs (list of pairs) with the names yielded. *)
Definition rec_name (body : list Z) : list Z :=
  ztake (getz body 8 - 1) (zdrop 32 body).

Record bamcase := mkBam {
  bm_file : file;
  bm_seq : list (list Z * (Z * Z * Z * Z));
  bm_pairs : list (nat * nat * list (list Z));
  bm_iters : list (list (nat * nat) * list (list Z)) }.

Fixpoint names_eqb (a b : list (list Z)) : bool :=
  match a, b with
  | [], [] => true
  | x :: a', y :: b' => zlist_eqb x y && names_eqb a' b'
  | _, _ => false
  end.

Definition chunk4_eqb (c : chunk) (q : Z * Z * Z * Z) : bool :=
  let '(a, b, d, e) := q in chunk_eqb c ((a, b), (d, e)).

Fixpoint seq_eqb (m : list (list Z * chunk)) (i : list (list Z * (Z * Z * Z * Z))) : bool :=
  match m, i with
  | [], [] => true
  | (body, c) :: m', (nm, q) :: i' => zlist_eqb (rec_name body) nm && chunk4_eqb c q && seq_eqb m' i'
  | _, _ => false
  end.

(** Skip the BAM header: magic, l_text, text, n_ref (no references in the generated files). *)
Definition bam_skip_header (M : machine) (s : MS M) : outcome (MS M) :=
  match readfull M 8%nat s 8 [] eNil with
  | Ok (s1, h, e) =>
      if negb (e =? eNil) then Stuck
      else match readfull M 8%nat s1 (le32s (zdrop 4 h) + 4) [] eNil with
           | Ok (s2, _, e2) => if e2 =? eNil then Ok s2 else Stuck
           | Err e => Err e | Panic w => Panic w | Stuck => Stuck
           end
  | Err e => Err e | Panic w => Panic w | Stuck => Stuck
  end.

Definition bam_run_on (M : machine) (s0 : MS M) (c : bamcase) : bool :=
  match bam_skip_header M s0 with
  | Ok s1 =>
      let b0 := mkBR M s1 None (fst (m_lc M s1), snd (m_lc M s1)) in
      let fuel := Datatypes.S (Datatypes.S (length (bm_seq c))) in
      match br_readall M fuel b0 with
      | Ok (b1, recs, BEOF) =>
          seq_eqb recs (bm_seq c) &&
          let chunks := map snd recs in
          let ck (i j : nat) : chunk := (fst (nth i chunks ((0,0),(0,0))), snd (nth j chunks ((0,0),(0,0)))) in
          (* the SetChunk runs and then the Iterator runs, one after the other on the same reader *)
          let '(b3, ok1) :=
            fold_left (fun (acc : bstate M * bool) (p : nat * nat * list (list Z)) =>
                     let '(bb, ok) := acc in
                     let '(i, j, names) := p in
                     match br_setchunk M bb (ck i j) with
                     | Ok (b2, e) =>
                         match br_readall M (2 * fuel)%nat b2 with
                         | Ok (b4, l, BEOF) => (br_clear M b4, ok && (e =? eNil) && names_eqb (map (fun x => rec_name (fst x)) l) names)
                         | _ => (bb, false)
                         end
                     | _ => (bb, false)
                     end) (bm_pairs c) (b1, true) in
          let '(_, ok2) :=
            fold_left (fun (acc : bstate M * bool) (p : list (nat * nat) * list (list Z)) =>
                     let '(bb, ok) := acc in
                     let '(lst, names) := p in
                     match it_run M (4 * fuel * Datatypes.S (length lst))%nat bb (map (fun ij : nat * nat => ck (fst ij) (snd ij)) lst) with
                     | Ok (b4, l, e) => (br_clear M b4, ok && (e =? eEOF) && names_eqb (map rec_name l) names)
                     | _ => (bb, false)
                     end) (bm_iters c) (b3, true) in
          ok1 && ok2
      | _ => false
      end
  | _ => false
  end.

Definition c13bam_agree (c : bamcase) : bool :=
  wf_file (bm_file c) &&
  bam_run_on (vM (bm_file c)) (fst (v_init (bm_file c))) c &&
  bam_run_on (rM (bm_file c) []) (fst (r_init (bm_file c))) c.
