(** C16, model of sam/cigar.go and the coordinate methods of sam/record.go,
    following the Go code statement by statement. A CIGAR is a [list Z] of
    uint32 words. [sam_CigarOp_Type], [sam_CigarOp_Len], [sam_NewCigarOp],
    [sam_consume], [sam_CigarOpType_Consumes] and [sam_Record_Bin] are regenerated from the Go source
    (Generated.v); the loops are written here by hand and are run against the
    implementation on every check. Go [int] is unbounded [Z].
    Executable definitions only. *)
From Hts Require Import Base.Prim Generated.
Open Scope Z_scope.

(** func (ct CigarOpType) Consumes() Consume — generated: types above
    lastCigar are clamped to lastCigar, then [consume[ct]] (a bounds-checked
    index expression). *)
Definition consumes (ct : Z) : outcome (Z * Z) := sam_CigarOpType_Consumes ct.

(** [c[i]] for a Cigar. *)
Definition cigar_at (c : list Z) (i : Z) : outcome Z :=
  if inb c i then Ok (getz c i) else Panic 1.

(** [co.Len() * co.Type().Consumes().<field>] *)
Definition op_consume (co : Z) : outcome (Z * Z * Z) :=
  obind (sam_CigarOp_Len co) (fun n =>
  obind (sam_CigarOp_Type co) (fun ct =>
  obind (consumes ct) (fun con => Ok (n, fst con, snd con)))).

(** func max(a, b int) int { if a < b { return b }; return a } *)
Definition go_max (a b : Z) : Z := if a <? b then b else a.

(** func (r *Record) End() int:
      if r.Flags&Unmapped != 0 || len(r.Cigar) == 0 { return r.Pos + 1 }
      pos := r.Pos; end := pos
      for _, co := range r.Cigar {
          pos += co.Len() * co.Type().Consumes().Reference
          end = max(end, pos)
      }
      return end *)
Fixpoint end_loop (c : list Z) (pos end_ : Z) : outcome Z :=
  match c with
  | [] => Ok end_
  | co :: tl =>
      obind (op_consume co) (fun '(n, _, cr) =>
        let pos := pos + n * cr in
        let end_ := go_max end_ pos in
        end_loop tl pos end_)
  end.

Definition record_end (flags pos : Z) (c : list Z) : outcome Z :=
  if negb (Z.land flags sam_Unmapped =? 0) || (zlen c =? 0) then Ok (pos + 1)
  else end_loop c pos pos.

(** func (r *Record) Start() int { return r.Pos } ; Len() = r.End() - r.Start() *)
Definition record_start (pos : Z) : Z := pos.
Definition record_len (flags pos : Z) (c : list Z) : outcome Z :=
  obind (record_end flags pos c) (fun e => Ok (e - record_start pos)).

(** func (r *Record) Bin() int — generated, applied to the outcome of End(). *)
Definition record_bin (flags pos : Z) (c : list Z) : outcome Z :=
  sam_Record_Bin flags pos (record_end flags pos c).

(** func (c Cigar) Lengths() (ref, read int):
      for _, co := range c {
          con = co.Type().Consumes()
          if co.Type() != CigarBack { ref += co.Len() * con.Reference }
          read += co.Len() * con.Query
      } *)
Fixpoint lengths_loop (c : list Z) (ref read : Z) : outcome (Z * Z) :=
  match c with
  | [] => Ok (ref, read)
  | co :: tl =>
      obind (op_consume co) (fun '(n, cq, cr) =>
      obind (sam_CigarOp_Type co) (fun ct =>
        let ref := if negb (ct =? sam_CigarBack) then ref + n * cr else ref in
        let read := read + n * cq in
        lengths_loop tl ref read))
  end.
Definition cigar_lengths (c : list Z) : outcome (Z * Z) := lengths_loop c 0 0.

(** func (c Cigar) IsValid(length int) bool:
      var pos int
      for i, co := range c {
          ct := co.Type()
          if ct == CigarHardClipped && i != 0 && i != len(c)-1 { return false }
          if ct == CigarSoftClipped && i != 0 && i != len(c)-1 {
              if c[i-1].Type() != CigarHardClipped && c[i+1].Type() != CigarHardClipped { return false }
          }
          con := ct.Consumes()
          if pos < 0 && con.Query != 0 { return false }
          length -= co.Len() * con.Query
          pos += co.Len() * con.Reference
      }
      return length == 0
    [c] is the whole CIGAR, [rest] the part still to visit, [i] its index. *)
Definition type_is_not (c : list Z) (i : Z) (k : Z) : outcome bool :=
  obind (cigar_at c i) (fun co => obind (sam_CigarOp_Type co) (fun ct => Ok (negb (ct =? k)))).

Fixpoint isvalid_loop (c : list Z) (rest : list Z) (i length pos : Z) : outcome bool :=
  match rest with
  | [] => Ok (length =? 0)
  | co :: tl =>
      obind (sam_CigarOp_Type co) (fun ct =>
      let inner := negb (i =? 0) && negb (i =? zlen c - 1) in
      if (ct =? sam_CigarHardClipped) && inner then Ok false else
      obind (if (ct =? sam_CigarSoftClipped) && inner
             then obind (type_is_not c (i - 1) sam_CigarHardClipped) (fun l =>
                    if l then type_is_not c (i + 1) sam_CigarHardClipped else Ok false)
             else Ok false) (fun bad =>
      if bad then Ok false else
      obind (consumes ct) (fun con =>
      if (pos <? 0) && negb (fst con =? 0) then Ok false else
      obind (sam_CigarOp_Len co) (fun n =>
        isvalid_loop c tl (i + 1) (length - n * fst con) (pos + n * snd con)))))
  end.
Definition cigar_isvalid (c : list Z) (length : Z) : outcome bool :=
  isvalid_loop c c 0 length 0.

(** ** Correspondence cases for the record methods *)
Definition out_is {A} (eqb : A -> A -> bool) (o : outcome A) (x : option A) : bool :=
  match o, x with
  | Ok a, Some b => eqb a b
  | Panic _, None => true
  | _, _ => false
  end.

Definition pair_eqb (a b : Z * Z) : bool := (fst a =? fst b) && (snd a =? snd b).

Fixpoint list_eqb (a b : list Z) : bool :=
  match a, b with
  | [], [] => true
  | x :: a', y :: b' => (x =? y) && list_eqb a' b'
  | _, _ => false
  end.

Definition unwrap0 (o : outcome Z) : Z := match o with Ok a => a | _ => -1 end.
