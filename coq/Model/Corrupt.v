(** C10 — byte-level model of the BGZF reader on ARBITRARY bytes.
    Executable definitions only (proofs: Proofs/Corrupt.v).

    Follows compress/gzip (readHeader, Read with multistream) and
    bgzf/reader.go (expectedMemberSize, readMember, readLimited) and
    bgzf/cache.go (readToEOF, readFrom) statement by statement where the
    outcome class depends on it.  DEFLATE and CRC-32 enter as Section
    variables: [inflate bs] = Some (data, rest) when a complete deflate stream
    is a prefix of [bs] ([rest] = the bytes after it), None when decoding
    fails or the bytes run out. *)
From Coq Require Import ZArith List Bool.
From Hts Require Import Base.Prim Generated.
Import ListNotations.
Open Scope Z_scope.

(** Result of reading one unit: a value, a clean io.EOF, or an error. *)
Inductive rd (A : Type) : Type := ROk (a : A) | REof | RErr.
Arguments ROk {A} a.
Arguments REof {A}.
Arguments RErr {A}.

Definition le16 (a b : Z) : Z := a + 256 * b.
Definition le32 (l : list Z) : Z :=
  match l with [a; b; c; d] => a + 256 * b + 65536 * c + 16777216 * d | _ => -1 end.

Fixpoint take_until0 (fuel : nat) (l : list Z) : option (list Z * list Z) :=
  (* gzip readString: bytes up to and including the terminating NUL; at most 512 bytes *)
  match fuel with
  | O => None
  | S f => match l with
           | [] => None
           | x :: r => if x =? 0 then Some ([], r)
                       else match take_until0 f r with Some (s, r') => Some (x :: s, r') | None => None end
           end
  end.

(** bytes.Index(extra, "BC\x02\x00") and the i+5 < len test of expectedMemberSize. *)
Fixpoint member_size (extra : list Z) : option Z :=
  match extra with
  | [] => None
  | x :: r =>
    match extra with
    | 66 :: 67 :: 2 :: 0 :: lo :: hi :: _ => Some (le16 lo hi + 1)
    | 66 :: 67 :: 2 :: 0 :: _ => None   (* found, but no room for the value *)
    | _ => member_size r
    end
  end.

Section Bgzf.
Variable inflate : list Z -> option (list Z * list Z).
Variable crc32 : list Z -> Z.

(** compress/gzip readHeader on the bytes [bs]: (extra field, remaining bytes). *)
Definition gz_header (bs : list Z) : rd (list Z * list Z) :=
  match bs with
  | [] => REof
  | id1 :: id2 :: cm :: flg :: _ :: _ :: _ :: _ :: _ :: _ :: r0 =>
    if negb ((id1 =? 31) && (id2 =? 139) && (cm =? 8)) then RErr
    else
      let hdr10 := firstn 10 bs in
      (* FEXTRA *)
      let ex := if Z.testbit flg 2 then
                  match r0 with
                  | a :: b :: r1 =>
                    let n := Z.to_nat (le16 a b) in
                    if Nat.ltb (length r1) n then None else Some (firstn n r1, skipn n r1, [a; b] ++ firstn n r1)
                  | _ => None
                  end
                else Some ([], r0, []) in
      match ex with
      | None => RErr
      | Some (extra, r1, raw1) =>
        (* FNAME *)
        let nm := if Z.testbit flg 3 then match take_until0 512 r1 with Some (s, r) => Some (r, s ++ [0]) | None => None end else Some (r1, []) in
        match nm with
        | None => RErr
        | Some (r2, raw2) =>
          (* FCOMMENT *)
          let cmt := if Z.testbit flg 4 then match take_until0 512 r2 with Some (s, r) => Some (r, s ++ [0]) | None => None end else Some (r2, []) in
          match cmt with
          | None => RErr
          | Some (r3, raw3) =>
            (* FHCRC *)
            if Z.testbit flg 1 then
              match r3 with
              | a :: b :: r4 => if le16 a b =? Z.land (crc32 (hdr10 ++ raw1 ++ raw2 ++ raw3)) 65535 then ROk (extra, r4) else RErr
              | _ => RErr
              end
            else ROk (extra, r3)
          end
        end
      end
  | _ => RErr   (* 1..9 bytes: io.ErrUnexpectedEOF *)
  end.

(** gzip.Reader.Read to EOF over the bytes of one BGZF member, after its
    first header has been parsed: deflate stream, CRC-32 and ISIZE, then —
    gzip's multistream mode — either no bytes at all (done) or a further gzip
    member.  [acc] is the data so far; readToEOF rejects more than
    MaxBlockSize bytes. *)
Fixpoint gz_body (fuel : nat) (body : list Z) (acc : list Z) : option (list Z) :=
  match fuel with
  | O => None
  | S f =>
    match inflate body with
    | None => None
    | Some (data, rest) =>
      match rest with
      | c0 :: c1 :: c2 :: c3 :: s0 :: s1 :: s2 :: s3 :: rest2 =>
        if negb ((le32 [c0; c1; c2; c3] =? crc32 data) && (le32 [s0; s1; s2; s3] =? zlen data mod 4294967296)) then None
        else
          let acc' := acc ++ data in
          if bgzf_MaxBlockSize <? zlen acc' then
            (* readToEOF: the block buffer holds MaxBlockSize bytes; when it is full the
               extra one-byte read (guarded by `n == bgzf_readToEOF_guard`) finds more data
               and reports io.ErrShortBuffer.  With any other guard constant the first
               MaxBlockSize bytes would be accepted unchecked. *)
            (if bgzf_readToEOF_guard =? bgzf_MaxBlockSize then None else Some (firstn (Z.to_nat bgzf_MaxBlockSize) acc'))
          else match rest2 with
               | [] => Some acc'
               | _ => match gz_header rest2 with
                      | ROk (_, body2) => gz_body f body2 acc'
                      | _ => None
                      end
               end
      | _ => None
      end
    end
  end.

(** decompressor.readMember + block.readFrom on the bytes from the current
    offset: (data of the member, bytes after the member).
    [strict] = the code after the repairs (need <= 0 and a short member are errors). *)
Definition read_member (strict : bool) (bs : list Z) : rd (list Z * list Z) :=
  match gz_header bs with
  | REof => REof
  | RErr => RErr
  | ROk (extra, body) =>
    match member_size extra with
    | None => RErr                                   (* ErrNoBlockSize *)
    | Some size =>
      let skipped := zlen bs - zlen body in
      let need := size - skipped in
      if need =? 0 then (if strict then RErr else REof)
      else if need <? 0 then RErr                    (* ErrCorrupt *)
      else
        (* readLimited: io.ReadFull of need bytes *)
        if zlen body =? 0 then (if strict then RErr else REof)
        else if zlen body <? need then RErr
        else
          let mem := firstn (Z.to_nat need) body in
          let rest := skipn (Z.to_nat need) body in
          match gz_body (S (length mem)) mem [] with
          | Some data => ROk (data, rest)
          | None => RErr
          end
    end
  end.

(** Reader.Read until it returns an error: all data, and whether the end was clean (io.EOF). *)
Fixpoint read_stream (strict : bool) (fuel : nat) (bs : list Z) : list Z * bool :=
  match fuel with
  | O => ([], false)
  | S f =>
    match read_member strict bs with
    | REof => ([], true)
    | RErr => ([], false)
    | ROk (data, rest) => let '(d, ok) := read_stream strict f rest in (data ++ d, ok)
    end
  end.

Definition read_all (strict : bool) (bs : list Z) : list Z * bool := read_stream strict (S (length bs)) bs.

End Bgzf.

(** bgzf.HasEOF on a bytes.Reader: 1 true, 0 false, -1 error (fewer than 28 bytes). *)
Fixpoint zlist_eqb (a b : list Z) : bool :=
  match a, b with
  | [], [] => true
  | x :: r, y :: r' => (x =? y) && zlist_eqb r r'
  | _, _ => false
  end.

Definition has_eof (bs : list Z) : Z :=
  let n := length bs in
  if Nat.ltb n 28 then (-1)
  else if zlist_eqb (skipn (n - 28) bs) bgzf_magicBlock then 1 else 0.

(** * Concrete DEFLATE (stored blocks only) and CRC-32 for the comparison run *)
Fixpoint inflate_stored (fuel : nat) (bs : list Z) (acc : list Z) : option (list Z * list Z) :=
  match fuel with
  | O => None
  | S f =>
    match bs with
    | 3 :: b1 :: r =>
      (* a final fixed-Huffman block holding only the end-of-block code: the payload of the EOF marker *)
      if Z.land b1 3 =? 0 then Some (acc, r) else None
    | h :: l0 :: l1 :: n0 :: n1 :: r =>
      if negb (Z.land (Z.shiftr h 1) 3 =? 0) then None
      else
        let len := le16 l0 l1 in
        if negb (le16 n0 n1 =? 65535 - len) then None
        else if zlen r <? len then None
        else
          let acc' := acc ++ firstn (Z.to_nat len) r in
          let r' := skipn (Z.to_nat len) r in
          if Z.testbit h 0 then Some (acc', r') else inflate_stored f r' acc'
    | _ => None
    end
  end.

Definition inflate0 (bs : list Z) : option (list Z * list Z) := inflate_stored (S (length bs)) bs [].

Fixpoint crc_bits (n : nat) (c : Z) : Z :=
  match n with
  | O => c
  | S n' => crc_bits n' (if Z.testbit c 0 then Z.lxor (Z.shiftr c 1) 3988292384 else Z.shiftr c 1)
  end.
Fixpoint crc_upd (c : Z) (l : list Z) : Z :=
  match l with
  | [] => c
  | b :: r => crc_upd (crc_bits 8 (Z.lxor c b)) r
  end.
Definition crc32_impl (l : list Z) : Z := Z.lxor (crc_upd 4294967295 l) 4294967295.

(** * Comparison with the implementation *)
Record ccase := mkCCase { cc_bytes : list Z; cc_data : list Z; cc_e : Z; cc_eof : Z }.

Definition ccase_agree_v (strict : bool) (c : ccase) : bool :=
  let '(d, ok) := read_all inflate0 crc32_impl strict (cc_bytes c) in
  zlist_eqb d (cc_data c) && Bool.eqb ok (cc_e c =? 0) && (has_eof (cc_bytes c) =? cc_eof c).

Definition ccase_agree (c : ccase) : bool := ccase_agree_v bgzf_reader_strict c.
