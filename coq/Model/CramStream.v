(** The stream readers of cram/cram.go ([errorReader.itf8], [ltf8],
    [itf8slice]) over a byte list, statement by statement.  The decoders they
    call are the generated translations of itf8.Decode / ltf8.Decode.

    The underlying io.Reader is a finite list of bytes followed by an error
    ([er_tail]: 1 = io.EOF, >= 4 = some other error of the underlying reader).
    How the underlying reader cuts the bytes into Read calls does not matter
    to io.ReadFull; the harness varies it and the correspondence checks that. *)
From Hts Require Import Base.Prim Generated.
Open Scope Z_scope.

(** Error classes: 0 nil, 1 io.EOF, 2 io.ErrUnexpectedEOF, 3 "failed to decode", >= 4 other. *)
Definition E_nil : Z := 0.
Definition E_EOF : Z := 1.
Definition E_UEOF : Z := 2.
Definition E_decode : Z := 3.

Record ereader := mkER { er_rest : list Z; er_tail : Z; er_err : Z }.

Definition er_failed (r : ereader) : bool := negb (er_err r =? 0).

(** [_, r.err = io.ReadFull(r, buf[lo:lo+want])]: the bytes stored into the
    buffer and the reader afterwards.
    - empty destination: ReadAtLeast returns (0, nil) without calling Read;
    - errorReader.Read returns the sticky error without touching the source;
    - otherwise Read is called until [want] bytes arrived or the source fails:
      nothing read -> the source's error; some but not all -> ErrUnexpectedEOF
      when the source said EOF, else the source's error. *)
Definition er_readfull (r : ereader) (want : Z) : list Z * ereader :=
  if want <=? 0 then ([], mkER (er_rest r) (er_tail r) 0)
  else if er_failed r then ([], r)
  else
    let got := firstn (Z.to_nat want) (er_rest r) in
    let rest := skipn (Z.to_nat want) (er_rest r) in
    if zlen got =? want then (got, mkER rest (er_tail r) 0)
    else if zlen got =? 0 then ([], mkER rest (er_tail r) (er_tail r))
    else (got, mkER rest (er_tail r) (if er_tail r =? E_EOF then E_UEOF else er_tail r)).

(** copy(buf[off:], src) for a source that fits. *)
Definition blit (buf : list Z) (off : nat) (src : list Z) : list Z :=
  firstn off buf ++ src ++ skipn (off + length src) buf.

Definition set_err (r : ereader) (e : Z) : ereader := mkER (er_rest r) (er_tail r) e.

(** cram.go: func (r *errorReader) itf8() int32 *)
Definition er_itf8 (r : ereader) : outcome (Z * ereader) :=
  let buf := [0; 0; 0; 0; 0] in
  let '(got, r) := er_readfull r 1 in
  let buf := blit buf 0 got in
  if er_failed r then Ok (0, r) else
  obind (itf8_Decode (firstn 1 buf)) (fun '(i, n, ok) =>
  if ok : bool then Ok (i, r) else
  chk ((1 <=? n) && (n <=? 5)) (
  let '(got, r) := er_readfull r (n - 1) in
  let buf := blit buf 1 got in
  if er_failed r then Ok (0, r) else
  obind (itf8_Decode (firstn (Z.to_nat n) buf)) (fun '(i, _, ok) =>
  if ok : bool then Ok (i, r) else Ok (i, set_err r E_decode)))).

(** cram.go: func (r *errorReader) ltf8() int64 *)
Definition er_ltf8 (r : ereader) : outcome (Z * ereader) :=
  let buf := [0; 0; 0; 0; 0; 0; 0; 0; 0] in
  let '(got, r) := er_readfull r 1 in
  let buf := blit buf 0 got in
  if er_failed r then Ok (0, r) else
  obind (ltf8_Decode (firstn 1 buf)) (fun '(i, n, ok) =>
  if ok : bool then Ok (i, r) else
  chk ((1 <=? n) && (n <=? 9)) (
  let '(got, r) := er_readfull r (n - 1) in
  let buf := blit buf 1 got in
  if er_failed r then Ok (0, r) else
  obind (ltf8_Decode (firstn (Z.to_nat n) buf)) (fun '(i, _, ok) =>
  if ok : bool then Ok (i, r) else Ok (i, set_err r E_decode)))).

(** The loop of itf8slice: [for i := range s { s[i] = r.itf8(); if r.err != nil { return s[:i] } }].
    Every pass that does not fail consumes at least one byte, so
    [S (length rest)] passes of fuel always suffice ([Stuck] otherwise). *)
Fixpoint er_slice_loop (fuel : nat) (i n : Z) (r : ereader) (acc : list Z) : outcome (list Z * ereader) :=
  if n <=? i then Ok (rev acc, r) else
  match fuel with
  | O => Stuck
  | S f =>
    obind (er_itf8 r) (fun '(v, r') =>
      if er_failed r' then Ok (rev acc, r')
      else er_slice_loop f (i + 1) n r' (v :: acc))
  end.

(** cram.go: func (r *errorReader) itf8slice() []int32.  A negative count
    reaches make([]int32, n) and panics. *)
Definition er_itf8slice (r : ereader) : outcome (list Z * ereader) :=
  obind (er_itf8 r) (fun '(n, r) =>
    if er_failed r then Ok ([], r)
    else if n =? 0 then Ok ([], r)
    else if n <? 0 then Panic 2
    else er_slice_loop (S (length (er_rest r))) 0 n r []).

(** A script of calls on one errorReader (0 = itf8, 1 = ltf8, other = itf8slice);
    after each call: the values returned, r.err, bytes taken from the source so far. *)
Fixpoint er_run (ops : list Z) (r : ereader) (total : Z) : outcome (list (list Z * Z * Z)) :=
  match ops with
  | [] => Ok []
  | op :: t =>
    obind (if op =? 0 then obind (er_itf8 r) (fun '(v, r') => Ok ([v], r'))
           else if op =? 1 then obind (er_ltf8 r) (fun '(v, r') => Ok ([v], r'))
           else er_itf8slice r)
      (fun '(vals, r') =>
         obind (er_run t r' total) (fun more =>
           Ok ((vals, er_err r', total - zlen (er_rest r')) :: more)))
  end.
