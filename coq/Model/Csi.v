(** Model of csi/csi.go: [Index.Add], [sort], [Chunks], [MergeChunks],
    [reg2bin], [reg2bins] for any (minShift, depth), with the [uint32]
    arithmetic of the bin numbers made explicit.  Executable definitions only. *)
From Hts Require Import Base.Prim Generated Model.Index.
Open Scope Z_scope.

Record cbin := mkCBin { cnum : Z; cleft : Z; crecords : Z; cchunks : list chunk }.
Record cref := mkCRef { cbins : list cbin; cstats : option istats }.
Record cindex := mkCsi {
  c_aux : list Z; c_ver : Z; c_refs : list cref; c_unm : option Z;
  c_ms : Z; c_dp : Z; c_sorted : bool; c_last : Z }.

Definition cs_empty_ref : cref := mkCRef [] None.

(** [csi.New(minShift, depth)] (zero arguments select the defaults), then the
    harness sets Version and Auxilliary. *)
Definition cs_new (ms dp ver : Z) (aux : list Z) : cindex :=
  mkCsi aux ver [] None (u32 (if ms =? 0 then csi_DefaultShift else ms))
        (u32 (if dp =? 0 then csi_DefaultDepth else dp)) false 0.

(** [validIndexPos]: [-1 <= i && i <= (1<<(minShift+depth*nextBinShift)-1)-1] *)
Definition cs_valid_pos (i ms dp : Z) : bool :=
  (-1 <=? i) && (i <=? Z.shiftl 1 (u32 (ms + u32 (dp * csi_nextBinShift))) - 1 - 1).

(** [reg2bin]: the loop runs [level = depth .. 1]. *)
Fixpoint cs_reg2bin_go (level : nat) (beg e s t : Z) : Z :=
  match level with
  | O => 0
  | S l =>
      let off := Z.shiftr beg s in
      if off =? Z.shiftr e s then u32 (t + u32 off)
      else cs_reg2bin_go l beg e (u32 (s + csi_nextBinShift))
             (u32 (t - u32 (Z.shiftl 1 (u32 (Z.of_nat l * csi_nextBinShift)))))
  end.
Definition cs_reg2bin (beg end_ ms dp : Z) : Z :=
  cs_reg2bin_go (Z.to_nat dp) beg (end_ - 1) ms
    (u32 (u32 (u32 (Z.shiftl 1 (u32 (dp * csi_nextBinShift))) - 1) / 7)).

(** [reg2bins]: levels [0 .. depth]. *)
Fixpoint cs_reg2bins_go (n : nat) (level beg e s t : Z) : list Z :=
  match n with
  | O => []
  | S n' =>
      ix_zrange (u32 (t + u32 (Z.shiftr beg s))) (u32 (t + u32 (Z.shiftr e s))) ++
      cs_reg2bins_go n' (level + 1) beg e (s - csi_nextBinShift)
        (u32 (t + u32 (Z.shiftl 1 (u32 (level * csi_nextBinShift)))))
  end.
Definition cs_reg2bins (beg end_ ms dp : Z) : list Z :=
  cs_reg2bins_go (Z.to_nat (dp + 1)) 0 beg (end_ - 1) (u32 (ms + u32 (dp * csi_nextBinShift))) 0.

(** ** Add *)
Fixpoint cs_upd_bins (bs : list cbin) (b : Z) (c : chunk) : option (list cbin) :=
  match bs with
  | [] => None
  | x :: t =>
      if cnum x =? b
      then Some (mkCBin (cnum x) (cleft x) (crecords x + 1) (ix_upd_chunks (cchunks x) c) :: t)
      else match cs_upd_bins t b c with Some t' => Some (x :: t') | None => None end
  end.

Definition cs_grow_refs (rs : list cref) (rid : Z) : list cref :=
  rs ++ repeat cs_empty_ref (Z.to_nat (rid + 1 - zlen rs)).

Definition cs_add (ix : cindex) (r : irec) : outcome cindex :=
  if negb (cs_valid_pos (q_start r) (c_ms ix) (c_dp ix)) || negb (cs_valid_pos (q_end r - 1) (c_ms ix) (c_dp ix))
  then Err 1 else
  let um := match c_unm ix with Some u => u | None => 0 end in
  if negb (q_placed r)
  then Ok (mkCsi (c_aux ix) (c_ver ix) (c_refs ix) (Some (um + 1)) (c_ms ix) (c_dp ix) (c_sorted ix) (c_last ix))
  else
  let rid := q_rid r in
  let n := zlen (c_refs ix) in
  if rid <? n - 1 then Err 2 else
  let grown := rid >=? n in
  let refs := if grown then cs_grow_refs (c_refs ix) rid else c_refs ix in
  let last := if grown then 0 else c_last ix in
  chk (inb refs rid) (
  let ref := nth (Z.to_nat rid) refs cs_empty_ref in
  let c := (q_cb r, q_ce r) in
  let b := cs_reg2bin (q_start r) (q_end r) (c_ms ix) (c_dp ix) in
  let '(bins, sorted) :=
    match cs_upd_bins (cbins ref) b c with
    | Some bs => (bs, c_sorted ix)
    | None => (cbins ref ++ [mkCBin b (fst c) 1 [c]], false)
    end in
  if q_start r <? last then Err 3 else
  let ref' := mkCRef bins (Some (ix_upd_stats (cstats ref) c (q_mapped r))) in
  Ok (mkCsi (c_aux ix) (c_ver ix) (upd_nat refs (Z.to_nat rid) ref') (Some um) (c_ms ix) (c_dp ix) sorted (q_start r))).

Fixpoint cs_add_all (ix : cindex) (rs : list irec) : cindex * list Z * bool :=
  match rs with
  | [] => (ix, [], false)
  | r :: t =>
      match cs_add ix r with
      | Ok ix' => let '(f, codes, p) := cs_add_all ix' t in (f, 0 :: codes, p)
      | Err e => (ix, [e], false)
      | _ => (ix, [], true)
      end
  end.

Fixpoint cs_fold_add (ix : cindex) (rs : list irec) : outcome cindex :=
  match rs with
  | [] => Ok ix
  | r :: t => obind (cs_add ix r) (fun ix' => cs_fold_add ix' t)
  end.

(** ** sort, Chunks, MergeChunks *)
Definition cs_sort_bin (b : cbin) : cbin := mkCBin (cnum b) (cleft b) (crecords b) (ix_isort fst (cchunks b)).
Definition cs_sort_ref (r : cref) : cref := mkCRef (ix_isort cnum (map cs_sort_bin (cbins r))) (cstats r).
Definition cs_sort (ix : cindex) : cindex :=
  if c_sorted ix then ix
  else mkCsi (c_aux ix) (c_ver ix) (map cs_sort_ref (c_refs ix)) (c_unm ix) (c_ms ix) (c_dp ix) true (c_last ix).

(** [sort.Search] over the bins, as in the core (binary search as coded). *)
Definition cs_search (bs : list cbin) (b : Z) : option cbin :=
  let c := ix_bsearch cnum (mkCBin 0 0 0 []) bs b in
  if c <? zlen bs then
    let x := nth (Z.to_nat c) bs (mkCBin 0 0 0 []) in
    if cnum x =? b then Some x else None
  else None.

Definition cs_candidates (ref : cref) (beg end_ ms dp : Z) : list chunk :=
  flat_map (fun b =>
              match cs_search (cbins ref) (u32 b) with
              | None => []
              | Some bn => filter (fun ch => snd ch >? cleft bn) (cchunks bn)
              end) (cs_reg2bins beg end_ ms dp).

(** The chunk list [Chunks] hands to [adjacent] (an out-of-range reference gives nil), and the new state. *)
(** The largest end the geometry covers: [1 << (minShift+depth*3)], or max int64 when that shift is 63 or more. *)
Definition cs_max (ix : cindex) : Z :=
  let s := u32 (c_ms ix + u32 (c_dp ix * csi_nextBinShift)) in
  if s <? 63 then Z.shiftl 1 s else 2 ^ 63 - 1.

Definition cs_chunks (ix : cindex) (rid beg end_ : Z) : list chunk * cindex :=
  if (rid <? 0) || (rid >=? zlen (c_refs ix)) then ([], ix)
  else if (beg <? 0) || (end_ <=? beg) || (beg >=? cs_max ix) then ([], ix)
  else
    let end_ := if end_ >? cs_max ix then cs_max ix else end_ in
    let ix' := cs_sort ix in
    let ref := nth (Z.to_nat rid) (c_refs ix') cs_empty_ref in
    (ix_isort fst (cs_candidates ref beg end_ (c_ms ix') (c_dp ix')), ix').

Definition cs_merge_ref (s : list chunk -> list chunk) (r : cref) : cref :=
  mkCRef (map (fun b => mkCBin (cnum b) (cleft b) (crecords b) (s (ix_isort fst (cchunks b)))) (cbins r)) (cstats r).
Definition cs_merge (s : list chunk -> list chunk) (ix : cindex) : cindex :=
  mkCsi (c_aux ix) (c_ver ix) (map (cs_merge_ref s) (c_refs ix)) (c_unm ix) (c_ms ix) (c_dp ix) (c_sorted ix) (c_last ix).
