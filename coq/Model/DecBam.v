(** C11 — panic-aware models of the binary decoders of package bam and of
    sam.Header.DecodeBinary: the light-weight buffer of bam/reader.go, the
    fixed and variable part of Reader.Read, readCigarOps, parseAux (with the
    jumps table regenerated from the source), Seq.Expand, buildAux, and the
    binary header reader (lText, nRef, lName). Executable definitions only. *)
From Coq Require Import ZArith List Bool.
From Hts Require Import Base.Prim Base.DecBase Generated Model.DecText.
Open Scope Z_scope.

(* ------------------------------------------------------------- the buffer *)

(** buffer{off, data, err}; [data] never changes. *)
Record bst := { b_off : Z; b_err : bool }.
Definition blen (data : list Z) (st : bst) : Z := zlen data - b_off st.

(** unsafeBytes(n) *)
Definition unsafe_bytes (data : list Z) (st : bst) (n : Z) : outcome (list Z * bst) :=
  if b_err st then Ok ([], st) else
  if blen data st <? n then Ok ([], {| b_off := b_off st; b_err := true |}) else
  let s := b_off st in
  let off := s + n in
  chk (slice_ok data s off) (Ok (sub data s off, {| b_off := off; b_err := false |})).

(** discard(n) *)
Definition discard (data : list Z) (st : bst) (n : Z) : bst :=
  if b_err st then st else
  if blen data st <? n then {| b_off := b_off st; b_err := true |} else {| b_off := b_off st + n; b_err := false |}.

(** readUint8: b.off++; return b.data[b.off-1] *)
Definition read_u8 (data : list Z) (st : bst) : outcome (Z * bst) :=
  if b_err st then Ok (0, st) else
  if blen data st <? 1 then Ok (0, {| b_off := b_off st; b_err := true |}) else
  let off := b_off st + 1 in
  chk (inb data (off - 1)) (Ok (getz data (off - 1), {| b_off := off; b_err := false |})).

(** readUint16 / readInt32: length test, unsafeBytes, binary.LittleEndian (which indexes b[w-1]). *)
Definition read_le (w : Z) (data : list Z) (st : bst) : outcome (Z * bst) :=
  if b_err st then Ok (0, st) else
  if blen data st <? w then Ok (0, {| b_off := b_off st; b_err := true |}) else
  r <- unsafe_bytes data st w ;;
  let '(bs, st') := r in
  chk (inb bs (w - 1)) (Ok (le_bytes bs, st')).
Definition read_u16 := read_le 2.
Definition read_i32 (data : list Z) (st : bst) : outcome (Z * bst) :=
  r <- read_le 4 data st ;; let '(v, st') := r in Ok (s32 v, st').

(* ------------------------------------------------------------ readCigarOps *)

(** co := make([]CigarOp, len(cb)/4); co[i] = Uint32(cb[i*4:(i+1)*4]) *)
Fixpoint cigar_ops_loop (cb : list Z) (i : Z) (n : nat) : outcome (list Z) :=
  match n with
  | O => Ok []
  | S n' =>
    chk (slice_ok cb (i * 4) ((i + 1) * 4)) (
    r <- cigar_ops_loop cb (i + 1) n' ;; Ok (le_bytes (sub cb (i * 4) ((i + 1) * 4)) :: r))
  end.
Definition read_cigar_ops (cb : list Z) : outcome (list Z) := cigar_ops_loop cb 0 (Z.to_nat (zlen cb / 4)).

(* ---------------------------------------------------------------- parseAux *)

Fixpoint index_byte (l : list Z) (c : Z) (i : Z) : option Z :=
  match l with [] => None | x :: t => if x =? c then Some i else index_byte t c (i + 1) end.

(** The loop of parseAux from offset [i]. The inner `switch t` has cases for
    'Z','H' and 'B' only: any other type byte with a negative jump would leave
    [i] unchanged (the model then runs out of fuel: Stuck). *)
Fixpoint parse_aux_loop (aux : list Z) (i : Z) (fuel : nat) : outcome (list (list Z)) :=
  match fuel with
  | O => Stuck
  | S f =>
    if negb (i + 2 <? zlen aux) then Ok [] else
    chk (inb aux (i + 2)) (
    let t := getz aux (i + 2) in
    chk (inb c11_jumps t) (
    let j := getz c11_jumps t in
    if 0 <? j then
      let j := j + 3 in
      if zlen aux <? i + j then Err 1 else
      chk (slice_ok aux i (i + j)) (
      r <- parse_aux_loop aux (i + j) f ;; Ok (sub aux i (i + j) :: r))
    else if j <? 0 then
      if (t =? 90) || (t =? 72) then
        chk (slice_ok aux (i + 3) (zlen aux)) (
        match index_byte (sub aux (i + 3) (zlen aux)) 0 0 with
        | None => Err 2
        | Some j0 =>
          let j := j0 + 3 in
          chk (slice_ok aux i (i + j)) (
          r <- parse_aux_loop aux (i + j + 1) f ;; Ok (sub aux i (i + j) :: r))
        end)
      else if t =? 66 then
        if zlen aux <? i + 8 then Err 3 else
        chk (inb aux (i + 3)) (
        chk (inb c11_jumps (getz aux (i + 3))) (
        let size := getz c11_jumps (getz aux (i + 3)) in
        if size <=? 0 then Err 4 else
        chk (slice_ok aux (i + 4) (i + 8)) (
        let length := le_bytes (sub aux (i + 4) (i + 8)) in
        let j := length * size + 4 + 4 in
        if (j <? 0) || (i + j <? 0) || (zlen aux <? i + j) then Err 5 else
        chk (slice_ok aux i (i + j)) (
        r <- parse_aux_loop aux (i + j) f ;; Ok (sub aux i (i + j) :: r)))))
      else parse_aux_loop aux i f
    else Err 6))
  end.

(** parseAux *)
Definition bam_parse_aux (aux : list Z) : outcome (list (list Z)) :=
  if zlen aux =? 0 then Ok [] else parse_aux_loop aux 0 (S (length aux)).

(* ------------------------------------------------------------- Reader.Read *)

Record brec := {
  r_ref : Z; r_pos : Z; r_name : list Z; r_mapq : Z; r_cigar : list Z; r_flags : Z;
  r_lseq : Z; r_seq : list Z; r_qual : list Z; r_mref : Z; r_mpos : Z; r_tlen : Z; r_aux : list (list Z) }.

(** The body of Reader.Read after newBuffer returned the record block [data];
    [omit] is the Omit setting, [nrefs] the number of references of the header. *)
Definition bam_record (data : list Z) (omit nrefs : Z) : outcome brec :=
  let st := {| b_off := 0; b_err := false |} in
  a <- read_i32 data st ;; let '(refID, st) := a in
  a <- read_i32 data st ;; let '(pos, st) := a in
  a <- read_u8 data st ;; let '(nLen, st) := a in
  a <- read_u8 data st ;; let '(mapq, st) := a in
  let st := discard data st 2 in
  a <- read_u16 data st ;; let '(nCigar, st) := a in
  a <- read_u16 data st ;; let '(flags, st) := a in
  a <- read_i32 data st ;; let '(lSeq, st) := a in
  a <- read_i32 data st ;; let '(nextRefID, st) := a in
  a <- read_i32 data st ;; let '(matePos, st) := a in
  a <- read_i32 data st ;; let '(tempLen, st) := a in
  if nLen <? 1 then Err 1 else
  a <- unsafe_bytes data st (nLen - 1) ;; let '(name, st) := a in
  let st := discard data st 1 in
  a <- unsafe_bytes data st (nCigar * 4) ;; let '(cb, st) := a in
  cigar <- read_cigar_ops cb ;;
  var <- (if 2 <=? omit then Ok ([], [], [], st) else
          if lSeq <? 0 then Err 2 else
          a <- unsafe_bytes data st (Z.shiftr lSeq 1 + Z.land lSeq 1) ;; let '(seq, st) := a in
          a <- unsafe_bytes data st lSeq ;; let '(qual, st) := a in
          if 1 <=? omit then Ok (seq, qual, [], st) else
          a <- unsafe_bytes data st (blen data st) ;; let '(auxb, st) := a in
          aux <- bam_parse_aux auxb ;;
          Ok (seq, qual, aux, st)) ;;
  let '(seq, qual, aux, st) := var in
  if b_err st then Err 3 else
  (* rec.Ref = br.h.Refs()[refID] *)
  _ <- (if negb (refID =? -1) then
          if (refID <? -1) || (nrefs <=? refID) then Err 4 else chk ((0 <=? refID) && (refID <? nrefs)) (Ok tt)
        else Ok tt) ;;
  _ <- (if negb (nextRefID =? -1) then
          if refID =? nextRefID then Ok tt else
          if (nextRefID <? -1) || (nrefs <=? nextRefID) then Err 5 else chk ((0 <=? nextRefID) && (nextRefID <? nrefs)) (Ok tt)
        else Ok tt) ;;
  Ok {| r_ref := refID; r_pos := pos; r_name := name; r_mapq := mapq; r_cigar := cigar; r_flags := flags;
        r_lseq := (if 2 <=? omit then 0 else lSeq); r_seq := seq; r_qual := qual; r_mref := nextRefID; r_mpos := matePos;
        r_tlen := tempLen; r_aux := aux |}.

(* ------------------------------------------------ accessors on the record *)

(** Seq.Expand: s := make([]byte, ns.Length); for i := range s { ... n16TableRev[ns.Seq[i>>1] >> 4 or & 0xf] } *)
Fixpoint expand_loop (seq : list Z) (i : Z) (n : nat) : outcome unit :=
  match n with
  | O => Ok tt
  | S n' =>
    chk (inb seq (Z.shiftr i 1)) (
    let d := getz seq (Z.shiftr i 1) in
    let k := if Z.land i 1 =? 0 then Z.shiftr d 4 else Z.land d 15 in
    chk (inb c11_n16TableRev k) (expand_loop seq (i + 1) n'))
  end.
Definition seq_expand (length : Z) (seq : list Z) : outcome unit :=
  chk (make_ok length) (expand_loop seq 0 (Z.to_nat length)).

(** buildAux (bam.Writer.Write): a.Type() for every field. *)
Fixpoint build_aux (aa : list (list Z)) : outcome unit :=
  match aa with [] => Ok tt | a :: t => _ <- aux_type a ;; build_aux t end.

Fixpoint all_aux_safe (aa : list (list Z)) : outcome unit :=
  match aa with
  | [] => Ok tt
  | a :: t => _ <- aux_tag a ;; _ <- aux_kind a ;; _ <- aux_value a ;; _ <- aux_string a ;; all_aux_safe t
  end.

(** Everything the library does with a record it returned: End/Bin/Len (table
    look-ups), IsValid, Lengths, Seq.Expand (String, MarshalSAM), the Aux
    accessors and formatters, buildAux (bam.Writer.Write). *)
Definition record_accessors (r : brec) : outcome unit :=
  _ <- record_end (negb (Z.land (r_flags r) sam_Unmapped =? 0)) (r_pos r) (r_cigar r) ;;
  _ <- cigar_is_valid (r_cigar r) (r_lseq r) ;;
  _ <- lengths_loop 0 0 (r_cigar r) ;;
  _ <- seq_expand (r_lseq r) (r_seq r) ;;
  _ <- all_aux_safe (r_aux r) ;;
  build_aux (r_aux r).

(* -------------------------------------------------- Header.DecodeBinary *)

(** r.Read(p) of a bytes.Reader with len(p) = n: (0, EOF) at the end, else min(n, remaining). *)
Definition reader_read (n : Z) (s : list Z) : option (list Z * list Z) :=
  if zlen s =? 0 then None else
  let k := Z.min n (zlen s) in Some (firstn (Z.to_nat k) s, skipn (Z.to_nat k) s).

Definition bamMagic : list Z := [66; 65; 77; 1].

(** readRefRecords *)
Fixpoint ref_records (s : list Z) (i n : Z) (fuel : nat) : outcome (list (list Z * Z) * list Z) :=
  match fuel with
  | O => Stuck
  | S f =>
    if negb (i <? n) then Ok ([], s) else
    a <- rd_i32 s ;; let '(lName, s) := a in
    if lName <? 1 then Err 1 else
    chk (make_ok lName) (
    match reader_read lName s with
    | None => Err 9
    | Some (name, s) =>
      let k := zlen name in
      (* if n != int(lName) || name[n-1] != 0 *)
      if negb (k =? lName) then Err 2 else
      chk (inb name (k - 1)) (
      if negb (getz name (k - 1) =? 0) then Err 2 else
      chk (slice_ok name 0 (k - 1)) (
      a <- rd_i32 s ;; let '(lRef, s) := a in
      r <- ref_records s (i + 1) n f ;; let '(rs, s') := r in
      Ok ((sub name 0 (k - 1), lRef) :: rs, s')))
    end)
  end.

(** DecodeBinary; [text_ok] answers UnmarshalText + AddReference (library /
    header state), the text parser itself is modelled in DecText. *)
Definition decode_binary_header (lib : hlib) (refs_ok : bool) (s : list Z) : outcome (list (list Z * Z)) :=
  match take 4 s with
  | None => Err 9
  | Some (magic, s) =>
    if negb (zeqb magic bamMagic) then Err 1 else
    a <- rd_i32 s ;; let '(lText, s) := a in
    if lText <? 0 then Err 2 else
    chk (make_ok lText) (
    match reader_read lText s with
    | None => Err 9
    | Some (text, s) =>
      if negb (zlen text =? lText) then Err 3 else
      _ <- unmarshal_header_text lib text ;;
      a <- rd_i32 s ;; let '(nRef, s) := a in
      if nRef <? 0 then Err 4 else
      r <- ref_records s 0 nRef (S (length s)) ;;
      if refs_ok then Ok (fst r) else Err 5
    end)
  end.

(* --------------------------------------------------- correspondence cases *)

Inductive c11bam :=
| BRecord (data : list Z) (omit nrefs : Z) (cl : Z)
          (ref pos namelen ncig flags lseq nseq nqual : Z) (auxlens : list Z) (acc_panic : bool)
| BAuxVal (a : list Z) (cl : Z)
| BHeader (s : list Z) (cl : Z) (nref : Z).

Definition c11bam_agree (c : c11bam) : bool :=
  match c with
  | BRecord data omit nrefs cl ref pos namelen ncig flags lseq nseq nqual auxlens ap =>
    match bam_record data omit nrefs with
    | Ok r => (cl =? 0) && (r_ref r =? ref) && (r_pos r =? pos) && (zlen (r_name r) =? namelen) && (zlen (r_cigar r) =? ncig)
              && (r_flags r =? flags) && (r_lseq r =? lseq) && (zlen (r_seq r) =? nseq) && (zlen (r_qual r) =? nqual)
              && zeqb (map zlen (r_aux r)) auxlens && Bool.eqb (is_panic (record_accessors r)) ap
    | o => cls o =? cl
    end
  | BAuxVal a cl => cls (aux_value a) =? cl
  | BHeader s cl nref =>
    if cl =? 2 then (cls (decode_binary_header (hlib_const true) true s) =? 2)
    else match decode_binary_header (hlib_const (cl =? 0)) (cl =? 0) s with
         | Ok rs => (cl =? 0) && (zlen rs =? nref)
         | o => cls o =? cl
         end
  end.
