(** C11 — panic-aware model of the BGZF member header handling of
    bgzf/reader.go: decompressor.readMember = gzip.Reader.Reset (the RFC 1952
    header walk of compress/gzip: fixed part, FEXTRA with XLEN, FNAME, FCOMMENT,
    FHCRC), expectedMemberSize (the Gallina translation regenerated from the Go
    source, [c11_expectedMemberSize], with bytes.Index passed in), the
    need = blockSize - skipped arithmetic, and buffer.readLimited
    (r.data[:n] of the 64 KiB array). Executable definitions only. *)
From Coq Require Import ZArith List Bool.
From Hts Require Import Base.Prim Base.DecBase Generated Model.DecText.
Open Scope Z_scope.

(** bytes.Index(s, sep): first position of sep in s, -1 if absent. *)
Fixpoint is_prefix (p s : list Z) : bool :=
  match p, s with
  | [], _ => true
  | x :: p', y :: s' => (x =? y) && is_prefix p' s'
  | _ :: _, [] => false
  end.
Fixpoint bytes_index_from (s sep : list Z) (i : Z) : Z :=
  if is_prefix sep s then i else
  match s with [] => -1 | _ :: t => bytes_index_from t sep (i + 1) end.
Definition bytes_index (s sep : list Z) : Z := bytes_index_from s sep 0.

(** expectedMemberSize(h) on h.Extra *)
Definition expected_member_size (extra : list Z) : outcome Z := c11_expectedMemberSize bytes_index extra.

(** gzip.Reader.readString: bytes up to a NUL, at most 512 including it. Returns the rest. *)
Fixpoint gz_read_string (s : list Z) (i : Z) : outcome (list Z) :=
  match s with
  | [] => Err 9
  | c :: t => if 512 <=? i then Err 1 else if c =? 0 then Ok t else gz_read_string t (i + 1)
  end.

(** FEXTRA: two byte length, then make([]byte, xlen) and ReadFull. *)
Definition gz_extra (flg : Z) (s : list Z) : outcome (list Z * list Z) :=
  if negb (Z.land flg 4 =? 0) then
    a <- rd_u 2 s ;; let '(xlen, s) := a in
    chk (make_ok xlen) (match take xlen s with None => Err 9 | Some (e, s) => Ok (e, s) end)
  else Ok ([], s).
Definition gz_skip_string (on : bool) (s : list Z) : outcome (list Z) :=
  if on then gz_read_string s 0 else Ok s.
Definition gz_hcrc (on hcrc_ok : bool) (s : list Z) : outcome (list Z) :=
  if on then match take 2 s with None => Err 9 | Some (_, s) => if hcrc_ok then Ok s else Err 1 end else Ok s.

(** gzip.Reader.readHeader as used by Reset. [hcrc_ok] answers the header CRC
    comparison. Returns h.Extra and the rest of the input. *)
Definition gz_read_header (hcrc_ok : bool) (s : list Z) : outcome (list Z * list Z) :=
  match take 10 s with
  | None => Err 9
  | Some (h, s) =>
    if negb ((getz h 0 =? 31) && (getz h 1 =? 139) && (getz h 2 =? 8)) then Err 1 else
    let flg := getz h 3 in
    x <- gz_extra flg s ;;
    let '(extra, s) := x in
    s <- gz_skip_string (negb (Z.land flg 8 =? 0)) s ;;
    s <- gz_skip_string (negb (Z.land flg 16 =? 0)) s ;;
    s <- gz_hcrc (negb (Z.land flg 2 =? 0)) hcrc_ok s ;;
    Ok (extra, s)
  end.

Definition maxBlockSize : Z := bgzf_MaxBlockSize.

(** decompressor.readMember up to and including buf.readLimited(need, d.cr).
    Error codes: 1 gzip header, 2 ErrNoBlockSize, 3 ErrCorrupt (need <= 0), 9 short input (io.ErrUnexpectedEOF). *)
Definition bgzf_read_member (hcrc_ok : bool) (s : list Z) : outcome Z :=
  x <- gz_read_header hcrc_ok s ;;
  let '(extra, rest) := x in
  blockSize <- expected_member_size extra ;;
  if blockSize <? 0 then Err 2 else
  let skipped := zlen s - zlen rest in
  let need := blockSize - skipped in
  (* if need <= 0 { return ErrCorrupt } *)
  if need <=? 0 then Err 3 else
  (* r.size, err = io.ReadFull(src, r.data[:n]) with data [MaxBlockSize]byte *)
  chk ((0 <=? need) && (need <=? maxBlockSize)) (
  match take need rest with None => Err 9 | Some _ => Ok need end).

Inductive c11bgzf :=
| GMember (s : list Z) (cl : Z) (noblocksize : bool).

(** cl: observed class of bgzf.NewReader (0 ok, 1 error, 2 panic); after a
    successful readMember the library still inflates the data, which can fail. *)
Definition c11bgzf_agree (c : c11bgzf) : bool :=
  match c with
  | GMember s cl nbs =>
    let agree1 (o : outcome Z) :=
      match o with
      | Ok _ => negb (cl =? 2) && negb nbs
      | Err 2 => (cl =? 1) && nbs
      | Err _ => (cl =? 1) && negb nbs
      | Panic _ => cl =? 2
      | Stuck => false
      end in
    (* the header CRC answer is not observable: either answer must explain the observation *)
    agree1 (bgzf_read_member true s) || agree1 (bgzf_read_member false s)
  end.

(* --------------------------------------------------------------- Reader.Seek *)

(** What Seek depends on of the current block: the base offset it was fetched
    for and whether it holds decompressed data (block.buf != nil). A failed
    fetch or inflate leaves the block re-based to the requested offset without
    data (decompressor.nextBlockAt: setBase; block.readFrom: b.buf = nil). *)
Record rstate := { cur_base : Z; cur_has : bool }.

(** block.seek(offset): b.buf.Seek — a nil *bytes.Reader is dereferenced when the block has no data. *)
Definition block_seek (st : rstate) (seek_ok : bool) : rstate * outcome unit :=
  if cur_has st then (st, if seek_ok then Ok tt else Err 2) else (st, Panic 2).

(** Reader.Seek(off): the guard is [c11_seek_guard], translated from the source.
    [hit]: cacheSwap found the block (cached blocks hold data); [fetch_ok]:
    nextBlockAt(off.File).wait() succeeded; [seek_ok]: off.Block is inside the data. *)
Definition reader_seek (st : rstate) (off_file : Z) (hit fetch_ok seek_ok : bool) : rstate * outcome unit :=
  if c11_seek_guard off_file (cur_base st) (cur_has st) then
    if hit then block_seek {| cur_base := off_file; cur_has := true |} seek_ok
    else if fetch_ok then block_seek {| cur_base := off_file; cur_has := true |} seek_ok
    else ({| cur_base := off_file; cur_has := false |}, Err 1)
  else block_seek st seek_ok.

(** A history of Seek calls. *)
Fixpoint seek_history (st : rstate) (h : list (Z * bool * bool * bool)) : outcome unit :=
  match h with
  | [] => Ok tt
  | (off, hit, ok, sk) :: t =>
    match reader_seek st off hit ok sk with
    | (_, Panic w) => Panic w
    | (_, Stuck) => Stuck
    | (st', _) => seek_history st' t
    end
  end.
