(** C11 — panic-aware models of the CRAM readers (cram/cram.go): the sticky
    errorReader with itf8 / ltf8 / itf8slice (ITF-8 and LTF-8 Decode are the
    Gallina translations regenerated from the Go source), Container.readFrom,
    Block.readFrom and Block.Value (file header and slice header branches,
    expandBlockdata). CRC-32 and the decompressors are parameters.
    Executable definitions only. *)
From Coq Require Import ZArith List Bool.
From Hts Require Import Base.Prim Base.DecBase Generated Model.DecText.
Open Scope Z_scope.

(** errorReader: the rest of the input and the sticky error flag. *)
Record er := { e_s : list Z; e_err : bool }.

(** io.ReadFull(r, buf) with len(buf) = n through errorReader.Read. *)
Definition er_full (n : Z) (r : er) : option (list Z) * er :=
  if e_err r then (None, r) else
  if n =? 0 then (Some [], r) else
  match take n (e_s r) with
  | Some (b, s') => (Some b, {| e_s := s'; e_err := false |})
  | None => (None, {| e_s := []; e_err := true |})
  end.

(** errorReader.itf8: buf [5]byte; Decode(buf[:1]); ReadFull(r, buf[1:n]); Decode(buf[:n]). *)
Definition er_itf8 (r : er) : outcome (Z * er) :=
  match er_full 1 r with
  | (None, r) => Ok (0, {| e_s := e_s r; e_err := true |})
  | (Some b0, r) =>
    d <- itf8_Decode b0 ;;
    let '(i, n, ok) := d in
    if ok then Ok (i, r) else
    chk ((1 <=? n) && (n <=? 5)) (
    match er_full (n - 1) r with
    | (None, r) => Ok (0, {| e_s := e_s r; e_err := true |})
    | (Some b, r) =>
      chk ((0 <=? n) && (n <=? 5)) (
      d <- itf8_Decode (b0 ++ b) ;;
      let '(i, _, ok) := d in
      Ok (i, {| e_s := e_s r; e_err := negb ok |}))
    end)
  end.

(** errorReader.ltf8: buf [9]byte. *)
Definition er_ltf8 (r : er) : outcome (Z * er) :=
  match er_full 1 r with
  | (None, r) => Ok (0, {| e_s := e_s r; e_err := true |})
  | (Some b0, r) =>
    d <- ltf8_Decode b0 ;;
    let '(i, n, ok) := d in
    if ok then Ok (i, r) else
    chk ((1 <=? n) && (n <=? 9)) (
    match er_full (n - 1) r with
    | (None, r) => Ok (0, {| e_s := e_s r; e_err := true |})
    | (Some b, r) =>
      chk ((0 <=? n) && (n <=? 9)) (
      d <- ltf8_Decode (b0 ++ b) ;;
      let '(i, _, ok) := d in
      Ok (i, {| e_s := e_s r; e_err := negb ok |}))
    end)
  end.

(** for i := range s { s[i] = r.itf8(); if r.err != nil { return s[:i] } } *)
Fixpoint itf8slice_loop (r : er) (i n : Z) (fuel : nat) : outcome (list Z * er) :=
  match fuel with
  | O => Stuck
  | S f =>
    if negb (i <? n) then Ok ([], r) else
    a <- er_itf8 r ;; let '(v, r) := a in
    if e_err r then chk ((0 <=? i) && (i <=? n)) (Ok ([], r)) else
    x <- itf8slice_loop r (i + 1) n f ;; let '(vs, r) := x in Ok (v :: vs, r)
  end.

(** errorReader.itf8slice *)
Definition er_itf8slice (r : er) : outcome (list Z * er) :=
  a <- er_itf8 r ;; let '(n, r) := a in
  if e_err r then Ok ([], r) else
  if n =? 0 then Ok ([], r) else
  if n <? 0 then Ok ([], {| e_s := e_s r; e_err := true |}) else
  chk (make_ok n) (itf8slice_loop r 0 n (S (length (e_s r)))).

(** Container.readFrom: header fields, landmarks, CRC. Returns blockLen and the rest. *)
Definition container_read (crc_ok : bool) (s : list Z) : outcome (Z * list Z) :=
  let r := {| e_s := s; e_err := false |} in
  let '(b, r) := er_full 4 r in
  let blockLen := match b with Some b => s32 (le_bytes b) | None => 0 end in
  a <- er_itf8 r ;; let '(_, r) := a in
  a <- er_itf8 r ;; let '(_, r) := a in
  a <- er_itf8 r ;; let '(_, r) := a in
  a <- er_itf8 r ;; let '(_, r) := a in
  a <- er_ltf8 r ;; let '(_, r) := a in
  a <- er_ltf8 r ;; let '(_, r) := a in
  a <- er_itf8 r ;; let '(_, r) := a in
  a <- er_itf8slice r ;; let '(_, r) := a in
  match er_full 4 r with
  | (None, _) => Err 9
  | (Some _, r) => if negb crc_ok then Err 2 else if e_err r then Err 9 else Ok (blockLen, e_s r)
  end.

Record block := { k_method : Z; k_typ : Z; k_data : list Z }.

(** Block.readFrom *)
Definition block_read (crc_ok : bool) (s : list Z) : outcome (block * list Z) :=
  let r := {| e_s := s; e_err := false |} in
  let '(b, r) := er_full 2 r in
  let method := match b with Some b => getz b 0 | None => 0 end in
  let typ := match b with Some b => getz b 1 | None => 0 end in
  a <- er_itf8 r ;; let '(_, r) := a in
  a <- er_itf8 r ;; let '(compressedSize, r) := a in
  a <- er_itf8 r ;; let '(rawSize, r) := a in
  if (method =? cram_rawMethod) && negb (compressedSize =? rawSize) then Err 1 else
  if compressedSize <? 0 then Err 2 else
  chk (make_ok compressedSize) (
  match er_full compressedSize r with
  | (None, _) => Err 9
  | (Some data, r) =>
    match er_full 4 r with
    | (None, _) => Err 9
    | (Some _, r) => if crc_ok then Ok ({| k_method := method; k_typ := typ; k_data := data |}, e_s r) else Err 3
    end
  end).

(** expandBlockdata; [unz m data] answers gzip / bzip2 / lzma. *)
Definition expand_blockdata (unz : Z -> list Z -> option (list Z)) (b : block) : outcome (list Z) :=
  let m := k_method b in
  if m =? cram_rawMethod then Ok (k_data b)
  else if (m =? cram_gzipMethod) || (m =? cram_bzip2Method) || (m =? cram_lzmaMethod) then
    match unz m (k_data b) with Some d => Ok d | None => Err 4 end
  else if m =? cram_ransMethod then Err 5
  else Err 6.

(** Slice.readFrom up to the block id array (errors of the reader are ignored by Value). *)
Definition slice_read (data : list Z) : outcome unit :=
  let r := {| e_s := data; e_err := false |} in
  a <- er_itf8 r ;; let '(_, r) := a in
  a <- er_itf8 r ;; let '(_, r) := a in
  a <- er_itf8 r ;; let '(_, r) := a in
  a <- er_itf8 r ;; let '(_, r) := a in
  a <- er_ltf8 r ;; let '(_, r) := a in
  a <- er_itf8 r ;; let '(_, r) := a in
  a <- er_itf8slice r ;; let '(_, r) := a in
  a <- er_itf8 r ;; let '(_, r) := a in
  Ok tt.

(** Block.Value *)
Definition block_value (unz : Z -> list Z -> option (list Z)) (lib : hlib) (b : block) : outcome unit :=
  if k_typ b =? cram_fileHeader then
    d <- expand_blockdata unz b ;;
    if zlen d <? 4 then Err 7 else
    chk (slice_ok d 0 4) (
    let end_ := le_bytes (sub d 0 4) in
    if zlen d - 4 <? end_ then Err 8 else
    chk (slice_ok d 4 (4 + end_)) (unmarshal_header_text lib (sub d 4 (4 + end_))))
  else if k_typ b =? cram_mappedSliceHeader then slice_read (k_data b)
  else
    let m := k_method b in
    if (m =? cram_gzipMethod) || (m =? cram_bzip2Method) || (m =? cram_lzmaMethod) then
      _ <- expand_blockdata unz b ;; Ok tt
    else Ok tt.

(* --------------------------------------------------- correspondence cases *)

Inductive c11cram :=
| CItf8Slice (s : list Z) (cl n : Z)
| CBlocks (s : list Z) (value_panic : bool).

(** Every block of a raw container body: read it, take its Value. *)
Fixpoint blocks_value_panics (s : list Z) (fuel : nat) : bool :=
  match fuel with
  | O => false
  | S f =>
    match block_read true s with
    | Ok (b, s') => is_panic (block_value (fun _ _ => None) (hlib_const true) b)
                    || is_panic (block_value (fun _ d => Some d) (hlib_const true) b) || blocks_value_panics s' f
    | Panic _ => true
    | _ => false
    end
  end.

Definition c11cram_agree (c : c11cram) : bool :=
  match c with
  | CItf8Slice s cl n =>
    match er_itf8slice {| e_s := s; e_err := false |} with
    | Ok (vs, r) => negb (cl =? 2) && (zlen vs =? n) && Bool.eqb (e_err r) (cl =? 1)
    | o => cls o =? cl
    end
  | CBlocks s vp => Bool.eqb (blocks_value_panics s 8) vp
  end.
