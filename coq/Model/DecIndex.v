(** C11 — panic-aware models of the index readers: internal.ReadIndex with
    readIndices / readBins / readChunks / readStats / readIntervals
    (internal/index_read.go), bam.ReadIndex (bam/index.go), tabix.ReadFrom and
    readTabixHeader (tabix/tabix.go), csi.ReadFrom with its own readIndices /
    readBins / readChunks (csi/csi_read.go), and of fai.ReadFrom's field
    conversion with Record.Position (fai/fai.go).  Counts taken from the input
    feed make(); every loop consumes input or fails, so the fuel is the length
    of the remaining input. Executable definitions only. *)
From Coq Require Import ZArith List Bool.
From Hts Require Import Base.Prim Base.DecBase Generated Model.DecText.
Open Scope Z_scope.

(* ------------------------------------------------ internal/index_read.go *)

(** readChunks: n chunks of 16 bytes (io.ReadFull). *)
Fixpoint chunks_loop (s : list Z) (i n : Z) (fuel : nat) : outcome (list Z) :=
  match fuel with
  | O => Stuck
  | S f =>
    if negb (i <? n) then Ok s else
    match take 16 s with
    | None => Err 9
    | Some (_, s') => chunks_loop s' (i + 1) n f
    end
  end.
Definition read_chunks (s : list Z) (n : Z) : outcome (list Z) :=
  if n =? 0 then Ok s else
  if n <? 0 then Err 1 else
  chk (make_ok n) (chunks_loop s 0 n (S (length s))).

(** readStats: four 64 bit words. *)
Definition read_stats (s : list Z) : outcome (list Z) :=
  match take 32 s with None => Err 9 | Some (_, s') => Ok s' end.

(** readIntervals: offsets in portions of 512 (vOffs[:l], offsets[i+k]). *)
Fixpoint intervals_loop (s : list Z) (i n : Z) (fuel : nat) : outcome (list Z) :=
  match fuel with
  | O => Stuck
  | S f =>
    if negb (i <? n) then Ok s else
    let l := Z.min (n - i) 512 in
    chk ((0 <=? l) && (l <=? 512)) (
    match take (8 * l) s with
    | None => Err 9
    | Some (_, s') =>
      chk ((l =? 0) || ((0 <=? i) && (i + (l - 1) <? n))) (intervals_loop s' (i + 512) n f)
    end)
  end.
Definition read_intervals (s : list Z) : outcome (list Z) :=
  a <- rd_i32 s ;; let '(n, s) := a in
  if n =? 0 then Ok s else
  if n <? 0 then Err 1 else
  chk (make_ok n) (intervals_loop s 0 n (S (length s))).

(** readBins: for i := 0; i < len(bins); i++ { bins[i].Bin; n; dummy bin: bins = bins[:len(bins)-1]; i-- } *)
Fixpoint bins_loop (dummy : Z) (s : list Z) (i len : Z) (fuel : nat) : outcome (list Z) :=
  match fuel with
  | O => Stuck
  | S f =>
    if negb (i <? len) then Ok s else
    chk ((0 <=? i) && (i <? len)) (
    a <- rd_u 4 s ;; let '(bin, s) := a in
    a <- rd_i32 s ;; let '(n, s) := a in
    if bin =? dummy then
      if negb (n =? 2) then Err 2 else
      s <- read_stats s ;;
      chk (0 <=? len - 1) (bins_loop dummy s i (len - 1) f)
    else
      s <- read_chunks s n ;; bins_loop dummy s (i + 1) len f)
  end.
Definition read_bins (s : list Z) : outcome (list Z) :=
  a <- rd_i32 s ;; let '(n, s) := a in
  if n =? 0 then Ok s else
  if n <? 0 then Err 1 else
  chk (make_ok n) (bins_loop internal_StatsDummyBin s 0 n (S (length s))).

(** readIndices *)
Fixpoint indices_loop (s : list Z) (i n : Z) (fuel : nat) : outcome (list Z) :=
  match fuel with
  | O => Stuck
  | S f =>
    if negb (i <? n) then Ok s else
    s <- read_bins s ;;
    s <- read_intervals s ;;
    indices_loop s (i + 1) n f
  end.
Definition read_indices (s : list Z) (n : Z) : outcome (list Z) :=
  if n <? 0 then Err 1 else
  chk (make_ok n) (indices_loop s 0 n (S (length s))).

(** internal.ReadIndex: the references, then an optional 64 bit count
    (io.EOF = absent, anything shorter is an error). Returns the number of references. *)
Definition read_index (s : list Z) (n : Z) : outcome Z :=
  s <- read_indices s n ;;
  if (zlen s =? 0) || (8 <=? zlen s) then Ok n else Err 9.

Definition baiMagic : list Z := [66; 65; 73; 1].
Definition tbiMagic : list Z := [84; 66; 73; 1].
Definition csiMagic : list Z := [67; 83; 73].

(** bam.ReadIndex *)
Definition bam_read_index (s : list Z) : outcome Z :=
  match take 4 s with
  | None => Err 9
  | Some (m, s) =>
    if negb (zeqb m baiMagic) then Err 1 else
    a <- rd_i32 s ;; let '(n, s) := a in
    read_index s n
  end.

(* ------------------------------------------------------- tabix/tabix.go *)

Fixpoint count_byte (c : Z) (l : list Z) : Z :=
  match l with [] => 0 | x :: t => (if x =? c then 1 else 0) + count_byte c t end.

(** readTabixHeader: six int32 fields, the name block length, the names.
    Returns the number of names and the rest of the input. *)
Definition read_tabix_header (s : list Z) : outcome (Z * list Z) :=
  match take 24 s with
  | None => Err 9
  | Some (_, s) =>
    a <- rd_i32 s ;; let '(n, s) := a in
    if n <? 0 then Err 1 else
    if n =? 0 then Ok (0, s) else
    chk (make_ok n) (
    match take n s with
    | None => Err 9
    | Some (names, s) =>
      (* if names[len(names)-1] != 0 *)
      chk (inb names (zlen names - 1)) (
      if negb (getz names (zlen names - 1) =? 0) then Err 2 else
      chk (slice_ok names 0 (zlen names - 1)) (
      Ok (count_byte 0 (sub names 0 (zlen names - 1)) + 1, s)))
    end)
  end.

(** tabix.ReadFrom *)
Definition tabix_read_from (s : list Z) : outcome Z :=
  match take 4 s with
  | None => Err 9
  | Some (m, s) =>
    if negb (zeqb m tbiMagic) then Err 1 else
    a <- rd_i32 s ;; let '(n, s) := a in
    h <- read_tabix_header s ;; let '(nn, s) := h in
    if negb (nn =? n) then Err 3 else
    read_index s n
  end.

(* ------------------------------------------------------ csi/csi_read.go *)

Definition csi_read_chunks (s : list Z) (n : Z) : outcome (list Z) := read_chunks s n.

Fixpoint csi_bins_loop (version dummy : Z) (s : list Z) (i len : Z) (fuel : nat) : outcome (list Z) :=
  match fuel with
  | O => Stuck
  | S f =>
    if negb (i <? len) then Ok s else
    chk ((0 <=? i) && (i <? len)) (
    a <- rd_u 4 s ;; let '(bin, s) := a in
    a <- rd_u 8 s ;; let '(_, s) := a in
    s <- (if version =? 2 then a <- rd_u 8 s ;; Ok (snd a) else Ok s) ;;
    a <- rd_i32 s ;; let '(nChunks, s) := a in
    if bin =? dummy then
      if negb (nChunks =? 2) then Err 2 else
      s <- read_stats s ;;
      chk (0 <=? len - 1) (csi_bins_loop version dummy s i (len - 1) f)
    else
      s <- csi_read_chunks s nChunks ;; csi_bins_loop version dummy s (i + 1) len f)
  end.

Definition csi_read_bins (version binLimit : Z) (s : list Z) : outcome (list Z) :=
  a <- rd_i32 s ;; let '(nBins, s) := a in
  if nBins =? 0 then Ok s else
  (* if uint32(nBins) > binLimit+1: every bin plus the statistics pseudo-bin *)
  if u32 (binLimit + 1) <? u32 nBins then Err 1 else
  chk (make_ok nBins) (csi_bins_loop version (u32 (binLimit + 1)) s 0 nBins (S (length s))).

Fixpoint csi_indices_loop (version binLimit : Z) (s : list Z) (i n : Z) (fuel : nat) : outcome (list Z) :=
  match fuel with
  | O => Stuck
  | S f =>
    if negb (i <? n) then Ok s else
    s <- csi_read_bins version binLimit s ;;
    csi_indices_loop version binLimit s (i + 1) n f
  end.

Definition csi_read_indices (version binLimit : Z) (s : list Z) : outcome (Z * list Z) :=
  a <- rd_i32 s ;; let '(n, s) := a in
  if n =? 0 then Ok (0, s) else
  if n <? 0 then Err 1 else
  chk (make_ok n) (s <- csi_indices_loop version binLimit s 0 n (S (length s)) ;; Ok (n, s)).

(** csi.ReadFrom; minShift and depth are read as uint32. *)
Definition csi_read_from (s : list Z) : outcome Z :=
  match take 3 s with
  | None => Err 9
  | Some (m, s) =>
    if negb (zeqb m csiMagic) then Err 1 else
    a <- rd_u 1 s ;; let '(version, s) := a in
    if negb (version =? 1) && negb (version =? 2) then Err 2 else
    a <- rd_u 4 s ;; let '(minShift, s) := a in
    if s32 minShift <? 0 then Err 3 else
    a <- rd_u 4 s ;; let '(depth, s) := a in
    if s32 depth <? 0 then Err 4 else
    if (Z.quot 32 csi_nextBinShift <=? depth) || (64 <=? minShift) || (64 <=? u32 (minShift + u32 (depth * csi_nextBinShift))) then Err 5 else
    a <- rd_i32 s ;; let '(n, s) := a in
    s <- (if 0 <? n then chk (make_ok n) (match take n s with None => Err 9 | Some (_, s) => Ok s end) else Ok s) ;;
    let binLimit := u32 (Z.quot (u32 (u32 (Z.shiftl 1 (u32 (u32 (depth + 1) * csi_nextBinShift))) - 1)) 7) in
    r <- csi_read_indices version binLimit s ;; let '(nref, s) := r in
    if (zlen s =? 0) || (8 <=? zlen s) then Ok nref else Err 9
  end.

(* ------------------------------------------------------------ fai/fai.go *)

(** strconv.ParseInt answers. mustAtoi panics with a *csv.ParseError (code 7),
    which the deferred function of ReadFrom turns into the returned error; any
    other panic value is re-raised. *)
Definition must_atoi (conv : list Z -> option Z) (fields : list (list Z)) (index : Z) : outcome Z :=
  chk (inb fields index) (
  match conv (nth (Z.to_nat index) fields []) with None => Panic 7 | Some v => Ok v end).

Definition recover_parse_error {A} (o : outcome A) : outcome A :=
  match o with Panic 7 => Err 7 | o => o end.

Record fairec := { f_len : Z; f_start : Z; f_bases : Z; f_bytes : Z }.

Definition maxInt64 : Z := 2 ^ 63 - 1.

(** The conversion of one record of five fields (fai.ReadFrom checks the count, see [fai_line]). *)
Definition fai_record (conv : list Z -> option Z) (fields : list (list Z)) : outcome fairec :=
  recover_parse_error (
    chk (inb fields fai_nameField) (
    l <- must_atoi conv fields fai_lengthField ;;
    st <- must_atoi conv fields fai_startField ;;
    ba <- must_atoi conv fields fai_basesField ;;
    by_ <- must_atoi conv fields fai_bytesField ;;
    if l <? 0 then Err 1 else
    if st <? 0 then Err 1 else
    if (ba <? 0) || ((ba =? 0) && negb (l =? 0)) then Err 1 else
    if by_ <? ba then Err 1 else
    r <- (if negb (ba =? 0) then
            let room := maxInt64 - ba in
            if room <? st then Err 1 else
            (* r.Length/r.BasesPerLine and (room-r.Start)/int64(r.BytesPerLine): integer divisions *)
            chk (negb (ba =? 0)) (chk (negb (by_ =? 0)) (
            if Z.quot (room - st) by_ <? Z.quot l ba then Err 1 else Ok tt))
          else Ok tt) ;;
    Ok {| f_len := l; f_start := st; f_bases := ba; f_bytes := by_ |})).

(** One non-empty line of fai.ReadFrom on main: rec := strings.Split(text, "\t");
    if len(rec) != 5 { csv.ErrFieldCount }; then the conversion. *)
Definition fai_line (conv : list Z -> option Z) (text : list Z) : outcome fairec :=
  let rec := split_on 9 text in
  if negb (zlen rec =? 5) then Err 2 else fai_record conv rec.

(** Record.Position(p): explicit panic outside [0, Length), then
    r.Start + int64(p/r.BasesPerLine*r.BytesPerLine + p%r.BasesPerLine). *)
Definition fai_position (r : fairec) (p : Z) : outcome Z :=
  if (p <? 0) || (f_len r <=? p) then Panic 8 else
  chk (negb (f_bases r =? 0)) (
  Ok (f_start r + (Z.quot p (f_bases r) * f_bytes r + Z.rem p (f_bases r)))).

(* --------------------------------------------------- correspondence cases *)

Inductive c11idx :=
| IBai (s : list Z) (cl nref : Z)
| ITbi (s : list Z) (cl nref : Z)
| ICsi (s : list Z) (cl nref : Z)
| IFai (fields : list (list Z)) (vals : list (option Z)) (cl : Z) (pos_panic : bool).

Definition idx_agree (o : outcome Z) (cl nref : Z) : bool :=
  match o with Ok n => (cl =? 0) && (n =? nref) | r => cls r =? cl end.

Fixpoint conv_table (fields : list (list Z)) (vals : list (option Z)) (x : list Z) : option Z :=
  match fields, vals with
  | f :: ft, v :: vt => if zeqb f x then v else conv_table ft vt x
  | _, _ => None
  end.

Fixpoint concat_tab (fs : list (list Z)) : list Z :=
  match fs with [] => [] | [f] => f | f :: t => f ++ 9 :: concat_tab t end.

Definition c11idx_agree (c : c11idx) : bool :=
  match c with
  | IBai s cl nref => idx_agree (bam_read_index s) cl nref
  | ITbi s cl nref => idx_agree (tabix_read_from s) cl nref
  | ICsi s cl nref => idx_agree (csi_read_from s) cl nref
  | IFai fields vals cl pp =>
    match fai_line (conv_table fields vals) (concat_tab fields) with
    | Ok r => (cl =? 0) && Bool.eqb pp
                (negb (f_len r =? 0) && (is_panic (fai_position r 0) || is_panic (fai_position r (f_len r - 1))))
    | o => cls o =? cl
    end
  end.
