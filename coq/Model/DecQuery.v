(** C11 — the query side of the indexes: what csi.Index.Chunks and
    internal.Index.Chunks (BAI, tabix) do with the caller's interval before they
    look at the bins: the interval validation, reg2bins / OverlappingBinsFor with
    their uint32 loop counters, and ref.Intervals[iv:].  A uint32 loop
    `for i := b; i <= e; i++` never ends when e = 2^32-1: the model returns Stuck
    for it, otherwise the number of iterations. Executable definitions only. *)
From Coq Require Import ZArith List Bool.
From Hts Require Import Base.Prim Base.DecBase Generated.
Open Scope Z_scope.

(** for i := b; i <= e; i++ { list = append(list, i) } with uint32 i, b, e *)
Definition u32_loop (b e : Z) : outcome Z :=
  if e =? 2 ^ 32 - 1 then Stuck else Ok (Z.max 0 (e - b + 1)).

(** reg2bins(beg, end, minShift, depth): levels 0..depth, s and t are uint32. Returns the number of bins listed. *)
Fixpoint reg2bins_levels (beg end_ : Z) (s t level : Z) (n : nat) : outcome Z :=
  match n with
  | O => Ok 0
  | S n' =>
    let b := u32 (t + u32 (Z.shiftr beg s)) in
    let e := u32 (t + u32 (Z.shiftr end_ s)) in
    k <- u32_loop b e ;;
    r <- reg2bins_levels beg end_ (u32 (s - csi_nextBinShift)) (u32 (t + u32 (Z.shiftl 1 (u32 (level * csi_nextBinShift))))) (level + 1) n' ;;
    Ok (k + r)
  end.
Definition reg2bins (beg end_ minShift depth : Z) : outcome Z :=
  reg2bins_levels beg (end_ - 1) (u32 (minShift + u32 (depth * csi_nextBinShift))) 0 0 (Z.to_nat depth + 1).

(** csi.Index.Chunks up to the bin enumeration (rid already checked). *)
Definition csi_chunks_query (minShift depth beg end_ : Z) : outcome Z :=
  let sh := u32 (minShift + u32 (depth * csi_nextBinShift)) in
  let max := if sh <? 63 then Z.shiftl 1 sh else 2 ^ 63 - 1 in
  if (beg <? 0) || (end_ <=? beg) || (max <=? beg) then Ok 0 else
  let end1 := if max <? end_ then max else end_ in
  reg2bins beg end1 minShift depth.

(** OverlappingBinsFor: five levels with constant offsets and shifts. *)
Definition bai_levels : list (Z * Z) :=
  [(internal_level1, internal_level1Shift); (internal_level2, internal_level2Shift); (internal_level3, internal_level3Shift);
   (internal_level4, internal_level4Shift); (internal_level5, internal_level5Shift)].
Fixpoint overlapping_levels (beg end_ : Z) (ls : list (Z * Z)) : outcome Z :=
  match ls with
  | [] => Ok 1
  | (off, sh) :: t =>
    k <- u32_loop (u32 (off + u32 (Z.shiftr beg sh))) (u32 (off + u32 (Z.shiftr end_ sh))) ;;
    r <- overlapping_levels beg end_ t ;; Ok (k + r)
  end.

(** internal.Index.Chunks up to the candidate collection: validation, the tile
    index and ref.Intervals[iv:] (evaluated when a bin with chunks matches;
    modelled unconditionally), OverlappingBinsFor. [nintv] = len(ref.Intervals). *)
Definition bai_chunks_query (nintv beg end_ : Z) : outcome Z :=
  if (beg <? 0) || (end_ <? beg) then Err 1 else
  let end1 := if 2 ^ internal_indexWordBits <? end_ then 2 ^ internal_indexWordBits else end_ in
  let iv := Z.quot beg internal_TileWidth in
  if nintv <=? iv then Err 1 else
  chk ((0 <=? iv) && (iv <=? nintv)) (overlapping_levels beg (end1 - 1) bai_levels).

Inductive c11query :=
| QCsi (minShift depth beg end_ : Z) (hang : bool)
| QBai (nintv beg end_ : Z) (panic : bool).
Definition c11query_agree (c : c11query) : bool :=
  match c with
  | QCsi ms d b e h => match csi_chunks_query ms d b e with Stuck => h | Ok _ => negb h | _ => false end
  | QBai n b e p => match bai_chunks_query n b e with Panic _ => p | Stuck => false | _ => negb p end
  end.
