(** C11 — panic-aware models of Record.UnmarshalSAM as a whole (sam/record.go,
    composing ParseCigar and ParseAux of Model/DecText.v with NewSeq/contract and
    the SEQ/QUAL length handling) and of the BAM reader top level (bam/reader.go:
    NewReader = Header.DecodeBinary on the stream, then the Read loop with
    newBuffer over arbitrary bytes). Executable definitions only. *)
From Coq Require Import ZArith List Bool.
From Hts Require Import Base.Prim Base.DecBase Generated Model.DecText Model.DecBam.
Open Scope Z_scope.

(* ------------------------------------------------------ Record.UnmarshalSAM *)

(** Library / header dependent answers: strconv.ParseUint(f[1], 0, 16),
    strconv.Atoi, ParseUint(f[4], 10, 8), referenceForName. *)
Record samlib := {
  sl_flags : list Z -> option Z;
  sl_atoi : list Z -> option Z;
  sl_mapq : list Z -> option Z;
  sl_ref : list Z -> bool;
  sl_aux : auxlib }.

(** contract(s): ns := make([]Doublet, (len(s)+1)>>1); for i, b := range s {
    n16Table[b] ...; odd i: ns[i>>1] = ... }; if len(s)&1 != 0 { ns[len(ns)-1] = np }.
    Returns len(ns). *)
Fixpoint contract_loop (n : Z) (i : Z) (s : list Z) : outcome unit :=
  match s with
  | [] => Ok tt
  | b :: t =>
    chk (inb sam_n16Table b) (
    _ <- (if Z.land i 1 =? 0 then Ok tt else chk ((0 <=? Z.shiftr i 1) && (Z.shiftr i 1 <? n)) (Ok tt)) ;;
    contract_loop n (i + 1) t)
  end.
Definition contract (s : list Z) : outcome Z :=
  let n := Z.shiftr (zlen s + 1) 1 in
  chk (make_ok n) (
  _ <- contract_loop n 0 s ;;
  if negb (Z.land (zlen s) 1 =? 0) then chk ((0 <=? n - 1) && (n - 1 <? n)) (Ok n) else Ok n).

Fixpoint aux_fields (lib : auxlib) (fs : list (list Z)) : outcome (list (list Z)) :=
  match fs with
  | [] => Ok []
  | f :: t => a <- parse_aux lib f ;; r <- aux_fields lib t ;; Ok (a :: r)
  end.

Record srec := { s_cigar : list Z; s_flags : Z; s_pos : Z; s_lseq : Z; s_nseq : Z; s_nqual : Z; s_aux : list (list Z) }.

Definition star : list Z := [42].

(** l[lo:] *)
Definition from_ok {A} (l : list A) (lo : Z) : bool := (0 <=? lo) && (lo <=? zlen l).

Definition unmarshal_sam (lib : samlib) (b : list Z) : outcome srec :=
  let f := split_on 9 b in
  if zlen f <? 11 then Err 1 else
  let fld (k : Z) := nth (Z.to_nat k) f [] in
  chk (inb f 0) (chk (inb f 1) (
  match sl_flags lib (fld 1) with None => Err 2 | Some flags =>
  chk (inb f 2) (
  if negb (sl_ref lib (fld 2)) then Err 3 else
  chk (inb f 3) (
  match sl_atoi lib (fld 3) with None => Err 4 | Some pos =>
  chk (inb f 4) (
  match sl_mapq lib (fld 4) with None => Err 5 | Some _ =>
  chk (inb f 5) (
  cigar <- parse_cigar (fld 5) ;;
  chk (inb f 6) (
  if negb (zeqb (fld 2) (fld 6) || zeqb (fld 6) [61]) && negb (sl_ref lib (fld 6)) then Err 6 else
  chk (inb f 7) (
  match sl_atoi lib (fld 7) with None => Err 7 | Some _ =>
  chk (inb f 8) (
  match sl_atoi lib (fld 8) with None => Err 8 | Some _ =>
  chk (inb f 9) (
  sq <- (if negb (zeqb (fld 9) star) then
           n <- contract (fld 9) ;;
           if negb (zlen cigar =? 0) then
             v <- cigar_is_valid cigar (zlen (fld 9)) ;;
             if v then Ok (zlen (fld 9), n) else Err 9
           else Ok (zlen (fld 9), n)
         else Ok (0, 0)) ;;
  let '(lseq, nseq) := sq in
  chk (inb f 10) (
  nqual <- (if negb (zeqb (fld 10) star) then Ok (zlen (fld 10))
            else if negb (lseq =? 0) then chk (make_ok lseq) (Ok lseq) else Ok 0) ;;
  if negb (nqual =? 0) && negb (nqual =? lseq) then Err 10 else
  aux <- (if 11 <? zlen f then
            chk (make_ok (zlen f - 11)) (chk (from_ok f 11) (aux_fields (sl_aux lib) (skipn 11 f)))
          else Ok []) ;;
  Ok {| s_cigar := cigar; s_flags := flags; s_pos := pos - 1; s_lseq := lseq; s_nseq := nseq; s_nqual := nqual; s_aux := aux |})
  ) end) end)) ) end) end)) end)).

(** What the library does with the record afterwards (String, MarshalSAM,
    bam.Writer.Write, End/Bin/Len): Seq.Expand reads ns.Seq[i>>1] for i < Length. *)
Definition srec_accessors (r : srec) : outcome unit :=
  _ <- record_end (negb (Z.land (s_flags r) sam_Unmapped =? 0)) (s_pos r) (s_cigar r) ;;
  _ <- cigar_is_valid (s_cigar r) (s_lseq r) ;;
  _ <- lengths_loop 0 0 (s_cigar r) ;;
  _ <- chk (make_ok (s_lseq r)) (if (s_lseq r =? 0) || (Z.shiftr (s_lseq r - 1) 1 <? s_nseq r) then Ok tt else Panic 1) ;;
  _ <- all_aux_safe (s_aux r) ;;
  build_aux (s_aux r).

(* ------------------------------------------------------ bam.NewReader + Read *)

(** The BGZF layer under the BAM reader is a byte source that can end or fail
    at any point; a failure at offset k is observed by the BAM reader exactly
    as a stream that is cut at k (io.ReadFull returns an error either way), so
    the source is the byte string that was delivered before the end/failure. *)

(** DecodeBinary on the stream (bgzf.Reader.Read fills the buffer or fails);
    returns the number of references and the rest of the stream. *)
Definition bam_header (lib : hlib) (refs_ok : bool) (s : list Z) : outcome (Z * list Z) :=
  match take 4 s with
  | None => Err 9
  | Some (magic, s) =>
    if negb (zeqb magic bamMagic) then Err 1 else
    a <- rd_i32 s ;; let '(lText, s) := a in
    if lText <? 0 then Err 2 else
    chk (make_ok lText) (
    match take lText s with
    | None => Err 9
    | Some (text, s) =>
      _ <- unmarshal_header_text lib text ;;
      a <- rd_i32 s ;; let '(nRef, s) := a in
      if nRef <? 0 then Err 4 else
      r <- ref_records s 0 nRef (S (length s)) ;;
      if refs_ok then Ok (nRef, snd r) else Err 5
    end)
  end.

(** Reader.Read called until it returns an error (io.EOF included): newBuffer
    (io.ReadFull of the 4 byte length, size == 0 is EOF, size < 0 an error,
    make([]byte, size) above the 4 KiB buffer, io.ReadFull of the block) and
    the record body. The result is the list of records returned before the
    first error. *)
Fixpoint bam_read_loop (s : list Z) (omit nrefs : Z) (fuel : nat) : outcome (list brec) :=
  match fuel with
  | O => Stuck
  | S f =>
    match take 4 s with
    | None => Ok []
    | Some (b4, s) =>
      let size := s32 (le_bytes b4) in
      if size =? 0 then Ok [] else
      if size <? 0 then Ok [] else
      chk (make_ok size) (
      match take size s with
      | None => Ok []
      | Some (data, s) =>
        match bam_record data omit nrefs with
        | Ok r => rest <- bam_read_loop s omit nrefs f ;; Ok (r :: rest)
        | Err _ => Ok []
        | Panic w => Panic w
        | Stuck => Stuck
        end
      end)
    end
  end.

(** bam.NewReader followed by Read until the first error. *)
Definition bam_reader (lib : hlib) (refs_ok : bool) (omit : Z) (s : list Z) : outcome (list brec) :=
  h <- bam_header lib refs_ok s ;;
  let '(nrefs, rest) := h in
  bam_read_loop rest omit nrefs (S (length rest)).

(* --------------------------------------------------- correspondence cases *)

Inductive c11sam :=
| SRecord (b : list Z) (cl : Z) (libok : bool) (ncig lseq nseq nqual : Z) (auxlens : list Z) (acc_panic : bool)
| SBam (s : list Z) (omit : Z) (cl : Z) (nrecs : Z).

Definition samlib_const (b : bool) : samlib :=
  {| sl_flags := fun _ => if b then Some 0 else None; sl_atoi := fun _ => if b then Some 1 else None;
     sl_mapq := fun _ => if b then Some 0 else None; sl_ref := fun _ => b;
     sl_aux := aux_lib_case b (if b then Some 0 else None) |}.

Definition c11sam_agree (c : c11sam) : bool :=
  match c with
  | SRecord b cl libok ncig lseq nseq nqual auxlens ap =>
    match unmarshal_sam (samlib_const libok) b with
    | Ok r => (cl =? 0) && (zlen (s_cigar r) =? ncig) && (s_lseq r =? lseq) && (s_nseq r =? nseq) && (s_nqual r =? nqual)
              && (zlen (s_aux r) =? zlen auxlens) && Bool.eqb (is_panic (srec_accessors r)) ap
    | o => cls o =? cl
    end
  | SBam s omit cl nrecs =>
    if cl =? 2 then (cls (bam_reader (hlib_const true) true omit s) =? 2)
    else match bam_reader (hlib_const (cl =? 0)) (cl =? 0) omit s with
         | Ok rs => (cl =? 0) && (zlen rs =? nrecs)
         | o => cls o =? cl
         end
  end.
