(** C11 — panic-aware models of the text decoders of package sam, following the
    Go code statement by statement at every index / slice / make / explicit
    panic site:  Header.UnmarshalText and the five header line parsers
    (sam/parse_header.go), CigarOp / Cigar / Record.End table lookups and
    ParseCigar / atoi / NewCigarOp (sam/cigar.go, sam/record.go), ParseAux /
    NewAux (sam/auxtags.go), Reader.Read line trimming (sam/sam.go).
    Answers of library decoders (strconv, time, url, map look-ups for duplicate
    detection) are parameters: the theorems quantify over all of them.
    Executable definitions only. *)
From Coq Require Import ZArith List Bool.
From Hts Require Import Base.Prim Base.DecBase Generated.
Open Scope Z_scope.

(* ------------------------------------------------------------------ bytes *)

(** bytes.Split(l, []byte{sep}) *)
Fixpoint split_on (sep : Z) (l : list Z) : list (list Z) :=
  match l with
  | [] => [[]]
  | x :: t =>
    if x =? sep then [] :: split_on sep t
    else match split_on sep t with
         | h :: r => (x :: h) :: r
         | [] => [[x]]
         end
  end.

Fixpoint zeqb (a b : list Z) : bool :=
  match a, b with
  | [], [] => true
  | x :: a', y :: b' => (x =? y) && zeqb a' b'
  | _, _ => false
  end.

(* ------------------------------------------------------------ encoding/hex *)

Definition hexval (c : Z) : option Z :=
  if (48 <=? c) && (c <=? 57) then Some (c - 48)
  else if (97 <=? c) && (c <=? 102) then Some (c - 87)
  else if (65 <=? c) && (c <=? 70) then Some (c - 55)
  else None.

(** hex.Decode(dst, src) with len(dst) = dstlen: the loop stores dst[i] for
    every pair (an index expression, hence checked), an odd tail is an error. *)
Fixpoint hex_decode (dstlen : Z) (i : Z) (src : list Z) (fuel : nat) : outcome (list Z) :=
  match fuel with
  | O => Stuck
  | S fuel' =>
    match src with
    | [] => Ok []
    | [_] => Err 2
    | p :: q :: rest =>
      match hexval p, hexval q with
      | Some a, Some b =>
        chk ((0 <=? i) && (i <? dstlen)) (
          r <- hex_decode dstlen (i + 1) rest fuel' ;; Ok ((a * 16 + b) :: r))
      | _, _ => Err 2
      end
    end
  end.

(* ------------------------------------------------------ header text parser *)

(** Record kinds. *)
Definition kHD := 1. Definition kSQ := 2. Definition kRG := 3. Definition kPG := 4. Definition kCO := 5.

(** What the model does not decide: the per-field checks that depend on the
    header state or on a library parser (duplicate tag, duplicate name,
    strconv.Atoi, url.Parse, time parsing, sort-order maps) and the per-line
    checks made after the field loop (mandatory tags present, reference
    redefinition rules). *)
Record hlib := { h_field : Z -> list Z -> list Z -> bool; h_line : Z -> list (list Z) -> bool }.

(** The head of one tab field:  if len(f) < 3 || f[2] != ':' { return errBadHeader };
    copy(t[:], f[:2]); fs := string(f[3:]). *)
Definition field_head (f : list Z) : outcome (list Z * list Z) :=
  if zlen f <? 3 then Err 1 else
  chk (inb f 2) (
  if negb (getz f 2 =? 58) then Err 1 else
  chk (slice_ok f 0 2) (
  chk (slice_ok f 3 (zlen f)) (
  Ok (sub f 0 2, sub f 3 (zlen f))))).

Definition tagM5 : list Z := [77; 53].

(** One field of a line of the given kind. The M5 value of an @SQ line goes
    through hex.Decode into a 16 byte array. *)
Definition header_field (lib : hlib) (kind : Z) (f : list Z) : outcome unit :=
  tv <- field_head f ;;
  let '(t, v) := tv in
  if (kind =? kSQ) && zeqb t tagM5 then
    if negb (h_field lib kind t v) then Err 3 (* duplicate tag *) else
    (* if len(f[3:]) > 32 { return errBadHeader }; if hex.DecodedLen(len(f[3:])) > len(hb) { ... } *)
    if 32 <? zlen v then Err 1 else
    if 16 <? zlen v / 2 then Err 1 else
    hb <- hex_decode 16 0 v (S (length v)) ;;
    if zlen hb =? 16 then Ok tt else Err 1
  else if h_field lib kind t v then Ok tt else Err 3.

Fixpoint header_fields (lib : hlib) (kind : Z) (fs : list (list Z)) : outcome unit :=
  match fs with
  | [] => Ok tt
  | f :: t => _ <- header_field lib kind f ;; header_fields lib kind t
  end.

(** headerLine (which on main collects the fields and stores them only when the whole line is accepted:
    the slice bh.otherTags[:len:len] it starts from is always in range) / referenceLine / readGroupLine / programLine:
    fields := bytes.Split(l, tab); if len(fields) < min { err }; for _, f := range fields[1:] {...}; checks. *)
Definition tagged_line (lib : hlib) (kind minf : Z) (l : list Z) : outcome unit :=
  let fields := split_on 9 l in
  if zlen fields <? minf then Err 1 else
  chk (1 <=? zlen fields) (
  _ <- header_fields lib kind (skipn 1 fields) ;;
  if h_line lib kind fields then Ok tt else Err 1).

(** bytes.SplitN(l, tab, 2): cut at the first separator only. *)
Fixpoint splitn2 (sep : Z) (l : list Z) : list (list Z) :=
  match l with
  | [] => [[]]
  | x :: t =>
    if x =? sep then [[]; t]
    else match splitn2 sep t with
         | h :: r => (x :: h) :: r
         | [] => [[x]]
         end
  end.

(** commentLine: fields := bytes.SplitN(l, tab, 2); fields[1]. *)
Definition comment_line (l : list Z) : outcome unit :=
  let fields := splitn2 9 l in
  if zlen fields <? 2 then Err 1 else
  chk (inb fields 1) (Ok tt).

Definition tagHD := [72; 68]. Definition tagSQ := [83; 81]. Definition tagRG := [82; 71].
Definition tagPG := [80; 71]. Definition tagCO := [67; 79].

(** One element of bytes.Split(text, "\n") in Header.UnmarshalText. *)
Definition header_text_line (lib : hlib) (l0 : list Z) : outcome unit :=
  (* if len(l) > 0 && l[len(l)-1] == '\r' { l = l[:len(l)-1] } *)
  l <- (if 0 <? zlen l0 then
          chk (inb l0 (zlen l0 - 1)) (
          if getz l0 (zlen l0 - 1) =? 13 then chk (slice_ok l0 0 (zlen l0 - 1)) (Ok (sub l0 0 (zlen l0 - 1)))
          else Ok l0)
        else Ok l0) ;;
  if zlen l =? 0 then Ok tt else
  (* if l[0] != '@' || len(l) < 3 { return errBadHeader } *)
  chk (inb l 0) (
  if negb (getz l 0 =? 64) || (zlen l <? 3) then Err 1 else
  (* copy(t[:], l[1:3]) *)
  chk (slice_ok l 1 3) (
  let t := sub l 1 3 in
  if zeqb t tagHD then tagged_line lib kHD 2 l
  else if zeqb t tagSQ then tagged_line lib kSQ 3 l
  else if zeqb t tagRG then tagged_line lib kRG 2 l
  else if zeqb t tagPG then tagged_line lib kPG 2 l
  else if zeqb t tagCO then comment_line l
  else Err 1)).

Fixpoint header_text_lines (lib : hlib) (ls : list (list Z)) : outcome unit :=
  match ls with
  | [] => Ok tt
  | l :: t => _ <- header_text_line lib l ;; header_text_lines lib t
  end.

(** Header.UnmarshalText *)
Definition unmarshal_header_text (lib : hlib) (text : list Z) : outcome unit :=
  header_text_lines lib (split_on 10 text).

Definition hlib_const (b : bool) : hlib := {| h_field := fun _ _ _ => b; h_line := fun _ _ => b |}.

(* ------------------------------------------------------------------ CIGAR *)

Definition op_type (co : Z) : Z := Z.land co 15.
Definition op_len (co : Z) : Z := Z.shiftr co 4.
Definition maxOpLen : Z := 2 ^ 28 - 1.

(** Record.End: pos += co.Len() * co.Type().Consumes().Reference *)
Fixpoint end_loop (pos endp : Z) (c : list Z) : outcome Z :=
  match c with
  | [] => Ok endp
  | co :: t =>
    con <- c11_Consumes (op_type co) ;;
    let pos' := pos + op_len co * snd con in
    end_loop pos' (Z.max endp pos') t
  end.
Definition record_end (unmapped : bool) (pos : Z) (c : list Z) : outcome Z :=
  if unmapped || (zlen c =? 0) then Ok (pos + 1) else end_loop pos pos c.

(** Cigar.Lengths *)
Fixpoint lengths_loop (ref read : Z) (c : list Z) : outcome (Z * Z) :=
  match c with
  | [] => Ok (ref, read)
  | co :: t =>
    con <- c11_Consumes (op_type co) ;;
    let ref' := if negb (op_type co =? sam_CigarBack) then ref + op_len co * snd con else ref in
    lengths_loop ref' (read + op_len co * fst con) t
  end.

(** Cigar.IsValid(length): c[i-1], c[i+1] are index expressions. *)
Fixpoint is_valid_loop (c : list Z) (i pos length : Z) (rest : list Z) : outcome bool :=
  match rest with
  | [] => Ok (length =? 0)
  | co :: t =>
    let ct := op_type co in
    let inner := negb (i =? 0) && negb (i =? zlen c - 1) in
    if (ct =? sam_CigarHardClipped) && inner then Ok false else
    r <- (if (ct =? sam_CigarSoftClipped) && inner then
            chk (inb c (i - 1)) (
            if negb (op_type (getz c (i - 1)) =? sam_CigarHardClipped) then
              chk (inb c (i + 1)) (Ok (negb (op_type (getz c (i + 1)) =? sam_CigarHardClipped)))
            else Ok false)
          else Ok false) ;;
    if r then Ok false else
    con <- c11_Consumes ct ;;
    if (pos <? 0) && negb (fst con =? 0) then Ok false else
    is_valid_loop c (i + 1) (pos + op_len co * snd con) (length - op_len co * fst con) t
  end.
Definition cigar_is_valid (c : list Z) (length : Z) : outcome bool := is_valid_loop c 0 0 length c.

(** cigarOpTypeLookup, built by init(): position of the byte in "MIDNSHP=XB", lastCigar otherwise. *)
Definition op_chars : list Z := [77; 73; 68; 78; 83; 72; 80; 61; 88; 66].
Fixpoint index_of (c : Z) (l : list Z) (i : Z) : Z :=
  match l with [] => sam_lastCigar | x :: t => if x =? c then i else index_of c t (i + 1) end.
Definition op_lookup (c : Z) : Z := index_of c op_chars 0.

Definition is_digit (c : Z) : bool := (48 <=? c) && (c <=? 57).

(** atoi: n += int64(v-'0') * powers[k-i] *)
Fixpoint atoi_loop (k i n : Z) (b : list Z) : outcome Z :=
  match b with
  | [] => Ok n
  | v :: t => chk (inb c11_powers (k - i)) (atoi_loop k (i + 1) (n + u8 (v - 48) * getz c11_powers (k - i)) t)
  end.
Definition atoi (b : list Z) : outcome Z :=
  if zlen c11_powers <? zlen b then Err 4 else atoi_loop (zlen b - 1) 0 0 b.

(** NewCigarOp: panics if uint64(n) > 1<<28-1 *)
Definition new_cigar_op (t n : Z) : outcome Z :=
  if maxOpLen <? u64 n then Panic 3 else Ok (Z.lor t (Z.shiftl n 4)).

(** for { c = append(c, NewCigarOp(op, minInt(n, 1<<28-1))); n -= 1<<28 - 1; if n <= 0 { break } } *)
Fixpoint emit_ops (op n : Z) (fuel : nat) : outcome (list Z) :=
  match fuel with
  | O => Stuck
  | S f =>
    co <- new_cigar_op op (Z.min n maxOpLen) ;;
    let n' := n - maxOpLen in
    if n' <=? 0 then Ok [co] else r <- emit_ops op n' f ;; Ok (co :: r)
  end.

Fixpoint span_digits (b : list Z) : list Z * list Z :=
  match b with
  | [] => ([], [])
  | c :: t => if is_digit c then let '(d, r) := span_digits t in (c :: d, r) else ([], b)
  end.

(** ParseCigar's outer loop from the current position (the rest of b). *)
Fixpoint parse_cigar_loop (b : list Z) (fuel : nat) : outcome (list Z) :=
  match fuel with
  | O => Stuck
  | S f =>
    match b with
    | [] => Ok []
    | _ =>
      let '(d, r) := span_digits b in
      match r with
      | [] => Err 5                      (* length without operation *)
      | opc :: r' =>
        n <- atoi d ;;
        let op := op_lookup opc in
        if op =? sam_lastCigar then Err 6 else
        ops <- emit_ops op n (Z.to_nat (n / maxOpLen) + 2) ;;
        rest <- parse_cigar_loop r' f ;;
        Ok (ops ++ rest)
      end
    end
  end.

Definition parse_cigar (b : list Z) : outcome (list Z) :=
  if (zlen b =? 1) && (getz b 0 =? 42) then Ok [] else parse_cigar_loop b (S (length b)).

(* ---------------------------------------------------------------- ParseAux *)

(** Library answers ParseAux depends on. [al_elem st s]: the element text [s]
    of a B array of element type [st] parsed by strconv (ParseInt/ParseUint/
    ParseFloat with the width of [st]) and converted: the value as the
    unsigned integer of its little-endian bytes. *)
Record auxlib := {
  al_atoi : list Z -> option Z;
  al_float : list Z -> option Z;
  al_elem : Z -> list Z -> option Z }.

Fixpoint le_enc (w : nat) (v : Z) : list Z :=
  match w with O => [] | S w' => (v mod 256) :: le_enc w' (v / 256) end.

(** NewAux for an int / uint value as ParseAux passes it. *)
Definition new_aux_int (t0 t1 v : Z) : outcome (list Z) :=
  if v <? 0 then
    if (-128 <=? v) then Ok [t0; t1; 99; u8 v]
    else if (-32768 <=? v) then Ok ([t0; t1; 115] ++ le_enc 2 (u16 v))
    else if (-2147483648 <=? v) then Ok ([t0; t1; 105] ++ le_enc 4 (u32 v))
    else Err 7
  else
    if v <=? 255 then Ok [t0; t1; 67; v]
    else if v <=? 65535 then Ok ([t0; t1; 83] ++ le_enc 2 v)
    else if v <=? 4294967295 then Ok ([t0; t1; 73] ++ le_enc 4 v)
    else Err 7.

Definition elem_width (st : Z) : option nat :=
  if (st =? 99) || (st =? 67) then Some 1%nat
  else if (st =? 115) || (st =? 83) then Some 2%nat
  else if (st =? 105) || (st =? 73) || (st =? 102) then Some 4%nat
  else None.

Fixpoint b_elems (lib : auxlib) (st : Z) (w : nat) (nf : list (list Z)) : outcome (list Z) :=
  match nf with
  | [] => Ok []
  | s :: t =>
    match al_elem lib st s with
    | None => Err 8
    | Some v => r <- b_elems lib st w t ;; Ok (le_enc w v ++ r)
    end
  end.

Definition parse_aux (lib : auxlib) (text : list Z) : outcome (list Z) :=
  (* if len(text) < 5 || text[2] != ':' || text[4] != ':' *)
  if zlen text <? 5 then Err 1 else
  chk (inb text 2) (
  if negb (getz text 2 =? 58) then Err 1 else
  chk (inb text 4) (
  if negb (getz text 4 =? 58) then Err 1 else
  chk (slice_ok text 5 (zlen text)) (
  let txt := sub text 5 (zlen text) in
  chk (inb text 3) (
  let typ := getz text 3 in
  chk (inb text 0) (chk (inb text 1) (
  let t0 := getz text 0 in let t1 := getz text 1 in
  if typ =? 65 then                                   (* 'A' *)
    if negb (zlen txt =? 1) then Err 1 else chk (inb txt 0) (Ok [t0; t1; 65; getz txt 0])
  else if typ =? 105 then                             (* 'i' *)
    match al_atoi lib txt with None => Err 2 | Some i => new_aux_int t0 t1 i end
  else if typ =? 102 then                             (* 'f' *)
    match al_float lib txt with None => Err 2 | Some f => Ok ([t0; t1; 102] ++ le_enc 4 f) end
  else if typ =? 90 then Ok ([t0; t1; 90] ++ txt)      (* 'Z' *)
  else if typ =? 72 then                              (* 'H': b := make([]byte, hex.DecodedLen(len(txt))) *)
    chk (make_ok (zlen txt / 2)) (
    b <- hex_decode (zlen txt / 2) 0 txt (S (length txt)) ;; Ok ([t0; t1; 72] ++ b))
  else if typ =? 66 then                              (* 'B' *)
    if zlen txt =? 0 then Err 1 else
    nf <- (if 1 <? zlen txt then
             chk (inb txt 1) (
             if negb (getz txt 1 =? 44) then Err 1 else
             chk (slice_ok txt 2 (zlen txt)) (Ok (split_on 44 (sub txt 2 (zlen txt)))))
           else Ok []) ;;
    chk (inb txt 0) (
    let st := getz txt 0 in
    match elem_width st with
    | None => Err 1
    | Some w =>
      chk (make_ok (zlen nf)) (
      es <- b_elems lib st w nf ;;
      Ok ([t0; t1; 66; st] ++ le_enc 4 (zlen nf) ++ es))
    end)
  else Err 1)))))).

(* -------------------------------------------- Aux accessors (sam/auxtags.go) *)

Definition aux_type (a : list Z) : outcome Z := chk (inb a 2) (Ok (getz a 2)).
Definition aux_kind (a : list Z) : outcome Z :=
  chk (inb a 2) (chk (inb c11_auxKind (getz a 2)) (Ok (getz c11_auxKind (getz a 2)))).
Definition aux_tag (a : list Z) : outcome (list Z) := chk (slice_ok a 0 2) (Ok (sub a 0 2)).

(** binary.Read of [length] elements of [w] bytes from a[8:], then
    panic(...) when it fails. *)
Definition read_array (a : list Z) (length w : Z) : outcome Z :=
  chk (make_ok length) (
  chk (slice_ok a 8 (zlen a)) (
  if zlen a - 8 <? length * w then Panic 4 else Ok 66)).

(** Aux.Value: which index and slice expressions it evaluates. The result is the kind byte. *)
Definition aux_value (a : list Z) : outcome Z :=
  chk (inb a 2) (
  let t := getz a 2 in
  if (t =? 65) || (t =? 99) || (t =? 67) then chk (inb a 3) (Ok t)
  else if (t =? 115) || (t =? 83) then chk (slice_ok a 3 5) (Ok t)
  else if (t =? 105) || (t =? 73) || (t =? 102) then chk (slice_ok a 3 7) (Ok t)
  else if (t =? 90) || (t =? 72) then chk (slice_ok a 3 (zlen a)) (Ok t)
  else if t =? 66 then
    chk (slice_ok a 4 8) (
    let length := s32 (le_bytes (sub a 4 8)) in
    chk (inb a 3) (
    let st := getz a 3 in
    if (st =? 99) || (st =? 67) then chk (slice_ok a 8 (zlen a)) (Ok t)
    else if (st =? 115) || (st =? 83) then read_array a length 2
    else if (st =? 105) || (st =? 73) || (st =? 102) then read_array a length 4
    else Ok 0))
  else Ok 0).

(** Aux.String / samAux.String evaluate a[:2], Type, Kind, Value and for B a[3]. *)
Definition aux_string (a : list Z) : outcome unit :=
  t <- aux_type a ;; _ <- aux_tag a ;; _ <- aux_kind a ;; _ <- aux_value a ;;
  if t =? 66 then chk (inb a 3) (Ok tt) else Ok tt.

(* ------------------------------------------- sam.Reader.Read line trimming *)

(** [b] is what ReadBytes('\n') returned, [eof] whether it reported io.EOF
    (any other error is returned as is and not modelled). Returns the line
    handed to UnmarshalSAM (possibly empty: UnmarshalSAM then rejects it for
    its field count, [sam_field_count]). *)
Definition sam_read_line (b : list Z) (eof : bool) : outcome (list Z) :=
  b1 <- (if eof then (if zlen b =? 0 then Err 9 else Ok b)
         else chk (slice_ok b 0 (zlen b - 1)) (Ok (sub b 0 (zlen b - 1)))) ;;
  b2 <- (if negb (zlen b1 =? 0) then
           chk (inb b1 (zlen b1 - 1)) (
           if getz b1 (zlen b1 - 1) =? 13 then chk (slice_ok b1 0 (zlen b1 - 1)) (Ok (sub b1 0 (zlen b1 - 1))) else Ok b1)
         else Ok b1) ;;
  Ok b2.

(** The first statements of Record.UnmarshalSAM: f := bytes.Split(b, tab); if len(f) < 11 { error }. *)
Definition sam_field_count (b : list Z) : outcome (list (list Z)) :=
  let f := split_on 9 b in if zlen f <? 11 then Err 1 else Ok f.

(* --------------------------------------------------- correspondence cases *)

Inductive c11text :=
| TOpType (t : Z) (cons_panic : bool) (q r : Z) (str_panic : bool) (s : list Z)
| TCigarOps (unmapped : bool) (pos n : Z) (ops : list Z) (end_panic : bool) (endv : Z) (valid_panic lengths_panic : bool)
| TCigar (b : list Z) (cl : Z) (ops : list Z) (nops : Z)
| TAux (b : list Z) (cl : Z) (libok : bool) (atoi : option Z) (out : list Z) (cmp_bytes : bool)
| TAuxVal (a : list Z) (type_panic kind_panic value_panic string_panic tag_panic : bool)
| THeader (text : list Z) (cl : Z)
| TSamLine (b : list Z) (eof : bool) (cl : Z).

Definition pan {A} (o : outcome A) (p : bool) : bool := Bool.eqb (is_panic o) p.

Definition aux_lib_case (libok : bool) (atoi : option Z) : auxlib :=
  {| al_atoi := fun _ => atoi;
     al_float := fun _ => if libok then Some 0 else None;
     al_elem := fun _ _ => if libok then Some 0 else None |}.

Definition c11text_agree (c : c11text) : bool :=
  match c with
  | TOpType t cp q r sp s =>
    match c11_Consumes t with Ok (q', r') => negb cp && (q =? q') && (r =? r') | Panic _ => cp | _ => false end
    && match c11_OpString t with Ok s' => negb sp && zeqb s s' | Panic _ => sp | _ => false end
  | TCigarOps um pos n ops ep ev vp lp =>
    match record_end um pos ops with Ok e => negb ep && (e =? ev) | Panic _ => ep | _ => false end
    && pan (cigar_is_valid ops n) vp && pan (lengths_loop 0 0 ops) lp
  | TCigar b cl ops nops =>
    match parse_cigar b with
    | Ok o => (cl =? 0) && (zlen o =? nops) && zeqb (firstn 64 o) ops
    | r => cls r =? cl
    end
  | TAux b cl libok atoi out cmpb =>
    match parse_aux (aux_lib_case libok atoi) b with
    | Ok a => (cl =? 0) && (zlen a =? zlen out) && (if cmpb then zeqb a out else zeqb (firstn 3 a) (firstn 3 out))
    | r => cls r =? cl
    end
  | TAuxVal a tp kp vp sp gp =>
    pan (aux_type a) tp && pan (aux_kind a) kp && pan (aux_value a) vp && pan (aux_string a) sp && pan (aux_tag a) gp
  | THeader text cl =>
    if cl =? 2 then (cls (unmarshal_header_text (hlib_const true) text) =? 2) || (cls (unmarshal_header_text (hlib_const false) text) =? 2)
    else cls (unmarshal_header_text (hlib_const (cl =? 0)) text) =? cl
  | TSamLine b eof cl => cls (sam_read_line b eof) =? cl
  end.
