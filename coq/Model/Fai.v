(** C19 — executable model of fai/fai.go and fai/file.go (as the code is),
    the independent description of well-formed FASTA files, and the
    correspondence glue.  Definitions only; proofs are in Proofs/Fai*.v.

    Conventions: bytes are [Z]; Go [int]/[int64] are unbounded [Z];
    [bytes.TrimSpace] is modelled on ASCII input only (bytes < 128: the six
    ASCII space characters); the [bufio.Scanner] with the custom split
    function of [NewIndex] is the line tokeniser [lines] (terminators kept, a
    last unterminated line is a token; the Scanner's limit of
    bufio.MaxScanTokenSize bytes per token is [scan_tokens]); ReadFrom splits
    lines at LF and fields at TAB without quoting rules; the Go map [Index]
    is an association list in insertion order (keys are unique by
    construction: NewIndex and ReadFrom reject duplicates). *)
From Hts Require Import Base.Prim Generated.
Open Scope Z_scope.

(* ------------------------------------------------------------------ bytes *)

Fixpoint bytes_eqb (a b : list Z) : bool :=
  match a, b with
  | [], [] => true
  | x :: a', y :: b' => (x =? y) && bytes_eqb a' b'
  | _, _ => false
  end.

Definition is_nil {A} (l : list A) : bool := match l with [] => true | _ => false end.

(** Line tokeniser of NewIndex: every token ends with LF except possibly the last. *)
Fixpoint lines (bs : list Z) : list (list Z) :=
  match bs with
  | [] => []
  | b :: t =>
    if b =? 10 then [b] :: lines t
    else match lines t with
         | [] => [[b]]
         | l :: ls => (b :: l) :: ls
         end
  end.

(** unicode.IsSpace restricted to ASCII: TAB LF VT FF CR SPACE. *)
Definition isspace (c : Z) : bool :=
  (c =? 9) || (c =? 10) || (c =? 11) || (c =? 12) || (c =? 13) || (c =? 32).

Fixpoint trim_left (l : list Z) : list Z :=
  match l with
  | [] => []
  | c :: t => if isspace c then trim_left t else l
  end.

Fixpoint trim_right (l : list Z) : list Z :=
  match l with
  | [] => []
  | c :: t => match trim_right t with
              | [] => if isspace c then [] else [c]
              | t' => c :: t'
              end
  end.

Definition trim (l : list Z) : list Z := trim_right (trim_left l).

(** b[1:lenID] with lenID = bytes.IndexAny(b, " \t") (b[1:] when there is none),
    given as the argument the bytes after the leading '>'. *)
Fixpoint until_sep (l : list Z) : list Z :=
  match l with
  | [] => []
  | c :: t => if (c =? 32) || (c =? 9) then [] else c :: until_sep t
  end.

(* ------------------------------------------------------------ fai.Record *)

Record frec := mkRec { r_name : list Z; r_len : Z; r_start : Z; r_bases : Z; r_bytes : Z }.
Definition rec0 : frec := mkRec [] 0 0 0 0.

Fixpoint lookup (name : list Z) (idx : list frec) : option frec :=
  match idx with
  | [] => None
  | r :: t => if bytes_eqb (r_name r) name then Some r else lookup name t
  end.

Definition has_name (name : list Z) (idx : list frec) : bool :=
  match lookup name idx with Some _ => true | None => false end.

(** idx[name] = r on a map: replace or append. *)
Fixpoint map_set (idx : list frec) (r : frec) : list frec :=
  match idx with
  | [] => [r]
  | x :: t => if bytes_eqb (r_name x) (r_name r) then r :: t else x :: map_set t r
  end.

(* ------------------------------------------------------------- NewIndex *)

Record nstate := mkSt { n_idx : list frec; n_cur : frec; n_off : Z; n_want : bool }.
Definition nstate0 : nstate := mkSt [] rec0 0 false.

(** Error exits of NewIndex. *)
Definition E_MISSING_NAME := 1.
Definition E_DUPLICATE := 2.
Definition E_SHORT_LINE := 3.
Definition E_LONG_LINE := 4.

(** One iteration of the scan loop; [adv] says whether the blank-line arm
    advances the offset (read off the source: Generated.fai_NewIndex_blank_advances). *)
Definition ni_step (adv : bool) (s : nstate) (line : list Z) : outcome nstate :=
  let b := trim line in
  let n := zlen line in
  let '(mkSt idx cur off want) := s in
  if is_nil b then Ok (mkSt idx cur (if adv then off + n else off) want)
  else if bytes_eqb b [62] then Err E_MISSING_NAME
  else if hd 0 b =? 62 then
    let '(idx1, cur1) := if is_nil (r_name cur) then (idx, cur) else (map_set idx cur, rec0) in
    let name := until_sep (tl b) in
    if has_name name idx1 then Err E_DUPLICATE
    else Ok (mkSt idx1 (mkRec name (r_len cur1) (off + n) (r_bases cur1) (r_bytes cur1)) (off + n) false)
  else
    if want then Err E_SHORT_LINE
    else
      let lb := zlen b in
      (* switch on the byte length of the line *)
      let r1 : outcome (Z * bool) :=
        if r_bytes cur =? 0 then Ok (n, false)
        else if r_bytes cur <? n then Err E_LONG_LINE
        else if n <? r_bytes cur then Ok (r_bytes cur, true)
        else Ok (r_bytes cur, false) in
      obind r1 (fun '(by1, w1) =>
      (* switch on the number of bases of the line *)
      let r2 : outcome (Z * bool) :=
        if lb =? 0 then Ok (r_bases cur, w1)
        else if r_bases cur =? 0 then Ok (lb, w1)
        else if r_bases cur <? lb then Err E_LONG_LINE
        else if lb <? r_bases cur then Ok (r_bases cur, true)
        else Ok (r_bases cur, w1) in
      obind r2 (fun '(ba2, w2) =>
      Ok (mkSt idx (mkRec (r_name cur) (r_len cur + lb) (r_start cur) ba2 by1) (off + n) w2))).

Fixpoint ni_fold (adv : bool) (s : nstate) (ls : list (list Z)) : outcome nstate :=
  match ls with
  | [] => Ok s
  | l :: t => obind (ni_step adv s l) (fun s' => ni_fold adv s' t)
  end.

(** Final flush of the pending record. *)
Definition ni_finish (s : nstate) : list frec :=
  if is_nil (r_name (n_cur s)) then n_idx s else map_set (n_idx s) (n_cur s).

(** bufio.Scanner gives up (ErrTooLong) on a token that does not fit its
    buffer of MaxScanTokenSize bytes: a line with its terminator may have at
    most 65536 bytes, an unterminated last line at most 65535 (the Scanner
    has to see the end of the input before it delivers it; io.Reader that
    reports io.EOF on a separate call, as bytes.Reader and os.File do).  The
    tokens before the long one are delivered and processed normally. *)
Definition MaxScanTokenSize := 65536.
Definition E_TOOLONG := 5.

Definition ends_lf (l : list Z) : bool := match l with [] => false | _ => last l 0 =? 10 end.
Definition token_fits (l : list Z) : bool :=
  (zlen l <=? MaxScanTokenSize) && (ends_lf l || (zlen l <? MaxScanTokenSize)).

Fixpoint scan_tokens (ls : list (list Z)) : list (list Z) * bool :=
  match ls with
  | [] => ([], false)
  | l :: t => if token_fits l then let '(a, b) := scan_tokens t in (l :: a, b) else ([], true)
  end.

Definition lines_fit (file : list Z) : bool := forallb token_fits (lines file).

(** NewIndex: the scan loop over the delivered tokens (an error exit of the
    loop wins), then `return idx, sc.Err()`: a non-nil error is an error of
    NewIndex (the partial index returned with it is not an observation). *)
Definition newindex_gen (adv : bool) (file : list Z) : outcome (list frec) :=
  let '(toks, toolong) := scan_tokens (lines file) in
  obind (ni_fold adv nstate0 toks) (fun s => if toolong then Err E_TOOLONG else Ok (ni_finish s)).

(** NewIndex of the current source. *)
Definition newindex (file : list Z) : outcome (list frec) :=
  newindex_gen fai_NewIndex_blank_advances file.

(* ------------------------------------------------------- File, Seq, Read *)

Definition position (r : frec) (p : Z) : outcome Z :=
  fai_Record_position (r_len r) (r_start r) (r_bases r) (r_bytes r) p.
Definition eol_offset (r : frec) (p : Z) : outcome Z :=
  fai_Record_endOfLineOffset (r_len r) (r_start r) (r_bases r) (r_bytes r) p.

Record seqst := mkSeq { q_rec : frec; q_cur : Z; q_start : Z; q_end : Z }.

Definition E_NOSEQ := 1.
Definition E_RANGE := 2.

Definition file_seq (idx : list frec) (name : list Z) : outcome seqst :=
  match lookup name idx with
  | None => Err E_NOSEQ
  | Some r => Ok (mkSeq r 0 0 (r_len r))
  end.

Definition file_seqrange (idx : list frec) (name : list Z) (s e : Z) : outcome seqst :=
  if (s <? 0) || (e <? 0) || (e <? s) then Err E_RANGE
  else match lookup name idx with
       | None => Err E_NOSEQ
       | Some r => if (r_len r <? s) || (r_len r <? e) then Err E_RANGE
                   else Ok (mkSeq r s s e)
       end.

(** Error value of a Read/ReadAt call. *)
Definition NIL := 0.
Definition EOF := 1.
Definition OTHER := 2.

(** The io.ReaderAt under File, by its contract: ReadAt(p, off) delivers
    n = min(len p, size - off) bytes of the source; the error is io.EOF when
    n < len p (mandatory), nil when the bytes do not end at the end of the
    source, and EITHER nil OR io.EOF when all len p bytes were delivered and
    they end exactly at the end of the source ("ReadAt may return either
    err == EOF or err == nil").  [eof_at_end] is that choice for this call.
    bytes.Reader / strings.Reader / os.File always choose nil.  A start at or
    beyond the end gives (0, io.EOF), a negative one an error. *)
Definition read_at (file : list Z) (eof_at_end : bool) (off k : Z) : list Z * Z :=
  if off <? 0 then ([], OTHER)
  else if zlen file <=? off then ([], EOF)
  else let got := firstn (Z.to_nat k) (skipn (Z.to_nat off) file) in
       (got, if zlen got <? k then EOF
             else if (off + k =? zlen file) && eof_at_end then EOF else NIL).

(** The loop of Seq.Read.  [blen] is len(b) (what is left of the caller's
    buffer), [acc] the bytes delivered so far.  [ch] is the reader's choice
    for every ReadAt call of the whole history (call number -> EOF together
    with the last bytes of the source or not), [c] the number of calls made
    so far.  Every iteration that continues has advanced [cur] by at least
    one base; an iteration that would continue without progress is the Go
    loop spinning for ever and is reported as [Stuck].  Result: bytes, new
    cursor, error value, calls made. *)
Fixpoint read_loop (file : list Z) (ch : nat -> bool) (r : frec) (endoff send : Z) (fuel : nat)
         (c : nat) (cur blen : Z) (acc : list Z) : outcome (list Z * Z * Z * nat) :=
  if cur <? send then
    match fuel with
    | O => Stuck
    | S fuel' =>
      obind (position r cur) (fun curoff =>
      obind (eol_offset r cur) (fun eo =>
      let eol := Z.min eo (endoff - curoff) in
      let k := Z.min eol blen in
      if k <? 0 then Panic 2          (* b[:k] with negative k: slice bounds out of range *)
      else
        let '(got, err) := read_at file (ch c) curoff k in
        let n := zlen got in
        let cur' := cur + n in
        let blen' := blen - n in
        let acc' := acc ++ got in
        if negb (err =? NIL) || (blen' =? 0) then Ok (acc', cur', err, S c)
        else if n =? 0 then Stuck
        else read_loop file ch r endoff send fuel' (S c) cur' blen' acc'))
    end
  else Ok (acc, cur, EOF, c).

(** Seq.Read(b) with len(b) = blen. *)
Definition seq_read (file : list Z) (ch : nat -> bool) (c : nat) (q : seqst) (blen : Z)
  : outcome (list Z * Z) * seqst * nat :=
  if blen =? 0 then (Ok ([], NIL), q, c)
  else if q_end q <=? q_cur q then (Ok ([], EOF), q, c)
  else
    match position (q_rec q) (q_end q) with
    | Ok endoff =>
      match read_loop file ch (q_rec q) endoff (q_end q) (Z.to_nat (q_end q - q_cur q)) c (q_cur q) blen [] with
      | Ok (bs, cur', err, c') => (Ok (bs, err), mkSeq (q_rec q) cur' (q_start q) (q_end q), c')
      | Err e => (Err e, q, c)
      | Panic w => (Panic w, q, c)
      | Stuck => (Stuck, q, c)
      end
    | Err e => (Err e, q, c)
    | Panic w => (Panic w, q, c)
    | Stuck => (Stuck, q, c)
    end.

Definition seq_reset (q : seqst) : seqst := mkSeq (q_rec q) (q_start q) (q_start q) (q_end q).

(** A script of calls on one Seq: Read with a buffer of the given size, or
    Reset for a negative entry.  One result per Read. *)
Fixpoint seq_script (file : list Z) (ch : nat -> bool) (c : nat) (q : seqst) (sizes : list Z)
  : list (outcome (list Z * Z)) :=
  match sizes with
  | [] => []
  | k :: t =>
    if k <? 0 then seq_script file ch c (seq_reset q) t
    else let '(o, q', c') := seq_read file ch c q k in
         o :: match o with Ok _ => seq_script file ch c' q' t | _ => [] end
  end.

(** The readers of the harness: never / always io.EOF with the last bytes. *)
Definition lazy_eof : nat -> bool := fun _ => false.
Definition eager_eof : nat -> bool := fun _ => true.

(* ------------------------------------------------------ WriteTo / ReadFrom *)

(** Decimal text of an integer (fmt %d). *)
Fixpoint digits_fuel (fuel : nat) (n : Z) : list Z :=
  match fuel with
  | O => []
  | S f => if n <? 10 then [48 + n] else digits_fuel f (n / 10) ++ [48 + n mod 10]
  end.
Definition digits (n : Z) : list Z := digits_fuel (S (Z.to_nat (Z.log2 n))) n.
Definition print_int (n : Z) : list Z := if n <? 0 then 45 :: digits (- n) else digits n.

Definition is_digit (c : Z) : bool := (48 <=? c) && (c <=? 57).
Fixpoint parse_digits (acc : Z) (l : list Z) : option Z :=
  match l with
  | [] => Some acc
  | c :: t => if is_digit c then parse_digits (acc * 10 + (c - 48)) t else None
  end.
(** strconv.ParseInt(s, 10, 64): optional sign, at least one digit, range check. *)
Definition parse_int (l : list Z) : option Z :=
  let '(neg, ds) := match l with
                    | c :: t => if c =? 45 then (true, t) else if c =? 43 then (false, t) else (false, l)
                    | [] => (false, l)
                    end in
  if is_nil ds then None
  else match parse_digits 0 ds with
       | None => None
       | Some v => let v' := if neg then - v else v in
                   if (- 2^63 <=? v') && (v' <? 2^63) then Some v' else None
       end.

(** Insertion sort by Start (sort.Sort is not stable; Starts are distinct
    for every index NewIndex builds). *)
Fixpoint insert_by_start (r : frec) (l : list frec) : list frec :=
  match l with
  | [] => [r]
  | x :: t => if r_start r <? r_start x then r :: l else x :: insert_by_start r t
  end.
Fixpoint sort_by_start (l : list frec) : list frec :=
  match l with
  | [] => []
  | x :: t => insert_by_start x (sort_by_start t)
  end.

Definition tsv_line (r : frec) : list Z :=
  r_name r ++ [9] ++ print_int (r_len r) ++ [9] ++ print_int (r_start r) ++ [9]
         ++ print_int (r_bases r) ++ [9] ++ print_int (r_bytes r) ++ [10].

Definition writeto (idx : list frec) : list Z := concat (map tsv_line (sort_by_start idx)).

(** Split at every occurrence of [sep]; the separators are dropped. *)
Fixpoint split_on (sep : Z) (l : list Z) : list (list Z) :=
  match l with
  | [] => [[]]
  | c :: t => if c =? sep then [] :: split_on sep t
              else match split_on sep t with
                   | [] => [[c]]
                   | f :: fs => (c :: f) :: fs
                   end
  end.

(** strings.TrimSuffix(strings.TrimSuffix(text, "\n"), "\r"). *)
Definition strip_last (c : Z) (l : list Z) : list Z :=
  match rev l with
  | x :: t => if x =? c then rev t else l
  | [] => l
  end.
Definition chomp (l : list Z) : list Z := strip_last 13 (strip_last 10 l).

Definition E_FIELDS := 1.
Definition E_NONUNIQUE := 2.
Definition E_NUMBER := 3.

Definition E_GEOMETRY := 5.

(** The validation ReadFrom applies to every record (geometries that Position
    and Seq cannot work with are rejected): Length, Start, BasesPerLine not
    negative; BasesPerLine 0 only with Length 0; BytesPerLine >= BasesPerLine;
    and, when BasesPerLine is not 0, the offset of the last base representable:
    with room = MaxInt64 - BasesPerLine, Start <= room and
    Length/BasesPerLine <= (room-Start)/BytesPerLine. *)
Definition geometry_ok (r : frec) : bool :=
  if r_len r <? 0 then false
  else if r_start r <? 0 then false
  else if (r_bases r <? 0) || ((r_bases r =? 0) && negb (r_len r =? 0)) then false
  else if r_bytes r <? r_bases r then false
  else if negb (r_bases r =? 0) then
    let room := (2^63 - 1) - r_bases r in
    if (room <? r_start r) || (Z.quot (room - r_start r) (r_bytes r) <? Z.quot (r_len r) (r_bases r)) then false
    else true
  else true.

Definition rf_line (idx : list frec) (line : list Z) : outcome (list frec) :=
  let body := chomp line in
  if is_nil body then Ok idx                       (* empty lines are skipped *)
  else match split_on 9 body with
       | [f0; f1; f2; f3; f4] =>
         if has_name f0 idx then Err E_NONUNIQUE
         else match parse_int f1, parse_int f2, parse_int f3, parse_int f4 with
              | Some a, Some b, Some c, Some d =>
                if geometry_ok (mkRec f0 a b c d) then Ok (idx ++ [mkRec f0 a b c d]) else Err E_GEOMETRY
              | _, _, _, _ => Err E_NUMBER
              end
       | _ => Err E_FIELDS
       end.

Fixpoint rf_fold (idx : list frec) (ls : list (list Z)) : outcome (list frec) :=
  match ls with
  | [] => Ok idx
  | l :: t => obind (rf_line idx l) (fun idx' => rf_fold idx' t)
  end.

Definition readfrom (tsv : list Z) : outcome (list frec) := rf_fold [] (lines tsv).

(* ====================================================================== *)
(** * Well-formed FASTA files, described independently of the code *)

Definition term (crlf : bool) : list Z := if crlf then [13; 10] else [10].

(** One record: '>' name, optional description (separator byte SPACE or TAB
    followed by text), the full lines, the last line, the line terminator
    used by this record, and the blank lines that follow it (each with its
    own terminator). *)
Record srec := mkS {
  s_name : list Z; s_desc : list Z;
  s_full : list (list Z); s_last : list Z;
  s_crlf : bool; s_blanks : list bool }.

Record fasta := mkF { f_lead : list bool; f_recs : list srec; f_final_nl : bool }.

Definition blanks (bl : list bool) : list Z := concat (map term bl).

Definition render_header (r : srec) : list Z := 62 :: s_name r ++ s_desc r ++ term (s_crlf r).

Definition render_body (nl : bool) (r : srec) : list Z :=
  concat (map (fun l => l ++ term (s_crlf r)) (s_full r)) ++ s_last r ++ (if nl then term (s_crlf r) else []).

(** A record without sequence: no lines at all after the header. *)
Definition is_empty (r : srec) : bool := is_nil (s_full r) && is_nil (s_last r).

(** [nl]: whether the last line of the record (its last sequence line, or
    its header when it has no sequence) is terminated. *)
Definition render_rec (nl : bool) (r : srec) : list Z :=
  if is_empty r then
    (62 :: s_name r ++ s_desc r) ++ (if nl then term (s_crlf r) else []) ++ blanks (s_blanks r)
  else render_header r ++ render_body nl r ++ blanks (s_blanks r).

Fixpoint render_recs (fin : bool) (rs : list srec) : list Z :=
  match rs with
  | [] => []
  | [r] => render_rec fin r
  | r :: t => render_rec true r ++ render_recs fin t
  end.

Definition render (f : fasta) : list Z := blanks (f_lead f) ++ render_recs (f_final_nl f) (f_recs f).

(** The sequence of a record: its lines without the terminators. *)
Definition bases (r : srec) : list Z := concat (s_full r) ++ s_last r.

(** Characters: names are visible ASCII; description text is ASCII without
    LF; bases are visible ASCII other than '>'. *)
Definition namech (c : Z) : bool := (33 <=? c) && (c <=? 126).
Definition descch (c : Z) : bool := (0 <=? c) && (c <? 128) && negb (c =? 10).
Definition basech (c : Z) : bool := (33 <=? c) && (c <=? 126) && negb (c =? 62).

Definition desc_ok (d : list Z) : bool :=
  match d with
  | [] => true
  | c :: t => ((c =? 32) || (c =? 9)) && forallb descch t
  end.

(** Width of the record: the length of its first line. *)
Definition first_line (r : srec) : list Z := match s_full r with l :: _ => l | [] => s_last r end.
Definition width (r : srec) : Z := zlen (first_line r).

Definition wf_body (r : srec) : bool :=
  forallb (fun l => (zlen l =? width r) && forallb basech l) (s_full r)
  && (1 <=? zlen (s_last r)) && (zlen (s_last r) <=? width r) && forallb basech (s_last r).

Definition wf_rec (nl : bool) (r : srec) : bool :=
  negb (is_nil (s_name r)) && forallb namech (s_name r) && desc_ok (s_desc r)
  && (nl || is_nil (s_blanks r))
  && (is_empty r || wf_body r).

Fixpoint wf_recs (fin : bool) (rs : list srec) : bool :=
  match rs with
  | [] => true
  | [r] => wf_rec fin r
  | r :: t => wf_rec true r && wf_recs fin t
  end.

Fixpoint nodup_names (rs : list srec) : bool :=
  match rs with
  | [] => true
  | r :: t => negb (existsb (fun x => bytes_eqb (s_name x) (s_name r)) t) && nodup_names t
  end.

Definition wf (f : fasta) : bool :=
  wf_recs (f_final_nl f) (f_recs f) && nodup_names (f_recs f)
  && (f_final_nl f || negb (is_nil (f_recs f))).

(** The FAI entry of a record that starts at byte [off] of the file
    (faidx(5): NAME, LENGTH, OFFSET of the first base, LINEBASES, LINEWIDTH =
    bytes of a line including its terminator). *)
Definition tlen (r : srec) : Z := zlen (term (s_crlf r)).
Definition entry (nl : bool) (off : Z) (r : srec) : frec :=
  if is_empty r then
    mkRec (s_name r) 0 (off + zlen (62 :: s_name r ++ s_desc r) + (if nl then tlen r else 0)) 0 0
  else
  mkRec (s_name r) (zlen (bases r)) (off + zlen (render_header r)) (width r)
        (width r + match s_full r with _ :: _ => tlen r | [] => if nl then tlen r else 0 end).

Fixpoint entries (fin : bool) (off : Z) (rs : list srec) : list frec :=
  match rs with
  | [] => []
  | [r] => [entry fin off r]
  | r :: t => entry true off r :: entries fin (off + zlen (render_rec true r)) t
  end.

Definition index_of (f : fasta) : list frec :=
  entries (f_final_nl f) (zlen (blanks (f_lead f))) (f_recs f).

(** An ideal reader over a byte string: a Read with a buffer of [k] > 0 bytes
    delivers min(k, remaining) bytes and reports io.EOF exactly when fewer
    than [k] were left (so also on every later call); Read with an empty
    buffer delivers nothing; a negative entry rewinds. *)
Fixpoint ideal_script (data rest : list Z) (sizes : list Z) : list (outcome (list Z * Z)) :=
  match sizes with
  | [] => []
  | k :: t =>
    if k <? 0 then ideal_script data data t
    else if k =? 0 then Ok ([], NIL) :: ideal_script data rest t
    else Ok (firstn (Z.to_nat k) rest, if zlen rest <? k then EOF else NIL)
         :: ideal_script data (skipn (Z.to_nat k) rest) t
  end.

(** The io.Reader contract over a byte string, as a checker of a script's
    results: a Read with a buffer of [k] > 0 bytes delivers exactly the next
    min(k, remaining) bytes; its error is io.EOF when fewer than [k] were
    left, nil when more than [k] were left, and either of the two when
    exactly [k] were left (io.EOF together with the last bytes, or on the
    next call); a Read with an empty buffer delivers nothing and nil; a
    negative entry rewinds.  [ideal_script] is the behaviour that always
    chooses nil. *)
Fixpoint conforms (data rest : list Z) (sizes : list Z) (rs : list (outcome (list Z * Z))) : bool :=
  match sizes with
  | [] => is_nil rs
  | k :: t =>
    if k <? 0 then conforms data data t rs
    else match rs with
         | Ok (d, e) :: rs' =>
           if k =? 0 then is_nil d && (e =? NIL) && conforms data rest t rs'
           else bytes_eqb d (firstn (Z.to_nat k) rest)
                && ((e =? (if zlen rest <? k then EOF else NIL)) || ((e =? EOF) && (zlen rest =? k)))
                && conforms data (skipn (Z.to_nat k) rest) t rs'
         | _ => false
         end
  end.

(** Reading a stream to its end: the bytes of all calls up to and including
    the first one that reports io.EOF; [None] when a call fails or the script
    ends before io.EOF is seen. *)
Fixpoint drain (rs : list (outcome (list Z * Z))) : option (list Z) :=
  match rs with
  | [] => None
  | Ok (bs, e) :: t =>
    if e =? EOF then Some bs
    else match drain t with Some d => Some (bs ++ d) | None => None end
  | _ :: _ => None
  end.

Definition slice (l : list Z) (s e : Z) : list Z := firstn (Z.to_nat (e - s)) (skipn (Z.to_nat s) l).

(* ====================================================================== *)
(** * Correspondence: observations of the implementation against the model *)

(** Result of NewIndex / ReadFrom as observed: error class (0 = nil) and the
    records sorted by Start. *)
Definition obs_idx := (Z * list frec)%type.

Definition frec_eqb (a b : frec) : bool :=
  bytes_eqb (r_name a) (r_name b) && (r_len a =? r_len b) && (r_start a =? r_start b)
  && (r_bases a =? r_bases b) && (r_bytes a =? r_bytes b).

Fixpoint frecs_eqb (a b : list frec) : bool :=
  match a, b with
  | [], [] => true
  | x :: a', y :: b' => frec_eqb x y && frecs_eqb a' b'
  | _, _ => false
  end.

(** The same map: as many records, and every observed record is the model's
    record of that name (keys are unique on both sides; the order in which
    the harness lists records with equal Start is immaterial). *)
Definition frecs_same (a b : list frec) : bool :=
  Nat.eqb (length a) (length b)
  && forallb (fun x => match lookup (r_name x) a with Some y => frec_eqb x y | None => false end) b.

Definition idx_agree (m : outcome (list frec)) (o : obs_idx) : bool :=
  match m with
  | Ok idx => (fst o =? 0) && frecs_same idx (snd o)
  | Err e => (fst o =? e)
  | _ => false
  end.

(** One Read observation: panic flag, bytes, error value. *)
Definition obs_read := (bool * list Z * Z)%type.

Fixpoint reads_agree (m : list (outcome (list Z * Z))) (o : list obs_read) : bool :=
  match m, o with
  | [], [] => true
  | Ok (bs, e) :: m', (false, bs', e') :: o' => bytes_eqb bs bs' && (e =? e') && reads_agree m' o'
  | Panic _ :: _, [(true, _, _)] => true
  | _, _ => false
  end.

(** A query: Seq (whole = true) or SeqRange name s e, then the script.
    Observation: error class of opening (0 = nil) and the Read results. *)
Record query := mkQ { qy_name : list Z; qy_whole : bool; qy_s : Z; qy_e : Z; qy_sizes : list Z;
                      qy_open : Z; qy_reads : list obs_read;       (* over bytes.Reader *)
                      qy_reads_eager : list obs_read }.            (* over the eager-EOF ReaderAt *)

Definition query_agree (file : list Z) (idx : list frec) (q : query) : bool :=
  match (if qy_whole q then file_seq idx (qy_name q) else file_seqrange idx (qy_name q) (qy_s q) (qy_e q)) with
  | Ok st => (qy_open q =? 0) && reads_agree (seq_script file lazy_eof O st (qy_sizes q)) (qy_reads q)
             && reads_agree (seq_script file eager_eof O st (qy_sizes q)) (qy_reads_eager q)
  | Err e => (qy_open q =? e) && is_nil (qy_reads q) && is_nil (qy_reads_eager q)
  | _ => false
  end.

Record c19case := mkCase {
  c_file : list Z;
  c_idx : obs_idx;                       (* NewIndex(file) *)
  c_tsv : bool * list Z;                 (* compare? , bytes written by WriteTo *)
  c_rt : obs_idx;                        (* ReadFrom of those bytes *)
  c_queries : list query;
  c_struct : option fasta                (* the structure the file was rendered from *)
}.

Definition c19_agree (c : c19case) : bool :=
  let m := newindex (c_file c) in
  idx_agree m (c_idx c)
  && match m with
     | Ok idx =>
       (negb (fst (c_tsv c)) ||
        (bytes_eqb (writeto idx) (snd (c_tsv c)) && idx_agree (readfrom (writeto idx)) (c_rt c)))
       && forallb (query_agree (c_file c) idx) (c_queries c)
     | _ => true
     end
  && match c_struct c with
     | None => true
     | Some f => wf f && bytes_eqb (render f) (c_file c) && idx_agree (Ok (index_of f)) (c_idx c)
     end.

(** ReadFrom on arbitrary TSV text. *)
Record c19tsv := mkTsv { t_in : list Z; t_obs : obs_idx }.
Definition c19_tsv_agree (c : c19tsv) : bool := idx_agree (readfrom (t_in c)) (t_obs c).

(** NewIndex on a file with one long line of [l_n] bases 'A' between
    [l_pre] and [l_post] (the file is built here: a literal of 64 KiB would
    take minutes to parse). *)
Record c19long := mkLong { l_pre : list Z; l_n : Z; l_post : list Z; l_obs : obs_idx }.
Definition c19_long_agree (c : c19long) : bool :=
  idx_agree (newindex (l_pre c ++ repeat 65 (Z.to_nat (l_n c)) ++ l_post c)) (l_obs c).
