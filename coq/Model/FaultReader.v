(** C09 — model of the synchronous bgzf.Reader (rd = 1, no cache) over a
    faulting io.ReadSeeker.  Executable definitions only.

    The file is a list of BGZF members (compressed size, decompressed data);
    the source delivers the bytes below the fault offset [X] and then fails
    ("every read reaching offset >= X fails after delivering the bytes below
    X"), [r_trans] times (0 = for ever); the [r_seekk]-th Seek call fails.
    How bufio and compress/gzip cut their reads is not modelled: a member
    [a, a+size) is fetched successfully iff no active fault offset lies below
    a+size, and a failed fetch leaves the count reader at max(a, X).

    [invalidate] says whether nextBlockAt drops the data of the block when the
    fetch fails (read off the source by gen/: bgzf_reader_invalidates). *)
From Coq Require Import ZArith List Bool.
From Hts Require Import Base.Prim Generated Model.FaultWriter.
Import ListNotations.
Open Scope Z_scope.

Definition member := (Z * list Z)%type.   (* compressed size, data *)

(** Variant of the code, read off the source by gen/:
    [rv_inval]  nextBlockAt drops the block's data when readMember fails;
    [rv_late]   countReader.seek records the new offset only after the
                underlying Seek has succeeded. *)
Record rvar := { rv_inval : bool; rv_late : bool }.
Definition rfixed : rvar := {| rv_inval := true; rv_late := true |}.

(** [r_pos] is where the underlying source really stands; the reader only
    knows the count reader's idea of it ([croff] below). *)
Record rsrc := { r_x : Z; r_trans : Z; r_fails : Z; r_seekk : Z; r_seeks : Z; r_pos : Z }.

Definition faulty (r : rsrc) : bool := (0 <=? r_x r) && ((r_trans r =? 0) || (r_fails r <? r_trans r)).
Definition failed1 (r : rsrc) : rsrc :=
  {| r_x := r_x r; r_trans := r_trans r; r_fails := r_fails r + 1; r_seekk := r_seekk r; r_seeks := r_seeks r; r_pos := r_pos r |}.
Definition seeked1 (r : rsrc) : rsrc :=
  {| r_x := r_x r; r_trans := r_trans r; r_fails := r_fails r; r_seekk := r_seekk r; r_seeks := r_seeks r + 1; r_pos := r_pos r |}.
Definition moved (r : rsrc) (p : Z) : rsrc :=
  {| r_x := r_x r; r_trans := r_trans r; r_fails := r_fails r; r_seekk := r_seekk r; r_seeks := r_seeks r; r_pos := p |}.

Record rst := {
  file : list member; src : rsrc; croff : Z;
  cbase : Z; chsize : Z; cdata : list Z; coff : Z; cvalid : bool;
  rerr : Z }.   (* 0 nil, 1 injected fault, 3 io.EOF, 4 other *)

Fixpoint flen (f : list member) : Z := match f with [] => 0 | (sz, _) :: r => sz + flen r end.

(** The member that starts at offset [a]. *)
Fixpoint member_at (f : list member) (a : Z) : option member :=
  match f with
  | [] => None
  | (sz, d) :: r => if a =? 0 then Some (sz, d) else if a <? sz then None else member_at r (a - sz)
  end.

Fixpoint base_of (f : list member) (m : nat) : Z :=
  match m, f with
  | O, _ => 0
  | S m', (sz, _) :: r => sz + base_of r m'
  | S _, [] => 0
  end.

Definition upd (s : rst) (sr : rsrc) (co : Z) (b h : Z) (d : list Z) (o : Z) (v : bool) (e : Z) : rst :=
  {| file := file s; src := sr; croff := co; cbase := b; chsize := h; cdata := d; coff := o; cvalid := v; rerr := e |}.

(** d.blk.setBase(d.cr.offset()); d.err = d.readMember(); decompress.
    The block is labelled with the count reader's offset [croff]; the bytes
    come from where the source really stands ([r_pos]).  Returns the error class. *)
Definition fetch (v : rvar) (s : rst) : rst * Z :=
  let a := croff s in
  let p := r_pos (src s) in
  let inval := rv_inval v in
  let fail (sr : rsrc) (delivered e : Z) :=
    (upd s (moved sr (p + delivered)) (a + delivered) a (if inval then (-1) else chsize s) (cdata s)
         (if inval then 0 else coff s) (if inval then false else cvalid s) (rerr s), e) in
  if faulty (src s) && (r_x (src s) <=? p) then fail (failed1 (src s)) 0 1
  else if flen (file s) <=? p then fail (src s) 0 3
  else match member_at (file s) p with
       | None => fail (src s) 0 4
       | Some (sz, d) =>
         if faulty (src s) && (r_x (src s) <? p + sz) then fail (failed1 (src s)) (r_x (src s) - p) 1
         else (upd s (moved (src s) (p + sz)) (a + sz) a sz d 0 true (rerr s), 0)
       end.

(** decompressor.nextBlockAt(off) followed by wait(): countReader.seek when
    the count reader is not at [off]. *)
Definition next_block_at (v : rvar) (s : rst) (off : Z) : rst * Z :=
  if croff s =? off then fetch v s
  else
    let sr := seeked1 (src s) in
    if (r_seeks (src s) =? r_seekk (src s)) || (off <? 0) then
      (* the underlying Seek fails: the source does not move *)
      (upd s sr (if rv_late v then croff s else off) (cbase s) (chsize s) (cdata s) (coff s) (cvalid s) (rerr s), if off <? 0 then 4 else 1)
    else fetch v (upd s (moved sr off) off (cbase s) (chsize s) (cdata s) (coff s) (cvalid s) (rerr s)).

Definition next_base (s : rst) : Z := if chsize s <? 0 then (-1) else cbase s + chsize s.
Definition cur_len (s : rst) : Z := if cvalid s then Z.max 0 (zlen (cdata s) - coff s) else 0.
Definition set_err (s : rst) (e : Z) : rst :=
  upd s (src s) (croff s) (cbase s) (chsize s) (cdata s) (coff s) (cvalid s) e.

Definition next_block (inval : rvar) (s : rst) : rst * Z := next_block_at inval s (next_base s).

(** Reader.Read(p) with len p = n. *)
Fixpoint skip_empty (inval : rvar) (fuel : nat) (s : rst) : rst * Z :=
  match fuel with
  | O => (s, 4)
  | S f => if cur_len s =? 0 then
             let '(s1, e) := next_block inval s in
             if e =? 0 then skip_empty inval f s1 else (s1, e)
           else (s, 0)
  end.

Fixpoint read_loop (inval : rvar) (fuel : nat) (s : rst) (want : Z) (got : list Z) : rst * Z * list Z :=
  match fuel with
  | O => (s, 4, got)
  | S f =>
    if want <=? 0 then (s, 0, got)
    else
      let avail := cur_len s in
      if avail =? 0 then
        let '(s1, e) := next_block inval s in
        if e =? 0 then read_loop inval f s1 want got else (s1, e, got)
      else
        let k := Z.min avail want in
        let bytes := firstn (Z.to_nat k) (skipn (Z.to_nat (coff s)) (cdata s)) in
        let s1 := upd s (src s) (croff s) (cbase s) (chsize s) (cdata s) (coff s + k) (cvalid s) (rerr s) in
        read_loop inval f s1 (want - k) (got ++ bytes)
  end.

Definition do_read (inval : rvar) (s : rst) (n : Z) : rst * Z * list Z :=
  if negb (rerr s =? 0) then (s, rerr s, [])
  else
    let fuel := (2 * length (file s) + 6)%nat in
    let '(s1, e) := skip_empty inval fuel s in
    if negb (e =? 0) then (set_err s1 e, e, [])
    else let '(s2, e2, got) := read_loop inval fuel s1 n [] in (set_err s2 e2, e2, got).

(** Reader.Seek(Offset{File: base of member m, Block: w}). *)
Definition do_seek (inval : rvar) (s : rst) (m : nat) (w : Z) : rst * Z :=
  let off := base_of (file s) m in
  let go (s1 : rst) := (upd s1 (src s1) (croff s1) (cbase s1) (chsize s1) (cdata s1) w (cvalid s1) 0, 0) in
  if negb (off =? cbase s) || negb (cvalid s) then
    let '(s1, e) := next_block_at inval s off in
    if e =? 0 then go s1 else (set_err s1 e, e)
  else go s.

Inductive rop := RRead (n : Z) | RSeek (m : Z) (w : Z) | RClose.

Definition close_class (e : Z) : Z := if e =? 3 then 0 else e.

Fixpoint run_ops (inval : rvar) (s : rst) (ops : list rop) : list (Z * list Z) :=
  match ops with
  | [] => []
  | RRead n :: r => let '(s1, e, got) := do_read inval s n in (e, got) :: run_ops inval s1 r
  | RSeek m w :: r => let '(s1, e) := do_seek inval s (Z.to_nat m) w in (e, []) :: run_ops inval s1 r
  | RClose :: r => (close_class (rerr s), []) :: run_ops inval s r
  end.

Definition rinit (f : list member) (x trans seekk : Z) : rst :=
  {| file := f; src := {| r_x := x; r_trans := trans; r_fails := 0; r_seekk := seekk; r_seeks := 0; r_pos := 0 |};
     croff := 0; cbase := 0; chsize := -1; cdata := []; coff := 0; cvalid := false; rerr := 0 |}.

(** NewReader: nextBlockAt(0).wait(); an error is returned to the caller. *)
Definition ropen (inval : rvar) (f : list member) (x trans seekk : Z) : rst * Z :=
  fetch inval (rinit f x trans seekk).

Record rcase := mkRCase {
  rc_file : list member; rc_x : Z; rc_trans : Z; rc_seekk : Z; rc_ops : list rop;
  rc_open : Z; rc_res : list (Z * list Z) }.

Fixpoint zlist_eqb (a b : list Z) : bool :=
  match a, b with
  | [], [] => true
  | x :: r, y :: r' => (x =? y) && zlist_eqb r r'
  | _, _ => false
  end.

Fixpoint res_eqb (a b : list (Z * list Z)) : bool :=
  match a, b with
  | [], [] => true
  | (e, d) :: r, (e', d') :: r' => (e =? e') && zlist_eqb d d' && res_eqb r r'
  | _, _ => false
  end.

Definition rcase_agree_v (inval : rvar) (c : rcase) : bool :=
  let '(s, e) := ropen inval (rc_file c) (rc_x c) (rc_trans c) (rc_seekk c) in
  (e =? rc_open c) &&
  (if e =? 0 then res_eqb (run_ops inval s (rc_ops c)) (rc_res c) else true).

Definition reader_variant : rvar := {| rv_inval := bgzf_reader_invalidates; rv_late := bgzf_countreader_off_after_seek |}.
Definition rcase_agree (c : rcase) : bool := rcase_agree_v reader_variant c.

(** One case type for the comparison run. *)
Inductive c09case := CW (w : wcase) | CR (r : rcase).
Definition c09_agree (c : c09case) : bool :=
  match c with CW w => wcase_agree w | CR r => rcase_agree r end.
