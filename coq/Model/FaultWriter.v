(** C09 — model of the bgzf.Writer pipeline under I/O faults.
    Executable definitions only (proofs: Proofs/FaultWriter.v).

    A schedule-driven small-step system.  Threads: the API thread (runs the
    script of Write/Flush/Wait/Close calls), the emitter goroutine started by
    NewWriterLevel, and one goroutine per running [compressor.writeBlock].
    Shared state: the [queue] and [waiting] channels (capacity = number of
    compressors = max(wc+1,2)), the per-compressor [flush] channel (capacity 1;
    represented by the status of the compressor's item: [Pend] = writeBlock
    goroutine still running, [Ready e] = the compressor sits in its flush
    channel with c.err = e, [ClosePend] = queued by Close, which runs
    writeBlock itself), the wait group [qwg], the emitter's wait group
    (emitter terminated = [EExit]), the error latch (setErr/Error) and the
    underlying writer with its fault plan (the [wk]-th call and every later one
    fail; a partial count does not change control flow and is not modelled).

    The emitter comes in variants; which one is in force is computed from the
    channel skeleton that gen/ extracts from writer.go (see [variant_of]). *)
From Coq Require Import ZArith List Bool.
From Hts Require Import Base.Prim Generated.
Import ListNotations.
Open Scope Z_scope.

(** * Channel skeleton (the type of what gen/emit_c09.go emits) *)
Inductive sk : Type :=
| SkSend (ch : Z) | SkRecv (ch : Z) | SkClose (ch : Z)
| SkAdd (wg : Z) | SkDone (wg : Z) | SkWait (wg : Z)
| SkGo (f : Z) | SkCall (f : Z)
| SkSetErr | SkGetErr | SkUnderWrite
| SkReturn | SkBreak
| SkDefer (body : list sk)
| SkIf (thn els : list sk)
| SkLoop (body : list sk)
| SkRange (ch : Z) (body : list sk).

(** Flat events of one execution path. *)
Inductive ev : Type :=
| ESend (ch : Z) | ERecv (ch : Z) | ECloseCh (ch : Z)
| EAdd (wg : Z) | EDone (wg : Z) | EWaitWg (wg : Z)
| EGo (f : Z) | ECall (f : Z) | ESetErr | EGetErr | EUnder | EBrk.

(** Paths through a loop-free statement list: (events, terminated) where
    terminated tells that the path ended in [return] (1) or [break] (2).
    Loops contribute their body paths once (used for per-iteration checks). *)
Definition pstate := (list ev * Z)%type.

Fixpoint sk_paths (fuel : nat) (l : list sk) : list (list ev * list (list sk) * Z) :=
  (* result: events so far, deferred bodies (innermost last), status 0 = fell through, 1 = return, 2 = break *)
  match fuel with
  | O => []
  | S fuel' =>
    match l with
    | [] => [([], [], 0)]
    | s :: rest =>
      let cont (pre : list (list ev * list (list sk) * Z)) :=
        flat_map (fun p => match p with
          | (e, d, 0) => map (fun q => match q with (e2, d2, st) => (e ++ e2, d ++ d2, st) end) (sk_paths fuel' rest)
          | other => [other] end) pre in
      match s with
      | SkSend c => cont [([ESend c], [], 0)]
      | SkRecv c => cont [([ERecv c], [], 0)]
      | SkClose c => cont [([ECloseCh c], [], 0)]
      | SkAdd w => cont [([EAdd w], [], 0)]
      | SkDone w => cont [([EDone w], [], 0)]
      | SkWait w => cont [([EWaitWg w], [], 0)]
      | SkGo f => cont [([EGo f], [], 0)]
      | SkCall f => cont [([ECall f], [], 0)]
      | SkSetErr => cont [([ESetErr], [], 0)]
      | SkGetErr => cont [([EGetErr], [], 0)]
      | SkUnderWrite => cont [([EUnder], [], 0)]
      | SkReturn => [([], [], 1)]
      | SkBreak => [([EBrk], [], 2)]
      | SkDefer b => cont [([], [b], 0)]
      | SkIf a b => cont (sk_paths fuel' a ++ sk_paths fuel' b)
      | SkLoop b => cont (([], [], 0) :: map (fun p => match p with (e, d, st) => (e, d, if st =? 2 then 0 else st) end) (sk_paths fuel' b))
      | SkRange c b => cont (([], [], 0) :: map (fun p => match p with (e, d, st) => (ERecv c :: e, d, if st =? 2 then 0 else st) end) (sk_paths fuel' b))
      end
    end
  end.

(** Events of the deferred bodies, run in reverse order of registration
    (deferred bodies are straight-line in writer.go; anything else gives no path). *)
Fixpoint straight (l : list sk) : option (list ev) :=
  match l with
  | [] => Some []
  | s :: r =>
    match straight r with
    | None => None
    | Some t =>
      match s with
      | SkSend c => Some (ESend c :: t) | SkRecv c => Some (ERecv c :: t) | SkClose c => Some (ECloseCh c :: t)
      | SkAdd w => Some (EAdd w :: t) | SkDone w => Some (EDone w :: t) | SkWait w => Some (EWaitWg w :: t)
      | SkGo f => Some (EGo f :: t) | SkCall f => Some (ECall f :: t)
      | SkSetErr => Some (ESetErr :: t) | SkGetErr => Some (EGetErr :: t) | SkUnderWrite => Some (EUnder :: t)
      | _ => None
      end
    end
  end.

Fixpoint run_defers (ds : list (list sk)) : option (list ev) :=
  match ds with
  | [] => Some []
  | d :: r => match run_defers r, straight d with
              | Some a, Some b => Some (a ++ b)
              | _, _ => None end
  end.

(** Complete paths of a function body: body events followed by its defers. *)
Definition fn_paths (body : list sk) : option (list (list ev)) :=
  fold_right (fun p acc =>
      match p, acc with
      | (e, d, _), Some l => match run_defers d with Some de => Some ((e ++ de) :: l) | None => None end
      | _, None => None end) (Some []) (sk_paths 64 body).

Definition ev_eqb (a b : ev) : bool :=
  match a, b with
  | ESend x, ESend y | ERecv x, ERecv y | ECloseCh x, ECloseCh y
  | EAdd x, EAdd y | EDone x, EDone y | EWaitWg x, EWaitWg y
  | EGo x, EGo y | ECall x, ECall y => Z.eqb x y
  | ESetErr, ESetErr | EGetErr, EGetErr | EUnder, EUnder | EBrk, EBrk => true
  | _, _ => false
  end.

Definition count_ev (e : ev) (p : list ev) : Z := zlen (filter (ev_eqb e) p).

Fixpoint index_ev (e : ev) (p : list ev) : option nat :=
  match p with
  | [] => None
  | x :: r => if ev_eqb e x then Some O else option_map S (index_ev e r)
  end.

Definition before (a b : ev) (p : list ev) : bool :=
  match index_ev a p, index_ev b p with
  | Some i, Some j => Nat.ltb i j
  | _, _ => true
  end.

(** The writer skeleton as a whole. *)
Record wskel := {
  sk_emitter : list sk;      (* body of the goroutine started by NewWriterLevel *)
  sk_writeOK : list sk;
  sk_writeBlock : list sk;
  sk_Write : list sk;
  sk_Flush : list sk;
  sk_Wait : list sk;
  sk_Close : list sk }.

(** Parser of the bracketed token list emitted by gen/emit_c09.go. *)
Fixpoint parse_sk (fuel : nat) (t : list (Z * Z)) : option (list sk * list (Z * Z)) :=
  match fuel with
  | O => None
  | S f =>
    match t with
    | [] => Some ([], [])
    | (code, nm) :: r =>
      let simple (x : sk) := match parse_sk f r with Some (l, r') => Some (x :: l, r') | None => None end in
      let block (mk : list sk -> sk) :=
        match parse_sk f r with
        | Some (b, (29, _) :: r1) => match parse_sk f r1 with Some (l, r') => Some (mk b :: l, r') | None => None end
        | _ => None end in
      if (code =? 29) || (code =? 22) then Some ([], t)
      else if code =? 1 then simple (SkSend nm) else if code =? 2 then simple (SkRecv nm)
      else if code =? 3 then simple (SkClose nm) else if code =? 4 then simple (SkAdd nm)
      else if code =? 5 then simple (SkDone nm) else if code =? 6 then simple (SkWait nm)
      else if code =? 7 then simple (SkGo nm) else if code =? 8 then simple (SkCall nm)
      else if code =? 9 then simple SkSetErr else if code =? 10 then simple SkGetErr
      else if code =? 11 then simple SkUnderWrite else if code =? 12 then simple SkReturn
      else if code =? 13 then simple SkBreak
      else if code =? 20 then block SkDefer
      else if code =? 23 then block SkLoop
      else if code =? 24 then block (SkRange nm)
      else if code =? 21 then
        match parse_sk f r with
        | Some (a, (29, _) :: r1) => match parse_sk f r1 with Some (l, r') => Some (SkIf a [] :: l, r') | None => None end
        | Some (a, (22, _) :: r1) =>
          match parse_sk f r1 with
          | Some (b, (29, _) :: r2) => match parse_sk f r2 with Some (l, r') => Some (SkIf a b :: l, r') | None => None end
          | _ => None end
        | _ => None end
      else None
    end
  end.

(** An unparsable list becomes a body with no paths ([SkBreak] inside a defer), so every check over it fails. *)
Definition parse_fn (t : list (Z * Z)) : list sk :=
  match parse_sk (S (S (length t))) t with
  | Some (l, []) => l
  | _ => [SkDefer [SkBreak]]
  end.

(** * Emitter variants *)
Record variant := {
  v_break : bool;       (* the emitter leaves its loop after a block that was not written *)
  v_done_always : bool; (* exactly one qwg.Done and one send to waiting on every path of writeOK *)
  v_err_first : bool;   (* on a failed write, setErr comes before qwg.Done *)
  v_skip : bool }.      (* writeOK consults the latch before the underlying write *)

Definition fixed_variant := {| v_break := false; v_done_always := true; v_err_first := true; v_skip := true |}.
Definition orig_variant := {| v_break := true; v_done_always := false; v_err_first := false; v_skip := false |}.

Definition all_paths (b : list sk) (f : list ev -> bool) : bool :=
  match fn_paths b with Some ps => forallb f ps | None => false end.
Definition some_path (b : list sk) (f : list ev -> bool) : bool :=
  match fn_paths b with Some ps => existsb f ps | None => false end.

Definition queueS : Z := 1.
Definition waitingS : Z := 2.
Definition flushS : Z := 3.
Definition qwgS : Z := 4.
Definition wgS : Z := 5.
Definition writeBlockS : Z := 6.
Definition writeOKS : Z := 7.

(** Token conservation of writeOK: on every path exactly one Done and exactly
    one return of the compressor to the pool. *)
Definition writeOK_conserves (k : wskel) : bool :=
  all_paths (sk_writeOK k) (fun p => (count_ev (EDone qwgS) p =? 1) && (count_ev (ESend waitingS) p =? 1)
                                     && before (EDone qwgS) (ESend waitingS) p).
(** Every compressor that is queued is answered on its flush channel exactly once. *)
Definition writeBlock_conserves (k : wskel) : bool :=
  all_paths (sk_writeBlock k) (fun p => count_ev (ESend flushS) p =? 1).
(** API methods: as many Adds as sends on queue, on every path; every send on
    queue is matched by a go/call of writeBlock. *)
Definition api_conserves (b : list sk) : bool :=
  all_paths b (fun p => (count_ev (EAdd qwgS) p =? count_ev (ESend queueS) p)
                        && (count_ev (ESend queueS) p =? count_ev (EGo writeBlockS) p + count_ev (ECall writeBlockS) p)
                        && (count_ev (ERecv waitingS) p =? count_ev (ESend queueS) p)).
Definition emitter_breaks (k : wskel) : bool :=
  some_path (sk_emitter k) (fun p => 0 <? count_ev EBrk p).
Definition emitter_shape (k : wskel) : bool :=
  all_paths (sk_emitter k) (fun p => (count_ev (ERecv flushS) p =? count_ev (ERecv queueS) p)
                                     && (count_ev (ECall writeOKS) p =? count_ev (ERecv queueS) p)).

Definition variant_of (k : wskel) : variant :=
  {| v_break := emitter_breaks k;
     v_done_always := writeOK_conserves k;
     v_err_first := all_paths (sk_writeOK k) (fun p => before ESetErr (EDone qwgS) p);
     v_skip := all_paths (sk_writeOK k) (fun p => before EGetErr EUnder p && ((count_ev EUnder p =? 0) || (0 <? count_ev EGetErr p))) |}.

(** The skeleton of the current source (regenerated by gen/ on every run). *)
Definition writer_skel : wskel :=
  {| sk_emitter := parse_fn bgzf_wskel_emitter; sk_writeOK := parse_fn bgzf_wskel_writeOK;
     sk_writeBlock := parse_fn bgzf_wskel_writeBlock; sk_Write := parse_fn bgzf_wskel_Write;
     sk_Flush := parse_fn bgzf_wskel_Flush; sk_Wait := parse_fn bgzf_wskel_Wait; sk_Close := parse_fn bgzf_wskel_Close |}.
Definition writer_variant : variant := variant_of writer_skel.

Definition skeleton_conserves (k : wskel) : bool :=
  writeOK_conserves k && writeBlock_conserves k && emitter_shape k && negb (emitter_breaks k)
  && api_conserves (sk_Write k) && api_conserves (sk_Flush k) && api_conserves (sk_Close k).

(** * The transition system *)
Definition BS : Z := 65280.

Inductive op := OWrite (n : Z) | OFlush | OWait | OClose | OHdr (bad : bool).

Inductive ist := Pend | Ready (err : bool) | ClosePend.
Record item := { cid : nat; ist_ : ist; inext : Z }.

Inductive apc :=
| AIdle
| AWLoop (rem n : Z)        (* top of the for loop of Write *)
| AWRecv (rem n : Z)        (* c = <-bg.waiting *)
| AWErr (rem n : Z)         (* err = bg.Error() *)
| AWRet (n : Z)             (* return n, bg.Error() *)
| AFRecv                    (* Flush: c, bg.active = bg.active, <-bg.waiting *)
| AFEnq (c : nat) (nx : Z)  (* bg.queue <- c; Add; go writeBlock *)
| AFRet
| ATWait | ATRet            (* Wait: bg.qwg.Wait(); return bg.Error() *)
| ACRecv (c : nat) (nx : Z) (* Close: <-bg.waiting *)
| ACComp (c : nat) (nx : Z) (* c.writeBlock(); closed = true; close(queue) *)
| ACWg                      (* bg.wg.Wait() *)
| ACMagic.                  (* write the EOF marker unless an error is latched; return *)

Inductive epc :=
| EIdle
| EFlush (it : item)             (* <-qw.flush *)
| EWrite (c : nat) (nx : Z) (cerr : bool)   (* body of writeOK *)
| EFail1 (c : nat) (nx : Z)      (* after a failed underlying write *)
| EFail2 (c : nat) (nx : Z)
| ERet (c : nat) (nx : Z) (ok : bool)   (* deferred bg.waiting <- c *)
| EExit.

Inductive thread := TApi | TEmit | TComp (c : nat).

Record st := {
  script : list op; pc : apc; results : list (Z * Z);
  active : nat; anext : Z;
  queue : list item; waiting : list (nat * Z);
  qwg : Z; em : epc; latch : option Z;
  closed : bool; qclosed : bool; hdrbad : bool;
  wcount : Z; wfailed : Z; wafter : Z }.

Record cfg := { ncomp : nat; wk : Z; vr : variant }.

Definition ncomp_of_wc (wc : Z) : nat := Z.to_nat (Z.max (wc + 1) 2).

Fixpoint mkwaiting (i n : nat) : list (nat * Z) :=
  match n with O => [] | S n' => (i, 0) :: mkwaiting (S i) n' end.

Definition init (c : cfg) (s : list op) : st :=
  {| script := s; pc := AIdle; results := []; active := O; anext := 0;
     queue := []; waiting := mkwaiting 1 (ncomp c - 1);
     qwg := 0; em := EIdle; latch := None; closed := false; qclosed := false; hdrbad := false;
     wcount := 0; wfailed := 0; wafter := 0 |}.

Definition lclass (l : option Z) : Z := match l with None => 0 | Some e => e end.
Definition latched (s : st) : bool := match latch s with None => false | Some _ => true end.
Definition set_latch (l : option Z) (e : Z) : option Z := match l with None => Some e | Some x => Some x end.

(* record update helpers *)
Definition upd_api (s : st) (sc : list op) (p : apc) (r : list (Z*Z)) : st :=
  {| script := sc; pc := p; results := r; active := active s; anext := anext s; queue := queue s; waiting := waiting s;
     qwg := qwg s; em := em s; latch := latch s; closed := closed s; qclosed := qclosed s; hdrbad := hdrbad s;
     wcount := wcount s; wfailed := wfailed s; wafter := wafter s |}.
Definition set_pc (s : st) (p : apc) : st := upd_api s (script s) p (results s).
(* finish the current call with a result *)
Definition ret (s : st) (cl n : Z) : st := upd_api s (tl (script s)) AIdle (results s ++ [(cl, n)]).

Definition set_chan (s : st) (a : nat) (an : Z) (q : list item) (w : list (nat*Z)) (g : Z) : st :=
  {| script := script s; pc := pc s; results := results s; active := a; anext := an; queue := q; waiting := w;
     qwg := g; em := em s; latch := latch s; closed := closed s; qclosed := qclosed s; hdrbad := hdrbad s;
     wcount := wcount s; wfailed := wfailed s; wafter := wafter s |}.
Definition set_em (s : st) (e : epc) : st :=
  {| script := script s; pc := pc s; results := results s; active := active s; anext := anext s; queue := queue s; waiting := waiting s;
     qwg := qwg s; em := e; latch := latch s; closed := closed s; qclosed := qclosed s; hdrbad := hdrbad s;
     wcount := wcount s; wfailed := wfailed s; wafter := wafter s |}.
Definition set_latch_st (s : st) (e : Z) : st :=
  {| script := script s; pc := pc s; results := results s; active := active s; anext := anext s; queue := queue s; waiting := waiting s;
     qwg := qwg s; em := em s; latch := set_latch (latch s) e; closed := closed s; qclosed := qclosed s; hdrbad := hdrbad s;
     wcount := wcount s; wfailed := wfailed s; wafter := wafter s |}.
Definition set_flags (s : st) (cl qc hb : bool) : st :=
  {| script := script s; pc := pc s; results := results s; active := active s; anext := anext s; queue := queue s; waiting := waiting s;
     qwg := qwg s; em := em s; latch := latch s; closed := cl; qclosed := qc; hdrbad := hb;
     wcount := wcount s; wfailed := wfailed s; wafter := wafter s |}.

(** One call of the underlying writer: returns (state, failed?). *)
Definition under_write (c : cfg) (s : st) : st * bool :=
  let fail := (0 <=? wk c) && (wk c <=? wcount s) in
  ({| script := script s; pc := pc s; results := results s; active := active s; anext := anext s; queue := queue s; waiting := waiting s;
      qwg := qwg s; em := em s; latch := latch s; closed := closed s; qclosed := qclosed s; hdrbad := hdrbad s;
      wcount := wcount s + 1; wfailed := wfailed s + (if fail then 1 else 0);
      wafter := wafter s + (if 0 <? wfailed s then 1 else 0) |}, fail).

Definition qfull (c : cfg) (s : st) : bool := Nat.leb (ncomp c) (length (queue s)).
Definition wfull (c : cfg) (s : st) : bool := Nat.leb (ncomp c) (length (waiting s)).

(** bg.queue <- c; bg.qwg.Add(1); [go c.writeBlock()] *)
Definition enqueue (s : st) (c : nat) (nx : Z) (status : ist) : st :=
  set_chan s (active s) (anext s) (queue s ++ [{| cid := c; ist_ := status; inext := nx |}]) (waiting s) (qwg s + 1).

Definition pend_cids (s : st) : list nat :=
  let f (it : item) := match ist_ it with Pend => [cid it] | _ => [] end in
  flat_map f (queue s) ++ match em s with EFlush it => f it | _ => [] end.

(** The API thread.  None = blocked. *)
Definition step_api (c : cfg) (s : st) : option st :=
  match pc s with
  | AIdle =>
    match script s with
    | [] => None
    | OWrite n :: _ =>
      if closed s then Some (ret s 2 0)
      else if latched s then Some (ret s (lclass (latch s)) 0)
      else Some (set_pc s (AWLoop n 0))
    | OFlush :: _ =>
      if closed s then Some (ret s 2 0)
      else if latched s then Some (ret s (lclass (latch s)) 0)
      else if anext s =? 0 then Some (ret s 0 0)
      else Some (set_pc s AFRecv)
    | OWait :: _ =>
      if latched s then Some (ret s (lclass (latch s)) 0) else Some (set_pc s ATWait)
    | OClose :: _ =>
      if closed s then Some (ret s (lclass (latch s)) 0)
      else if qfull c s then None
      else Some (set_pc (enqueue s (active s) (anext s) ClosePend) (ACRecv (active s) (anext s)))
    | OHdr b :: _ =>
      (* the header is only changed while no compressor goroutine runs (it is read by writeBlock without a lock) *)
      match pend_cids s with
      | [] => Some (ret (set_flags s (closed s) (qclosed s) b) 0 0)
      | _ => None
      end
    end
  | AWLoop rem n =>
    if rem <=? 0 then Some (set_pc s (AWRet n))
    else
      let fits := (anext s =? 0) || (anext s + rem <=? BS) in
      let k := if fits then Z.min (BS - anext s) rem else 0 in
      let nx := anext s + k in
      if (nx =? BS) || (k =? 0) then
        if qfull c s then None
        else Some (set_pc (enqueue (set_chan s (active s) nx (queue s) (waiting s) (qwg s)) (active s) nx Pend) (AWRecv (rem - k) (n + k)))
      else Some (set_pc (set_chan s (active s) nx (queue s) (waiting s) (qwg s)) (AWErr (rem - k) (n + k)))
  | AWRecv rem n =>
    match waiting s with
    | [] => None
    | (c', nx) :: w => Some (set_pc (set_chan s c' nx (queue s) w (qwg s)) (AWErr rem n))
    end
  | AWErr rem n => if latched s then Some (set_pc s (AWRet n)) else Some (set_pc s (AWLoop rem n))
  | AWRet n => Some (ret s (lclass (latch s)) n)
  | AFRecv =>
    match waiting s with
    | [] => None
    | (c', nx) :: w => Some (set_pc (set_chan s c' nx (queue s) w (qwg s)) (AFEnq (active s) (anext s)))
    end
  | AFEnq c0 nx0 => if qfull c s then None else Some (set_pc (enqueue s c0 nx0 Pend) AFRet)
  | AFRet => Some (ret s (lclass (latch s)) 0)
  | ATWait => if qwg s =? 0 then Some (set_pc s ATRet) else None
  | ATRet => Some (ret s (lclass (latch s)) 0)
  | ACRecv c0 nx0 =>
    match waiting s with
    | [] => None
    | _ :: w => Some (set_pc (set_chan s (active s) (anext s) (queue s) w (qwg s)) (ACComp c0 nx0))
    end
  | ACComp c0 nx0 =>
    (* c.writeBlock() run by the API thread: compress, c.flush <- c; then closed = true; close(bg.queue) *)
    let mark (it : item) := if Nat.eqb (cid it) c0 then
        match ist_ it with ClosePend => {| cid := cid it; ist_ := Ready (hdrbad s); inext := if hdrbad s then inext it else 0 |} | _ => it end else it in
    let s1 := set_chan s (active s) (anext s) (map mark (queue s)) (waiting s) (qwg s) in
    let s2 := match em s1 with EFlush it => set_em s1 (EFlush (mark it)) | _ => s1 end in
    Some (set_pc (set_flags s2 true true (hdrbad s2)) ACWg)
  | ACWg => match em s with EExit => Some (set_pc s ACMagic) | _ => None end
  | ACMagic =>
    if latched s then Some (ret s (lclass (latch s)) 0)
    else let '(s1, fail) := under_write c s in
         if fail then Some (ret (set_latch_st s1 1) 1 0) else Some (ret s1 0 0)
  end.

(** A compressor goroutine (go c.writeBlock()): compress, then c.flush <- c. *)
Definition step_comp (s : st) (c0 : nat) : option st :=
  let hit (it : item) := Nat.eqb (cid it) c0 && match ist_ it with Pend => true | _ => false end in
  let mark (it : item) := if hit it then {| cid := cid it; ist_ := Ready (hdrbad s); inext := if hdrbad s then inext it else 0 |} else it in
  if existsb hit (queue s) then Some (set_chan s (active s) (anext s) (map mark (queue s)) (waiting s) (qwg s))
  else match em s with
       | EFlush it => if hit it then Some (set_em s (EFlush (mark it))) else None
       | _ => None
       end.

Definition done (s : st) : st := set_chan s (active s) (anext s) (queue s) (waiting s) (qwg s - 1).

(** The emitter goroutine. *)
Definition step_emit (c : cfg) (s : st) : option st :=
  let v := vr c in
  match em s with
  | EIdle =>
    match queue s with
    | it :: q => Some (set_em (set_chan s (active s) (anext s) q (waiting s) (qwg s)) (EFlush it))
    | [] => if qclosed s then Some (set_em s EExit) else None
    end
  | EFlush it =>
    match ist_ it with
    | Ready e => Some (set_em s (EWrite (cid it) (inext it) e))
    | _ => None
    end
  | EWrite c0 nx cerr =>
    if cerr then
      let s1 := set_latch_st s 4 in
      Some (set_em (if v_done_always v then done s1 else s1) (ERet c0 nx false))
    else if v_skip v && latched s then Some (set_em (done s) (ERet c0 nx false))
    else
      let '(s1, fail) := under_write c s in
      if fail then Some (set_em s1 (EFail1 c0 nx))
      else Some (set_em (done s1) (ERet c0 0 true))
  | EFail1 c0 nx =>
    if v_err_first v then Some (set_em (set_latch_st s 1) (EFail2 c0 nx))
    else Some (set_em (done s) (EFail2 c0 nx))
  | EFail2 c0 nx =>
    if v_err_first v then Some (set_em (done s) (ERet c0 nx false))
    else Some (set_em (set_latch_st s 1) (ERet c0 nx false))
  | ERet c0 nx ok =>
    if wfull c s then None
    else Some (set_em (set_chan s (active s) (anext s) (queue s) (waiting s ++ [(c0, nx)]) (qwg s))
                      (if v_break v && negb ok then EExit else EIdle))
  | EExit => None
  end.

Definition step (c : cfg) (s : st) (t : thread) : option st :=
  match t with
  | TApi => step_api c s
  | TEmit => step_emit c s
  | TComp c0 => step_comp s c0
  end.

(** Running a schedule: a thread that cannot move is skipped. *)
Fixpoint run (c : cfg) (sched : list thread) (s : st) : st :=
  match sched with
  | [] => s
  | t :: r => run c r (match step c s t with Some s' => s' | None => s end)
  end.

Definition api_done (s : st) : bool :=
  match pc s, script s with AIdle, [] => true | _, _ => false end.

Definition threads (c : cfg) : list thread := TApi :: TEmit :: map TComp (seq 0 (ncomp c)).

Definition enabled (c : cfg) (s : st) (t : thread) : bool :=
  match step c s t with Some _ => true | None => false end.

(** Stuck: the API thread still has work, and no thread at all can move. *)
Definition stuck (c : cfg) (s : st) : bool :=
  negb (api_done s) && negb (existsb (enabled c s) (threads c)).

(** All background threads have terminated. *)
Definition quiet (s : st) : bool :=
  match em s with EExit => true | _ => false end && match pend_cids s with [] => true | _ => false end.

(** * Deterministic schedulers used for the comparison with the implementation *)
Inductive policy := PLazy | PEager | PFree.

Definition first_comp (s : st) : option thread :=
  match pend_cids s with c0 :: _ => Some (TComp c0) | [] => None end.

Definition background (c : cfg) (s : st) : option thread :=
  match first_comp s with
  | Some t => Some t
  | None => if enabled c s TEmit then Some TEmit else None
  end.

Definition pick (c : cfg) (p : policy) (s : st) : option thread :=
  let api_first := match p, pc s with PEager, AIdle => false | _, _ => true end in
  if api_first then
    if enabled c s TApi then Some TApi else background c s
  else match background c s with Some t => Some t | None => if enabled c s TApi then Some TApi else None end.

Fixpoint drive (c : cfg) (p : policy) (fuel : nat) (s : st) : st * bool :=
  match fuel with
  | O => (s, false)
  | S f => match pick c p s with
           | None => (s, true)
           | Some t => match step c s t with Some s' => drive c p f s' | None => (s, true) end
           end
  end.

(** * Comparison with the implementation *)
Record wcase := mkWCase {
  wc_wc : Z; wc_script : list op; wc_k : Z; wc_pol : policy;
  wc_res : list (Z * Z); wc_hang : Z; wc_leak : Z; wc_calls : Z; wc_after : Z }.

Definition has_hdr (l : list op) : bool := existsb (fun o => match o with OHdr _ => true | _ => false end) l.

Fixpoint pair_eqb (a b : list (Z * Z)) : bool :=
  match a, b with
  | [], [] => true
  | (x, y) :: r, (x', y') :: r' => (x =? x') && (y =? y') && pair_eqb r r'
  | _, _ => false
  end.

Definition fuel_of (l : list op) : nat :=
  fold_right (fun o acc => (match o with OWrite n => 12 * Z.to_nat (n / BS + 2) | _ => 40 end + acc)%nat) 64%nat l.

(** Observables: under the lock-step policies the results of every call, the
    index of the call that hangs, the number of underlying writes and of
    writes after a failure, and the goroutines left after the run; under the
    free policy (and when the header is changed) only the schedule-independent
    ones: hang/no hang (for the variant without lost wake-ups), leak, the
    result of Close. *)
Definition close_class (sc : list op) (r : list (Z * Z)) : Z :=
  (fix go (sc : list op) (r : list (Z*Z)) : Z :=
     match sc, r with
     | OClose :: _, (cl, _) :: _ => cl
     | _ :: sc', _ :: r' => go sc' r'
     | _, _ => (-1)
     end) sc r.

Definition wcase_agree_v (v : variant) (x : wcase) : bool :=
  let c := {| ncomp := ncomp_of_wc (wc_wc x); wk := wc_k x; vr := v |} in
  let s0 := init c (wc_script x) in
  let '(s, stopped) := drive c (match wc_pol x with PFree => PLazy | p => p end) (fuel_of (wc_script x)) s0 in
  let hang := if api_done s then (-1) else zlen (results s) in
  let leak := if quiet s then 0 else 1 in
  stopped &&
  match wc_pol x, has_hdr (wc_script x) with
  | PFree, _ | _, true =>
    if v_break v then true
    else (hang =? wc_hang x) && ((leak =? 0) || negb (wc_hang x <? 0) || (0 <? wc_leak x)) && ((0 <? leak) || (wc_leak x =? 0))
         && ((0 <=? hang) || (close_class (wc_script x) (results s) =? close_class (wc_script x) (wc_res x)))
  | _, false =>
    (hang =? wc_hang x) && pair_eqb (results s) (wc_res x) && (wcount s =? wc_calls x) && (wafter s =? wc_after x)
    && ((0 <=? hang) || ((0 <? leak) || (wc_leak x =? 0)) && ((leak =? 0) || (0 <? wc_leak x)))
  end.

Definition wcase_agree (x : wcase) : bool := wcase_agree_v writer_variant x.
