(** C02 — the specification side: a BGZF file as a list of members given with
    their decompressed data (decompression is abstract), the flat byte string,
    the translation [tr] of virtual offsets to positions in it, and the flat
    reader: a cursor, a sticky end flag, the Blocked flag and the positions
    just before / just after the last successful read or seek.
    Executable definitions only; written from the property statement. *)
From Hts Require Import Base.Prim.
Open Scope Z_scope.

Record member := mkMember { m_base : Z; m_size : Z; m_data : list Z }.
Definition file := list member.
Definition m_len (m : member) : Z := zlen (m_data m).

(** Members are laid out back to back from offset [b]; every member occupies
    at least one byte of the file and holds at most 65536 data bytes. *)
Fixpoint wf_from (b : Z) (F : file) : bool :=
  match F with
  | [] => true
  | m :: F' => (m_base m =? b) && (0 <? m_size m) && (m_len m <=? 65536) && wf_from (b + m_size m) F'
  end.
Definition wf_file (F : file) : bool := wf_from 0 F.

(** Every member's end is addressable by a 16-bit in-block offset. *)
Definition addressable (F : file) : bool := forallb (fun m => m_len m <=? 65535) F.

Fixpoint fsize_from (b : Z) (F : file) : Z :=
  match F with [] => b | m :: F' => fsize_from (b + m_size m) F' end.
Definition fsize (F : file) : Z := fsize_from 0 F.

Definition flat_data (F : file) : list Z := concat (map m_data F).
Definition total (F : file) : Z := zlen (flat_data F).

(** Data bytes held by members that start before file offset [f]. *)
Fixpoint before (F : file) (f : Z) : Z :=
  match F with
  | [] => 0
  | m :: F' => (if m_base m <? f then m_len m else 0) + before F' f
  end.

(** Virtual offsets and chunks. *)
Definition voff := (Z * Z)%type.
Definition chunk := (voff * voff)%type.
Definition tr (F : file) (o : voff) : Z := before F (fst o) + snd o.
Definition tr_chunk (F : file) (c : chunk) : Z * Z := (tr F (fst c), tr F (snd c)).

(** End of the block that holds the byte at position [pos] ([start] is the
    position at which [F] begins). *)
Fixpoint block_end (F : file) (start pos : Z) : Z :=
  match F with
  | [] => start
  | m :: F' => if pos <? start + m_len m then start + m_len m else block_end F' (start + m_len m) pos
  end.

Definition ztake {A} (n : Z) (l : list A) : list A := firstn (Z.to_nat n) l.
Definition zdrop {A} (n : Z) (l : list A) : list A := skipn (Z.to_nat n) l.

(** Operations of a history.  [OSeek f b]: Seek(Offset{File: f, Block: b}). *)
Inductive ckind := KLRU | KFIFO | KRandom.
Inductive rop :=
| OSeek (f b : Z)
| ORead (n : Z)
| OByte
| OBlocked (b : bool)
| OReseek                       (* Seek(LastChunk().Begin) *)
| OSetCache (k : ckind) (cap : Z).

(** Error classes. *)
Definition eNil : Z := 0.
Definition eEOF : Z := 1.
Definition eOther : Z := 2.

Record fstate := mkF { f_pos : Z; f_eof : bool; f_blocked : bool; f_chunk : Z * Z }.
Definition f_init : fstate := mkF 0 false false (0, 0).

(** What a call returns: bytes and error class. *)
Definition fret := (list Z * Z)%type.

Definition flat_seek (s : fstate) (pos : Z) : fstate * fret :=
  (mkF pos false (f_blocked s) (pos, pos), ([], eNil)).

Definition flat_read (F : file) (s : fstate) (n : Z) : fstate * fret :=
  if f_eof s then (s, ([], eEOF))
  else if total F - f_pos s =? 0 then (mkF (f_pos s) true (f_blocked s) (f_chunk s), ([], eEOF))
  else
    let lim := if f_blocked s then block_end F 0 (f_pos s) - f_pos s else total F - f_pos s in
    let k := Z.min n lim in
    let short := k <? n in
    (mkF (f_pos s + k) (short && negb (f_blocked s)) (f_blocked s) (f_pos s, f_pos s + k),
     (ztake k (zdrop (f_pos s) (flat_data F)), if short then eEOF else eNil)).

Definition flat_byte (F : file) (s : fstate) : fstate * fret :=
  if f_eof s then (s, ([], eEOF))
  else if total F - f_pos s =? 0 then (mkF (f_pos s) true (f_blocked s) (f_chunk s), ([], eEOF))
  else (mkF (f_pos s + 1) false (f_blocked s) (f_pos s, f_pos s + 1),
        (ztake 1 (zdrop (f_pos s) (flat_data F)), eNil)).

Definition flat_step (F : file) (s : fstate) (o : rop) : fstate * fret :=
  match o with
  | OSeek f b => flat_seek s (tr F (f, b))
  | ORead n => flat_read F s n
  | OByte => flat_byte F s
  | OBlocked b => (mkF (f_pos s) (f_eof s) b (f_chunk s), ([], eNil))
  | OReseek => flat_seek s (fst (f_chunk s))
  | OSetCache _ _ => (s, ([], eNil))
  end.

Fixpoint flat_run (F : file) (s : fstate) (ops : list rop) : list (fret * (Z * Z)) :=
  match ops with
  | [] => []
  | o :: ops' => let '(s', r) := flat_step F s o in (r, f_chunk s') :: flat_run F s' ops'
  end.

(** A seek target the property speaks about: a block start plus an in-block
    offset up to the block's length (and representable in 16 bits). *)
Definition valid_off (F : file) (f b : Z) : bool :=
  existsb (fun m => (m_base m =? f) && (0 <=? b) && (b <=? m_len m) && (b <=? 65535)) F.

(** ------------------------------------------------------------------
    Glue for the correspondence runs. *)

(** Payload of a generated member (same formula in harness/c02.go and lib/rdflat.py). *)
Fixpoint mkdata_go (k : nat) (j seed : Z) : list Z :=
  match k with
  | O => []
  | S k' => (seed * 131 + j * 7 + (j / 256) * 13) mod 251 :: mkdata_go k' (j + 1) seed
  end.
Definition mkdata (len seed : Z) : list Z := mkdata_go (Z.to_nat len) 0 seed.

(** Adler-32, the projection of returned bytes that is compared. *)
Definition adler (l : list Z) : Z :=
  let '(a, b) := fold_left (fun (ab : Z * Z) x => let a' := (fst ab + x) mod 65521 in (a', (snd ab + a') mod 65521)) l (1, 0) in
  b * 65536 + a.

Fixpoint zlist_eqb (a b : list Z) : bool :=
  match a, b with
  | [], [] => true
  | x :: a', y :: b' => (x =? y) && zlist_eqb a' b'
  | _, _ => false
  end.
