(** bgzf.HasEOF (bgzf/bgzf.go:58-105): the stream size is computed according to
    the kind of io.ReaderAt (type switch), then the last len(magicBlock) bytes
    are read at size - len(magicBlock) and compared with the marker.  The size
    expression of every case is read off the Go source by gen/emit_haseof.go
    (Generated.bgzf_haseof_size: a sum of atoms) and interpreted here.

    A reader is its content, the position of its cursor, and the methods it
    offers ([None] = none of Size / Stat / Seek+Len: ErrNoEnd).
    Error codes: 3 ErrNoEnd, 2 error from ReadAt (negative offset, short read).
    Executable definitions only. *)
From Coq Require Import ZArith List Bool.
From Hts Require Import Base.Prim Generated Model.Bgzf.
Import ListNotations.
Open Scope Z_scope.

Record he_reader := { he_data : list Z; he_pos : Z; he_methods : option he_kind }.

(** bytes.Reader-like semantics: Size and Stat().Size() are the total length,
    Seek(0, io.SeekCurrent) the cursor, Len() the number of unread bytes. *)
Definition he_atom_val (r : he_reader) (a : he_atom) : Z :=
  match a with
  | ASize | AStatSize => zlen (he_data r)
  | ASeekCur => he_pos r
  | ALen => Z.max 0 (zlen (he_data r) - he_pos r)
  end.

Definition he_kind_eqb (a b : he_kind) : bool :=
  match a, b with HSizer, HSizer | HStater, HStater | HLenSeeker, HLenSeeker => true | _, _ => false end.

Fixpoint he_lookup (k : he_kind) (t : list (he_kind * list he_atom)) : option (list he_atom) :=
  match t with
  | [] => None
  | (k', atoms) :: r => if he_kind_eqb k k' then Some atoms else he_lookup k r
  end.

Definition he_size (r : he_reader) (atoms : list he_atom) : Z :=
  fold_left (fun acc a => acc + he_atom_val r a) atoms 0.

(** io.ReaderAt.ReadAt(b, off) with len b = n: the bytes, or an error when the
    offset is negative or fewer than n bytes are available. *)
Definition he_read_at (data : list Z) (off n : Z) : option (list Z) :=
  if (off <? 0) || (zlen data <? off + n) then None
  else Some (firstn (Z.to_nat n) (skipn (Z.to_nat off) data)).

Definition haseof_impl (table : list (he_kind * list he_atom)) (r : he_reader) : outcome bool :=
  match he_methods r with
  | None => Err 3
  | Some k =>
      match he_lookup k table with
      | None => Err 3
      | Some atoms =>
          let size := he_size r atoms in
          let n := zlen bgzf_magicBlock in
          match he_read_at (he_data r) (size - n) n with
          | None => Err 2
          | Some b => Ok (zeqb b bgzf_magicBlock)
          end
      end
  end.

Definition haseof_go : he_reader -> outcome bool := haseof_impl bgzf_haseof_size.

(** What the property says HasEOF reports: the last 28 bytes are the marker. *)
Definition ends_with_marker (data : list Z) : bool :=
  (zlen bgzf_magicBlock <=? zlen data)
  && zeqb (skipn (Z.to_nat (zlen data - zlen bgzf_magicBlock)) data) bgzf_magicBlock.
