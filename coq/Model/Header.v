(** C07 — executable model of the SAM header code (sam/header.go,
    parse_header.go, reference.go, read_group.go, program.go) as it is in the
    checked tree.  Definitions only; proofs are in Proofs/Header*.v.

    Objects with identity: references, read groups and programs live in
    stores (lists) and are named by their index; a header lists handles.
    Go maps are association lists with unique keys.  Strings are byte lists.
    Dates and URIs are opaque canonical strings behind the section variables
    [parse_time] and [parse_uri]. *)
From Coq Require Import ZArith List Bool.
From Hts Require Import Base.Prim.
Import ListNotations.
Open Scope Z_scope.

Definition str := list Z.

Fixpoint str_eqb (a b : str) : bool :=
  match a, b with
  | [], [] => true
  | x :: a', y :: b' => (x =? y) && str_eqb a' b'
  | _, _ => false
  end.

Definition is_empty {A} (l : list A) : bool := match l with [] => true | _ => false end.

(** ** Go maps string -> int32 *)
Definition smap := list (str * Z).
Fixpoint mget (k : str) (m : smap) : option Z :=
  match m with
  | [] => None
  | (k', v) :: t => if str_eqb k k' then Some v else mget k t
  end.
Fixpoint mdel (k : str) (m : smap) : smap :=
  match m with
  | [] => []
  | (k', v) :: t => if str_eqb k k' then mdel k t else (k', v) :: mdel k t
  end.
Definition mset (k : str) (v : Z) (m : smap) : smap := (k, v) :: mdel k m.

(** ** Lists as slices *)
Fixpoint upd {A} (l : list A) (i : nat) (x : A) : list A :=
  match l, i with
  | [], _ => []
  | _ :: t, O => x :: t
  | h :: t, S i' => h :: upd t i' x
  end.
(** checked index with a Z (Go panics when out of range) *)
Definition idx {A} (l : list A) (i : Z) : option A :=
  if i <? 0 then None else nth_error l (Z.to_nat i).

(** ** Objects *)
Record obj (P : Type) : Type := mkObj { o_owner : option nat; o_id : Z; o_name : str; o_pay : P }.
Arguments mkObj {P}.
Arguments o_owner {P}.
Arguments o_id {P}.
Arguments o_name {P}.
Arguments o_pay {P}.

Definition tag := (Z * Z)%type.
Definition tagpair := (tag * str)%type.
Definition tag_eqb (a b : tag) : bool := (fst a =? fst b) && (snd a =? snd b).

Record refpay : Type := mkRef { rp_len : Z; rp_md5 : str; rp_as : str; rp_sp : str; rp_uri : option str; rp_other : list tagpair }.
Record rgpay : Type := mkRG { g_cn : str; g_ds : str; g_dt : option str; g_fo : str; g_ks : str; g_lb : str; g_pg : str;
                              g_pi : Z; g_pl : str; g_pu : str; g_sm : str; g_other : list tagpair }.
Record pgpay : Type := mkPG { p_pp : str; p_pn : str; p_cl : str; p_vn : str; p_other : list tagpair }.

Record tbl : Type := mkTbl { t_items : list nat; t_seen : smap }.
Definition tbl0 := mkTbl [] [].

Record hdr : Type := mkHdr { h_vn : str; h_so : Z; h_go : Z; h_other : list tagpair;
                             h_R : tbl; h_G : tbl; h_P : tbl; h_co : list str }.
Definition hdr0 := mkHdr [] 0 0 [] tbl0 tbl0 tbl0 [].

Record world : Type := mkW { w_h : list hdr; w_r : list (obj refpay); w_g : list (obj rgpay); w_p : list (obj pgpay) }.
Definition world0 := mkW [] [] [] [].

Definition set_R (h : hdr) (t : tbl) := mkHdr (h_vn h) (h_so h) (h_go h) (h_other h) t (h_G h) (h_P h) (h_co h).
Definition set_G (h : hdr) (t : tbl) := mkHdr (h_vn h) (h_so h) (h_go h) (h_other h) (h_R h) t (h_P h) (h_co h).
Definition set_P (h : hdr) (t : tbl) := mkHdr (h_vn h) (h_so h) (h_go h) (h_other h) (h_R h) (h_G h) t (h_co h).
Definition set_co (h : hdr) (c : list str) := mkHdr (h_vn h) (h_so h) (h_go h) (h_other h) (h_R h) (h_G h) (h_P h) c.
Definition set_hd (h : hdr) (vn : str) (so go : Z) (other : list tagpair) := mkHdr vn so go other (h_R h) (h_G h) (h_P h) (h_co h).

Definition set_h (w : world) (hs : list hdr) := mkW hs (w_r w) (w_g w) (w_p w).
Definition set_r (w : world) (st : list (obj refpay)) := mkW (w_h w) st (w_g w) (w_p w).
Definition set_g (w : world) (st : list (obj rgpay)) := mkW (w_h w) (w_r w) st (w_p w).
Definition set_p (w : world) (st : list (obj pgpay)) := mkW (w_h w) (w_r w) (w_g w) st.

(** error classes (as the harness maps error values) *)
Definition eDupRef := 1.  Definition eDupRG := 2.  Definition eDupPG := 3.
Definition eUsedRef := 4. Definition eUsedRG := 5. Definition eUsedPG := 6.
Definition eInvRef := 7.  Definition eInvRG := 8.  Definition eInvPG := 9.
Definition eBadLen := 10. Definition eBadHeader := 11. Definition eDupTag := 12.
Definition eExists := 13. Definition eOther := 14.

(** panic reasons *)
Definition pIndex := 1. Definition pNil := 2.

(** ** Generic identity operations on one store and one table *)
Section Gen.
  Context {P : Type}.
  Notation store := (list (obj P)).

  Definition with_ident (o : obj P) (ow : option nat) (id : Z) : obj P := mkObj ow id (o_name o) (o_pay o).
  Definition with_name (o : obj P) (n : str) : obj P := mkObj (o_owner o) (o_id o) n (o_pay o).
  Definition owned (o : obj P) : bool := match o_owner o with Some _ => true | None => false end.

  (** tail of Add*: [if x.owner != nil || x.id >= 0 { return errUsed }; x.owner = bh;
      x.id = len(list); seen[x.name] = x.id; list = append(list, x)] *)
  Definition add_fresh (eused : Z) (h : nat) (st : store) (t : tbl) (r : nat) (o : obj P) : store * tbl * Z :=
    if owned o || (0 <=? o_id o) then (st, t, eused)
    else let id := zlen (t_items t) in
         (upd st r (with_ident o (Some h) id), mkTbl (t_items t ++ [r]) (mset (o_name o) id (t_seen t)), 0).

  (** AddReadGroup / AddProgram *)
  Definition add_gen (edup eused : Z) (h : nat) (st : store) (t : tbl) (r : nat) : outcome (store * tbl * Z) :=
    match nth_error st r with
    | None => Panic pNil
    | Some o =>
      match mget (o_name o) (t_seen t) with
      | Some _ => Ok (st, t, edup)
      | None => Ok (add_fresh eused h st t r o)
      end
    end.

  (** [for _, s := range list[id:] { s.id--; seen[s.name] = s.id }] *)
  Fixpoint shift_ids (st : store) (seen : smap) (l : list nat) : outcome (store * smap) :=
    match l with
    | [] => Ok (st, seen)
    | r :: l' =>
      match nth_error st r with
      | None => Panic pNil
      | Some o =>
        let id' := o_id o - 1 in
        shift_ids (upd st r (with_ident o (o_owner o) id')) (mset (o_name o) id' seen) l'
      end
    end.

  Definition listed_at (items : list nat) (id : Z) (r : nat) : bool :=
    match idx items id with Some r' => Nat.eqb r' r | None => false end.

  (** Remove* (after the guard [x.id < 0 || x.id >= len(list) || list[x.id] != x]) *)
  Definition remove_gen (einv : Z) (st : store) (t : tbl) (r : nat) : outcome (store * tbl * Z) :=
    match nth_error st r with
    | None => Panic pNil
    | Some o =>
      if negb (listed_at (t_items t) (o_id o) r) then Ok (st, t, einv)
      else
        let i := Z.to_nat (o_id o) in
        let seen1 := mdel (o_name o) (t_seen t) in
        let items' := firstn i (t_items t) ++ skipn (S i) (t_items t) in
        match shift_ids st seen1 (skipn i items') with
        | Ok (st2, seen2) =>
          match nth_error st2 r with
          | Some o2 => Ok (upd st2 r (with_ident o2 None (-1)), mkTbl items' seen2, 0)
          | None => Panic pNil
          end
        | Err e => Err e
        | Panic n => Panic n
        | Stuck => Stuck
        end
    end.

  (** SetName / SetUID on an owned object, given the owner's table *)
  Definition setname_owned (t : tbl) (o : obj P) (n : str) : option tbl * Z :=
    match mget n (t_seen t) with
    | Some id => if id =? o_id o then (None, 0) else (None, eExists)
    | None => (Some (mkTbl (t_items t) (mset n (o_id o) (mdel (o_name o) (t_seen t)))), 0)
    end.

  (** Header.Clone for one list: fresh copies owned by [hnew] *)
  Fixpoint clone_items (hnew : nat) (st : store) (items : list nat) : outcome (store * list nat) :=
    match items with
    | [] => Ok (st, [])
    | r :: l =>
      match nth_error st r with
      | None => Panic pNil
      | Some o =>
        match clone_items hnew (st ++ [mkObj (Some hnew) (o_id o) (o_name o) (o_pay o)]) l with
        | Ok (st', l') => Ok (st', length st :: l')
        | x => x
        end
      end
    end.
End Gen.

(** ** Numbers and hex *)
Fixpoint dec_pos (fuel : nat) (n : Z) (acc : str) : str :=
  match fuel with
  | O => acc
  | S f => let acc' := (48 + n mod 10) :: acc in
           if n <? 10 then acc' else dec_pos f (n / 10) acc'
  end.
(** [%d] *)
Definition dec (n : Z) : str := if n <? 0 then 45 :: dec_pos 20 (- n) [] else dec_pos 20 n [].

Definition is_digit (c : Z) : bool := (48 <=? c) && (c <=? 57).
Fixpoint digits_val (acc : Z) (s : str) : option Z :=
  match s with
  | [] => Some acc
  | c :: t => if is_digit c then digits_val (acc * 10 + (c - 48)) t else None
  end.
(** strconv.Atoi: optional sign, at least one digit, int64 range *)
Definition atoi (s : str) : option Z :=
  let '(neg, body) := match s with
                      | 45 :: t => (true, t)
                      | 43 :: t => (false, t)
                      | _ => (false, s)
                      end in
  match body with
  | [] => None
  | _ => match digits_val 0 body with
         | None => None
         | Some v => let v' := if neg then - v else v in
                     if (- 2 ^ 63 <=? v') && (v' <=? 2 ^ 63 - 1) then Some v' else None
         end
  end.

Definition valid_len (l : Z) : bool := (1 <=? l) && (l <=? 2 ^ 31 - 1).
Definition valid_int32 (i : Z) : bool := (- 2 ^ 31 <=? i) && (i <=? 2 ^ 31 - 1).

Definition hexdig (n : Z) : Z := if n <? 10 then 48 + n else 87 + n.
(** [%x] of a byte string *)
Fixpoint hex_of (s : str) : str :=
  match s with
  | [] => []
  | b :: t => hexdig (b / 16) :: hexdig (b mod 16) :: hex_of t
  end.
Definition unhex (c : Z) : option Z :=
  if (48 <=? c) && (c <=? 57) then Some (c - 48)
  else if (97 <=? c) && (c <=? 102) then Some (c - 87)
  else if (65 <=? c) && (c <=? 70) then Some (c - 55)
  else None.
(** encoding/hex.Decode into a 16 byte array: error on the first bad digit or
    odd length; writing a 17th byte is an index panic *)
Fixpoint hex_decode (n : nat) (s : str) (acc : str) : outcome str :=
  match s with
  | [] => Ok (rev acc)
  | [c] => match unhex c with None => Err eOther | Some _ => Err eOther end
  | p :: q :: t =>
    match unhex p, unhex q with
    | Some a, Some b => if Nat.leb 16 n then Panic pIndex else hex_decode (S n) t ((a * 16 + b) :: acc)
    | _, _ => Err eOther
    end
  end.

(** ** Splitting and joining *)
Fixpoint split_go (sep : Z) (s : str) (cur : str) : list str :=
  match s with
  | [] => [rev cur]
  | c :: t => if c =? sep then rev cur :: split_go sep t [] else split_go sep t (c :: cur)
  end.
(** bytes.Split(s, []byte{sep}) *)
Definition split (sep : Z) (s : str) : list str := split_go sep s [].
(** bytes.SplitN(s, []byte{sep}, 2) *)
Fixpoint split2_go (sep : Z) (s : str) (cur : str) : list str :=
  match s with
  | [] => [rev cur]
  | c :: t => if c =? sep then [rev cur; t] else split2_go sep t (c :: cur)
  end.
Definition split2 (sep : Z) (s : str) : list str := split2_go sep s [].

Definition TAB := 9. Definition LF := 10. Definition CR := 13. Definition COLON := 58. Definition AT := 64.

Definition T (a b : Z) : tag := (a, b).
Definition tVN := T 86 78. Definition tSO := T 83 79. Definition tGO := T 71 79.
Definition tHD := T 72 68. Definition tSQ := T 83 81. Definition tRG := T 82 71. Definition tPG := T 80 71. Definition tCO := T 67 79.
Definition tSN := T 83 78. Definition tLN := T 76 78. Definition tAS := T 65 83. Definition tM5 := T 77 53.
Definition tSP := T 83 80. Definition tUR := T 85 82.
Definition tID := T 73 68. Definition tCN := T 67 78. Definition tDS := T 68 83. Definition tDT := T 68 84.
Definition tFO := T 70 79. Definition tKS := T 75 83. Definition tLB := T 76 66. Definition tPI := T 80 73.
Definition tPL := T 80 76. Definition tPU := T 80 85. Definition tSM := T 83 77.
Definition tPN := T 80 78. Definition tCL := T 67 76. Definition tPP := T 80 80.

(** ** Formatting *)
Definition s_unknown : str := [117;110;107;110;111;119;110].
Definition s_unsorted : str := [117;110;115;111;114;116;101;100].
Definition s_queryname : str := [113;117;101;114;121;110;97;109;101].
Definition s_coordinate : str := [99;111;111;114;100;105;110;97;116;101].
Definition s_none : str := [110;111;110;101].
Definition s_query : str := [113;117;101;114;121].
Definition s_reference : str := [114;101;102;101;114;101;110;99;101].

Definition so_string (so : Z) : str :=
  if so =? 1 then s_unsorted else if so =? 2 then s_queryname else if so =? 3 then s_coordinate else s_unknown.
Definition go_string (g : Z) : str :=
  if g =? 2 then s_query else if g =? 3 then s_reference else s_none.
(** sortOrderMap[s] / groupOrderMap[s]; a missing key gives the zero value *)
Definition so_parse (s : str) : Z :=
  if str_eqb s s_unsorted then 1 else if str_eqb s s_queryname then 2 else if str_eqb s s_coordinate then 3 else 0.
Definition go_parse (s : str) : Z :=
  if str_eqb s s_none then 1 else if str_eqb s s_query then 2 else if str_eqb s s_reference then 3 else 0.

(** "\tXX:value" *)
Definition field (t : tag) (v : str) : str := TAB :: fst t :: snd t :: COLON :: v.
Definition opt_field (t : tag) (v : str) : str := if is_empty v then [] else field t v.
Definition others (l : list tagpair) : str := concat (map (fun tp => field (fst tp) (snd tp)) l).

Definition ref_string (o : obj refpay) : str :=
  let p := o_pay o in
  [AT; 83; 81] ++ field tSN (o_name o) ++ field tLN (dec (rp_len p))
  ++ (if is_empty (rp_md5 p) then [] else field tM5 (hex_of (rp_md5 p)))
  ++ opt_field tAS (rp_as p) ++ opt_field tSP (rp_sp p)
  ++ (match rp_uri p with Some u => field tUR u | None => [] end)
  ++ others (rp_other p).

Definition rg_string (o : obj rgpay) : str :=
  let p := o_pay o in
  [AT; 82; 71] ++ field tID (o_name o)
  ++ opt_field tCN (g_cn p) ++ opt_field tDS (g_ds p)
  ++ (match g_dt p with Some d => field tDT d | None => [] end)
  ++ opt_field tFO (g_fo p) ++ opt_field tKS (g_ks p) ++ opt_field tLB (g_lb p) ++ opt_field tPG (g_pg p)
  ++ (if g_pi p =? 0 then [] else field tPI (dec (g_pi p)))
  ++ opt_field tPL (g_pl p) ++ opt_field tPU (g_pu p) ++ opt_field tSM (g_sm p)
  ++ others (g_other p).

Definition pg_string (o : obj pgpay) : str :=
  let p := o_pay o in
  [AT; 80; 71] ++ field tID (o_name o)
  ++ opt_field tPN (p_pn p) ++ opt_field tCL (p_cl p) ++ opt_field tPP (p_pp p) ++ opt_field tVN (p_vn p)
  ++ others (p_other p).

Definition hd_string (h : hdr) : str :=
  if is_empty (h_vn h) then []
  else [AT; 72; 68] ++ field tVN (h_vn h) ++ field tSO (so_string (h_so h))
       ++ (if h_go h =? 0 then [] else field tGO (go_string (h_go h)))
       ++ others (h_other h) ++ [LF].

(** objects named by a list of handles (a missing one is a nil dereference) *)
Fixpoint objs {P} (st : list (obj P)) (items : list nat) : option (list (obj P)) :=
  match items with
  | [] => Some []
  | r :: l => match nth_error st r, objs st l with
              | Some o, Some os => Some (o :: os)
              | _, _ => None
              end
  end.

Definition lines {A} (f : A -> str) (l : list A) : str := concat (map (fun x => f x ++ [LF]) l).

(** Header.MarshalText *)
Definition marshal_text (w : world) (h : hdr) : outcome str :=
  match objs (w_r w) (t_items (h_R h)), objs (w_g w) (t_items (h_G h)), objs (w_p w) (t_items (h_P h)) with
  | Some rs, Some gs, Some ps =>
    Ok (hd_string h ++ lines ref_string rs ++ lines rg_string gs ++ lines pg_string ps
        ++ lines (fun c => [AT; 67; 79; TAB] ++ c) (h_co h))
  | _, _, _ => Panic pNil
  end.

Definition le32 (x : Z) : str :=
  let u := x mod 2 ^ 32 in [u mod 256; (u / 256) mod 256; (u / 65536) mod 256; (u / 16777216) mod 256].
Definition bam_magic : str := [66; 65; 77; 1].

(** Header.EncodeBinary (into a writer that does not fail) *)
Definition encode_binary (w : world) (h : hdr) : outcome str :=
  match marshal_text w h, objs (w_r w) (t_items (h_R h)) with
  | Ok text, Some rs =>
    Ok (bam_magic ++ le32 (zlen text) ++ text ++ le32 (zlen rs)
        ++ concat (map (fun o => le32 (zlen (o_name o) + 1) ++ o_name o ++ [0] ++ le32 (rp_len (o_pay o))) rs))
  | Ok _, None => Panic pNil
  | Err e, _ => Err e
  | Panic n, _ => Panic n
  | Stuck, _ => Stuck
  end.

(** ** equalRefs *)
Definition conflict (a b : str) : bool := negb (is_empty a) && negb (is_empty b) && negb (str_eqb a b).
Definition tp_less (a b : tagpair) : bool :=
  (fst (fst a) <? fst (fst b)) || ((fst (fst a) =? fst (fst b)) && (snd (fst a) <? snd (fst b))).
Fixpoint tp_insert (x : tagpair) (l : list tagpair) : list tagpair :=
  match l with
  | [] => [x]
  | y :: t => if tp_less y x then y :: tp_insert x t else x :: l
  end.
Definition tp_sort (l : list tagpair) : list tagpair := fold_right tp_insert [] l.
Fixpoint tps_eqb (a b : list tagpair) : bool :=
  match a, b with
  | [], [] => true
  | x :: a', y :: b' => tag_eqb (fst x) (fst y) && str_eqb (snd x) (snd y) && tps_eqb a' b'
  | _, _ => false
  end.

Definition equal_refs (a b : obj refpay) : bool :=
  let pa := o_pay a in let pb := o_pay b in
  if (negb (o_id a =? -1) && negb (o_id b =? -1) && negb (o_id a =? o_id b))
     || negb (str_eqb (o_name a) (o_name b))
     || negb (rp_len pa =? rp_len pb)
     || conflict (rp_md5 pa) (rp_md5 pb) || conflict (rp_as pa) (rp_as pb) || conflict (rp_sp pa) (rp_sp pb)
  then false
  else if match rp_uri pa, rp_uri pb with Some x, Some y => negb (str_eqb x y) | _, _ => false end then false
  else if negb (Nat.eqb (length (rp_other pa)) (length (rp_other pb))) then false
  else tps_eqb (tp_sort (rp_other pa)) (tp_sort (rp_other pb)).

Definition bare_ref (id : Z) (name : str) (len : Z) : obj refpay := mkObj None id name (mkRef len [] [] [] None []).

(** ** API operations on the world.  Result: the world and an error class
    (0 = nil), or a panic. *)
Definition res := outcome (world * Z).

Definition put_hdr (w : world) (h : nat) (hd : hdr) : world := set_h w (upd (w_h w) h hd).

(** NewReference / NewReadGroup / NewProgram (valid arguments are checked by
    the caller of the model; the object starts unowned with id -1) *)
Definition new_ref (w : world) (name : str) (p : refpay) : world := set_r w (w_r w ++ [mkObj None (-1) name p]).
Definition new_rg (w : world) (name : str) (p : rgpay) : world := set_g w (w_g w ++ [mkObj None (-1) name p]).
Definition new_pg (w : world) (name : str) (p : pgpay) : world := set_p w (w_p w ++ [mkObj None (-1) name p]).

(** x.Clone() of an item *)
Definition clone_ref (w : world) (r : nat) : outcome world :=
  match nth_error (w_r w) r with Some o => Ok (new_ref w (o_name o) (o_pay o)) | None => Panic pNil end.
Definition clone_rg (w : world) (r : nat) : outcome world :=
  match nth_error (w_g w) r with Some o => Ok (new_rg w (o_name o) (o_pay o)) | None => Panic pNil end.
Definition clone_pg (w : world) (r : nat) : outcome world :=
  match nth_error (w_p w) r with Some o => Ok (new_pg w (o_name o) (o_pay o)) | None => Panic pNil end.

(** the replacement of a listed reference [erh] at index [dupID] by [r]:
    [r.owner = bh; r.id = dupID; er.owner = nil; er.id = -1; bh.refs[dupID] = r] *)
Definition install_over (st : list (obj refpay)) (t : tbl) (h : nat) (dupID : Z) (r : nat) (o : obj refpay)
           (erh : nat) (er : obj refpay) : list (obj refpay) * tbl :=
  (upd (upd st r (with_ident o (Some h) dupID)) erh (with_ident er None (-1)),
   mkTbl (upd (t_items t) (Z.to_nat dupID) r) (t_seen t)).

Definition inherit (o er : obj refpay) : obj refpay :=
  let p := o_pay o in let q := o_pay er in
  mkObj (o_owner o) (o_id o) (o_name o)
        (mkRef (rp_len p)
               (if is_empty (rp_md5 p) then rp_md5 q else rp_md5 p)
               (if is_empty (rp_as p) then rp_as q else rp_as p)
               (if is_empty (rp_sp p) then rp_sp q else rp_sp p)
               (match rp_uri p with None => rp_uri q | u => u end)
               (if is_empty (rp_other p) then rp_other q else rp_other p)).

(** Header.AddReference *)
Definition add_reference (w : world) (h r : nat) : res :=
  match nth_error (w_h w) h, nth_error (w_r w) r with
  | Some hd, Some o =>
    let t := h_R hd in
    match mget (o_name o) (t_seen t) with
    | Some dupID =>
      match idx (t_items t) dupID with
      | None => Panic pIndex
      | Some erh =>
        match nth_error (w_r w) erh with
        | None => Panic pNil
        | Some er =>
          if equal_refs er o then Ok (w, 0)
          else if negb (equal_refs o (bare_ref (-1) (o_name er) (rp_len (o_pay er)))) then Ok (w, eDupRef)
          else if owned o then Ok (w, eUsedRef)
          else let '(st', t') := install_over (w_r w) t h dupID r (inherit o er) erh er in
               Ok (put_hdr (set_r w st') h (set_R hd t'), 0)
        end
      end
    | None =>
      let '(st', t', e) := add_fresh eUsedRef h (w_r w) t r o in
      Ok (put_hdr (set_r w st') h (set_R hd t'), e)
    end
  | _, _ => Panic pNil
  end.

Definition lift3 {P} (w : world) (h : nat) (hd : hdr)
           (setst : world -> list (obj P) -> world) (sett : hdr -> tbl -> hdr)
           (x : outcome (list (obj P) * tbl * Z)) : res :=
  match x with
  | Ok (st', t', e) => Ok (put_hdr (setst w st') h (sett hd t'), e)
  | Err e => Err e
  | Panic n => Panic n
  | Stuck => Stuck
  end.

Definition remove_reference (w : world) (h r : nat) : res :=
  match nth_error (w_h w) h with
  | Some hd => lift3 w h hd set_r set_R (remove_gen eInvRef (w_r w) (h_R hd) r)
  | None => Panic pNil
  end.
Definition add_read_group (w : world) (h r : nat) : res :=
  match nth_error (w_h w) h with
  | Some hd => lift3 w h hd set_g set_G (add_gen eDupRG eUsedRG h (w_g w) (h_G hd) r)
  | None => Panic pNil
  end.
Definition remove_read_group (w : world) (h r : nat) : res :=
  match nth_error (w_h w) h with
  | Some hd => lift3 w h hd set_g set_G (remove_gen eInvRG (w_g w) (h_G hd) r)
  | None => Panic pNil
  end.
Definition add_program (w : world) (h r : nat) : res :=
  match nth_error (w_h w) h with
  | Some hd => lift3 w h hd set_p set_P (add_gen eDupPG eUsedPG h (w_p w) (h_P hd) r)
  | None => Panic pNil
  end.
Definition remove_program (w : world) (h r : nat) : res :=
  match nth_error (w_h w) h with
  | Some hd => lift3 w h hd set_p set_P (remove_gen eInvPG (w_p w) (h_P hd) r)
  | None => Panic pNil
  end.

(** Reference.SetName / ReadGroup.SetName / Program.SetUID *)
Definition setname_any {P} (w : world) (st : list (obj P)) (gett : hdr -> tbl)
           (setst : world -> list (obj P) -> world) (sett : hdr -> tbl -> hdr) (r : nat) (n : str) : res :=
  match nth_error st r with
  | None => Panic pNil
  | Some o =>
    match o_owner o with
    | None => Ok (setst w (upd st r (with_name o n)), 0)
    | Some h =>
      match nth_error (w_h w) h with
      | None => Panic pNil
      | Some hd =>
        match setname_owned (gett hd) o n with
        | (None, e) => Ok (w, e)
        | (Some t', e) => Ok (put_hdr (setst w (upd st r (with_name o n))) h (sett hd t'), e)
        end
      end
    end
  end.
Definition set_ref_name (w : world) (r : nat) (n : str) : res := setname_any w (w_r w) h_R set_r set_R r n.
Definition set_rg_name (w : world) (r : nat) (n : str) : res := setname_any w (w_g w) h_G set_g set_G r n.
Definition set_pg_uid (w : world) (r : nat) (n : str) : res := setname_any w (w_p w) h_P set_p set_P r n.

(** Header.Clone: the new header is appended to the header list *)
Definition clone_header (w : world) (h : nat) : outcome world :=
  match nth_error (w_h w) h with
  | None => Panic pNil
  | Some hd =>
    let hn := length (w_h w) in
    match clone_items hn (w_r w) (t_items (h_R hd)) with
    | Ok (sr, ir) =>
      match clone_items hn (w_g w) (t_items (h_G hd)) with
      | Ok (sg, ig) =>
        match clone_items hn (w_p w) (t_items (h_P hd)) with
        | Ok (sp, ip) =>
          Ok (mkW (w_h w ++ [mkHdr (h_vn hd) (h_so hd) (h_go hd) (h_other hd)
                                   (mkTbl ir (t_seen (h_R hd))) (mkTbl ig (t_seen (h_G hd))) (mkTbl ip (t_seen (h_P hd)))
                                   (h_co hd)]) sr sg sp)
        | Err e => Err e | Panic n => Panic n | Stuck => Stuck
        end
      | Err e => Err e | Panic n => Panic n | Stuck => Stuck
      end
    | Err e => Err e | Panic n => Panic n | Stuck => Stuck
    end
  end.

(** ** MergeHeaders *)
Fixpoint find_equal (w : world) (o : obj refpay) (items : list nat) : outcome (option nat) :=
  match items with
  | [] => Ok None
  | x :: l => match nth_error (w_r w) x with
              | None => Panic pNil
              | Some hr => if equal_refs o hr then Ok (Some x) else find_equal w o l
              end
  end.

Definition owner_is {P} (st : list (obj P)) (r : nat) (h : nat) : bool :=
  match nth_error st r with
  | Some o => match o_owner o with Some h' => Nat.eqb h' h | None => false end
  | None => false
  end.

(** the inner loop of MergeHeaders over the references of one source *)
Fixpoint merge_refs (w : world) (hm : nat) (srcrefs : list nat) : outcome (world * Z * list nat) :=
  match srcrefs with
  | [] => Ok (w, 0, [])
  | r :: l =>
    match clone_ref w r with
    | Ok w1 =>
      let c := length (w_r w) in
      match add_reference w1 hm c with
      | Ok (w2, e) =>
        if negb (e =? 0) then Ok (w2, e, [])
        else
          let link :=
              if owner_is (w_r w2) c hm then Ok c
              else match nth_error (w_r w2) c, nth_error (w_h w2) hm with
                   | Some o, Some hd =>
                     match find_equal w2 o (t_items (h_R hd)) with
                     | Ok (Some x) => Ok x
                     | Ok None => Ok c
                     | Err e' => Err e' | Panic n => Panic n | Stuck => Stuck
                     end
                   | _, _ => Panic pNil
                   end in
          match link with
          | Ok x =>
            match merge_refs w2 hm l with
            | Ok (w3, e3, ls) => Ok (w3, e3, x :: ls)
            | y => y
            end
          | Err e' => Err e' | Panic n => Panic n | Stuck => Stuck
          end
      | Err e => Err e | Panic n => Panic n | Stuck => Stuck
      end
    | Err e => Err e | Panic n => Panic n | Stuck => Stuck
    end
  end.

Fixpoint merge_srcs (w : world) (hm : nat) (srcs : list nat) : outcome (world * Z * list (list nat)) :=
  match srcs with
  | [] => Ok (w, 0, [])
  | s :: l =>
    match nth_error (w_h w) s with
    | None => Panic pNil
    | Some hs =>
      match merge_refs w hm (t_items (h_R hs)) with
      | Ok (w1, e, links) =>
        if negb (e =? 0) then Ok (w1, e, [])
        else match merge_srcs w1 hm l with
             | Ok (w2, e2, ls) => Ok (w2, e2, links :: ls)
             | y => y
             end
      | Err e => Err e | Panic n => Panic n | Stuck => Stuck
      end
    end
  end.

(** the final resolution of links against the merged header *)
Definition resolve_link (w : world) (hm : nat) (r : nat) : outcome nat :=
  if owner_is (w_r w) r hm then Ok r
  else match nth_error (w_r w) r, nth_error (w_h w) hm with
       | Some o, Some hd =>
         let i := match mget (o_name o) (t_seen (h_R hd)) with Some i => i | None => 0 end in
         match idx (t_items (h_R hd)) i with Some x => Ok x | None => Panic pIndex end
       | _, _ => Panic pNil
       end.
Fixpoint omap {A B} (f : A -> outcome B) (l : list A) : outcome (list B) :=
  match l with
  | [] => Ok []
  | x :: t => match f x with
              | Ok y => match omap f t with Ok ys => Ok (y :: ys) | Err e => Err e | Panic n => Panic n | Stuck => Stuck end
              | Err e => Err e | Panic n => Panic n | Stuck => Stuck
              end
  end.

(** MergeHeaders for two or more sources: the merged header is the last of
    [w_h]; result: error class and links (one list of handles per source) *)
Definition merge_headers (w : world) (src0 : nat) (srcs : list nat) : outcome (world * Z * list (list nat)) :=
  match clone_header w src0 with
  | Ok w1 =>
    let hm := length (w_h w) in
    match nth_error (w_h w1) hm with
    | None => Panic pNil
    | Some hd =>
      let w2 := put_hdr w1 hm (set_hd hd (h_vn hd) 0 0 (h_other hd)) in
      let links0 := t_items (h_R hd) in
      match merge_srcs w2 hm srcs with
      | Ok (w3, e, ls) =>
        if negb (e =? 0) then Ok (w3, e, [])
        else match omap (omap (resolve_link w3 hm)) (links0 :: ls) with
             | Ok ls' => Ok (w3, 0, ls')
             | Err e' => Err e' | Panic n => Panic n | Stuck => Stuck
             end
      | Err e => Err e | Panic n => Panic n | Stuck => Stuck
      end
    end
  | Err e => Err e | Panic n => Panic n | Stuck => Stuck
  end.

(** ** Text parsing *)
Section Parse.
  Variable parse_time : str -> option str.
  Variable parse_uri : str -> option str.

  (** [if len(f) < 3 || f[2] != ':' { return errBadHeader }; copy(t[:], f[:2]); fs := f[3:]] *)
  Definition split_field (f : str) : option (tag * str) :=
    match f with
    | a :: b :: c :: v => if c =? COLON then Some ((a, b), v) else None
    | _ => None
    end.

  Definition mem_tag (t : tag) (l : list tag) : bool := existsb (tag_eqb t) l.

  (** headerLine, the field loop (on a working copy of the @HD fields) *)
  Fixpoint hd_fields (hd : hdr) (fs : list str) : hdr * Z :=
    match fs with
    | [] => (hd, if is_empty (h_vn hd) then eBadHeader else 0)
    | f :: l =>
      match split_field f with
      | None => (hd, eBadHeader)
      | Some (t, v) =>
        if tag_eqb t tVN then
          if negb (is_empty (h_vn hd)) then (hd, eBadHeader)
          else hd_fields (set_hd hd v (h_so hd) (h_go hd) (h_other hd)) l
        else if tag_eqb t tSO then
          if negb (h_so hd =? 0) then (hd, eBadHeader)
          else hd_fields (set_hd hd (h_vn hd) (so_parse v) (h_go hd) (h_other hd)) l
        else if tag_eqb t tGO then
          if negb (h_go hd =? 0) then (hd, eBadHeader)
          else hd_fields (set_hd hd (h_vn hd) (h_so hd) (go_parse v) (h_other hd)) l
        else hd_fields (set_hd hd (h_vn hd) (h_so hd) (h_go hd) (h_other hd ++ [(t, v)])) l
      end
    end.

  (** the fields are collected first and stored only when the whole line is accepted *)
  Definition header_line (hd : hdr) (l : str) : hdr * Z :=
    match split TAB l with
    | _ :: f1 :: fs => let '(hd', e) := hd_fields hd (f1 :: fs) in if e =? 0 then (hd', 0) else (hd, e)
    | _ => (hd, eBadHeader)
    end.

  (** referenceLine, the field loop: the reference under construction, the
      tags seen, whether SN and LN were seen *)
  Fixpoint sq_fields (o : obj refpay) (seen : list tag) (nok lok : bool) (fs : list str)
    : outcome (obj refpay * bool * bool) :=
    match fs with
    | [] => Ok (o, nok, lok)
    | f :: l =>
      match split_field f with
      | None => Err eBadHeader
      | Some (t, v) =>
        if mem_tag t seen then Err eDupTag
        else
          let p := o_pay o in
          let seen' := t :: seen in
          if tag_eqb t tSN then sq_fields (with_name o v) seen' true lok l
          else if tag_eqb t tLN then
            match atoi v with
            | None => Err eBadHeader
            | Some n => if valid_len n
                        then sq_fields (mkObj (o_owner o) (o_id o) (o_name o) (mkRef n (rp_md5 p) (rp_as p) (rp_sp p) (rp_uri p) (rp_other p))) seen' nok true l
                        else Err eBadLen
            end
          else if tag_eqb t tAS then
            sq_fields (mkObj (o_owner o) (o_id o) (o_name o) (mkRef (rp_len p) (rp_md5 p) v (rp_sp p) (rp_uri p) (rp_other p))) seen' nok lok l
          else if tag_eqb t tM5 then
            if 32 <? zlen v then Err eBadHeader
            else match hex_decode 0 v [] with
                 | Ok b => if Nat.eqb (length b) 16
                           then sq_fields (mkObj (o_owner o) (o_id o) (o_name o) (mkRef (rp_len p) b (rp_as p) (rp_sp p) (rp_uri p) (rp_other p))) seen' nok lok l
                           else Err eBadHeader
                 | Err e => Err e | Panic n => Panic n | Stuck => Stuck
                 end
          else if tag_eqb t tSP then
            sq_fields (mkObj (o_owner o) (o_id o) (o_name o) (mkRef (rp_len p) (rp_md5 p) (rp_as p) v (rp_uri p) (rp_other p))) seen' nok lok l
          else if tag_eqb t tUR then
            match parse_uri v with
            | None => Err eOther
            | Some u => sq_fields (mkObj (o_owner o) (o_id o) (o_name o) (mkRef (rp_len p) (rp_md5 p) (rp_as p) (rp_sp p) (Some u) (rp_other p))) seen' nok lok l
            end
          else sq_fields (mkObj (o_owner o) (o_id o) (o_name o) (mkRef (rp_len p) (rp_md5 p) (rp_as p) (rp_sp p) (rp_uri p) (rp_other p ++ [(t, v)]))) seen' nok lok l
      end
    end.

  Definition reference_line (w : world) (h : nat) (l : str) : res :=
    match nth_error (w_h w) h with
    | None => Panic pNil
    | Some hd =>
      match split TAB l with
      | _ :: f1 :: f2 :: fs =>
        match sq_fields (mkObj None 0 [] (mkRef 0 [] [] [] None [])) [] false false (f1 :: f2 :: fs) with
        | Ok (rf, nok, lok) =>
          if negb nok || negb lok then Ok (w, eBadHeader)
          else
            let t := h_R hd in
            match mget (o_name rf) (t_seen t) with
            | Some dupID =>
              let rf := with_ident rf None dupID in
              match idx (t_items t) dupID with
              | None => Panic pIndex
              | Some erh =>
                match nth_error (w_r w) erh with
                | None => Panic pNil
                | Some er =>
                  if equal_refs er rf then Ok (w, 0)
                  else if negb (equal_refs er (bare_ref (o_id er) (o_name er) (rp_len (o_pay er)))) then Ok (w, eDupRef)
                  else
                    (* the new object becomes reachable here: [old.owner = nil; old.id = -1;
                       bh.refs[dupID] = rf; rf.owner = bh] *)
                    let r := length (w_r w) in
                    let '(st1, t1) := install_over (w_r w ++ [rf]) t h dupID r rf erh er in
                    Ok (put_hdr (set_r w st1) h (set_R hd t1), 0)
                end
              end
            | None =>
              (* [rf.owner = bh; rf.id = len(bh.refs); seenRefs[name] = id; append] *)
              let r := length (w_r w) in
              let rf0 := with_ident rf None (-1) in
              let '(st1, t1, e) := add_fresh eUsedRef h (w_r w ++ [rf0]) t r rf0 in
              Ok (put_hdr (set_r w st1) h (set_R hd t1), e)
            end
        | Err e => Ok (w, e)
        | Panic n => Panic n
        | Stuck => Stuck
        end
      | _ => Ok (w, eBadHeader)
      end
    end.

  Definition rg_set (o : obj rgpay) (t : tag) (v : str) : rgpay :=
    let p := o_pay o in
    mkRG (if tag_eqb t tCN then v else g_cn p) (if tag_eqb t tDS then v else g_ds p) (g_dt p)
         (if tag_eqb t tFO then v else g_fo p) (if tag_eqb t tKS then v else g_ks p)
         (if tag_eqb t tLB then v else g_lb p) (if tag_eqb t tPG then v else g_pg p) (g_pi p)
         (if tag_eqb t tPL then v else g_pl p) (if tag_eqb t tPU then v else g_pu p)
         (if tag_eqb t tSM then v else g_sm p) (g_other p).
  Definition rg_plain (t : tag) : bool :=
    tag_eqb t tCN || tag_eqb t tDS || tag_eqb t tFO || tag_eqb t tKS || tag_eqb t tLB || tag_eqb t tPG
    || tag_eqb t tPL || tag_eqb t tPU || tag_eqb t tSM.

  Fixpoint rg_fields (names : smap) (o : obj rgpay) (seen : list tag) (idok : bool) (fs : list str)
    : outcome (obj rgpay * bool) :=
    match fs with
    | [] => Ok (o, idok)
    | f :: l =>
      match split_field f with
      | None => Err eBadHeader
      | Some (t, v) =>
        if mem_tag t seen then Err eDupTag
        else
          let p := o_pay o in
          let seen' := t :: seen in
          if tag_eqb t tID then
            match mget v names with
            | Some _ => Err eDupRG
            | None => rg_fields names (with_name o v) seen' true l
            end
          else if tag_eqb t tDT then
            match parse_time v with
            | None => Err eOther
            | Some d => rg_fields names (mkObj (o_owner o) (o_id o) (o_name o)
                          (mkRG (g_cn p) (g_ds p) (Some d) (g_fo p) (g_ks p) (g_lb p) (g_pg p) (g_pi p) (g_pl p) (g_pu p) (g_sm p) (g_other p))) seen' idok l
            end
          else if tag_eqb t tPI then
            match atoi v with
            | None => Err eOther
            | Some n => if valid_int32 n
                        then rg_fields names (mkObj (o_owner o) (o_id o) (o_name o)
                               (mkRG (g_cn p) (g_ds p) (g_dt p) (g_fo p) (g_ks p) (g_lb p) (g_pg p) n (g_pl p) (g_pu p) (g_sm p) (g_other p))) seen' idok l
                        else Err eBadLen
            end
          else if rg_plain t then rg_fields names (mkObj (o_owner o) (o_id o) (o_name o) (rg_set o t v)) seen' idok l
          else rg_fields names (mkObj (o_owner o) (o_id o) (o_name o)
                 (mkRG (g_cn p) (g_ds p) (g_dt p) (g_fo p) (g_ks p) (g_lb p) (g_pg p) (g_pi p) (g_pl p) (g_pu p) (g_sm p) (g_other p ++ [(t, v)]))) seen' idok l
      end
    end.

  (** the common tail of readGroupLine / programLine *)
  Definition install_new {P} (h : nat) (st : list (obj P)) (t : tbl) (o : obj P) : list (obj P) * tbl :=
    let o0 := with_ident o None (-1) in
    let '(st1, t1, _) := add_fresh 0 h (st ++ [o0]) t (length st) o0 in (st1, t1).

  Definition read_group_line (w : world) (h : nat) (l : str) : res :=
    match nth_error (w_h w) h with
    | None => Panic pNil
    | Some hd =>
      match split TAB l with
      | _ :: f1 :: fs =>
        match rg_fields (t_seen (h_G hd)) (mkObj None 0 [] (mkRG [] [] None [] [] [] [] 0 [] [] [] [])) [] false (f1 :: fs) with
        | Ok (g, idok) =>
          if negb idok then Ok (w, eBadHeader)
          else let '(st', t') := install_new h (w_g w) (h_G hd) g in
               Ok (put_hdr (set_g w st') h (set_G hd t'), 0)
        | Err e => Ok (w, e)
        | Panic n => Panic n
        | Stuck => Stuck
        end
      | _ => Ok (w, eBadHeader)
      end
    end.

  Fixpoint pg_fields (names : smap) (o : obj pgpay) (seen : list tag) (idok : bool) (fs : list str)
    : outcome (obj pgpay * bool) :=
    match fs with
    | [] => Ok (o, idok)
    | f :: l =>
      match split_field f with
      | None => Err eBadHeader
      | Some (t, v) =>
        if mem_tag t seen then Err eDupTag
        else
          let p := o_pay o in
          let seen' := t :: seen in
          if tag_eqb t tID then
            match mget v names with
            | Some _ => Err eDupPG
            | None => pg_fields names (with_name o v) seen' true l
            end
          else if tag_eqb t tPN then pg_fields names (mkObj (o_owner o) (o_id o) (o_name o) (mkPG (p_pp p) v (p_cl p) (p_vn p) (p_other p))) seen' idok l
          else if tag_eqb t tCL then pg_fields names (mkObj (o_owner o) (o_id o) (o_name o) (mkPG (p_pp p) (p_pn p) v (p_vn p) (p_other p))) seen' idok l
          else if tag_eqb t tPP then pg_fields names (mkObj (o_owner o) (o_id o) (o_name o) (mkPG v (p_pn p) (p_cl p) (p_vn p) (p_other p))) seen' idok l
          else if tag_eqb t tVN then pg_fields names (mkObj (o_owner o) (o_id o) (o_name o) (mkPG (p_pp p) (p_pn p) (p_cl p) v (p_other p))) seen' idok l
          else pg_fields names (mkObj (o_owner o) (o_id o) (o_name o) (mkPG (p_pp p) (p_pn p) (p_cl p) (p_vn p) (p_other p ++ [(t, v)]))) seen' idok l
      end
    end.

  Definition program_line (w : world) (h : nat) (l : str) : res :=
    match nth_error (w_h w) h with
    | None => Panic pNil
    | Some hd =>
      match split TAB l with
      | _ :: f1 :: fs =>
        match pg_fields (t_seen (h_P hd)) (mkObj None 0 [] (mkPG [] [] [] [] [])) [] false (f1 :: fs) with
        | Ok (g, idok) =>
          if negb idok then Ok (w, eBadHeader)
          else let '(st', t') := install_new h (w_p w) (h_P hd) g in
               Ok (put_hdr (set_p w st') h (set_P hd t'), 0)
        | Err e => Ok (w, e)
        | Panic n => Panic n
        | Stuck => Stuck
        end
      | _ => Ok (w, eBadHeader)
      end
    end.

  Definition comment_line (w : world) (h : nat) (l : str) : res :=
    match nth_error (w_h w) h with
    | None => Panic pNil
    | Some hd =>
      match split2 TAB l with
      | [_; c] => Ok (put_hdr w h (set_co hd (h_co hd ++ [c])), 0)
      | _ => Ok (w, eBadHeader)
      end
    end.

  Definition strip_cr (l : str) : str :=
    match rev l with
    | c :: t => if c =? CR then rev t else l
    | [] => l
    end.

  (** one line of UnmarshalText *)
  Definition text_line (w : world) (h : nat) (l0 : str) : res :=
    let l := strip_cr l0 in
    match l with
    | [] => Ok (w, 0)
    | c0 :: c1 :: c2 :: _ =>
      if negb (c0 =? AT) then Ok (w, eBadHeader)
      else
        let t := (c1, c2) in
        if tag_eqb t tHD then
          match nth_error (w_h w) h with
          | None => Panic pNil
          | Some hd => let '(hd', e) := header_line hd l in Ok (put_hdr w h hd', e)
          end
        else if tag_eqb t tSQ then reference_line w h l
        else if tag_eqb t tRG then read_group_line w h l
        else if tag_eqb t tPG then program_line w h l
        else if tag_eqb t tCO then comment_line w h l
        else Ok (w, eBadHeader)
    | _ => Ok (w, eBadHeader)
    end.

  Fixpoint text_lines (w : world) (h : nat) (ls : list str) : res :=
    match ls with
    | [] => Ok (w, 0)
    | l :: t =>
      match text_line w h l with
      | Ok (w', e) => if e =? 0 then text_lines w' h t else Ok (w', e)
      | x => x
      end
    end.

  (** Header.UnmarshalText *)
  Definition unmarshal_text (w : world) (h : nat) (text : str) : res := text_lines w h (split LF text).

  (** ** NewHeader *)
  Fixpoint nh_validate (st : list (obj refpay)) (seen : smap) (i : Z) (rs : list nat) : outcome (smap * Z) :=
    match rs with
    | [] => Ok (seen, 0)
    | r :: l =>
      match nth_error st r with
      | None => Panic pNil
      | Some o =>
        if owned o || (0 <=? o_id o) then Ok (seen, eUsedRef)
        else match mget (o_name o) seen with
             | Some _ => Ok (seen, eDupRef)
             | None => nh_validate st (mset (o_name o) i seen) (i + 1) l
             end
      end
    end.
  Fixpoint nh_claim (h : nat) (st : list (obj refpay)) (i : Z) (rs : list nat) : list (obj refpay) :=
    match rs with
    | [] => st
    | r :: l => match nth_error st r with
                | Some o => nh_claim h (upd st r (with_ident o (Some h) i)) (i + 1) l
                | None => st
                end
    end.

  (** NewHeader(text, refs): on success the new header is the last of [w_h] *)
  Definition new_header (w : world) (text : option str) (rs : list nat) : res :=
    match nh_validate (w_r w) [] 0 rs with
    | Ok (seen, e) =>
      if negb (e =? 0) then Ok (w, e)
      else
        let h := length (w_h w) in
        let w1 := mkW (w_h w ++ [mkHdr [] 0 0 [] (mkTbl rs seen) tbl0 tbl0 []]) (nh_claim h (w_r w) 0 rs) (w_g w) (w_p w) in
        match text with
        | None => Ok (w1, 0)
        | Some t => unmarshal_text w1 h t
        end
    | Err e => Err e | Panic n => Panic n | Stuck => Stuck
    end.

  (** ** DecodeBinary *)
  Definition rd32 (s : str) : option (Z * str) :=
    match s with
    | a :: b :: c :: d :: t =>
      let u := a + 256 * b + 65536 * c + 16777216 * d in
      Some (if u <? 2 ^ 31 then u else u - 2 ^ 32, t)
    | _ => None
    end.
  (** bytes.Reader.Read into a buffer of n bytes *)
  Definition rd_n (n : Z) (s : str) : option (str * str) :=
    match s with
    | [] => None
    | _ => if zlen s <? n then None else Some (firstn (Z.to_nat n) s, skipn (Z.to_nat n) s)
    end.

  Fixpoint read_ref_records (fuel : nat) (i : Z) (n : Z) (s : str) (acc : list (obj refpay)) : outcome (list (obj refpay)) :=
    if n <=? i then Ok (rev acc)
    else match fuel with
         | O => Stuck
         | S f =>
           match rd32 s with
           | None => Err eOther
           | Some (lname, s1) =>
             if lname <? 1 then Err eOther
             else match rd_n lname s1 with
                  | None => Err eOther
                  | Some (nm, s2) =>
                    if negb (last nm 1 =? 0) then Err eOther
                    else match rd32 s2 with
                         | None => Err eOther
                         | Some (lref, s3) =>
                           read_ref_records f (i + 1) n s3 (bare_ref i (removelast nm) lref :: acc)
                         end
                  end
           end
         end.

  Fixpoint add_all (w : world) (h : nat) (rs : list (obj refpay)) : res :=
    match rs with
    | [] => Ok (w, 0)
    | o :: l =>
      let r := length (w_r w) in
      match add_reference (set_r w (w_r w ++ [o])) h r with
      | Ok (w', e) => if e =? 0 then add_all w' h l else Ok (w', e)
      | x => x
      end
    end.

  (** (&Header{}).DecodeBinary(bytes.NewReader(b)): the new header is the last of [w_h] *)
  Definition decode_binary (w : world) (b : str) : res :=
    let h := length (w_h w) in
    let w0 := set_h w (w_h w ++ [hdr0]) in
    match rd_n 4 b with
    | None => Ok (w0, eOther)
    | Some (m, s0) =>
      if negb (str_eqb m bam_magic) then Ok (w0, eOther)
      else match rd32 s0 with
           | None => Ok (w0, eOther)
           | Some (ltext, s1) =>
             if ltext <? 0 then Ok (w0, eOther)
             else match rd_n ltext s1 with
                  | None => Ok (w0, eOther)
                  | Some (text, s2) =>
                    match unmarshal_text w0 h text with
                    | Ok (w1, e) =>
                      if negb (e =? 0) then Ok (w1, e)
                      else match rd32 s2 with
                           | None => Ok (w1, eOther)
                           | Some (nref, s3) =>
                             if nref <? 0 then Ok (w1, eOther)
                             else match read_ref_records (S (length s3)) 0 nref s3 [] with
                                  | Ok rs => add_all w1 h rs
                                  | Err e' => Ok (w1, e')
                                  | Panic n => Panic n
                                  | Stuck => Stuck
                                  end
                           end
                    | x => x
                    end
                  end
           end
    end.
End Parse.
