(** C07 — running the header model against the implementation: the
    operations of the harness (harness/c07.go), the table of objects the
    caller can name, and the comparison of every step's observation. *)
From Coq Require Import ZArith List Bool String Ascii.
From Hts Require Import Base.Prim Model.Header.
Import ListNotations.
Open Scope Z_scope.

(** byte strings are written as string literals with ~hh escapes *)
Definition hexval (c : ascii) : Z :=
  let n := Z.of_nat (nat_of_ascii c) in if n <? 58 then n - 48 else n - 87.
Fixpoint L (s : string) : str :=
  match s with
  | EmptyString => []
  | String c t =>
    if Ascii.eqb c "~"%char then
      match t with
      | String a (String b t') => (hexval a * 16 + hexval b) :: L t'
      | _ => []
      end
    else Z.of_nat (nat_of_ascii c) :: L t
  end.

Inductive c07op : Type :=
| ONewRef (name : str) (len : Z) (md5 as_ sp uri : str)
| ONewRG (name cn ds lb pg pl pu sm fo ks dt : str) (pi : Z)
| ONewPG (uid pn cl pp vn : str)
| OCloneRef (r : Z) | OCloneRG (r : Z) | OClonePG (r : Z)
| ONewHdr (text : option str) (rs : list Z)
| OSetHD (h : Z) (vn : str) (so go : Z)
| OAddCo (h : Z) (t : str)
| OAddRef (h r : Z) | ORmRef (h r : Z)
| OAddRG (h r : Z) | ORmRG (h r : Z)
| OAddPG (h r : Z) | ORmPG (h r : Z)
| OSetName (r : Z) (n : str) | OSetRGName (r : Z) (n : str) | OSetUID (r : Z) (n : str)
| OClone (h : Z) | ODecode (h : Z) | OUnmarshal (h : Z) (t : str) | OMerge (hs : list Z).

(** what the caller can name: headers and items in the order they became visible *)
Record env : Type := mkE { e_h : list nat; e_r : list nat; e_g : list nat; e_p : list nat }.
Definition env0 := mkE [] [] [] [].

Definition norm (i : Z) (l : list nat) : option nat :=
  match l with
  | [] => None
  | _ => nth_error l (Z.to_nat (i mod zlen l))
  end.
Fixpoint norm_all (is_ : list Z) (l : list nat) : option (list nat) :=
  match is_ with
  | [] => Some []
  | i :: t => match norm i l, norm_all t l with
              | Some x, Some xs => Some (x :: xs)
              | _, _ => None
              end
  end.

Fixpoint add_new (known : list nat) (items : list nat) : list nat :=
  match items with
  | [] => known
  | r :: l => if existsb (Nat.eqb r) known then add_new known l else add_new (known ++ [r]) l
  end.
Definition expose (w : world) (e : env) (h : nat) : env :=
  match nth_error (w_h w) h with
  | None => e
  | Some hd => mkE (e_h e) (add_new (e_r e) (t_items (h_R hd))) (add_new (e_g e) (t_items (h_G hd))) (add_new (e_p e) (t_items (h_P hd)))
  end.
Definition expose_hdr (w : world) (e : env) (h : nat) : env :=
  expose w (mkE (e_h e ++ [h]) (e_r e) (e_g e) (e_p e)) h.

Definition link := (Z * Z * str * Z)%type.
Definition stepres := outcome (world * env * Z * option (list (list link))).
Definition skip (w : world) (e : env) : stepres := Ok (w, e, -1, None).

Definition done (e : env) (x : res) : stepres :=
  match x with
  | Ok (w, c) => Ok (w, e, c, None)
  | Err c => Err c | Panic n => Panic n | Stuck => Stuck
  end.

Definition link_of (w : world) (hm : nat) (r : nat) : link :=
  match nth_error (w_r w) r, nth_error (w_h w) hm with
  | Some o, Some hd =>
    ((if owner_is (w_r w) r hm && listed_at (t_items (h_R hd)) (o_id o) r then 1 else 0), o_id o, o_name o, rp_len (o_pay o))
  | _, _ => (-1, -1, [], -1)
  end.

Section Run.
  Variable parse_time : str -> option str.
  Variable parse_uri : str -> option str.

  Definition c07_step (w : world) (e : env) (op : c07op) : stepres :=
    match op with
    | ONewRef name len md5 as_ sp uri =>
      if valid_len len && negb (is_empty name) && (is_empty md5 || Nat.eqb (length md5) 16)
      then Ok (new_ref w name (mkRef len md5 as_ sp (if is_empty uri then None else Some uri) []),
               mkE (e_h e) (e_r e ++ [length (w_r w)]) (e_g e) (e_p e), 0, None)
      else Ok (w, e, eOther, None)
    | ONewRG name cn ds lb pg pl pu sm fo ks dt pi =>
      if valid_int32 pi
      then Ok (new_rg w name (mkRG cn ds (if is_empty dt then None else Some dt) fo ks lb pg pi pl pu sm []),
               mkE (e_h e) (e_r e) (e_g e ++ [length (w_g w)]) (e_p e), 0, None)
      else Ok (w, e, eOther, None)
    | ONewPG uid pn cl pp vn =>
      Ok (new_pg w uid (mkPG pp pn cl vn []), mkE (e_h e) (e_r e) (e_g e) (e_p e ++ [length (w_p w)]), 0, None)
    | OCloneRef r =>
      match norm r (e_r e) with
      | None => skip w e
      | Some x => match clone_ref w x with
                  | Ok w' => Ok (w', mkE (e_h e) (e_r e ++ [length (w_r w)]) (e_g e) (e_p e), 0, None)
                  | Err c => Err c | Panic n => Panic n | Stuck => Stuck
                  end
      end
    | OCloneRG r =>
      match norm r (e_g e) with
      | None => skip w e
      | Some x => match clone_rg w x with
                  | Ok w' => Ok (w', mkE (e_h e) (e_r e) (e_g e ++ [length (w_g w)]) (e_p e), 0, None)
                  | Err c => Err c | Panic n => Panic n | Stuck => Stuck
                  end
      end
    | OClonePG r =>
      match norm r (e_p e) with
      | None => skip w e
      | Some x => match clone_pg w x with
                  | Ok w' => Ok (w', mkE (e_h e) (e_r e) (e_g e) (e_p e ++ [length (w_p w)]), 0, None)
                  | Err c => Err c | Panic n => Panic n | Stuck => Stuck
                  end
      end
    | ONewHdr text rs =>
      match (match rs with [] => Some [] | _ => norm_all rs (e_r e) end) with
      | None => skip w e
      | Some rs' =>
        match new_header parse_time parse_uri w text rs' with
        | Ok (w', c) => if c =? 0 then Ok (w', expose_hdr w' e (length (w_h w)), 0, None) else Ok (w', e, c, None)
        | Err c => Err c | Panic n => Panic n | Stuck => Stuck
        end
      end
    | OSetHD h vn so go =>
      match norm h (e_h e) with
      | None => skip w e
      | Some x => match nth_error (w_h w) x with
                  | Some hd => Ok (put_hdr w x (set_hd hd vn so go (h_other hd)), e, 0, None)
                  | None => Panic pNil
                  end
      end
    | OAddCo h t =>
      match norm h (e_h e) with
      | None => skip w e
      | Some x => match nth_error (w_h w) x with
                  | Some hd => Ok (put_hdr w x (set_co hd (h_co hd ++ [t])), e, 0, None)
                  | None => Panic pNil
                  end
      end
    | OAddRef h r => match norm h (e_h e), norm r (e_r e) with Some x, Some y => done e (add_reference w x y) | _, _ => skip w e end
    | ORmRef h r => match norm h (e_h e), norm r (e_r e) with Some x, Some y => done e (remove_reference w x y) | _, _ => skip w e end
    | OAddRG h r => match norm h (e_h e), norm r (e_g e) with Some x, Some y => done e (add_read_group w x y) | _, _ => skip w e end
    | ORmRG h r => match norm h (e_h e), norm r (e_g e) with Some x, Some y => done e (remove_read_group w x y) | _, _ => skip w e end
    | OAddPG h r => match norm h (e_h e), norm r (e_p e) with Some x, Some y => done e (add_program w x y) | _, _ => skip w e end
    | ORmPG h r => match norm h (e_h e), norm r (e_p e) with Some x, Some y => done e (remove_program w x y) | _, _ => skip w e end
    | OSetName r n => match norm r (e_r e) with Some y => done e (set_ref_name w y n) | None => skip w e end
    | OSetRGName r n => match norm r (e_g e) with Some y => done e (set_rg_name w y n) | None => skip w e end
    | OSetUID r n => match norm r (e_p e) with Some y => done e (set_pg_uid w y n) | None => skip w e end
    | OClone h =>
      match norm h (e_h e) with
      | None => skip w e
      | Some x => match clone_header w x with
                  | Ok w' => Ok (w', expose_hdr w' e (length (w_h w)), 0, None)
                  | Err c => Err c | Panic n => Panic n | Stuck => Stuck
                  end
      end
    | ODecode h =>
      match norm h (e_h e) with
      | None => skip w e
      | Some x =>
        match nth_error (w_h w) x with
        | None => Panic pNil
        | Some hd =>
          match encode_binary w hd with
          | Ok b => match decode_binary parse_time parse_uri w b with
                    | Ok (w', c) => if c =? 0 then Ok (w', expose_hdr w' e (length (w_h w)), 0, None) else Ok (w', e, c, None)
                    | Err c => Err c | Panic n => Panic n | Stuck => Stuck
                    end
          | Err c => Err c | Panic n => Panic n | Stuck => Stuck
          end
        end
      end
    | OUnmarshal h t =>
      match norm h (e_h e) with
      | None => skip w e
      | Some x => match unmarshal_text parse_time parse_uri w x t with
                  | Ok (w', c) => Ok (w', expose w' e x, c, None)
                  | Err c => Err c | Panic n => Panic n | Stuck => Stuck
                  end
      end
    | OMerge hs =>
      match norm_all hs (e_h e) with
      | None | Some [] => skip w e
      | Some [x] => Ok (w, mkE (e_h e ++ [x]) (e_r e) (e_g e) (e_p e), 0, None)
      | Some (x :: rest) =>
        match merge_headers w x rest with
        | Ok (w', c, links) =>
          if c =? 0 then
            let hm := length (w_h w) in
            Ok (w', expose_hdr w' e hm, 0, Some (map (map (link_of w' hm)) links))
          else Ok (w', e, c, None)
        | Err c => Err c | Panic n => Panic n | Stuck => Stuck
        end
      end
    end.

  (** *** observations *)
  Inductive snap : Type :=
  | SAlias (j : Z)
  | SSnap (text : str) (bin : option str) (refs : list (Z * str * Z * Z)) (rgs pgs : list (Z * str * Z))
          (seenr seeng seenp : list (str * Z)).

  Inductive c07res : Type :=
  | OPanic
  | OStep (e : Z) (n : list Z) (changed : list (Z * snap)) (links : option (list (list link))).

  Definition seen_agrees (m : smap) (exp : list (str * Z)) : bool :=
    Nat.eqb (length m) (length exp)
    && forallb (fun kv => match mget (fst kv) m with Some v => v =? snd kv | None => false end) exp.

  Fixpoint list_eqb {A B} (eqb : A -> B -> bool) (a : list A) (b : list B) : bool :=
    match a, b with
    | [], [] => true
    | x :: a', y :: b' => eqb x y && list_eqb eqb a' b'
    | _, _ => false
    end.

  Definition ident_of {P} (h : nat) (o : obj P) : Z * str * Z :=
    (o_id o, o_name o, match o_owner o with Some h' => if Nat.eqb h' h then 1 else 0 | None => 0 end).
  Definition ident_eqb (a b : Z * str * Z) : bool :=
    let '(i, n, o) := a in let '(i', n', o') := b in (i =? i') && str_eqb n n' && (o =? o').
  Definition rident_eqb (a : Z * str * Z) (len : Z) (b : Z * str * Z * Z) : bool :=
    let '(i, n, o) := a in let '(i', n', l', o') := b in (i =? i') && str_eqb n n' && (len =? l') && (o =? o').

  Fixpoint first_index (x : nat) (l : list nat) (i : Z) : Z :=
    match l with
    | [] => -1
    | y :: t => if Nat.eqb x y then i else first_index x t (i + 1)
    end.

  Definition snap_agrees (w : world) (e : env) (i : nat) (s : snap) : bool :=
    match nth_error (e_h e) i with
    | None => false
    | Some h =>
      let j := first_index h (e_h e) 0 in
      match s with
      | SAlias j' => (j <? Z.of_nat i) && (j =? j')
      | SSnap text bin refs rgs pgs seenr seeng seenp =>
        (j =? Z.of_nat i) &&
        match nth_error (w_h w) h with
        | None => false
        | Some hd =>
          match marshal_text w hd, objs (w_r w) (t_items (h_R hd)), objs (w_g w) (t_items (h_G hd)), objs (w_p w) (t_items (h_P hd)) with
          | Ok t, Some rs, Some gs, Some ps =>
            str_eqb t text
            && match bin with
               | None => true
               | Some b => match encode_binary w hd with Ok b' => str_eqb b b' | _ => false end
               end
            && list_eqb (fun o x => rident_eqb (ident_of h o) (rp_len (o_pay o)) x) rs refs
            && list_eqb (fun o x => ident_eqb (ident_of h o) x) gs rgs
            && list_eqb (fun o x => ident_eqb (ident_of h o) x) ps pgs
            && seen_agrees (t_seen (h_R hd)) seenr && seen_agrees (t_seen (h_G hd)) seeng && seen_agrees (t_seen (h_P hd)) seenp
          | _, _, _, _ => false
          end
        end
      end
    end.

  Fixpoint apply_changes (prev : list snap) (ch : list (Z * snap)) : list snap :=
    match ch with
    | [] => prev
    | (i, s) :: t =>
      apply_changes (if Z.to_nat i <? length prev then upd prev (Z.to_nat i) s else prev ++ [s])%nat t
    end.

  Fixpoint all_agree (w : world) (e : env) (i : nat) (l : list snap) : bool :=
    match l with
    | [] => true
    | s :: t => snap_agrees w e i s && all_agree w e (S i) t
    end.

  Definition link_eqb (a b : link) : bool :=
    let '(o, i, n, l) := a in let '(o', i', n', l') := b in (o =? o') && (i =? i') && str_eqb n n' && (l =? l').

  Definition counts (e : env) : list Z := [zlen (e_h e); zlen (e_r e); zlen (e_g e); zlen (e_p e)].

  (** run the history; result: -1 when every step agrees, else the index of the first step that does not *)
  Fixpoint c07_run (w : world) (e : env) (prev : list snap) (k : Z) (steps : list (c07op * c07res)) : Z :=
    match steps with
    | [] => -1
    | (op, exp) :: rest =>
      match c07_step w e op, exp with
      | Panic _, OPanic => -1
      | Ok (w', e', c, links), OStep c' n ch links' =>
        let prev' := apply_changes prev ch in
        if (c =? c') && list_eqb Z.eqb (counts e') n
           && Nat.eqb (length prev') (length (e_h e'))
           && all_agree w' e' 0 prev'
           && match links, links' with
              | None, None => true
              | Some a, Some b => list_eqb (list_eqb link_eqb) a b
              | _, _ => false
              end
        then c07_run w' e' prev' (k + 1) rest
        else k
      | _, _ => k
      end
    end.
End Run.

Definition table := list (str * option str).
Fixpoint lookup (t : table) (k : str) : option str :=
  match t with
  | [] => None
  | (k', v) :: r => if str_eqb k k' then v else lookup r k
  end.

Definition c07case := (table * table * list (c07op * c07res))%type.
Definition c07_first_bad (c : c07case) : Z :=
  let '(dts, urs, steps) := c in c07_run (lookup dts) (lookup urs) world0 env0 [] 0 steps.
Definition c07_agree (c : c07case) : bool := c07_first_bad c =? -1.
