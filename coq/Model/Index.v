(** Model of internal/index.go (the core shared by BAI and tabix):
    [Index.Add], [Index.sort], [Index.Chunks], [Index.MergeChunks],
    [OverlappingBinsFor].  Executable definitions only.

    Conventions: a [bgzf.Offset] is represented by its virtual offset
    [File<<16 | Block] (the comparison key the code uses everywhere, and an
    injection on valid offsets); Go [int] and the [uint64] counters are
    unbounded [Z]; [uint32] bin arithmetic wraps explicitly ([u32]).
    [internal_IsValidIndexPos], [internal_BinFor], [internal_TileWidth] and the
    level constants come from Generated.v (regenerated from the Go source). *)
From Hts Require Import Base.Prim Generated.
Open Scope Z_scope.

Definition chunk := (Z * Z)%type.          (* Begin, End *)

Record ibin := mkBin { bnum : Z; bchunks : list chunk }.
Record istats := mkStats { sbeg : Z; send : Z; smapped : Z; sunmapped : Z }.
Record iref := mkRef { rbins : list ibin; rstats : option istats; rintv : list Z }.
Record index := mkIdx { irefs : list iref; iunm : option Z; isorted : bool; ilast : Z }.

(** What [Add] is told about one record: [r.RefID()], [r.Start()], [r.End()],
    the bin, the chunk, placed, mapped. *)
Record irec := mkRec {
  q_rid : Z; q_start : Z; q_end : Z; q_bin : Z; q_cb : Z; q_ce : Z;
  q_placed : bool; q_mapped : bool }.

Definition ix_empty : index := mkIdx [] None false 0.
Definition ix_empty_ref : iref := mkRef [] None [].
Definition ix_TW : Z := internal_TileWidth.

Definition ix_valid_pos (x : Z) : bool :=
  match internal_IsValidIndexPos x with Ok b => b | _ => false end.

(** ** Add *)

(** [for j, chunk := range Chunks { if vOffset(chunk.End) > vOffset(c.Begin) { Chunks[j].End = c.End; goto found } }; append] *)
Fixpoint ix_upd_chunks (cs : list chunk) (c : chunk) : list chunk :=
  match cs with
  | [] => [c]
  | ch :: t => if snd ch >? fst c then (fst ch, snd c) :: t else ch :: ix_upd_chunks t c
  end.

(** [for i, b := range ref.Bins { if b.Bin == bin {...; goto found} }]; [None] when no bin has the number. *)
Fixpoint ix_upd_bins (bs : list ibin) (b : Z) (c : chunk) : option (list ibin) :=
  match bs with
  | [] => None
  | x :: t =>
      if bnum x =? b then Some (mkBin (bnum x) (ix_upd_chunks (bchunks x) c) :: t)
      else match ix_upd_bins t b c with Some t' => Some (x :: t') | None => None end
  end.

(** [append(i.Refs, RefIndex{})] when [rid == len], [make(rid+1); copy] when [rid > len]. *)
Definition ix_grow_refs (rs : list iref) (rid : Z) : list iref :=
  rs ++ repeat ix_empty_ref (Z.to_nat (rid + 1 - zlen rs)).

(** [for iv, offset := range intvs[skip:] { if !isZero(offset) { panic }; intvs[iv+skip] = v }] *)
Fixpoint ix_fill (l : list Z) (skip : nat) (v : Z) : outcome (list Z) :=
  match skip, l with
  | S k, x :: t => obind (ix_fill t k v) (fun t' => Ok (x :: t'))
  | S _, [] => Panic 1
  | O, [] => Ok []
  | O, x :: t => if x =? 0 then obind (ix_fill t O v) (fun t' => Ok (v :: t')) else Panic 3
  end.

(** [copy(dst, src)] *)
Definition ix_copy (dst src : list Z) : list Z :=
  firstn (length dst) src ++ skipn (length src) dst.

(** The linear ("interval tile") index update of [Add]. *)
Definition ix_linear (intv : list Z) (start end_ cb : Z) : outcome (list Z) :=
  let biv := Z.quot start ix_TW in
  let eiv := Z.quot (end_ - 1) ix_TW in
  let eiv := if eiv <? biv then biv else eiv in
  let n := zlen intv in
  if eiv >=? n then
    let fresh := repeat 0 (Z.to_nat (eiv + 1)) in
    let biv := if n >? biv then n else biv in
    chk ((0 <=? biv) && (biv <=? eiv + 1))
      (obind (ix_fill fresh (Z.to_nat biv) cb) (fun filled => Ok (ix_copy filled intv)))
  else Ok intv.

Definition ix_upd_stats (st : option istats) (c : chunk) (mapped : bool) : istats :=
  let s := match st with
           | None => mkStats (fst c) (snd c) 0 0
           | Some s => mkStats (sbeg s) (snd c) (smapped s) (sunmapped s)
           end in
  if mapped then mkStats (sbeg s) (send s) (smapped s + 1) (sunmapped s)
  else mkStats (sbeg s) (send s) (smapped s) (sunmapped s + 1).

(** Error classes: 1 outside indexable range, 2 reference order, 3 position order,
    4 placed record with a negative reference id. *)
Definition ix_add (ix : index) (r : irec) : outcome index :=
  if negb (ix_valid_pos (q_start r)) || negb (ix_valid_pos (q_end r - 1)) then Err 1 else
  let um := match iunm ix with Some u => u | None => 0 end in
  if negb (q_placed r) then Ok (mkIdx (irefs ix) (Some (um + 1)) (isorted ix) (ilast ix)) else
  let rid := q_rid r in
  let n := zlen (irefs ix) in
  if rid <? 0 then Err 4 else
  if rid <? n - 1 then Err 2 else
  let grown := rid >=? n in
  let refs := if grown then ix_grow_refs (irefs ix) rid else irefs ix in
  let last := if grown then 0 else ilast ix in
  chk (inb refs rid) (
  let ref := nth (Z.to_nat rid) refs ix_empty_ref in
  let c := (q_cb r, q_ce r) in
  let '(bins, sorted) :=
    match ix_upd_bins (rbins ref) (q_bin r) c with
    | Some bs => (bs, isorted ix)
    | None => (rbins ref ++ [mkBin (q_bin r) [c]], false)
    end in
  if q_start r <? last then Err 3 else
  obind (ix_linear (rintv ref) (q_start r) (q_end r) (q_cb r)) (fun intv =>
  (* the branch of the linear-index update that adds tiles (the only one that
     changes the length) also clears IsSorted *)
  let sorted := if zlen intv >? zlen (rintv ref) then false else sorted in
  let ref' := mkRef bins (Some (ix_upd_stats (rstats ref) c (q_mapped r))) intv in
  Ok (mkIdx (upd_nat refs (Z.to_nat rid) ref') (Some um) sorted (q_start r)))).

(** Adding a list of records, stopping at the first failure.  Returns the
    index reached, the outcome codes of the calls made (0 = nil error) and
    whether a call panicked. *)
Fixpoint ix_add_all (ix : index) (rs : list irec) : index * list Z * bool :=
  match rs with
  | [] => (ix, [], false)
  | r :: t =>
      match ix_add ix r with
      | Ok ix' => let '(f, codes, p) := ix_add_all ix' t in (f, 0 :: codes, p)
      | Err e => (ix, [e], false)
      | _ => (ix, [], true)
      end
  end.

(** Plain fold used by the theorems. *)
Fixpoint ix_fold_add (ix : index) (rs : list irec) : outcome index :=
  match rs with
  | [] => Ok ix
  | r :: t => obind (ix_add ix r) (fun ix' => ix_fold_add ix' t)
  end.

(** ** sort *)

Fixpoint ix_ins {A} (key : A -> Z) (x : A) (l : list A) : list A :=
  match l with
  | [] => [x]
  | y :: t => if key x <=? key y then x :: y :: t else y :: ix_ins key x t
  end.
Definition ix_isort {A} (key : A -> Z) (l : list A) : list A := fold_right (ix_ins key) [] l.

(** Sorting the tile offsets ([sort.Sort(byVirtOffset(ref.Intervals))]).  The
    list is mostly zeros between non-decreasing offsets, which plain insertion
    sort handles in quadratic time; zeros are therefore moved to the front in
    one pass when no entry is negative.  [Proofs/Index.v] shows
    [ix_sort_intv l = ix_isort id l] for every list. *)
Definition ix_sort_intv (l : list Z) : list Z :=
  if forallb (fun x => 0 <=? x) l
  then filter (fun x => x =? 0) l ++ ix_isort (fun x => x) (filter (fun x => negb (x =? 0)) l)
  else ix_isort (fun x => x) l.

Definition ix_sort_bin (b : ibin) : ibin := mkBin (bnum b) (ix_isort fst (bchunks b)).
Definition ix_sort_ref (r : iref) : iref :=
  mkRef (ix_isort bnum (map ix_sort_bin (rbins r))) (rstats r) (ix_sort_intv (rintv r)).
Definition ix_sort (ix : index) : index :=
  if isorted ix then ix else mkIdx (map ix_sort_ref (irefs ix)) (iunm ix) true (ilast ix).

(** ** OverlappingBinsFor *)

Definition ix_zrange (lo hi : Z) : list Z :=
  map (fun i => lo + Z.of_nat i) (seq 0 (Z.to_nat (hi - lo + 1))).

Definition ix_levels : list (Z * Z) :=
  [(internal_level1, internal_level1Shift); (internal_level2, internal_level2Shift);
   (internal_level3, internal_level3Shift); (internal_level4, internal_level4Shift);
   (internal_level5, internal_level5Shift)].

Definition ix_overlapping_bins (beg end_ : Z) : list Z :=
  let e := end_ - 1 in
  internal_level0 ::
  flat_map (fun os => ix_zrange (u32 (fst os + u32 (Z.shiftr beg (snd os))))
                                (u32 (fst os + u32 (Z.shiftr e (snd os))))) ix_levels.

(** ** Chunks *)

(** [sort.Search(n, f)]: binary search for the smallest index in [0, n) at which
    [f] holds ([i, j := 0, n; for i < j { h := int(uint(i+j) >> 1); if !f(h) { i = h + 1 } else { j = h } }]),
    here with [f h = (key l[h] >= b)].  Coded as written: on a list that is not
    sorted it returns whatever the bisection arrives at.  The loop runs at most
    [length l] times (the fuel); running out of fuel cannot happen. *)
Fixpoint ix_bs_go {A} (key : A -> Z) (d : A) (l : list A) (b : Z) (fuel : nat) (i j : Z) : Z :=
  match fuel with
  | O => i
  | S f =>
      if i <? j then
        let h := Z.shiftr (i + j) 1 in
        if key (nth (Z.to_nat h) l d) >=? b then ix_bs_go key d l b f i h
        else ix_bs_go key d l b f (h + 1) j
      else i
  end.
Definition ix_bsearch {A} (key : A -> Z) (d : A) (l : list A) (b : Z) : Z :=
  ix_bs_go key d l b (length l) 0 (zlen l).

(** [c := sort.Search(...); if c < len(ref.Bins) && ref.Bins[c].Bin == b { ... }] *)
Definition ix_search (bs : list ibin) (b : Z) : option ibin :=
  let c := ix_bsearch bnum (mkBin 0 []) bs b in
  if c <? zlen bs then
    let x := nth (Z.to_nat c) bs (mkBin 0 []) in
    if bnum x =? b then Some x else None
  else None.

(** The tile loop of [Chunks], exactly as written: [true] when the chunk is appended. *)
Fixpoint ix_tile_loop (tiles : list Z) (j : Z) (have : bool) (iv beg end_ cend : Z) : bool :=
  match tiles with
  | [] => false
  | tile :: rest =>
      if have && (tile =? 0) then ix_tile_loop rest (j + 1) have iv beg end_ cend
      else
        let tbeg := (j + iv) * ix_TW in
        let tend := tbeg + ix_TW in
        if (tend >=? beg) && (tbeg <=? end_) && (cend >? tile) then true
        else ix_tile_loop rest (j + 1) true iv beg end_ cend
  end.

Definition ix_candidates (ref : iref) (iv beg end_ : Z) : list chunk :=
  let tiles := skipn (Z.to_nat iv) (rintv ref) in
  flat_map (fun b =>
              match ix_search (rbins ref) b with
              | None => []
              | Some bn => filter (fun ch => ix_tile_loop tiles 0 false iv beg end_ (snd ch)) (bchunks bn)
              end) (ix_overlapping_bins beg end_).

(** Error classes: 1 ErrNoReference, 2 ErrInvalid. *)
Definition ix_chunks_of (ix : index) (rid beg end_ : Z) : outcome (list chunk) :=
  let ref := nth (Z.to_nat rid) (irefs ix) ix_empty_ref in
  let iv := Z.quot beg ix_TW in
  if iv >=? zlen (rintv ref) then Err 2 else
  chk (0 <=? iv) (Ok (ix_isort fst (ix_candidates ref iv beg end_))).

(** [Chunks] also sorts the index; the new state is returned with the answer. *)
(** [if end > 1<<indexWordBits { end = 1 << indexWordBits }] *)
Definition ix_clip_end (end_ : Z) : Z :=
  if end_ >? 2 ^ internal_indexWordBits then 2 ^ internal_indexWordBits else end_.

Definition ix_chunks (ix : index) (rid beg end_ : Z) : outcome (list chunk) * index :=
  if (rid <? 0) || (rid >=? zlen (irefs ix)) then (Err 1, ix)
  else if (beg <? 0) || (end_ <? beg) then (Err 2, ix)          (* ErrInvalid, before the index is sorted *)
  else let ix' := ix_sort ix in (ix_chunks_of ix' rid beg (ix_clip_end end_), ix').

(** ** MergeChunks (the strategy is applied to every bin's chunk list, sorted first) *)
Definition ix_merge_ref (s : list chunk -> list chunk) (r : iref) : iref :=
  mkRef (map (fun b => mkBin (bnum b) (s (ix_isort fst (bchunks b)))) (rbins r)) (rstats r) (rintv r).
Definition ix_merge (s : list chunk -> list chunk) (ix : index) : index :=
  mkIdx (map (ix_merge_ref s) (irefs ix)) (iunm ix) (isorted ix) (ilast ix).

(** ** The provided strategies (bgzf/index/strategy.go), as left-to-right merges.
    Used by the correspondence run; their coverage lemmas belong to C17. *)
Fixpoint ix_adj_go (cur : chunk) (rest : list chunk) : list chunk :=
  match rest with
  | [] => [cur]
  | r :: t =>
      if snd cur >=? fst r
      then ix_adj_go (fst cur, if snd cur >? snd r then snd cur else snd r) t
      else cur :: ix_adj_go r t
  end.
Definition ix_adjacent (l : list chunk) : list chunk :=
  match l with [] => [] | c :: t => ix_adj_go c t end.

Fixpoint ix_comp_go (near : Z) (cur : chunk) (rest : list chunk) : list chunk :=
  match rest with
  | [] => [cur]
  | r :: t =>
      if Z.shiftr (fst r) 16 - Z.shiftr (snd cur) 16 <=? near
      then ix_comp_go near (fst cur, if snd cur >? snd r then snd cur else snd r) t
      else cur :: ix_comp_go near r t
  end.
Definition ix_compressor (near : Z) (l : list chunk) : list chunk :=
  match l with [] => [] | c :: t => ix_comp_go near c t end.

Definition ix_squash (l : list chunk) : list chunk :=
  match l with
  | [] => []
  | c :: t => [(fst c, fold_left (fun r x => if snd x >? r then snd x else r) t (snd c))]
  end.

(** ** Statistics accessors *)
Definition ix_numrefs (ix : index) : Z := zlen (irefs ix).
Definition ix_refstats (ix : index) (id : Z) : option istats :=
  rstats (nth (Z.to_nat id) (irefs ix) ix_empty_ref).
