(** Byte-level model of the index writers and readers:
    bam.WriteIndex / bam.ReadIndex + internal/index_write.go, index_read.go (BAI),
    csi/csi_write.go, csi_read.go (CSI v1 and v2), tabix.WriteTo / tabix.ReadFrom.
    Executable definitions only.  Bytes are [Z] in 0..255, all fields little endian. *)
From Hts Require Import Base.Prim Generated Model.Index Model.Tabix Model.Csi.
Open Scope Z_scope.

(** ** little-endian fields *)
(** Written with masks and shifts (linear in the number of bits under
    vm_compute); [Proofs/IndexIO.v] relates them to [mod]/[/] and to [u32]/[u64]. *)
Fixpoint io_le (n : nat) (x : Z) : list Z :=
  match n with O => [] | S k => Z.land x 255 :: io_le k (Z.shiftr x 8) end.
Definition io_mask32 : Z := 4294967295.
Definition io_mask64 : Z := 18446744073709551615.
Definition io_u32 (x : Z) : list Z := io_le 4 (Z.land x io_mask32).      (* also int32: two's complement *)
Definition io_u64 (x : Z) : list Z := io_le 8 (Z.land x io_mask64).

Fixpoint io_unle (bs : list Z) : Z :=
  match bs with [] => 0 | b :: t => b + 256 * io_unle t end.

(** A reader consumes a prefix of the input or fails (class 1: short input / format error). *)
Definition rd (A : Type) := list Z -> outcome (A * list Z).
Definition rd_ret {A} (a : A) : rd A := fun s => Ok (a, s).
Definition rd_bind {A B} (r : rd A) (f : A -> rd B) : rd B :=
  fun s => match r s with Ok (a, s') => f a s' | Err e => Err e | Panic w => Panic w | Stuck => Stuck end.
Definition rd_fail {A} (e : Z) : rd A := fun _ => Err e.
Notation "x <- r ;; k" := (rd_bind r (fun x => k)) (at level 61, r at next level, right associativity).

(** [io.ReadFull] of [n] bytes (one pass, no length computation). *)
Fixpoint io_take (n : nat) (s : list Z) : option (list Z * list Z) :=
  match n, s with
  | O, _ => Some ([], s)
  | S k, b :: t => match io_take k t with Some (a, r) => Some (b :: a, r) | None => None end
  | S _, [] => None
  end.
Definition rd_bytes (n : nat) : rd (list Z) :=
  fun s => match io_take n s with Some r => Ok r | None => Err 1 end.
Definition rd_u32 : rd Z := bs <- rd_bytes 4 ;; rd_ret (io_unle bs).
Definition rd_i32 : rd Z := bs <- rd_bytes 4 ;; rd_ret (s32 (io_unle bs)).
Definition rd_u64 : rd Z := bs <- rd_bytes 8 ;; rd_ret (io_unle bs).

(** [n] repetitions of a reader. *)
Fixpoint rd_rep {A} (n : nat) (r : rd A) : rd (list A) :=
  match n with
  | O => rd_ret []
  | S k => x <- r ;; t <- rd_rep k r ;; rd_ret (x :: t)
  end.

(** A count read from the file: the readers reject a negative one. *)
Definition rd_count (n : Z) : rd nat := fun s => if n <? 0 then Err 1 else Ok (Z.to_nat n, s).

(** The optional trailing count of unplaced reads: absent at end of input, an
    error when fewer than eight bytes remain. *)
Definition rd_trailer : rd (option Z) :=
  fun s => match s with
           | [] => Ok (None, [])
           | _ => match io_take 8 s with Some (a, r) => Ok (Some (io_unle a), r) | None => Err 1 end
           end.

(** ** shared pieces: chunks, statistics *)
Definition wr_chunk (c : chunk) : list Z := io_u64 (fst c) ++ io_u64 (snd c).
Definition wr_chunks (cs : list chunk) : list Z := io_u32 (zlen cs) ++ flat_map wr_chunk cs.
Definition wr_stats_body (s : istats) : list Z :=
  io_u64 (sbeg s) ++ io_u64 (send s) ++ io_u64 (smapped s) ++ io_u64 (sunmapped s).

Definition rd_chunk : rd chunk := b <- rd_u64 ;; e <- rd_u64 ;; rd_ret (b, e).
(** [readChunks]: nil for a zero count, sorted by begin offset otherwise. *)
Definition rd_chunks (n : Z) : rd (list chunk) :=
  if n =? 0 then rd_ret []
  else k <- rd_count n ;; cs <- rd_rep k rd_chunk ;; rd_ret (ix_isort fst cs).
Definition rd_stats : rd istats :=
  b <- rd_u64 ;; e <- rd_u64 ;; m <- rd_u64 ;; u <- rd_u64 ;; rd_ret (mkStats b e m u).

(** ** BAI / tabix core: internal.WriteIndex, internal.ReadIndex *)
Definition wr_bin (b : ibin) : list Z := io_u32 (bnum b) ++ wr_chunks (bchunks b).
Definition wr_ref (r : iref) : list Z :=
  io_u32 (zlen (rbins r) + match rstats r with Some _ => 1 | None => 0 end)
  ++ flat_map wr_bin (rbins r)
  ++ match rstats r with
     | Some s => io_u32 internal_StatsDummyBin ++ io_u32 2 ++ wr_stats_body s
     | None => []
     end
  ++ io_u32 (zlen (rintv r)) ++ flat_map io_u64 (rintv r).
Definition wr_trailer (u : option Z) : list Z := match u with Some n => io_u64 n | None => [] end.

(** [WriteIndex] sorts the index first; the new state is returned with the bytes. *)
Definition wr_core (ix : index) : list Z * index :=
  let ix' := ix_sort ix in
  (flat_map wr_ref (irefs ix') ++ wr_trailer (iunm ix'), ix').

(** [readBins]: the loop reads [n] entries; the statistics pseudo-bin is
    stripped into [stats] (the last one wins), the others are kept in order and
    sorted by number at the end. *)
Fixpoint rd_bins_loop (n : nat) (acc : list ibin) (st : option istats) : rd (list ibin * option istats) :=
  match n with
  | O => rd_ret (ix_isort bnum (rev acc), st)
  | S k =>
      b <- rd_u32 ;; cnt <- rd_i32 ;;
      if b =? internal_StatsDummyBin then
        (if cnt =? 2 then s <- rd_stats ;; rd_bins_loop k acc (Some s) else rd_fail 1)
      else cs <- rd_chunks cnt ;; rd_bins_loop k (mkBin b cs :: acc) st
  end.
Definition rd_bins : rd (list ibin * option istats) :=
  n <- rd_i32 ;;
  if n =? 0 then rd_ret ([], None) else k <- rd_count n ;; rd_bins_loop k [] None.

Definition rd_intervals : rd (list Z) :=
  n <- rd_i32 ;;
  if n =? 0 then rd_ret [] else k <- rd_count n ;; l <- rd_rep k rd_u64 ;; rd_ret (ix_sort_intv l).

Definition rd_ref : rd iref :=
  bs <- rd_bins ;; iv <- rd_intervals ;; rd_ret (mkRef (fst bs) (snd bs) iv).

Definition io_maxint : Z := 2 ^ 63 - 1.

(** [internal.ReadIndex(r, n, typ)] *)
Definition rd_core (n : Z) : rd index :=
  k <- rd_count n ;; refs <- rd_rep k rd_ref ;; u <- rd_trailer ;;
  rd_ret (mkIdx refs u true io_maxint).

(** ** BAI *)
Definition bai_magic : list Z := [66; 65; 73; 1].
Definition bai_write (ix : index) : list Z * index :=
  let '(body, ix') := wr_core ix in
  (bai_magic ++ io_u32 (zlen (irefs ix)) ++ body, ix').

Fixpoint io_bytes_eqb (a b : list Z) : bool :=
  match a, b with
  | [], [] => true
  | x :: a', y :: b' => (x =? y) && io_bytes_eqb a' b'
  | _, _ => false
  end.

(** [bam.ReadIndex]: [Ok None] is the (nil, nil) result. *)
Definition bai_read (s : list Z) : outcome (option index) :=
  match (m <- rd_bytes 4 ;;
         if negb (io_bytes_eqb m bai_magic) then rd_fail 1 else
         n <- rd_i32 ;;
         ix <- rd_core n ;; rd_ret (Some ix)) s with
  | Ok (r, _) => Ok r
  | Err e => Err e | Panic w => Panic w | Stuck => Stuck
  end.

(** ** tabix *)
Definition tbi_magic : list Z := [84; 66; 73; 1].
Definition hdr_get (h : list Z) (i : nat) : Z := nth i h 0.

Definition tbx_write (t : tbx) : list Z * tbx :=
  let '(body, ix') := wr_core (t_idx t) in
  let h := t_hdr t in
  let format := Z.lor (u8 (hdr_get h 0)) (if hdr_get h 1 =? 0 then 0 else 65536) in
  (tbi_magic ++ io_u32 (zlen (irefs (t_idx t)))
   ++ io_u32 format ++ io_u32 (hdr_get h 2) ++ io_u32 (hdr_get h 3) ++ io_u32 (hdr_get h 4)
   ++ io_u32 (hdr_get h 5) ++ io_u32 (hdr_get h 6)
   ++ io_u32 (s32 (fold_left (fun n nm => s32 (n + s32 (zlen nm + 1))) (t_names t) 0))
   ++ flat_map (fun nm => nm ++ [0]) (t_names t)
   ++ body,
   mkTbx (t_names t) (t_map t) (t_hdr t) ix').

(** [strings.Split(s, "\x00")] *)
Fixpoint io_split0 (cur : list Z) (s : list Z) : list (list Z) :=
  match s with
  | [] => [rev cur]
  | b :: t => if b =? 0 then rev cur :: io_split0 [] t else io_split0 (b :: cur) t
  end.

(** [for i, n := range refNames { nameMap[n] = i }]: a later duplicate overwrites. *)
Fixpoint io_map_set (m : list (tname * Z)) (k : tname) (v : Z) : list (tname * Z) :=
  match m with
  | [] => [(k, v)]
  | (k', v') :: t => if tb_name_eqb k' k then (k', v) :: t else (k', v') :: io_map_set t k v
  end.
Fixpoint io_name_map (names : list tname) (i : Z) (m : list (tname * Z)) : list (tname * Z) :=
  match names with
  | [] => m
  | nm :: t => io_name_map t (i + 1) (io_map_set m nm i)
  end.

Definition tbx_read (s : list Z) : outcome (option tbx) :=
  match (m <- rd_bytes 4 ;;
         if negb (io_bytes_eqb m tbi_magic) then rd_fail 1 else
         n <- rd_i32 ;;
         format <- rd_i32 ;; nc <- rd_i32 ;; bc <- rd_i32 ;; ec <- rd_i32 ;; meta <- rd_i32 ;; skip <- rd_i32 ;;
         lnm <- rd_i32 ;; k <- rd_count lnm ;; nb <- rd_bytes k ;;
         (* an empty name block leaves refNames nil (only consistent with n = 0) *)
         names <- match rev nb with
                  | [] => rd_ret []
                  | lastb :: pre => if negb (lastb =? 0) then rd_fail 1 else rd_ret (io_split0 [] (rev pre))
                  end ;;
         if negb (zlen names =? n) then rd_fail 1 else
         ix <- rd_core n ;;
         rd_ret (Some (mkTbx names (io_name_map names 0 [])
                             [u8 format; (if Z.land format 65536 =? 0 then 0 else 1); nc; bc; ec; meta; skip] ix))) s with
  | Ok (r, _) => Ok r
  | Err e => Err e | Panic w => Panic w | Stuck => Stuck
  end.

(** ** CSI *)
Definition csi_magic : list Z := [67; 83; 73].
Definition cs_bin_limit (dp : Z) : Z :=
  u32 (u32 (u32 (Z.shiftl 1 (u32 (u32 (dp + 1) * csi_nextBinShift))) - 1) / 7).

Definition wr_cbin (ver : Z) (b : cbin) : list Z :=
  io_u32 (cnum b) ++ io_u64 (cleft b) ++ (if ver =? 2 then io_u64 (crecords b) else []) ++ wr_chunks (cchunks b).
Definition wr_cstats_head (ver dummy : Z) : list Z :=
  if ver =? 1 then io_u32 dummy ++ io_u32 0 ++ io_u32 0 ++ io_u32 2
  else if ver =? 2 then io_u32 dummy ++ io_u32 0 ++ io_u32 0 ++ io_u32 0 ++ io_u32 0 ++ io_u32 2
  else [].
Definition wr_cref (ver dummy : Z) (r : cref) : list Z :=
  io_u32 (zlen (cbins r) + match cstats r with Some _ => 1 | None => 0 end)
  ++ flat_map (wr_cbin ver) (cbins r)
  ++ match cstats r with Some s => wr_cstats_head ver dummy ++ wr_stats_body s | None => [] end.

Definition csi_write (ix : cindex) : list Z * cindex :=
  let ix' := cs_sort ix in
  let dummy := u32 (cs_bin_limit (c_dp ix') + 1) in
  (csi_magic ++ [u8 (c_ver ix')] ++ io_u32 (c_ms ix') ++ io_u32 (c_dp ix')
   ++ io_u32 (zlen (c_aux ix')) ++ c_aux ix'
   ++ io_u32 (zlen (c_refs ix')) ++ flat_map (wr_cref (c_ver ix') dummy) (c_refs ix')
   ++ wr_trailer (c_unm ix'),
   ix').

Fixpoint rd_cbins_loop (ver dummy : Z) (n : nat) (acc : list cbin) (st : option istats) : rd (list cbin * option istats) :=
  match n with
  | O => rd_ret (ix_isort cnum (rev acc), st)
  | S k =>
      b <- rd_u32 ;; left <- rd_u64 ;;
      recs <- (if ver =? 2 then rd_u64 else rd_ret 0) ;;
      cnt <- rd_i32 ;;
      if b =? dummy then
        (if cnt =? 2 then s <- rd_stats ;; rd_cbins_loop ver dummy k acc (Some s) else rd_fail 1)
      else cs <- rd_chunks cnt ;; rd_cbins_loop ver dummy k (mkCBin b left recs cs :: acc) st
  end.

Definition rd_cref (ver limit : Z) : rd cref :=
  n <- rd_i32 ;;
  if n =? 0 then rd_ret (mkCRef [] None) else
  if u32 n >? u32 (limit + 1) then rd_fail 1 else          (* every bin plus the statistics pseudo-bin *)
  k <- rd_count n ;; r <- rd_cbins_loop ver (u32 (limit + 1)) k [] None ;; rd_ret (mkCRef (fst r) (snd r)).

Definition csi_read (s : list Z) : outcome (option cindex) :=
  match (m <- rd_bytes 3 ;;
         if negb (io_bytes_eqb m csi_magic) then rd_fail 1 else
         v <- rd_bytes 1 ;;
         let ver := hd 0 v in
         if negb ((ver =? 1) || (ver =? 2)) then rd_fail 1 else
         ms <- rd_u32 ;; if s32 ms <? 0 then rd_fail 1 else
         dp <- rd_u32 ;; if s32 dp <? 0 then rd_fail 1 else
         if (dp >=? 32 / csi_nextBinShift) || (ms >=? 64) || (u32 (ms + u32 (dp * csi_nextBinShift)) >=? 64) then rd_fail 1 else
         na <- rd_i32 ;;
         aux <- (if na >? 0 then rd_bytes (Z.to_nat na) else rd_ret []) ;;
         let limit := cs_bin_limit dp in
         n <- rd_i32 ;;
         refs <- (if n =? 0 then rd_ret [] else k <- rd_count n ;; rd_rep k (rd_cref ver limit)) ;;
         u <- rd_trailer ;;
         rd_ret (Some (mkCsi aux ver refs u ms dp true 0))) s with
  | Ok (r, _) => Ok r
  | Err e => Err e | Panic w => Panic w | Stuck => Stuck
  end.

(** Checksum of a byte string (the correspondence run compares long outputs
    by length and checksum): Adler-style running sums without reduction,
    [s1 += b + 1; s2 += s1], reported as [s2]. *)
Definition io_hash (bs : list Z) : Z :=
  snd (fold_left (fun h b => let s1 := fst h + b + 1 in (s1, snd h + s1)) bs (0, 0)).
