(** Correspondence glue for C15: write / read / write of the three index
    kinds, compared with the implementation (bytes, structure, statistics,
    answers of the re-read index, header fields). *)
From Hts Require Import Base.Prim Generated Model.Index Model.Tabix Model.Csi Model.IndexRun Model.IndexIO.
Open Scope Z_scope.

Record iomachine (S : Type) := mkIOM {
  im_write : S -> list Z * S;
  im_read : list Z -> outcome (option S);
  im_extra : S -> list (list Z) }.        (* kind-specific header observables *)
Arguments im_write {S}. Arguments im_read {S}. Arguments im_extra {S}.

Definition bai_io : iomachine index := mkIOM index bai_write bai_read (fun _ => []).
Definition tbx_io : iomachine tbx :=
  mkIOM tbx tbx_write tbx_read
        (fun t => t_hdr t :: map (fun nm => match tb_lookup (t_map t) nm with Some i => i | None => -1 end) (t_names t)
                        :: [zlen (t_map t)] :: t_names t).
Definition csi_io : iomachine cindex :=
  mkIOM cindex csi_write csi_read (fun c => [[c_ver c; c_ms c; c_dp c]; c_aux c]).

(** Bytes as observed: exact when short, else length and checksum. *)
Record bytesobs := mkBytes { by_exact : option (list Z); by_len : Z; by_hash : Z }.
Definition bytes_agree (b : list Z) (o : bytesobs) : bool :=
  (zlen b =? by_len o) && (io_hash b =? by_hash o) &&
  match by_exact o with Some l => io_bytes_eqb b l | None => true end.

(** [io_status]: 0 an index was read, 1 error, 2 (nil, nil), 3 panic. *)
Record ioobs := mkIO {
  io_fstatus : Z;                         (* reading the foreign bytes, 0 when the case builds the index with Add *)
  io_extra1 : list (list Z);
  io_w1 : bytesobs; io_dumpw : idump;
  io_status : Z;
  io_st2 : istat; io_dump2 : idump; io_q2 : list qans; io_extra2 : list (list Z);
  io_w2eq : bool }.

Record iocase := mkIOCase { ic_case : ixcase; ic_foreign : option (list Z); ic_obs : ioobs }.

Definition status_of {A} (o : outcome (option A)) : Z :=
  match o with Ok (Some _) => 0 | Ok None => 2 | Err _ => 1 | Panic _ => 3 | Stuck => 4 end.

Section Agree.
  Context {S : Type} (m : machine S) (im : iomachine S) (init : S).

  Definition io_compare (ic : iocase) : list bool :=
    let c := ic_case ic in
    let o := ic_obs ic in
    let start := match ic_foreign ic with None => Ok (Some init) | Some b => im_read im b end in
    match start with
    | Ok (Some s0) =>
        if negb (o_full (k_obs c)) then [io_fstatus o =? 0] else
        let '(s, _, _, _) := run_hist m (Datatypes.S (length (k_hist c))) (m_sort m) (m_dump m) s0 (k_recs c) (k_hist c) (k_queries c) in
        let '(_, s1) := run_queries m s (k_queries c) in
        let '(w1, s2) := im_write im s1 in
        let r := im_read im w1 in
        [io_fstatus o =? 0;
         forallb (fun b => b) (run_compare m s0 c);
         xlist_eqb (xlist_eqb Z.eqb) (im_extra im s) (io_extra1 o);
         bytes_agree w1 (io_w1 o);
         idump_eqb (m_dump m s2) (io_dumpw o);
         status_of r =? io_status o] ++
        match r with
        | Ok (Some t) =>
            let '(a2, t1) := run_queries m t (k_queries c) in
            let '(w2, _) := im_write im t1 in
            [istat_eqb (m_stat m t) (io_st2 o); idump_eqb (m_dump m t) (io_dump2 o);
             xlist_eqb qans_eqb a2 (io_q2 o);
             xlist_eqb (xlist_eqb Z.eqb) (im_extra im t) (io_extra2 o);
             Bool.eqb (io_bytes_eqb w1 w2) (io_w2eq o)]
        | _ => []
        end
    | other => [status_of other =? io_fstatus o]
    end.
End Agree.

Definition ixio_explain (ic : iocase) : list bool :=
  match k_kind (ic_case ic) with
  | KBai => io_compare bai_machine bai_io ix_empty ic
  | KTbx names hdr => io_compare (tbx_machine names) tbx_io (tb_new hdr) ic
  | KCsi ms dp ver aux => io_compare csi_machine csi_io (cs_new ms dp ver aux) ic
  end.
Definition ixio_agree (ic : iocase) : bool := forallb (fun b => b) (ixio_explain ic).
