(** Correspondence glue for C04: runs the models of the three index kinds on a
    case (record list, queries, merge strategy) and compares the projected
    observables with what the implementation reported. *)
From Hts Require Import Base.Prim Generated Model.Index Model.Tabix Model.Csi.
Open Scope Z_scope.

(** ** Observation shapes *)
Definition qans := (Z * list chunk)%type.                       (* error class, raw chunk list *)
Definition bindump := (Z * Z * Z * list chunk)%type.            (* number, left, records, chunks *)
Definition statrow := option (Z * Z * Z * Z).                   (* span begin, span end, mapped, unmapped *)
Definition refdump := (list bindump * statrow * list (Z * Z))%type.   (* bins, stats, run-length coded tiles *)
Definition idump := (list refdump * bool * Z)%type.             (* references, IsSorted, LastRecord *)
Definition istat := (Z * list statrow * option Z)%type.         (* NumRefs, ReferenceStats, Unmapped *)

Fixpoint xlist_eqb {A} (e : A -> A -> bool) (a b : list A) : bool :=
  match a, b with
  | [], [] => true
  | x :: a', y :: b' => e x y && xlist_eqb e a' b'
  | _, _ => false
  end.
Definition xpair_eqb {A B} (ea : A -> A -> bool) (eb : B -> B -> bool) (a b : A * B) : bool :=
  ea (fst a) (fst b) && eb (snd a) (snd b).
Definition xopt_eqb {A} (e : A -> A -> bool) (a b : option A) : bool :=
  match a, b with Some x, Some y => e x y | None, None => true | _, _ => false end.

Definition chunk_eqb : chunk -> chunk -> bool := xpair_eqb Z.eqb Z.eqb.
Definition chunks_eqb := xlist_eqb chunk_eqb.
Definition qans_eqb : qans -> qans -> bool := xpair_eqb Z.eqb chunks_eqb.
Definition statrow_eqb : statrow -> statrow -> bool :=
  xopt_eqb (xpair_eqb (xpair_eqb (xpair_eqb Z.eqb Z.eqb) Z.eqb) Z.eqb).
Definition bindump_eqb : bindump -> bindump -> bool :=
  xpair_eqb (xpair_eqb (xpair_eqb Z.eqb Z.eqb) Z.eqb) chunks_eqb.
Definition refdump_eqb : refdump -> refdump -> bool :=
  xpair_eqb (xpair_eqb (xlist_eqb bindump_eqb) statrow_eqb) (xlist_eqb (xpair_eqb Z.eqb Z.eqb)).
Definition idump_eqb : idump -> idump -> bool :=
  xpair_eqb (xpair_eqb (xlist_eqb refdump_eqb) Bool.eqb) Z.eqb.
Definition istat_eqb : istat -> istat -> bool :=
  xpair_eqb (xpair_eqb Z.eqb (xlist_eqb statrow_eqb)) (xopt_eqb Z.eqb).

Fixpoint ix_rle (l : list Z) : list (Z * Z) :=
  match l with
  | [] => []
  | x :: t => match ix_rle t with
              | (y, n) :: r => if x =? y then (y, n + 1) :: r else (x, 1) :: (y, n) :: r
              | [] => [(x, 1)]
              end
  end.

Definition stat_row (s : option istats) : statrow :=
  match s with Some s => Some (sbeg s, send s, smapped s, sunmapped s) | None => None end.

(** ** A uniform face of the three models *)
Record machine (S : Type) := mkM {
  m_add : S -> irec -> outcome S;
  m_query : S -> Z -> Z -> Z -> outcome (list chunk) * S;
  m_sort : S -> S;
  m_dump : S -> idump;
  m_stat : S -> istat;
  m_merge : (list chunk -> list chunk) -> S -> S }.
Arguments m_add {S}. Arguments m_query {S}. Arguments m_sort {S}.
Arguments m_dump {S}. Arguments m_stat {S}. Arguments m_merge {S}.

Definition ix_dump (ix : index) : idump :=
  (map (fun r => (map (fun b => (bnum b, 0, 0, bchunks b)) (rbins r), stat_row (rstats r), ix_rle (rintv r))) (irefs ix),
   isorted ix, ilast ix).
Definition ix_stat (ix : index) : istat :=
  (ix_numrefs ix, map (fun r => stat_row (rstats r)) (irefs ix), iunm ix).

Definition bai_machine : machine index :=
  mkM index ix_add (fun s rid b e => ix_chunks s rid b e) ix_sort ix_dump ix_stat ix_merge.

Definition tb_rec_name (names : list tname) (rid : Z) : option tname :=
  if (rid <? 0) then None else nth_error names (Z.to_nat rid).

Definition tbx_machine (names : list tname) : machine tbx :=
  mkM tbx
      (fun s r => match tb_rec_name names (q_rid r) with
                  | Some nm => tb_add s nm r
                  | None => Stuck
                  end)
      (fun s rid b e => match tb_rec_name names rid with
                        | Some nm => tb_chunks s nm b e
                        | None => (Err 1, s)     (* a name that was never added *)
                        end)
      (fun s => mkTbx (t_names s) (t_map s) (t_hdr s) (ix_sort (t_idx s)))
      (fun s => ix_dump (t_idx s))
      (fun s => ix_stat (t_idx s))
      tb_merge.

Definition cs_dump (ix : cindex) : idump :=
  (map (fun r => (map (fun b => (cnum b, cleft b, crecords b, cchunks b)) (cbins r), stat_row (cstats r), [])) (c_refs ix),
   c_sorted ix, c_last ix).
Definition cs_stat (ix : cindex) : istat :=
  (zlen (c_refs ix), map (fun r => stat_row (cstats r)) (c_refs ix), c_unm ix).

Definition csi_machine : machine cindex :=
  mkM cindex cs_add (fun s rid b e => let '(l, s') := cs_chunks s rid b e in (Ok l, s')) cs_sort cs_dump cs_stat cs_merge.

(** ** Running a case *)
Section Run.
  Context {S : Type} (m : machine S).

  Fixpoint run_adds (s : S) (rs : list irec) : S * list Z * bool :=
    match rs with
    | [] => (s, [], false)
    | r :: t =>
        match m_add m s r with
        | Ok s' => let '(f, codes, p) := run_adds s' t in (f, 0 :: codes, p)
        | Err e => (s, [e], false)
        | _ => (s, [], true)
        end
    end.

  Definition ans_of (o : outcome (list chunk)) : qans :=
    match o with Ok l => (0, l) | Err e => (e, []) | Panic _ => (-1, []) | Stuck => (-2, []) end.

  Fixpoint run_queries (s : S) (qs : list (Z * Z * Z)) : list qans * S :=
    match qs with
    | [] => ([], s)
    | (rid, b, e) :: t =>
        let '(a, s') := m_query m s rid b e in
        let '(r, s'') := run_queries s' t in
        (ans_of a :: r, s'')
    end.
  (** Interleaved history: records are added segment by segment; after each
      segment but the last the index built so far is queried (action bit 1)
      and/or written, which sorts it (bit 2), and its structure is observed;
      then adding carries on.  Everything stops at the first failing Add. *)
  Definition all_zero (codes : list Z) : bool := forallb (fun c => c =? 0) codes.

  Fixpoint run_hist (fuel : nat) (sortf : S -> S) (dumpf : S -> idump) (s : S) (rs : list irec)
           (hist : list (Z * Z)) (qs : list (Z * Z * Z))
    : S * list Z * bool * list (idump * list qans) :=
    match fuel, hist with
    | Datatypes.S f, (n, act) :: (_ :: _) as rest =>
        let k := Z.to_nat n in
        let seg := firstn k rs in
        let rs' := skipn k rs in
        match rs' with
        | [] => let '(s1, codes, p) := run_adds s rs in (s1, codes, p, [])
        | _ =>
            let '(s1, codes, p) := run_adds s seg in
            if p || negb (all_zero codes) then (s1, codes, p, [])
            else if n <=? 0 then run_hist f sortf dumpf s1 rs' (tl hist) qs
            else
              let '(ans, s2) := if Z.odd act then run_queries s1 qs else ([], s1) in
              let s3 := if Z.land act 2 =? 0 then s2 else sortf s2 in
              let '(s4, codes', p', mids) := run_hist f sortf dumpf s3 rs' (tl hist) qs in
              (s4, codes ++ codes', p', (dumpf s3, ans) :: mids)
        end
    | _, _ => let '(s1, codes, p) := run_adds s rs in (s1, codes, p, [])
    end.
End Run.

Inductive ixstrat := SNil | SIdentity | SAdjacent | SSquash | SComp (near : Z).
Definition strat_fn (s : ixstrat) : option (list chunk -> list chunk) :=
  match s with
  | SNil => None
  | SIdentity => Some (fun l => l)
  | SAdjacent => Some ix_adjacent
  | SSquash => Some ix_squash
  | SComp n => Some (ix_compressor n)
  end.

Inductive ixkind :=
| KBai
| KTbx (names : list tname) (hdr : list Z)
| KCsi (ms dp ver : Z) (aux : list Z).

(** What the implementation reported for the C04 part of a case.  [o_full] is
    false when an Add failed (only the outcome codes are compared then). *)
Record ixobs := mkObs {
  o_codes : list Z; o_panic : bool; o_full : bool;
  o_dump : idump; o_stat : istat; o_q1 : list qans;
  o_dump3 : idump; o_q3 : list qans;
  o_p1 : list (list chunk); o_p3 : list (list chunk);
  o_mid : list (idump * list qans) }.                     (* structure and answers at the boundaries of the history *)   (* what the public Chunks returned (Adjacent applied) *)

Record ixcase := mkCase {
  k_kind : ixkind; k_recs : list irec; k_queries : list (Z * Z * Z); k_strat : ixstrat;
  k_hist : list (Z * Z);   (* interleaved history: (records in the segment, action after it) *)
  k_qstrat : ixstrat;      (* bam.Index.MergeStrategy, applied by the public Chunks (nil = Adjacent) *)
  k_obs : ixobs }.

Section Agree.
  Context {S : Type} (m : machine S) (init : S).

  (** The comparisons, in order: Add outcomes, structure after Add, statistics,
      answers, structure after MergeChunks, answers after it, and the public
      answers (index.Adjacent applied to the raw list) before and after the merge. *)
  Definition run_compare (c : ixcase) : list bool :=
    let o := k_obs c in
    let '(s, codes, p, mids) := run_hist m (Datatypes.S (length (k_hist c))) (m_sort m) (m_dump m) init (k_recs c) (k_hist c) (k_queries c) in
    let c1 := xlist_eqb Z.eqb codes (o_codes o) && Bool.eqb p (o_panic o) in
    if negb (o_full o) then [c1] else
    let '(a1, s1) := run_queries m s (k_queries c) in
    let s2 := m_sort m s1 in                         (* WriteIndex sorts *)
    let s3 := match strat_fn (k_strat c) with Some f => m_merge m f s2 | None => s2 end in
    let '(a3, _) := run_queries m s3 (k_queries c) in
    let pub := match strat_fn (k_qstrat c) with Some f => f | None => ix_adjacent end in
    [c1; idump_eqb (m_dump m s) (o_dump o); istat_eqb (m_stat m s) (o_stat o);
     xlist_eqb qans_eqb a1 (o_q1 o); idump_eqb (m_dump m s3) (o_dump3 o); xlist_eqb qans_eqb a3 (o_q3 o);
     xlist_eqb chunks_eqb (map (fun a => pub (snd a)) a1) (o_p1 o);
     xlist_eqb chunks_eqb (map (fun a => pub (snd a)) a3) (o_p3 o);
     xlist_eqb (xpair_eqb idump_eqb (xlist_eqb qans_eqb)) mids (o_mid o)].
End Agree.

Definition ix_explain (c : ixcase) : list bool :=
  match k_kind c with
  | KBai => run_compare bai_machine ix_empty c
  | KTbx names hdr => run_compare (tbx_machine names) (tb_new hdr) c
  | KCsi ms dp ver aux => run_compare csi_machine (cs_new ms dp ver aux) c
  end.

Definition ix_agree (c : ixcase) : bool := forallb (fun b => b) (ix_explain c).
