(** Specification side of C04/C15: what it means for a record list to be a
    coordinate-sorted, in-range list with a monotone chunk layout; overlap;
    coverage; the true statistics.  Written from the property statements, not
    from the code. *)
From Hts Require Import Base.Prim Generated Model.Index.
Open Scope Z_scope.

(** Record [r] is placed on reference [rid] and its interval [start, end) meets [beg, end_). *)
Definition ix_overlaps (r : irec) (rid beg end_ : Z) : Prop :=
  q_placed r = true /\ q_rid r = rid /\ q_start r < end_ /\ beg < q_end r.

(** Some chunk of [cs] contains the whole file chunk of [r] (so reading that chunk yields the record). *)
Definition ix_covers (cs : list chunk) (r : irec) : Prop :=
  exists c, In c cs /\ fst c <= q_cb r /\ q_ce r <= snd c.

(** Coordinate-sorted, in-range, monotone layout, and nothing else.  [limit] is
    the largest indexable position; the end of a record is exclusive, so it
    may be [limit + 1].  The three accumulators are the reference id, start and
    chunk end of the last placed record.  Unplaced records may appear anywhere;
    they only have to pass Add's range test (bam: Pos = -1, End = 0). *)
Fixpoint ix_wf_from (limit lrid lstart lend : Z) (rs : list irec) : Prop :=
  match rs with
  | [] => True
  | r :: t =>
      if q_placed r then
        0 <= q_rid r /\ lrid <= q_rid r /\ (q_rid r = lrid -> lstart <= q_start r) /\
        0 <= q_start r < q_end r /\ q_end r <= limit + 1 /\
        lend <= q_cb r < q_ce r /\
        ix_wf_from limit (q_rid r) (q_start r) (q_ce r) t
      else
        -1 <= q_start r <= limit /\ 0 <= q_end r <= limit + 1 /\ ix_wf_from limit lrid lstart lend t
  end.

(** Largest coordinate [IsValidIndexPos] accepts: [2^29 - 2]. *)
Definition ix_bai_limit : Z := 2 ^ internal_indexWordBits - 2.
Definition ix_wf (rs : list irec) : Prop := ix_wf_from ix_bai_limit (-1) 0 0 rs.

(** The caller passes the bin of the record's interval ([sam.Record.Bin], [tabix.Add]). *)
Definition ix_bins_ok (rs : list irec) : Prop :=
  Forall (fun r => q_placed r = true -> internal_BinFor (q_start r) (q_end r) = Ok (q_bin r)) rs.

(** A chunk list sorted by begin offset. *)
Fixpoint ix_sorted_begin (cs : list chunk) : Prop :=
  match cs with
  | [] => True
  | c :: t => (forall d, In d t -> fst c <= fst d) /\ ix_sorted_begin t
  end.

(** What C04 needs from a merge strategy (C17): on a list sorted by begin
    offset every input chunk lies inside one output chunk. *)
Definition ix_strategy_covers (s : list chunk -> list chunk) : Prop :=
  forall cs c, ix_sorted_begin cs -> In c cs ->
    exists c', In c' (s cs) /\ fst c' <= fst c /\ snd c <= snd c'.

(** ** True statistics (C15), by counting over the record list. *)
Definition ix_true_unplaced (rs : list irec) : Z :=
  zlen (filter (fun r => negb (q_placed r)) rs).
Definition ix_on (rid : Z) (rs : list irec) : list irec :=
  filter (fun r => q_placed r && (q_rid r =? rid)) rs.
Definition ix_true_mapped (rid : Z) (rs : list irec) : Z := zlen (filter q_mapped (ix_on rid rs)).
Definition ix_true_unmapped (rid : Z) (rs : list irec) : Z := zlen (filter (fun r => negb (q_mapped r)) (ix_on rid rs)).
Definition ix_true_numrefs (rs : list irec) : Z :=
  fold_left (fun m r => if q_placed r then Z.max m (q_rid r + 1) else m) rs 0.
(** Span: begin of the first and end of the last record of the reference. *)
Definition ix_true_span (rid : Z) (rs : list irec) : option (Z * Z) :=
  match ix_on rid rs with
  | [] => None
  | r :: t => Some (q_cb r, q_ce (last t r))
  end.
Definition ix_true_stats (rid : Z) (rs : list irec) : option istats :=
  match ix_true_span rid rs with
  | None => None
  | Some (b, e) => Some (mkStats b e (ix_true_mapped rid rs) (ix_true_unmapped rid rs))
  end.

(** ** Premises supplied by other properties *)

(** C16 ([bai_bin_in_bins]): the bin of an interval is among the bins
    enumerated for any overlapping interval, inside the indexable range. *)
Definition bai_bin_containment : Prop :=
  forall b1 e1 b2 e2 bn,
    0 <= b1 < e1 -> e1 <= 2 ^ 29 -> 0 <= b2 < e2 -> e2 <= 2 ^ 29 -> b1 < e2 -> b2 < e1 ->
    internal_BinFor b1 e1 = Ok bn -> In bn (ix_overlapping_bins b2 e2).
