(** Correspondence glue for C20: compares observations of the implementation
    with the generated Gallina translation of the same Go functions and with
    the specification codec. *)
From Hts Require Import Base.Prim Generated Model.Itf8Spec.
Open Scope Z_scope.

Fixpoint zlist_eqb (a b : list Z) : bool :=
  match a, b with
  | [], [] => true
  | x :: a', y :: b' => (x =? y) && zlist_eqb a' b'
  | _, _ => false
  end.

Inductive c20case :=
| EncI (v : Z) (buf : list Z) (pan : bool) (n : Z) (out : list Z) (len : Z)
| DecI (b : list Z) (v n : Z) (ok : bool)
| EncL (v : Z) (buf : list Z) (pan : bool) (n : Z) (out : list Z) (len : Z)
| DecL (b : list Z) (v n : Z) (ok : bool).

Definition enc_agree (r : outcome (Z * list Z)) (l : outcome Z) (pan : bool) (n : Z) (out : list Z) (len : Z) : bool :=
  match r with
  | Ok (n', out') => negb pan && (n =? n') && zlist_eqb out out'
                     && match l with Ok l' => len =? l' | _ => false end
  | Panic _ => pan
  | _ => false
  end.

Definition dec_agree (r : outcome (Z * Z * bool)) (v n : Z) (ok : bool) : bool :=
  match r with
  | Ok (v', n', ok') => (v =? v') && (n =? n') && Bool.eqb ok ok'
  | _ => false
  end.

Definition c20_agree (c : c20case) : bool :=
  match c with
  | EncI v buf pan n out len => enc_agree (itf8_Encode buf v) (itf8_Len v) pan n out len
  | DecI b v n ok => dec_agree (itf8_Decode b) v n ok
                     && (let '(v', n', ok') := itf8_spec_decode b in (v =? v') && (n =? n') && Bool.eqb ok ok')
  | EncL v buf pan n out len => enc_agree (ltf8_Encode buf v) (ltf8_Len v) pan n out len
  | DecL b v n ok => dec_agree (ltf8_Decode b) v n ok
                     && (let '(v', n', ok') := ltf8_spec_decode b in (v =? v') && (n =? n') && Bool.eqb ok ok')
  end.
