(** Correspondence glue for C20: compares observations of the implementation
    with the generated Gallina translation of the same Go functions and with
    the specification codec. *)
From Hts Require Import Base.Prim Generated Model.Itf8Spec Model.CramStream.
Open Scope Z_scope.

Fixpoint zlist_eqb (a b : list Z) : bool :=
  match a, b with
  | [], [] => true
  | x :: a', y :: b' => (x =? y) && zlist_eqb a' b'
  | _, _ => false
  end.

Inductive c20case :=
| EncI (v : Z) (buf : list Z) (pan : bool) (n : Z) (out : list Z) (len : Z)
| DecI (b : list Z) (v n : Z) (ok : bool)
| EncL (v : Z) (buf : list Z) (pan : bool) (n : Z) (out : list Z) (len : Z)
| DecL (b : list Z) (v n : Z) (ok : bool)
(** Decode panicked in the implementation ([ltf] = the LTF-8 one) *)
| DecPanic (ltf : bool) (b : list Z)
(** a script of errorReader calls over [input] whose source ends with error
    class [tail]; [pan]: the implementation panicked; [steps]: per call the
    values returned, the class of r.err and the bytes consumed so far *)
| Strm (input : list Z) (tail : Z) (ops : list Z) (pan : bool) (steps : list (list Z * Z * Z)).

Definition enc_agree (r : outcome (Z * list Z)) (l : outcome Z) (pan : bool) (n : Z) (out : list Z) (len : Z) : bool :=
  match r with
  | Ok (n', out') => negb pan && (n =? n') && zlist_eqb out out'
                     && match l with Ok l' => len =? l' | _ => false end
  | Panic _ => pan
  | _ => false
  end.

Definition dec_agree (r : outcome (Z * Z * bool)) (v n : Z) (ok : bool) : bool :=
  match r with
  | Ok (v', n', ok') => (v =? v') && (n =? n') && Bool.eqb ok ok'
  | _ => false
  end.

Fixpoint steps_eqb (a b : list (list Z * Z * Z)) : bool :=
  match a, b with
  | [], [] => true
  | (v, e, k) :: a', (v', e', k') :: b' => zlist_eqb v v' && (e =? e') && (k =? k') && steps_eqb a' b'
  | _, _ => false
  end.

Definition strm_agree (r : outcome (list (list Z * Z * Z))) (pan : bool) (steps : list (list Z * Z * Z)) : bool :=
  match r with
  | Ok st => negb pan && steps_eqb steps st
  | Panic _ => pan
  | _ => false
  end.

Definition c20_agree (c : c20case) : bool :=
  match c with
  | EncI v buf pan n out len => enc_agree (itf8_Encode buf v) (itf8_Len v) pan n out len
                                && (pan || zlist_eqb (itf8_canon (firstn (Z.to_nat n) out)) (itf8_spec_encode v))
  | DecI b v n ok => dec_agree (itf8_Decode b) v n ok
                     && (let '(v', n', ok') := itf8_spec_decode b in (v =? v') && (n =? n') && Bool.eqb ok ok')
  | EncL v buf pan n out len => enc_agree (ltf8_Encode buf v) (ltf8_Len v) pan n out len
                                && (pan || zlist_eqb (firstn (Z.to_nat n) out) (ltf8_spec_encode v))
  | DecL b v n ok => dec_agree (ltf8_Decode b) v n ok
                     && (let '(v', n', ok') := ltf8_spec_decode b in (v =? v') && (n =? n') && Bool.eqb ok ok')
  | DecPanic ltf b => if ltf then is_panic (ltf8_Decode b) else is_panic (itf8_Decode b)
  | Strm input tail ops pan steps => strm_agree (er_run ops (mkER input tail 0) (zlen input)) pan steps
  end.
