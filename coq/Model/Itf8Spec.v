(** ITF-8 and LTF-8 as the CRAM specification (section 2.3) defines them,
    written with div/mod only and independently of the Go code. *)
From Hts Require Import Base.Prim.
Open Scope Z_scope.

(** Number of bytes: from the magnitude class of the unsigned value. *)
Definition itf8_spec_len (u : Z) : Z :=
  if u <? 2^7 then 1 else if u <? 2^14 then 2 else if u <? 2^21 then 3
  else if u <? 2^28 then 4 else 5.

(** Big-endian payload bytes of [u]: [k] bytes below the prefix byte. *)
Fixpoint be_bytes (k : nat) (u : Z) : list Z :=
  match k with
  | O => []
  | S k' => (u / 2 ^ (8 * Z.of_nat k')) mod 256 :: be_bytes k' u
  end.

(** The 5-byte form stores bits 31..28 in the low nibble of the first byte,
    bits 27..4 in three bytes and bits 3..0 in the low nibble of the last
    byte (whose high nibble is not significant). *)
Definition itf8_spec_encode (v : Z) : list Z :=
  let u := v mod 2^32 in
  match itf8_spec_len u with
  | 1 => [u]
  | 2 => (128 + u / 2^8) :: be_bytes 1 u
  | 3 => (192 + u / 2^16) :: be_bytes 2 u
  | 4 => (224 + u / 2^24) :: be_bytes 3 u
  | _ => [240 + u / 2^28; (u / 2^20) mod 256; (u / 2^12) mod 256; (u / 2^4) mod 256; u mod 16]
  end.

(** Only the low nibble of the fifth byte is significant. *)
Definition itf8_canon (bs : list Z) : list Z :=
  match bs with
  | [b0; b1; b2; b3; b4] => [b0; b1; b2; b3; b4 mod 16]
  | _ => bs
  end.

(** Announced length: number of leading one bits of the first byte's high nibble, plus one. *)
Definition itf8_spec_n (b0 : Z) : Z :=
  if b0 <? 128 then 1 else if b0 <? 192 then 2 else if b0 <? 224 then 3
  else if b0 <? 240 then 4 else 5.

Definition itf8_spec_value (bs : list Z) : Z :=
  match bs with
  | [b0] => b0
  | [b0; b1] => (b0 mod 64) * 2^8 + b1
  | [b0; b1; b2] => (b0 mod 32) * 2^16 + b1 * 2^8 + b2
  | [b0; b1; b2; b3] => (b0 mod 16) * 2^24 + b1 * 2^16 + b2 * 2^8 + b3
  | [b0; b1; b2; b3; b4] => (b0 mod 16) * 2^28 + b1 * 2^20 + b2 * 2^12 + b3 * 2^4 + b4 mod 16
  | _ => 0
  end.

(** Decoder: value as int32, announced length, success. *)
Definition itf8_spec_decode (bs : list Z) : Z * Z * bool :=
  match bs with
  | [] => (0, 0, false)
  | b0 :: _ =>
    let n := itf8_spec_n b0 in
    if zlen bs <? n then (0, n, false)
    else (s32 (itf8_spec_value (firstn (Z.to_nat n) bs)), n, true)
  end.

(** LTF-8: nine forms; prefix of k-1 one bits (k = number of bytes), 8 and 9
    byte forms have a full prefix byte 0xfe / 0xff. *)
Definition ltf8_spec_len (u : Z) : Z :=
  if u <? 2^7 then 1 else if u <? 2^14 then 2 else if u <? 2^21 then 3
  else if u <? 2^28 then 4 else if u <? 2^35 then 5 else if u <? 2^42 then 6
  else if u <? 2^49 then 7 else if u <? 2^56 then 8 else 9.

Definition ltf8_prefix (n : Z) : Z :=
  match n with
  | 1 => 0 | 2 => 128 | 3 => 192 | 4 => 224 | 5 => 240 | 6 => 248 | 7 => 252 | 8 => 254 | _ => 255
  end.

Definition ltf8_spec_encode (v : Z) : list Z :=
  let u := v mod 2^64 in
  let n := ltf8_spec_len u in
  let k := Z.to_nat (n - 1) in
  (ltf8_prefix n + (if n <? 9 then u / 2 ^ (8 * (n - 1)) else 0)) :: be_bytes k u.

Definition ltf8_spec_n (b0 : Z) : Z :=
  if b0 <? 128 then 1 else if b0 <? 192 then 2 else if b0 <? 224 then 3
  else if b0 <? 240 then 4 else if b0 <? 248 then 5 else if b0 <? 252 then 6
  else if b0 <? 254 then 7 else if b0 <? 255 then 8 else 9.

Fixpoint be_value (bs : list Z) (acc : Z) : Z :=
  match bs with
  | [] => acc
  | b :: t => be_value t (acc * 256 + b)
  end.

Definition ltf8_spec_decode (bs : list Z) : Z * Z * bool :=
  match bs with
  | [] => (0, 0, false)
  | b0 :: _ =>
    let n := ltf8_spec_n b0 in
    if zlen bs <? n then (0, n, false)
    else
      let hi := if n <? 8 then b0 mod 2 ^ (8 - n) else 0 in
      (s64 (be_value (firstn (Z.to_nat (n - 1)) (tl bs)) hi), n, true)
  end.
