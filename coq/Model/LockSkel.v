(** C14 — abstract execution of the generated lock skeletons
    ([lev], [c14_*_locks] in Generated.v) against one non-reentrant RW mutex.
    Executable definitions only.

    A skeleton is run along every path (both arms of every [LIf], zero or one
    more iteration of every [LLoop], early returns). A path fails when it
      1  acquires the mutex while it already holds it (sync.RWMutex is not
         reentrant: Lock under Lock/RLock and RLock under Lock block forever;
         RLock under RLock blocks as soon as a writer is waiting),
      2  unlocks what it does not hold,
      3  reads shared state (table, list links and nodes - also through
         local aliases of type *node -, cap, stats, the wrapped cache)
         while holding nothing,
      4  writes shared state without the write lock,
      5  opens a second critical section,
      6  changes the lock state inside a loop body. *)
From Coq Require Import ZArith List Bool.
From Hts Require Import Base.Prim Generated.
Import ListNotations.
Open Scope Z_scope.

Inductive held := HFree | HW | HR.
Definition held_eqb (a b : held) : bool :=
  match a, b with HFree, HFree | HW, HW | HR, HR => true | _, _ => false end.

(** [accs]: every access met so far on the path: field, write?, lock state. *)
Definition access : Type := fld * bool * held.
Record ctx := mkctx { hd : held; defers : list lev; sections : nat; accs : list access }.
Definition ctx0 := mkctx HFree [] 0 [].
Definition ctxW := mkctx HW [] 1 [].     (* called with the write lock held *)

Inductive pres := PFail (why : Z) | PCont (c : ctx) | PRet (c : ctx).

Definition acquire (m : held) (c : ctx) : pres :=
  match hd c with
  | HFree => match sections c with
             | O => PCont (mkctx m (defers c) 1 (accs c))
             | _ => PFail 5
             end
  | _ => PFail 1
  end.
Definition release (m : held) (c : ctx) : pres :=
  if held_eqb (hd c) m then PCont (mkctx HFree (defers c) (sections c) (accs c)) else PFail 2.

Fixpoint run_defers (ds : list lev) (c : ctx) : pres :=
  match ds with
  | [] => PRet (mkctx (hd c) [] (sections c) (accs c))
  | d :: r =>
      match (match d with LDeferWUnlock => release HW c | LDeferRUnlock => release HR c | _ => PFail 2 end) with
      | PCont c' => run_defers r c'
      | x => x
      end
  end.

Definition bindp (ps : list pres) (f : ctx -> list pres) : list pres :=
  flat_map (fun p => match p with PCont c => f c | x => [x] end) ps.

(** the callee's paths seen from the caller: a return ends the callee only *)
Definition callee_done (caller_defers : list lev) (p : pres) : pres :=
  match p with
  | PCont c => match run_defers (defers c) c with
               | PRet c' => PCont (mkctx (hd c') caller_defers (sections c') (accs c'))
               | x => x
               end
  | PRet c => PCont (mkctx (hd c) caller_defers (sections c) (accs c))
  | x => x
  end.

Fixpoint run_ev (e : lev) (c : ctx) {struct e} : list pres :=
  let fix run_list (l : list lev) (c : ctx) {struct l} : list pres :=
    match l with
    | [] => [PCont c]
    | e :: r => bindp (run_ev e c) (run_list r)
    end in
  match e with
  | LWLock => [acquire HW c]
  | LRLock => [acquire HR c]
  | LWUnlock => [release HW c]
  | LRUnlock => [release HR c]
  | LDeferWUnlock | LDeferRUnlock => [PCont (mkctx (hd c) (e :: defers c) (sections c) (accs c))]
  | LRead f => [match hd c with HFree => PFail 3
                            | h => PCont (mkctx h (defers c) (sections c) (accs c ++ [(f, false, h)])) end]
  | LWrite f => [match hd c with HW => PCont (mkctx HW (defers c) (sections c) (accs c ++ [(f, true, HW)]))
                             | _ => PFail 4 end]
  | LOuter => [PCont c]
  | LRet => [run_defers (defers c) c]
  | LCall body => map (callee_done (defers c)) (run_list body (mkctx (hd c) [] (sections c) (accs c)))
  | LIf thn els => run_list thn c ++ run_list els c
  | LLoop cond body =>
      bindp (run_list cond c) (fun c1 =>
        PCont c1 ::
        map (fun p => match p with
                      | PCont c2 => if held_eqb (hd c2) (hd c1) && (length (defers c2) =? length (defers c1))%nat
                                    then PCont c2 else PFail 6
                      | x => x end)
            (run_list body c1))
  end.

Fixpoint run_list (l : list lev) (c : ctx) : list pres :=
  match l with
  | [] => [PCont c]
  | e :: r => bindp (run_ev e c) (run_list r)
  end.

(** all paths of a method body, falling off the end being a return *)
Definition paths (l : list lev) (c : ctx) : list pres :=
  map (fun p => match p with PCont c => run_defers (defers c) c | x => x end) (run_list l c).

Definition fails_with (n : Z) (p : pres) : bool :=
  match p with PFail k => k =? n | _ => false end.

(** no path of the method acquires the mutex it holds *)
Definition sk_no_reacquire (l : list lev) : bool :=
  negb (existsb (fails_with 1) (paths l ctx0)).

(** every path: one critical section, every access to the receiver inside it
    (writes under the write lock), mutex free at the return *)
Definition sk_one_section (l : list lev) : bool :=
  forallb (fun p => match p with
                    | PRet c => held_eqb (hd c) HFree && (sections c =? 1)%nat
                    | _ => false end) (paths l ctx0).

(** a helper that is called with the write lock held takes the mutex again *)
Definition relocks_under_w (l : list lev) : bool :=
  existsb (fails_with 1) (paths l ctxW).

Definition lru_relock : bool := relocks_under_w c14_LRU_drop_locks.
Definition fifo_relock : bool := relocks_under_w c14_FIFO_drop_locks.
Definition random_relock : bool := relocks_under_w c14_Random_drop_locks.

(** * What is accessed, and under which lock *)
Definition fld_eqb (a b : fld) : bool :=
  match a, b with
  | FTable, FTable | FList, FList | FNode, FNode | FCap, FCap | FStats, FStats | FInner, FInner => true
  | _, _ => false
  end.

(** an access is inside the critical section: under the write lock, or a
    read under the read lock *)
Definition access_inside (a : access) : bool :=
  let '(_, w, h) := a in
  match h with HW => true | HR => negb w | HFree => false end.

(** every path of the method returns, and every access to shared state on it
    (also through aliases, also inside inlined callees and helpers) is inside *)
Definition sk_accesses_inside (l : list lev) : bool :=
  forallb (fun p => match p with
                    | PRet c => forallb access_inside (accs c)
                    | _ => false end) (paths l ctx0).

Definition sk_all_accesses (l : list lev) : list access :=
  flat_map (fun p => match p with PRet c | PCont c => accs c | PFail _ => [] end) (paths l ctx0).

(** the method touches shared state at all, only reads it, only under R / W *)
Definition sk_is_reader (l : list lev) : bool :=
  forallb (fun a => let '(_, w, h) := a in negb w && held_eqb h HR) (sk_all_accesses l)
  && negb (match sk_all_accesses l with [] => true | _ => false end).
Definition sk_is_writer (l : list lev) : bool :=
  forallb (fun a => let '(_, _, h) := a in held_eqb h HW) (sk_all_accesses l)
  && negb (match sk_all_accesses l with [] => true | _ => false end).

Definition sk_fields_in (allowed : list fld) (l : list lev) : bool :=
  forallb (fun a => let '(f, _, _) := a in existsb (fld_eqb f) allowed) (sk_all_accesses l).
