(** C18 — model of bam/merger.go (Merger), sam.LessByName / LessByCoordinate
    and container/heap.  Executable definitions only; proofs are in
    Proofs/Merger.v and Proofs/MergerHeap.v.

    What is modelled and how:
    - a [bam.Reader] is a stream: the records it will still deliver, then
      io.EOF for ever ([i_fail = false]) or an error for ever ([i_fail = true]);
      on every failure it returns (nil, err) (bam/reader.go);
    - a [sam.Record] is the tuple of the fields the merger and the comparison
      functions look at; [r_ref]/[r_mref] is the ID of the linked reference in
      the header the record is linked to, [-1] for a nil reference;
    - [sam.MergeHeaders] is abstracted to the renumbering it returns
      ([links]: per input, source reference id -> merged reference id; [None]
      for a single input, as the Go code returns nil reflinks);
    - [container/heap] is a parameter of the merge functions (three operations
      on the slice [m.readers]); [GoHeap] transcribes the library;
    - every nil dereference and index expression of merger.go is a checked
      operation with outcome [Panic]. *)
From Coq Require Import ZArith List Bool Arith.
From Hts Require Import Base.Prim.
Import ListNotations.
Open Scope Z_scope.

(** * Strings: byte lists under Go's [<] *)
Fixpoint str_ltb (a b : list Z) : bool :=
  match a, b with
  | _, [] => false
  | [], _ :: _ => true
  | x :: a', y :: b' => if x <? y then true else if y <? x then false else str_ltb a' b'
  end.

Fixpoint str_eqb (a b : list Z) : bool :=
  match a, b with
  | [], [] => true
  | x :: a', y :: b' => (x =? y) && str_eqb a' b'
  | _, _ => false
  end.

(** * Records *)
Record rec := mkRec {
  r_uid : Z;            (* identity of the record object (TempLen in the harness) *)
  r_name : list Z;      (* Name *)
  r_ref : Z;            (* Ref.ID(), -1 when Ref == nil *)
  r_pos : Z;            (* Pos *)
  r_mref : Z;           (* MateRef.ID(), -1 when MateRef == nil *)
  r_key : Z             (* MapQ, used by one of the custom less functions *)
}.

(** sam/record.go: LessByName *)
Definition less_by_name (r other : rec) : bool := str_ltb (r_name r) (r_name other).

(** sam/record.go: LessByCoordinate (reference ids of one header, then
    position; no reference last) *)
Definition less_by_coordinate (r other : rec) : bool :=
  let rRefID := r_ref r in
  let oRefID := r_ref other in
  if oRefID <? 0 then true
  else if rRefID <? 0 then false
  else (rRefID <? oRefID) || ((rRefID =? oRefID) && (r_pos r <? r_pos other)).

(** The custom less functions the harness passes for sam.UnknownOrder. *)
Definition custom_less (code : Z) : option (rec -> rec -> bool) :=
  if code =? 1 then Some (fun a b => r_pos a <? r_pos b)
  else if code =? 2 then Some (fun a b => r_pos b <? r_pos a)
  else if code =? 3 then Some (fun a b => r_key a <? r_key b)
  else if code =? 4 then Some (fun a b => r_pos a <=? r_pos b)
  else if code =? 5 then Some (fun _ _ => false)
  else None.

(** * Inputs and reader objects *)
Record input := mkInput {
  i_refs : list (list Z * Z);   (* header references: name, length *)
  i_so : Z;                     (* header sort order: 0 unknown 1 unsorted 2 queryname 3 coordinate *)
  i_recs : list rec;            (* records delivered before the end *)
  i_fail : bool;                (* the end is an error, not io.EOF *)
  i_go : Z                      (* header group order: 0 unspecified 1 none 2 query 3 reference *)
}.

(** merger.go: type reader struct { id; r; head; err } — [d_rest]/[d_fail] is
    the state of the underlying bam.Reader. [d_err]: 0 nil, 1 io.EOF, 2 other. *)
Record rdr := mkRdr {
  d_id : Z;
  d_rest : list rec;
  d_fail : bool;
  d_head : option rec;
  d_err : Z
}.

Definition rdr0 : rdr := mkRdr 0 [] false None 0.

Inductive rres := RRec (r : rec) | REOF | RFail.

(** bam.Reader.Read *)
Definition sread (rest : list rec) (fail : bool) : rres * list rec :=
  match rest with
  | r :: t => (RRec r, t)
  | [] => (if fail then RFail else REOF, [])
  end.

(** * Reference re-linking *)
Definition link_of (ls : list (list Z)) (id j : Z) : outcome Z :=
  match nth_error ls (Z.to_nat id) with
  | None => Panic 1
  | Some l => match nth_error l (Z.to_nat j) with None => Panic 1 | Some x => Ok x end
  end.

(** merger.go: reassignReference *)
Definition reassign (links : option (list (list Z))) (id : Z) (r : rec) : outcome rec :=
  match links with
  | None => Ok r
  | Some ls =>
    obind (if r_ref r <? 0 then Ok (r_ref r) else link_of ls id (r_ref r)) (fun ref' =>
    obind (if r_mref r <? 0 then Ok (r_mref r) else link_of ls id (r_mref r)) (fun mref' =>
    Ok (mkRec (r_uid r) (r_name r) ref' (r_pos r) mref' (r_key r))))
  end.

(** * container/heap, transcribed (heap.go: Init, Push, Pop, up, down) over a
    slice with a comparison that may panic. *)
Section GoHeap.
  Context {A : Type} (d : A) (cmp : A -> A -> outcome bool).

  Definition hswap (l : list A) (i j : nat) : list A :=
    upd_nat (upd_nat l i (nth j l d)) j (nth i l d).
  Definition hless (l : list A) (i j : nat) : outcome bool := cmp (nth i l d) (nth j l d).

  Fixpoint down (fuel : nat) (l : list A) (i n : nat) : outcome (list A) :=
    match fuel with
    | O => Stuck
    | S f =>
      let j1 := (2 * i + 1)%nat in
      if (n <=? j1)%nat then Ok l else
      let j2 := (j1 + 1)%nat in
      obind (if (j2 <? n)%nat then hless l j2 j1 else Ok false) (fun b =>
      let j := if b then j2 else j1 in
      obind (hless l j i) (fun c =>
      if c then down f (hswap l i j) j n else Ok l))
    end.

  Fixpoint up (fuel : nat) (l : list A) (j : nat) : outcome (list A) :=
    match fuel with
    | O => Stuck
    | S f =>
      let i := ((j - 1) / 2)%nat in
      if (i =? j)%nat then Ok l else
      obind (hless l j i) (fun c =>
      if c then up f (hswap l i j) i else Ok l)
    end.

  Fixpoint init_from (cnt : nat) (l : list A) (n : nat) : outcome (list A) :=
    match cnt with
    | O => Ok l
    | S c => obind (down (S n) l c n) (fun l' => init_from c l' n)
    end.

  Definition hinit (l : list A) : outcome (list A) :=
    let n := length l in init_from (n / 2)%nat l n.

  Definition hpush (l : list A) (x : A) : outcome (list A) :=
    let l' := l ++ [x] in up (S (length l')) l' (length l' - 1)%nat.

  Definition hpop (l : list A) : outcome (A * list A) :=
    match l with
    | [] => Panic 1
    | _ =>
      let n := (length l - 1)%nat in
      obind (down (S (S n)) (hswap l 0 n) 0 n) (fun l' => Ok (nth n l' d, firstn n l'))
    end.
End GoHeap.

(** * The merger *)
Record mstate := mkM { m_readers : list rdr; m_err : bool }.

(** result of one Merger.Read: a record (with the id of the input it came from
    — known to the code as reader.id — and the error value returned with it),
    io.EOF, or an error *)
Inductive rd_res := GotRec (id : Z) (r : rec) (e : Z) | GotEOF | GotErr.

Section Core.
  Variable links : option (list (list Z)).
  Variable less : rec -> rec -> bool.
  (** heap.Init / heap.Push / heap.Pop on bySortOrderAndID(m) *)
  Variable pq_init : list rdr -> outcome (list rdr).
  Variable pq_push : list rdr -> rdr -> outcome (list rdr).
  Variable pq_pop : list rdr -> outcome (rdr * list rdr).

  (** NewMerger, the loop over src when m.less != nil *)
  Fixpoint init_heads (i : Z) (ins : list input) (merr : bool) : outcome (list rdr * bool) :=
    match ins with
    | [] => Ok ([], merr)
    | inp :: t =>
      let '(res, rest) := sread (i_recs inp) (i_fail inp) in
      match res with
      | RRec r =>
        obind (reassign links i r) (fun r' =>
        obind (init_heads (i + 1) t merr) (fun '(rs, e) =>
        Ok (mkRdr i rest (i_fail inp) (Some r') 0 :: rs, e)))
      | REOF =>
        obind (init_heads (i + 1) t merr) (fun '(rs, e) =>
        Ok (mkRdr i rest (i_fail inp) None 1 :: rs, e))
      | RFail =>
        obind (init_heads (i + 1) t true) (fun '(rs, e) =>
        Ok (mkRdr i rest (i_fail inp) None 2 :: rs, e))
      end
    end.

  Definition has_head (r : rdr) : bool := match d_head r with Some _ => true | None => false end.

  Definition new_sorted (ins : list input) : outcome mstate :=
    obind (init_heads 0 ins false) (fun '(rs, e) =>
    obind (pq_init (filter has_head rs)) (fun q => Ok (mkM q e))).

  (** NewMerger, the loop over src when m.less == nil *)
  Fixpoint cat_readers (i : Z) (ins : list input) : list rdr :=
    match ins with
    | [] => []
    | inp :: t => mkRdr i (i_recs inp) (i_fail inp) None 0 :: cat_readers (i + 1) t
    end.
  Definition new_cat (ins : list input) : mstate := mkM (cat_readers 0 ins) false.

  (** Read -> nextBySortOrder *)
  Fixpoint mread_sorted (fuel : nat) (m : mstate) : outcome (rd_res * mstate) :=
    match fuel with
    | O => Stuck
    | S f =>
      if m_err m then Ok (GotErr, m) else
      match m_readers m with
      | [] => Ok (GotEOF, m)
      | _ =>
        obind (pq_pop (m_readers m)) (fun '(rd, q) =>
        let '(res, rest) := sread (d_rest rd) (d_fail rd) in
        obind (match res with
               | RRec r =>
                 obind (reassign links (d_id rd) r) (fun r' =>
                 obind (pq_push q (mkRdr (d_id rd) rest (d_fail rd) (Some r') 0)) (fun q' =>
                 Ok (mkM q' false)))
               | REOF => Ok (mkM q false)
               | RFail => Ok (mkM q true)
               end) (fun m' =>
        match d_head rd with
        | None => mread_sorted f m'
        | Some r => Ok (GotRec (d_id rd) r (if d_err rd =? 1 then 0 else d_err rd), m')
        end))
      end
    end.

  (** Read -> cat *)
  Fixpoint mread_cat (fuel : nat) (m : mstate) : outcome (rd_res * mstate) :=
    match fuel with
    | O => Stuck
    | S f =>
      if m_err m then Ok (GotErr, m) else
      match m_readers m with
      | [] => Ok (GotEOF, m)
      | rd :: tl =>
        let '(res, rest) := sread (d_rest rd) (d_fail rd) in
        let rd' := mkRdr (d_id rd) rest (d_fail rd) (d_head rd) (d_err rd) in
        match res with
        | REOF => mread_cat f (mkM tl false)
        | RFail => Ok (GotErr, mkM (rd' :: tl) true)
        | RRec r => obind (reassign links (d_id rd) r) (fun r' => Ok (GotRec (d_id rd) r' 0, mkM (rd' :: tl) false))
        end
      end
    end.
End Core.

(** bySortOrderAndID.Less on two reader objects; a nil head is dereferenced by
    every less function. *)
Definition rless (less : rec -> rec -> bool) (a b : rdr) : outcome bool :=
  match d_head a, d_head b with
  | Some x, Some y => Ok (if less x y then true else (d_id a <? d_id b) && negb (less y x))
  | _, _ => Panic 2
  end.

(** A merger with its mode: [None] = concatenation. *)
Record pqops := mkPQ {
  pq_init_of : (rdr -> rdr -> outcome bool) -> list rdr -> outcome (list rdr);
  pq_push_of : (rdr -> rdr -> outcome bool) -> list rdr -> rdr -> outcome (list rdr);
  pq_pop_of : (rdr -> rdr -> outcome bool) -> list rdr -> outcome (rdr * list rdr)
}.

Definition goheap : pqops := mkPQ (hinit rdr0) (hpush rdr0) (hpop rdr0).

Definition mread (pq : pqops) (links : option (list (list Z))) (lessf : option (rec -> rec -> bool))
           (m : mstate) : outcome (rd_res * mstate) :=
  let fuel := S (S (length (m_readers m))) in
  match lessf with
  | None => mread_cat links fuel m
  | Some less => mread_sorted links (pq_push_of pq (rless less)) (pq_pop_of pq (rless less)) fuel m
  end.

Definition new_merger (pq : pqops) (links : option (list (list Z))) (lessf : option (rec -> rec -> bool))
           (ins : list input) : outcome mstate :=
  match lessf with
  | None => Ok (new_cat ins)
  | Some less => new_sorted links (pq_init_of pq (rless less)) ins
  end.

(** Read until io.EOF or an error, at most [n] times. End codes: 0 io.EOF,
    1 error, 2 panic, 3 anything else (a record together with an error, fuel). *)
Fixpoint drain (pq : pqops) links lessf (n : nat) (m : mstate) : list (Z * rec) * Z * mstate :=
  match n with
  | O => ([], 3, m)
  | S n' =>
    match mread pq links lessf m with
    | Ok (GotRec i r e, m') =>
      if e =? 0 then let '(os, en, mf) := drain pq links lessf n' m' in ((i, r) :: os, en, mf)
      else ([(i, r)], 3, m')
    | Ok (GotEOF, m') => ([], 0, m')
    | Ok (GotErr, m') => ([], 1, m')
    | Panic _ => ([], 2, m)
    | _ => ([], 3, m)
    end
  end.

Definition total_recs (ins : list input) : nat := length (concat (map i_recs ins)).

(** NewMerger followed by Read until the end. *)
Definition run_merge (pq : pqops) links lessf (ins : list input) : outcome (list (Z * rec) * Z * mstate) :=
  obind (new_merger pq links lessf ins) (fun m => Ok (drain pq links lessf (S (total_recs ins)) m)).

(** * Header merge, reduced to references with name and length (the cases the
    harness generates); used by the correspondence only. *)
Fixpoint find_ref (nm : list Z) (h : list (list Z * Z)) (i : Z) : option (Z * Z) :=
  match h with
  | [] => None
  | (n, l) :: t => if str_eqb n nm then Some (i, l) else find_ref nm t (i + 1)
  end.

(** links of one further input; [None] = errDupReference *)
Fixpoint add_refs (h : list (list Z * Z)) (refs : list (list Z * Z)) : option (list (list Z * Z) * list Z) :=
  match refs with
  | [] => Some (h, [])
  | (n, l) :: t =>
    match find_ref n h 0 with
    | Some (i, l') =>
      if l =? l' then
        match add_refs h t with Some (h', ls) => Some (h', i :: ls) | None => None end
      else None
    | None =>
      match add_refs (h ++ [(n, l)]) t with Some (h', ls) => Some (h', zlen h :: ls) | None => None end
    end
  end.

Fixpoint merge_more (h : list (list Z * Z)) (ins : list input) : option (list (list Z * Z) * list (list Z)) :=
  match ins with
  | [] => Some (h, [])
  | inp :: t =>
    match add_refs h (i_refs inp) with
    | None => None
    | Some (h', ls) =>
      match merge_more h' t with Some (h'', lss) => Some (h'', ls :: lss) | None => None end
    end
  end.

Fixpoint iota (n : nat) (from : Z) : list Z :=
  match n with O => [] | S k => from :: iota k (from + 1) end.

(** the part of a sam.Header the merger deals with *)
Record mhdr := mkMH { mh_refs : list (list Z * Z); mh_so : Z; mh_go : Z }.

(** sam.MergeHeaders on headers reduced to references, sort order and group
    order: merged header and reflinks.  One source: the source header itself
    and nil reflinks; otherwise a clone of the first with SortOrder =
    UnknownOrder and GroupOrder = GroupUnspecified, extended by the references
    of the others. *)
Definition merge_headers (ins : list input) : option (mhdr * option (list (list Z))) :=
  match ins with
  | [] => Some (mkMH [] 0 0, None)
  | [one] => Some (mkMH (i_refs one) (i_so one) (i_go one), None)
  | first :: more =>
    match merge_more (i_refs first) more with
    | None => None
    | Some (h, lss) => Some (mkMH h 0 0, Some (iota (length (i_refs first)) 0 :: lss))
    end
  end.

(** NewMerger's choice of m.less *)
Definition pick_less (so : Z) (code : Z) : option (rec -> rec -> bool) :=
  if so =? 1 then None
  else if so =? 2 then Some less_by_name
  else if so =? 3 then Some less_by_coordinate
  else custom_less code.

Fixpoint so_agree (so : Z) (ins : list input) : bool :=
  match ins with [] => true | i :: t => (i_so i =? so) && so_agree so t end.

(** NewMerger as a whole: the checks on src, the header merge, m.h.SortOrder =
    so, the choice of m.less from the merged header's sort order, the readers.
    Errors: 1 io.EOF (no source), 2 sort order mismatch, 3 MergeHeaders failed. *)
Definition new_merger_full (pq : pqops) (code : Z) (ins : list input)
  : outcome (mhdr * option (list (list Z)) * option (rec -> rec -> bool) * mstate) :=
  match ins with
  | [] => Err 1
  | first :: _ =>
    let so := i_so first in
    if negb (so_agree so ins) then Err 2 else
    match merge_headers ins with
    | None => Err 3
    | Some (h, links) =>
      let h' := mkMH (mh_refs h) so (mh_go h) in
      let lessf := pick_less (mh_so h') code in
      obind (new_merger pq links lessf ins) (fun m => Ok (h', links, lessf, m))
    end
  end.

(** * Correspondence: the case type and the agreement test *)
Inductive c18obs :=
| ObsNewPanic
| ObsNewErr
| ObsRun (hrefs : list (list Z * Z)) (hso hgo : Z) (outs : list (Z * Z * Z)) (e : Z) (after : list Z).

Inductive c18case :=
| CMerge (less : Z) (ins : list input) (after : Z) (o : c18obs)
| CLess (refs : list (list Z)) (a b : rec) (byname bycoord : bool).

Fixpoint refs_eqb (a b : list (list Z * Z)) : bool :=
  match a, b with
  | [], [] => true
  | (n, l) :: a', (n', l') :: b' => str_eqb n n' && (l =? l') && refs_eqb a' b'
  | _, _ => false
  end.

Fixpoint outs_eqb (a : list (Z * rec)) (b : list (Z * Z * Z)) : bool :=
  match a, b with
  | [], [] => true
  | (_, r) :: a', (u, rf, mr) :: b' => (r_uid r =? u) && (r_ref r =? rf) && (r_mref r =? mr) && outs_eqb a' b'
  | _, _ => false
  end.

Definition res_code (o : outcome (rd_res * mstate)) : Z :=
  match o with
  | Ok (GotEOF, _) => 0
  | Ok (GotErr, _) => 1
  | Panic _ => 2
  | _ => 3
  end.

Fixpoint after_codes (pq : pqops) links lessf (n : nat) (m : mstate) : list Z :=
  match n with
  | O => []
  | S k =>
    let o := mread pq links lessf m in
    res_code o :: after_codes pq links lessf k (match o with Ok (_, m') => m' | _ => m end)
  end.

Fixpoint zlist_eqb (a b : list Z) : bool :=
  match a, b with
  | [], [] => true
  | x :: a', y :: b' => (x =? y) && zlist_eqb a' b'
  | _, _ => false
  end.

Definition c18_agree (c : c18case) : bool :=
  match c with
  | CLess _ a b bn bc =>
    Bool.eqb (less_by_name a b) bn && Bool.eqb (less_by_coordinate a b) bc
  | CMerge code ins after o =>
    match new_merger_full goheap code ins, o with
    | Err _, ObsNewErr => true
    | Panic _, ObsNewPanic => true
    | Ok (h, links, lessf, m), ObsRun hrefs hso hgo outs e aft =>
      let '(mo, me, mf) := drain goheap links lessf (S (S (S (total_recs ins)))) m in
      refs_eqb (mh_refs h) hrefs && (mh_so h =? hso) && (mh_go h =? hgo)
      && outs_eqb mo outs && (me =? e)
      && zlist_eqb (if (me =? 0) || (me =? 1) then after_codes goheap links lessf (Z.to_nat after) mf else []) aft
    | _, _ => false
    end
  end.

(** * A reference priority queue (specification level): a list; Pop selects an
    element that no other element is less than.  Used to show that the
    container/heap contract is satisfiable and that the merger is correct on
    top of any queue that meets it. *)
Section ListPQ.
  Variable cmp : rdr -> rdr -> outcome bool.
  Definition lp_init (l : list rdr) : outcome (list rdr) := Ok l.
  Definition lp_push (q : list rdr) (x : rdr) : outcome (list rdr) := Ok (q ++ [x]).
  Fixpoint lp_min (m : rdr) (acc : list rdr) (l : list rdr) : outcome (rdr * list rdr) :=
    match l with
    | [] => Ok (m, acc)
    | y :: t => obind (cmp y m) (fun c => if c then lp_min y (m :: acc) t else lp_min m (y :: acc) t)
    end.
  Definition lp_pop (q : list rdr) : outcome (rdr * list rdr) :=
    match q with [] => Panic 1 | x :: t => lp_min x [] t end.
End ListPQ.

Definition listpq : pqops := mkPQ (fun _ => lp_init) (fun _ => lp_push) lp_pop.
