(** C02 / C03 — the synchronous (rd = 1) bgzf.Reader, statement by statement.

    Two executable machines over the same file model:
    - [v_step]: the reader on block *values* (no cache): bgzf/reader.go
      Seek / Read / ReadByte / nextBlock / nextBlockAt / BlockLen / LastChunk and
      bgzf/cache.go block.Read / ReadByte / seek / len / setBase / txOffset.
    - [r_step]: the same code with blocks as *store objects* (the code recycles
      the current Block as the next decompression target, and a cache may keep
      a pointer to it) and with the cache hooks cacheSwap / cachePut / the Peek
      chain of nextBlockAt / SetCache, over functional models of
      bgzf/cache LRU, FIFO and Random (as written: FIFO.Get leaves a used block
      indexed and FIFO.Put answers (nil, false) for a block it still indexes).
    Decompression is abstract: fetching the member at a file offset yields its
    data ([fetch]).  The underlying io.ReadSeeker is an exact byte source.
    Executable definitions only. *)
From Hts Require Import Base.Prim Model.Flat.
Open Scope Z_scope.

(** ---------------------------------------------------------------- fetch *)

Inductive fetched :=
| FOk (m : member)      (* a member starts at the offset *)
| FEOF                  (* at or beyond the end of the file: gzip.Reader.Reset returns io.EOF *)
| FBad                  (* inside a member: not a gzip header (outside the property's seeks) *)
| FSeekErr.             (* negative offset: the underlying Seek fails, the block is not touched *)

Definition find_member (F : file) (off : Z) : option member :=
  find (fun m => m_base m =? off) F.

Definition fetch (F : file) (off : Z) : fetched :=
  if off <? 0 then FSeekErr
  else match find_member F off with
       | Some m => FOk m
       | None => if fsize F <=? off then FEOF else FBad
       end.

(** ------------------------------------------------------- block values *)

(** bgzf.block: base, header (only the BSIZE-derived member size matters, -1:
    no BGZF header), decompressed data with the bytes.Reader position, the
    in-block part of offset (uint16; offset.File always equals base), hasData
    (buf != nil) and used. *)
Record block := mkB {
  b_base : Z; b_hsize : Z; b_data : list Z; b_pos : Z; b_oblk : Z; b_has : bool; b_used : bool }.

Definition b_new : block := mkB 0 (-1) [] 0 0 false false.

Definition b_next (b : block) : Z :=             (* NextBase *)
  if b_hsize b =? -1 then -1 else b_base b + b_hsize b.
Definition b_len (b : block) : Z :=              (* len(): bytes.Reader.Len *)
  if b_has b then (if zlen (b_data b) <=? b_pos b then 0 else zlen (b_data b) - b_pos b) else 0.
Definition b_tx (b : block) : voff := (b_base b, b_oblk b).   (* txOffset *)

(** block.Read(p) with len(p) = n: bytes.Reader.Read, offset.Block += uint16(n), used. *)
Definition b_read (b : block) (n : Z) : block * list Z * Z :=
  if zlen (b_data b) <=? b_pos b then (b, [], eEOF)
  else
    let k := Z.min n (zlen (b_data b) - b_pos b) in
    (mkB (b_base b) (b_hsize b) (b_data b) (b_pos b + k) (u16 (b_oblk b + u16 k)) (b_has b)
         (if 0 <? k then true else b_used b),
     ztake k (zdrop (b_pos b) (b_data b)), eNil).

(** block.ReadByte. *)
Definition b_readbyte (b : block) : block * list Z * Z :=
  if zlen (b_data b) <=? b_pos b then (b, [], eEOF)
  else (mkB (b_base b) (b_hsize b) (b_data b) (b_pos b + 1) (u16 (b_oblk b + 1)) (b_has b) true,
        ztake 1 (zdrop (b_pos b) (b_data b)), eNil).

(** block.seek(offset), offset = int64(uint16): never fails. *)
Definition b_seek (b : block) (o : Z) : block :=
  mkB (b_base b) (b_hsize b) (b_data b) o (u16 o) (b_has b) (b_used b).

(** What decompressor.nextBlockAt leaves in the block it was given, and its
    error.  A successful fetch sets base, header and data (used is not
    touched); after a failed fetch the block is reset (setOwner) and re-based. *)
Definition b_fill (F : file) (b : block) (off : Z) : block * Z :=
  match fetch F off with
  | FOk m => (mkB off (m_size m) (m_data m) 0 0 true (b_used b), eNil)
  | FEOF => (mkB off (-1) [] 0 0 false false, eEOF)
  | FBad => (mkB off (-1) [] 0 0 false false, eOther)
  | FSeekErr => (b, eOther)
  end.

(** ------------------------------------------- the reader on block values *)

Record vstate := mkV { v_cur : block; v_err : Z; v_lc : chunk; v_blocked : bool }.

Definition set_cur (s : vstate) (b : block) := mkV b (v_err s) (v_lc s) (v_blocked s).
Definition set_err (s : vstate) (e : Z) := mkV (v_cur s) e (v_lc s) (v_blocked s).
Definition set_lc (s : vstate) (c : chunk) := mkV (v_cur s) (v_err s) c (v_blocked s).
Definition set_begin (s : vstate) (o : voff) := set_lc s (o, snd (v_lc s)).
Definition set_end (s : vstate) (o : voff) := set_lc s (fst (v_lc s), o).

(** Reader.nextBlock (rd = 1, no cache): returns the error. *)
Definition v_nextBlock (F : file) (s : vstate) : vstate * Z :=
  let '(b, e) := b_fill F (v_cur s) (b_next (v_cur s)) in (set_cur s b, e).

(** The loop discarding exhausted / empty blocks in front of Read and ReadByte. *)
Fixpoint v_skip (F : file) (fuel : nat) (s : vstate) : outcome (vstate * Z) :=
  if b_len (v_cur s) =? 0 then
    match fuel with
    | O => Stuck
    | S fuel' =>
        let '(s1, e) := v_nextBlock F s in
        if e =? eNil then v_skip F fuel' s1 else Ok (set_err s1 e, e)
    end
  else Ok (s, eNil).

(** The copy loop of Read: [acc] bytes delivered so far of [n]; on entry bg.err = nil. *)
Fixpoint v_copy (F : file) (fuel : nat) (s : vstate) (n : Z) (acc : list Z) : outcome (vstate * list Z * Z) :=
  if zlen acc <? n then
    match fuel with
    | O => Stuck
    | S fuel' =>
        let '(b, bs, e) := b_read (v_cur s) (n - zlen acc) in
        let s1 := set_cur s b in
        let acc1 := acc ++ bs in
        if e =? eEOF then
          if zlen acc1 =? n then Ok (set_end (set_err s1 eNil) (b_tx b), acc1, eNil)
          else if v_blocked s then Ok (set_end (set_err s1 eNil) (b_tx b), acc1, eEOF)
          else
            let '(s2, e2) := v_nextBlock F s1 in
            if e2 =? eNil then v_copy F fuel' s2 n acc1
            else Ok (set_end (set_err s2 e2) (b_tx (v_cur s2)), acc1, e2)
        else v_copy F fuel' s1 n acc1
    end
  else Ok (set_end (set_err s eNil) (b_tx (v_cur s)), acc, eNil).

Definition fuel_of (F : file) : nat := (2 * length F + 4)%nat.

Definition v_read (F : file) (s : vstate) (n : Z) : outcome (vstate * list Z * Z) :=
  if negb (v_err s =? eNil) then Ok (s, [], v_err s)
  else
    match v_skip F (S (length F)) s with
    | Ok (s1, e) =>
        if negb (e =? eNil) then Ok (s1, [], e)
        else v_copy F (fuel_of F) (set_begin s1 (b_tx (v_cur s1))) n []
    | Err e => Err e | Panic w => Panic w | Stuck => Stuck
    end.

Definition v_readbyte (F : file) (s : vstate) : outcome (vstate * list Z * Z) :=
  if negb (v_err s =? eNil) then Ok (s, [], v_err s)
  else
    match v_skip F (S (length F)) s with
    | Ok (s1, e) =>
        if negb (e =? eNil) then Ok (s1, [], e)
        else
          let s2 := set_begin s1 (b_tx (v_cur s1)) in
          let '(b, bs, e1) := b_readbyte (v_cur s2) in
          let s3 := set_cur s2 b in
          if e1 =? eEOF then
            if v_blocked s3 then Ok (set_end (set_err s3 eNil) (b_tx b), bs, eEOF)
            else let '(s4, e2) := v_nextBlock F s3 in
                 Ok (set_end (set_err s4 e2) (b_tx (v_cur s4)), bs, e2)
          else Ok (set_end (set_err s3 e1) (b_tx b), bs, e1)
    | Err e => Err e | Panic w => Panic w | Stuck => Stuck
    end.

(** Reader.Seek (rd = 1, no cache). *)
Definition v_seek (F : file) (s : vstate) (f o : Z) : vstate * Z :=
  let refetch := negb (f =? b_base (v_cur s)) || negb (b_has (v_cur s)) in
  let '(s1, e) := if refetch
                  then let '(b, e) := b_fill F (v_cur s) f in (set_err (set_cur s b) e, e)
                  else (s, eNil) in
  if negb (e =? eNil) then (s1, e)
  else
    let s2 := set_err (set_cur s1 (b_seek (v_cur s1) o)) eNil in
    (set_lc s2 ((f, o), (f, o)), eNil).

(** NewReader: the first member is fetched into a fresh block. *)
Definition v_init (F : file) : vstate * Z :=
  let '(b, e) := b_fill F b_new 0 in (mkV b eNil ((0, 0), (0, 0)) false, e).

Definition v_step (F : file) (s : vstate) (o : rop) : outcome (vstate * fret) :=
  match o with
  | OSeek f b => let '(s', e) := v_seek F s f b in Ok (s', ([], e))
  | OReseek => let '(f, b) := fst (v_lc s) in let '(s', e) := v_seek F s f b in Ok (s', ([], e))
  | ORead n => match v_read F s n with Ok (s', bs, e) => Ok (s', (bs, e))
               | Err e => Err e | Panic w => Panic w | Stuck => Stuck end
  | OByte => match v_readbyte F s with Ok (s', bs, e) => Ok (s', (bs, e))
             | Err e => Err e | Panic w => Panic w | Stuck => Stuck end
  | OBlocked b => Ok (mkV (v_cur s) (v_err s) (v_lc s) b, ([], eNil))
  | OSetCache _ _ => Ok (s, ([], eNil))
  end.

(** Observation after each call: returned bytes, error class, LastChunk(), BlockLen(). *)
Definition robs := (fret * chunk * Z)%type.

Fixpoint v_run (F : file) (s : vstate) (ops : list rop) : outcome (list robs) :=
  match ops with
  | [] => Ok []
  | o :: ops' =>
      match v_step F s o with
      | Ok (s', r) => match v_run F s' ops' with
                      | Ok l => Ok ((r, v_lc s', b_len (v_cur s')) :: l)
                      | Err e => Err e | Panic w => Panic w | Stuck => Stuck end
      | Err e => Err e | Panic w => Panic w | Stuck => Stuck
      end
  end.

(** ------------------------------------------------------------------
    The reader with blocks as store objects and with a cache. *)

Definition store := list block.
Definition sget (st : store) (i : nat) : block := nth i st b_new.
Definition sset (st : store) (i : nat) (b : block) : store := upd_nat st i b.

(** Cache state.  LRU / FIFO: [c_nodes] are the list nodes ever created (node
    id = index, content = block id), [c_order] the node ids linked in the list
    root.next ... root.prev, [c_table] maps a base to a node id.  Random:
    [c_table] maps a base to a block id; the victim of an eviction is taken
    from [c_choice] (Go map iteration order). *)
Record cstate := mkC {
  c_kind : ckind; c_cap : Z; c_nodes : list nat; c_order : list nat; c_table : list (Z * nat);
  c_choice : list nat }.

Definition c_empty (k : ckind) (cap : Z) (ch : list nat) : cstate := mkC k cap [] [] [] ch.

Fixpoint tget (t : list (Z * nat)) (k : Z) : option nat :=
  match t with [] => None | (k', v) :: t' => if k' =? k then Some v else tget t' k end.
Fixpoint tdel (t : list (Z * nat)) (k : Z) : list (Z * nat) :=
  match t with [] => [] | (k', v) :: t' => if k' =? k then tdel t' k else (k', v) :: tdel t' k end.
Fixpoint odel (o : list nat) (nid : nat) : list nat :=
  match o with [] => [] | n :: o' => if Nat.eqb n nid then o' else n :: odel o' nid end.
Definition omem (o : list nat) (nid : nat) : bool := existsb (Nat.eqb nid) o.

(** cache.remove(n, table): delete(table, n.b.Base()) - by the block's *current*
    base - and unlink; unlinking a node that is not linked dereferences nil. *)
Definition c_remove (st : store) (c : cstate) (nid : nat) : outcome cstate :=
  if omem (c_order c) nid then
    Ok (mkC (c_kind c) (c_cap c) (c_nodes c) (odel (c_order c) nid)
            (tdel (c_table c) (b_base (sget st (nth nid (c_nodes c) O)))) (c_choice c))
  else Panic 5.

(** (node id, block id) stored under a base. *)
Definition c_lookup (c : cstate) (base : Z) : option (nat * nat) :=
  match tget (c_table c) base with
  | None => None
  | Some v => match c_kind c with
              | KRandom => Some (O, v)
              | _ => Some (v, nth v (c_nodes c) O)
              end
  end.

(** Get. *)
Definition c_get (st : store) (c : cstate) (base : Z) : outcome (cstate * option nat) :=
  match c_lookup c base with
  | None => Ok (c, None)
  | Some (nid, bid) =>
      match c_kind c with
      | KLRU => match c_remove st c nid with Ok c1 => Ok (c1, Some bid)
                | Err e => Err e | Panic w => Panic w | Stuck => Stuck end
      | KFIFO => if b_used (sget st bid) then Ok (c, Some bid)
                 else match c_remove st c nid with Ok c1 => Ok (c1, Some bid)
                      | Err e => Err e | Panic w => Panic w | Stuck => Stuck end
      | KRandom => Ok (mkC (c_kind c) (c_cap c) (c_nodes c) (c_order c) (tdel (c_table c) base) (c_choice c), Some bid)
      end
  end.

(** Peek. *)
Definition c_peek (st : store) (c : cstate) (base : Z) : bool * Z :=
  match c_lookup c base with
  | None => (false, -1)
  | Some (_, bid) => (true, b_next (sget st bid))
  end.

Definition tlen (c : cstate) : Z := zlen (c_table c).

(** Put: (cache, evicted-or-returned block, retained); Panic when root.prev is the sentinel. *)
Definition c_put (st : store) (c : cstate) (bid : nat) : outcome (cstate * option nat * bool) :=
  let b := sget st bid in
  match tget (c_table c) (b_base b) with
  | Some nid =>
      (* FIFO.Put: a block that is still indexed here (Get hands out a used
         block without removing it) is not reported as free for reuse *)
      match c_kind c with
      | KFIFO => if Nat.eqb (nth nid (c_nodes c) O) bid then Ok (c, None, false) else Ok (c, Some bid, false)
      | _ => Ok (c, Some bid, false)
      end
  | None =>
      match c_kind c with
      | KRandom =>
          if tlen c =? c_cap c then
            if negb (b_used b) then Ok (c, Some bid, false)
            else
              let unused := filter (fun kv => negb (b_used (sget st (snd kv)))) (c_table c) in
              let cands := match unused with [] => c_table c | _ => unused end in
              let pick := match c_choice c with [] => O | x :: _ => x end in
              match nth_error cands (Nat.modulo pick (length cands)) with
              | Some (k, v) =>
                  Ok (mkC (c_kind c) (c_cap c) (c_nodes c) (c_order c) ((b_base b, bid) :: tdel (c_table c) k) (tl (c_choice c)),
                      Some v, true)
              | None => Ok (mkC (c_kind c) (c_cap c) (c_nodes c) (c_order c) ((b_base b, bid) :: c_table c) (c_choice c), None, true)
              end
          else Ok (mkC (c_kind c) (c_cap c) (c_nodes c) (c_order c) ((b_base b, bid) :: c_table c) (c_choice c), None, true)
      | _ =>
          let ins (c1 : cstate) (d : option nat) : outcome (cstate * option nat * bool) :=
            let nid := length (c_nodes c1) in
            Ok (mkC (c_kind c1) (c_cap c1) (c_nodes c1 ++ [bid])
                    (if b_used b then nid :: c_order c1 else c_order c1 ++ [nid])
                    ((b_base b, nid) :: c_table c1) (c_choice c1), d, true) in
          if tlen c =? c_cap c then
            if negb (b_used b) then Ok (c, Some bid, false)
            else match rev (c_order c) with
                 | [] => Panic 2
                 | nid :: _ =>
                     match c_remove st c nid with
                     | Ok c1 => ins c1 (Some (nth nid (c_nodes c) O))
                     | Err e => Err e | Panic w => Panic w | Stuck => Stuck
                     end
                 end
          else ins c None
      end
  end.

Record rstate := mkR {
  r_st : store; r_cur : option nat; r_err : Z; r_lc : chunk; r_blocked : bool; r_cache : option cstate }.

Definition rs_st (s : rstate) st := mkR st (r_cur s) (r_err s) (r_lc s) (r_blocked s) (r_cache s).
Definition rs_cur (s : rstate) c := mkR (r_st s) c (r_err s) (r_lc s) (r_blocked s) (r_cache s).
Definition rs_err (s : rstate) e := mkR (r_st s) (r_cur s) e (r_lc s) (r_blocked s) (r_cache s).
Definition rs_lc (s : rstate) l := mkR (r_st s) (r_cur s) (r_err s) l (r_blocked s) (r_cache s).
Definition rs_cache (s : rstate) c := mkR (r_st s) (r_cur s) (r_err s) (r_lc s) (r_blocked s) c.
Definition rs_begin (s : rstate) (o : voff) := rs_lc s (o, snd (r_lc s)).
Definition rs_end (s : rstate) (o : voff) := rs_lc s (fst (r_lc s), o).

(** The current block (a nil current would be a nil dereference: Panic 3). *)
Definition with_cur {A} (s : rstate) (k : nat -> block -> outcome A) : outcome A :=
  match r_cur s with Some i => k i (sget (r_st s) i) | None => Panic 3 end.

(** Reader.cachePut(b): (state, block handed back, retained). *)
Definition r_cachePut (s : rstate) (c : cstate) (b : option nat) : outcome (cstate * option nat * bool) :=
  match b with
  | None => Ok (c, None, false)
  | Some i => if negb (b_has (sget (r_st s) i)) then Ok (c, Some i, false) else c_put (r_st s) c i
  end.

(** Reader.cacheSwap(base): (state, swapped). *)
Definition r_cacheSwap (s : rstate) (base : Z) : outcome (rstate * bool) :=
  match r_cache s with
  | None => Ok (s, false)
  | Some c =>
      match c_get (r_st s) c base with
      | Err e => Err e | Panic w => Panic w | Stuck => Stuck
      | Ok (c1, Some i) =>
          (* cachedBlockFor: blk.seek(0); then cachePut(current) (result dropped); current = blk *)
          if negb (b_has (sget (r_st s) i)) then Panic 4   (* seek on a nil *bytes.Reader *)
          else
          let st1 := sset (r_st s) i (b_seek (sget (r_st s) i) 0) in
          let s1 := rs_st s st1 in
          match r_cachePut s1 c1 (r_cur s1) with
          | Ok (c2, _, _) => Ok (rs_cur (rs_cache s1 (Some c2)) (Some i), true)
          | Err e => Err e | Panic w => Panic w | Stuck => Stuck
          end
      | Ok (c1, None) =>
          match r_cachePut s c1 (r_cur s) with
          | Ok (c2, back, retained) =>
              Ok (rs_cur (rs_cache s (Some c2)) (if retained then None else back), false)
          | Err e => Err e | Panic w => Panic w | Stuck => Stuck
          end
      end
  end.

(** The Peek chain at the head of nextBlockAt. *)
Fixpoint r_peekchain (fuel : nat) (s : rstate) (off : Z) : outcome Z :=
  match r_cache s with
  | None => Ok off
  | Some c =>
      let '(ex, next) := c_peek (r_st s) c off in
      if ex then match fuel with O => Stuck | S fuel' => r_peekchain fuel' s next end
      else Ok off
  end.

(** dec.using(current).nextBlockAt(off).wait(): lazyBlock allocates when current is nil. *)
Definition r_fetch (F : file) (s : rstate) (off : Z) : outcome (rstate * Z) :=
  match r_peekchain (S (length (match r_cache s with Some c => c_table c | None => [] end))) s off with
  | Ok off' =>
      let '(st, i) := match r_cur s with
                      | Some i => (r_st s, i)
                      | None => (r_st s ++ [b_new], length (r_st s))
                      end in
      let '(b, e) := b_fill F (sget st i) off' in
      Ok (rs_cur (rs_st s (sset st i b)) (Some i), e)
  | Err e => Err e | Panic w => Panic w | Stuck => Stuck
  end.

(** Reader.nextBlock. *)
Definition r_nextBlock (F : file) (s : rstate) : outcome (rstate * Z) :=
  with_cur s (fun _ cur =>
    let base := b_next cur in
    match r_cacheSwap s base with
    | Ok (s1, true) => Ok (s1, eNil)
    | Ok (s1, false) => r_fetch F s1 base
    | Err e => Err e | Panic w => Panic w | Stuck => Stuck
    end).

Fixpoint r_skip (F : file) (fuel : nat) (s : rstate) : outcome (rstate * Z) :=
  with_cur s (fun _ cur =>
    if b_len cur =? 0 then
      match fuel with
      | O => Stuck
      | S fuel' =>
          match r_nextBlock F s with
          | Ok (s1, e) => if e =? eNil then r_skip F fuel' s1 else Ok (rs_err s1 e, e)
          | Err e => Err e | Panic w => Panic w | Stuck => Stuck
          end
      end
    else Ok (s, eNil)).

Definition cur_tx (s : rstate) : voff :=
  match r_cur s with Some i => b_tx (sget (r_st s) i) | None => (0, 0) end.

Fixpoint r_copy (F : file) (fuel : nat) (s : rstate) (n : Z) (acc : list Z) : outcome (rstate * list Z * Z) :=
  if zlen acc <? n then
    match fuel with
    | O => Stuck
    | S fuel' =>
        with_cur s (fun i cur =>
          let '(b, bs, e) := b_read cur (n - zlen acc) in
          let s1 := rs_st s (sset (r_st s) i b) in
          let acc1 := acc ++ bs in
          if e =? eEOF then
            if zlen acc1 =? n then Ok (rs_end (rs_err s1 eNil) (b_tx b), acc1, eNil)
            else if r_blocked s then Ok (rs_end (rs_err s1 eNil) (b_tx b), acc1, eEOF)
            else
              match r_nextBlock F s1 with
              | Ok (s2, e2) =>
                  if e2 =? eNil then r_copy F fuel' s2 n acc1
                  else Ok (rs_end (rs_err s2 e2) (cur_tx s2), acc1, e2)
              | Err e => Err e | Panic w => Panic w | Stuck => Stuck
              end
          else r_copy F fuel' s1 n acc1)
    end
  else Ok (rs_end (rs_err s eNil) (cur_tx s), acc, eNil).

Definition r_fuel (F : file) (s : rstate) : nat :=
  (2 * (length F + length (match r_cache s with Some c => c_table c | None => [] end)) + 4)%nat.

Definition r_read (F : file) (s : rstate) (n : Z) : outcome (rstate * list Z * Z) :=
  if negb (r_err s =? eNil) then Ok (s, [], r_err s)
  else
    match r_skip F (r_fuel F s) s with
    | Ok (s1, e) =>
        if negb (e =? eNil) then Ok (s1, [], e)
        else r_copy F (r_fuel F s + Z.to_nat n) (rs_begin s1 (cur_tx s1)) n []
    | Err e => Err e | Panic w => Panic w | Stuck => Stuck
    end.

Definition r_readbyte (F : file) (s : rstate) : outcome (rstate * list Z * Z) :=
  if negb (r_err s =? eNil) then Ok (s, [], r_err s)
  else
    match r_skip F (r_fuel F s) s with
    | Ok (s1, e) =>
        if negb (e =? eNil) then Ok (s1, [], e)
        else
          let s2 := rs_begin s1 (cur_tx s1) in
          with_cur s2 (fun i cur =>
            let '(b, bs, e1) := b_readbyte cur in
            let s3 := rs_st s2 (sset (r_st s2) i b) in
            if e1 =? eEOF then
              if r_blocked s3 then Ok (rs_end (rs_err s3 eNil) (b_tx b), bs, eEOF)
              else match r_nextBlock F s3 with
                   | Ok (s4, e2) => Ok (rs_end (rs_err s4 e2) (cur_tx s4), bs, e2)
                   | Err e => Err e | Panic w => Panic w | Stuck => Stuck
                   end
            else Ok (rs_end (rs_err s3 e1) (b_tx b), bs, e1))
    | Err e => Err e | Panic w => Panic w | Stuck => Stuck
    end.

(** Reader.Seek (rd = 1). *)
Definition r_seek (F : file) (s : rstate) (f o : Z) : outcome (rstate * Z) :=
  with_cur s (fun _ cur =>
    let refetch := negb (f =? b_base cur) || negb (b_has cur) in
    let step1 : outcome (rstate * Z) :=
      if refetch then
        match r_cacheSwap s f with
        | Ok (s1, true) => Ok (s1, eNil)
        | Ok (s1, false) =>
            match r_fetch F s1 f with
            | Ok (s2, e) => Ok (rs_err s2 e, e)
            | Err e => Err e | Panic w => Panic w | Stuck => Stuck
            end
        | Err e => Err e | Panic w => Panic w | Stuck => Stuck
        end
      else Ok (s, eNil) in
    match step1 with
    | Ok (s1, e) =>
        if negb (e =? eNil) then Ok (s1, e)
        else with_cur s1 (fun i cur1 =>
               (* current.seek on a block without data dereferences a nil *bytes.Reader *)
               if negb (b_has cur1) then Panic 4
               else
                 let s2 := rs_err (rs_st s1 (sset (r_st s1) i (b_seek cur1 o))) eNil in
                 Ok (rs_lc s2 ((f, o), (f, o)), eNil))
    | Err e => Err e | Panic w => Panic w | Stuck => Stuck
    end).

Definition r_init (F : file) : rstate * Z :=
  let '(b, e) := b_fill F b_new 0 in
  (mkR [b] (Some O) eNil ((0, 0), (0, 0)) false None, e).

Definition r_step (F : file) (ch : list nat) (s : rstate) (o : rop) : outcome (rstate * fret) :=
  match o with
  | OSeek f b => match r_seek F s f b with Ok (s', e) => Ok (s', ([], e))
                 | Err e => Err e | Panic w => Panic w | Stuck => Stuck end
  | OReseek => let '(f, b) := fst (r_lc s) in
               match r_seek F s f b with Ok (s', e) => Ok (s', ([], e))
               | Err e => Err e | Panic w => Panic w | Stuck => Stuck end
  | ORead n => match r_read F s n with Ok (s', bs, e) => Ok (s', (bs, e))
               | Err e => Err e | Panic w => Panic w | Stuck => Stuck end
  | OByte => match r_readbyte F s with Ok (s', bs, e) => Ok (s', (bs, e))
             | Err e => Err e | Panic w => Panic w | Stuck => Stuck end
  | OBlocked b => Ok (mkR (r_st s) (r_cur s) (r_err s) (r_lc s) b (r_cache s), ([], eNil))
  | OSetCache k cap =>
      Ok (rs_cache s (if cap <? 1 then None else Some (c_empty k cap ch)), ([], eNil))
  end.

Definition r_blen (s : rstate) : Z :=
  match r_cur s with Some i => b_len (sget (r_st s) i) | None => 0 end.

Fixpoint r_run (F : file) (ch : list nat) (s : rstate) (ops : list rop) : outcome (list robs) :=
  match ops with
  | [] => Ok []
  | o :: ops' =>
      match r_step F ch s o with
      | Ok (s', r) => match r_run F ch s' ops' with
                      | Ok l => Ok ((r, r_lc s', r_blen s') :: l)
                      | Err e => Err e | Panic w => Panic w | Stuck => Stuck end
      | Err e => Err e | Panic w => Panic w | Stuck => Stuck
      end
  end.

(** ------------------------------------------------------------------
    Correspondence: one case = file, history, and what the implementation
    returned after every call: (n, adler32 of the bytes, error class,
    LastChunk as four numbers, BlockLen). *)

Definition iobs := (Z * Z * Z * (Z * Z * Z * Z) * Z)%type.

Definition obs_eqb (m : robs) (i : iobs) : bool :=
  let '(bs, e, ((bf, bb), (ef, eb)), bl) := m in
  let '(n, ad, e', (bf', bb', ef', eb'), bl') := i in
  (zlen bs =? n) && (adler bs =? ad) && (e =? e')
  && (bf =? bf') && (bb =? bb') && (ef =? ef') && (eb =? eb') && (bl =? bl').

Fixpoint obs_all (m : list robs) (i : list iobs) : bool :=
  match m, i with
  | [], [] => true
  | x :: m', y :: i' => obs_eqb x y && obs_all m' i'
  | _, _ => false
  end.

(** [hung]: the implementation's history ended in a panic (1) or a deadlock (2)
    after the observations given; the model must then stop the same way. *)
Record rcase := mkCase {
  rc_file : file; rc_ops : list rop; rc_obs : list iobs; rc_choice : list nat }.

(** Uncached histories: both machines must reproduce the observations. *)
Definition c02_agree (c : rcase) : bool :=
  wf_file (rc_file c) &&
  match v_run (rc_file c) (fst (v_init (rc_file c))) (rc_ops c),
        r_run (rc_file c) (rc_choice c) (fst (r_init (rc_file c))) (rc_ops c) with
  | Ok l1, Ok l2 => obs_all l1 (rc_obs c) && obs_all l2 (rc_obs c)
  | _, _ => false
  end.

(** Histories with SetCache: the store machine must reproduce the observations. *)
Definition c03_agree (c : rcase) : bool :=
  wf_file (rc_file c) &&
  match r_run (rc_file c) (rc_choice c) (fst (r_init (rc_file c))) (rc_ops c) with
  | Ok l2 => obs_all l2 (rc_obs c)
  | _ => false
  end.

(** Prefix runs for histories the implementation did not finish (panic / deadlock):
    the model must reproduce the observations made and then fail to return. *)
Fixpoint r_run_pre (F : file) (ch : list nat) (s : rstate) (ops : list rop) (k : nat) : outcome (list robs) * bool :=
  match k, ops with
  | O, o :: _ => (Ok [], match r_step F ch s o with Ok _ => false | _ => true end)
  | S k', o :: ops' =>
      match r_step F ch s o with
      | Ok (s', r) => let '(l, f) := r_run_pre F ch s' ops' k' in
                      (match l with Ok l' => Ok ((r, r_lc s', r_blen s') :: l') | x => x end, f)
      | _ => (Stuck, false)
      end
  | _, [] => (Ok [], false)
  end.

Definition c03_agree_abort (c : rcase) : bool :=
  let '(l, f) := r_run_pre (rc_file c) (rc_choice c) (fst (r_init (rc_file c))) (rc_ops c) (length (rc_obs c)) in
  match l with Ok l' => obs_all l' (rc_obs c) && f | _ => false end.
