(** C02 / C03 — bgzf.Reader with rd > 1: the read-ahead goroutine of
    NewReader, the channels waiting / working / control, and the consumer's
    Seek / nextBlock for a reader without bg.dec, as a schedule-driven
    small-step system.

    Granularity: one step of the read-ahead thread is one iteration of its
    loop (take a decompressor from [waiting]; park on / poll [control];
    nextBlockAt: Peek chain, lazyBlock, fetch; send to [working]).  The
    consumer runs its API call; where it would block on a channel receive the
    read-ahead thread is stepped; if that thread cannot move either, the call
    is [Stuck] (deadlock).  The schedule is a list of numbers: before each
    consumer call the next number says how many read-ahead iterations to run
    (at most; fewer when the thread blocks), and at a select with two ready
    channels the next number picks the branch (even: waiting, odd: working).
    The head token (access to the underlying reader) is not a separate step:
    a fetch is atomic.
    Executable definitions only. *)
From Hts Require Import Base.Prim Model.Flat Model.Reader.
Open Scope Z_scope.

Record dec := mkD { d_blk : option nat; d_err : Z }.

Inductive tstate :=
| TIdle (next : Z)            (* at "for dec := range bg.waiting" with the loop variable next *)
| TParked (d : nat).          (* holds decompressor d, next < 0, receiving from control *)

Record astate := mkA {
  a_r : rstate;                (* store, current, err, lastChunk, Blocked, cache (bg.dec is nil) *)
  a_decs : list dec;
  a_waiting : list nat;
  a_working : list nat;
  a_control : option Z;
  a_t : tstate;
  a_sched : list nat }.

Definition as_r (a : astate) r := mkA r (a_decs a) (a_waiting a) (a_working a) (a_control a) (a_t a) (a_sched a).
Definition as_decs (a : astate) d := mkA (a_r a) d (a_waiting a) (a_working a) (a_control a) (a_t a) (a_sched a).
Definition as_waiting (a : astate) w := mkA (a_r a) (a_decs a) w (a_working a) (a_control a) (a_t a) (a_sched a).
Definition as_working (a : astate) w := mkA (a_r a) (a_decs a) (a_waiting a) w (a_control a) (a_t a) (a_sched a).
Definition as_control (a : astate) c := mkA (a_r a) (a_decs a) (a_waiting a) (a_working a) c (a_t a) (a_sched a).
Definition as_t (a : astate) t := mkA (a_r a) (a_decs a) (a_waiting a) (a_working a) (a_control a) t (a_sched a).
Definition as_sched (a : astate) s := mkA (a_r a) (a_decs a) (a_waiting a) (a_working a) (a_control a) (a_t a) s.

Definition dget (a : astate) (i : nat) : dec := nth i (a_decs a) (mkD None 0).
Definition dset (a : astate) (i : nat) (d : dec) : astate := as_decs a (upd_nat (a_decs a) i d).

(** dec.using(blk).nextBlockAt(off): Peek chain, lazyBlock, fetch into the
    decompressor's block; the block stays with the decompressor until wait(). *)
Definition a_fetch (F : file) (a : astate) (i : nat) (blk : option nat) (off : Z) : outcome astate :=
  let r := a_r a in
  match r_peekchain (S (length (match r_cache r with Some c => c_table c | None => [] end))) r off with
  | Ok off' =>
      let '(st, bid) := match blk with
                        | Some b => (r_st r, b)
                        | None => (r_st r ++ [b_new], length (r_st r))
                        end in
      let '(b, e) := b_fill F (sget st bid) off' in
      Ok (dset (as_r a (rs_st r (sset st bid b))) i (mkD (Some bid) e))
  | Err e => Err e | Panic w => Panic w | Stuck => Stuck
  end.

(** One iteration of the read-ahead loop, if it can move.  None: blocked. *)
Definition t_step (F : file) (a : astate) : option (outcome astate) :=
  let run (a1 : astate) (d : nat) (off : Z) : outcome astate :=
    match a_fetch F a1 d (d_blk (dget a1 d)) off with
    | Ok a2 =>
        let next := match d_blk (dget a2 d) with
                    | Some bid => b_next (sget (r_st (a_r a2)) bid)
                    | None => -1 end in
        Ok (as_t (as_working a2 (a_working a2 ++ [d])) (TIdle next))
    | Err e => Err e | Panic w => Panic w | Stuck => Stuck
    end in
  match a_t a with
  | TParked d =>
      match a_control a with
      | Some v => Some (run (as_control a None) d v)
      | None => None
      end
  | TIdle next =>
      match a_waiting a with
      | [] => None
      | d :: w =>
          let a1 := as_waiting a w in
          if next <? 0 then
            match a_control a with
            | Some v => Some (run (as_control a1 None) d v)
            | None => Some (Ok (as_t a1 (TParked d)))
            end
          else
            match a_control a with
            | Some v => Some (run (as_control a1 None) d v)
            | None => Some (run a1 d next)
            end
      end
  end.

(** Run up to k read-ahead iterations. *)
Fixpoint t_run (F : file) (k : nat) (a : astate) : outcome astate :=
  match k with
  | O => Ok a
  | S k' => match t_step F a with
            | None => Ok a
            | Some (Ok a1) => t_run F k' a1
            | Some (Err e) => Err e | Some (Panic w) => Panic w | Some Stuck => Stuck
            end
  end.

Definition pop_sched (a : astate) : nat * astate :=
  match a_sched a with [] => (O, a) | x :: s => (x, as_sched a s) end.

(** Blocking receive from working: step the read-ahead thread until an entry is there. *)
Fixpoint recv_working (F : file) (fuel : nat) (a : astate) : outcome (astate * nat) :=
  match a_working a with
  | d :: w => Ok (as_working a w, d)
  | [] => match fuel with
          | O => Stuck
          | S fuel' => match t_step F a with
                       | None => Stuck                       (* nobody can move: deadlock *)
                       | Some (Ok a1) => recv_working F fuel' a1
                       | Some (Err e) => Err e | Some (Panic w) => Panic w | Some Stuck => Stuck
                       end
          end
  end.

(** dec.wait(): the block and the error; the decompressor gives the block up. *)
Definition a_wait (a : astate) (d : nat) : astate * option nat * Z :=
  let x := dget a d in (dset a d (mkD None (d_err x)), d_blk x, d_err x).

(** Reader.keep(b). *)
Definition a_keep (a : astate) (b : option nat) : outcome astate :=
  match b, r_cache (a_r a) with
  | Some i, Some c =>
      if negb (b_has (sget (r_st (a_r a)) i)) then Ok a
      else match c_put (r_st (a_r a)) c i with
           | Ok (c1, _, _) => Ok (as_r a (rs_cache (a_r a) (Some c1)))
           | Err e => Err e | Panic w => Panic w | Stuck => Stuck
           end
  | _, _ => Ok a
  end.

Definition lift_r {A} (a : astate) (o : outcome (rstate * A)) : outcome (astate * A) :=
  match o with Ok (r, x) => Ok (as_r a r, x) | Err e => Err e | Panic w => Panic w | Stuck => Stuck end.

Definition blk_base (a : astate) (b : option nat) : Z :=
  match b with Some i => b_base (sget (r_st (a_r a)) i) | None => -1 end.

(** The loop of nextBlock over at most cap(working) = rd entries. *)
Fixpoint nb_loop (F : file) (i : nat) (a : astate) (base : Z) : outcome (astate * Z) :=
  match i with
  | O => Panic 7                                  (* "bgzf: unexpected block" *)
  | S i' =>
      match recv_working F (S (length (a_decs a))) a with
      | Ok (a1, d) =>
          let '(a2, blk, err) := a_wait a1 d in
          let a3 := as_waiting (as_r a2 (rs_cur (a_r a2) blk)) (a_waiting a2 ++ [d]) in
          if blk_base a3 blk =? base then Ok (a3, err)
          else if err =? eNil then
                 match a_keep a3 blk with
                 | Ok a4 => nb_loop F i' (as_r a4 (rs_cur (a_r a4) None)) base
                 | Err e => Err e | Panic w => Panic w | Stuck => Stuck
                 end
               else nb_loop F i' a3 base
      | Err e => Err e | Panic w => Panic w | Stuck => Stuck
      end
  end.

(** Reader.nextBlock, bg.dec == nil. *)
Definition a_nextBlock (F : file) (a : astate) : outcome (astate * Z) :=
  match r_cur (a_r a) with
  | None => Panic 3
  | Some i =>
      let base := b_next (sget (r_st (a_r a)) i) in
      match r_cacheSwap (a_r a) base with
      | Ok (r1, true) => Ok (as_r a r1, eNil)
      | Ok (r1, false) => nb_loop F (length (a_decs a)) (as_r a r1) base
      | Err e => Err e | Panic w => Panic w | Stuck => Stuck
      end
  end.

(** The generic loops of Read / ReadByte over the asynchronous nextBlock
    (same text as in Model/Reader.v). *)
Definition acur (a : astate) := r_cur (a_r a).
Definition ablk (a : astate) (i : nat) := sget (r_st (a_r a)) i.

Fixpoint a_skip (F : file) (fuel : nat) (a : astate) : outcome (astate * Z) :=
  match acur a with
  | None => Panic 3
  | Some i =>
      if b_len (ablk a i) =? 0 then
        match fuel with
        | O => Stuck
        | S fuel' =>
            match a_nextBlock F a with
            | Ok (a1, e) => if e =? eNil then a_skip F fuel' a1 else Ok (as_r a1 (rs_err (a_r a1) e), e)
            | Err e => Err e | Panic w => Panic w | Stuck => Stuck
            end
        end
      else Ok (a, eNil)
  end.

Fixpoint a_copy (F : file) (fuel : nat) (a : astate) (n : Z) (acc : list Z) : outcome (astate * list Z * Z) :=
  if zlen acc <? n then
    match fuel with
    | O => Stuck
    | S fuel' =>
        match acur a with
        | None => Panic 3
        | Some i =>
            let '(b, bs, e) := b_read (ablk a i) (n - zlen acc) in
            let a1 := as_r a (rs_st (a_r a) (sset (r_st (a_r a)) i b)) in
            let acc1 := acc ++ bs in
            if e =? eEOF then
              if zlen acc1 =? n then Ok (as_r a1 (rs_end (rs_err (a_r a1) eNil) (b_tx b)), acc1, eNil)
              else if r_blocked (a_r a) then Ok (as_r a1 (rs_end (rs_err (a_r a1) eNil) (b_tx b)), acc1, eEOF)
              else
                match a_nextBlock F a1 with
                | Ok (a2, e2) =>
                    if e2 =? eNil then a_copy F fuel' a2 n acc1
                    else Ok (as_r a2 (rs_end (rs_err (a_r a2) e2) (cur_tx (a_r a2))), acc1, e2)
                | Err e => Err e | Panic w => Panic w | Stuck => Stuck
                end
            else a_copy F fuel' a1 n acc1
        end
    end
  else Ok (as_r a (rs_end (rs_err (a_r a) eNil) (cur_tx (a_r a))), acc, eNil).

Definition a_fuel (F : file) (a : astate) : nat := (r_fuel F (a_r a) + 2 * length (a_decs a))%nat.

Definition a_read (F : file) (a : astate) (n : Z) : outcome (astate * list Z * Z) :=
  if negb (r_err (a_r a) =? eNil) then Ok (a, [], r_err (a_r a))
  else
    match a_skip F (a_fuel F a) a with
    | Ok (a1, e) =>
        if negb (e =? eNil) then Ok (a1, [], e)
        else a_copy F (a_fuel F a + Z.to_nat n) (as_r a1 (rs_begin (a_r a1) (cur_tx (a_r a1)))) n []
    | Err e => Err e | Panic w => Panic w | Stuck => Stuck
    end.

Definition a_readbyte (F : file) (a : astate) : outcome (astate * list Z * Z) :=
  if negb (r_err (a_r a) =? eNil) then Ok (a, [], r_err (a_r a))
  else
    match a_skip F (a_fuel F a) a with
    | Ok (a1, e) =>
        if negb (e =? eNil) then Ok (a1, [], e)
        else
          let a2 := as_r a1 (rs_begin (a_r a1) (cur_tx (a_r a1))) in
          match acur a2 with
          | None => Panic 3
          | Some i =>
              let '(b, bs, e1) := b_readbyte (ablk a2 i) in
              let a3 := as_r a2 (rs_st (a_r a2) (sset (r_st (a_r a2)) i b)) in
              if e1 =? eEOF then
                if r_blocked (a_r a3) then Ok (as_r a3 (rs_end (rs_err (a_r a3) eNil) (b_tx b)), bs, eEOF)
                else match a_nextBlock F a3 with
                     | Ok (a4, e2) => Ok (as_r a4 (rs_end (rs_err (a_r a4) e2) (cur_tx (a_r a4))), bs, e2)
                     | Err e => Err e | Panic w => Panic w | Stuck => Stuck
                     end
              else Ok (as_r a3 (rs_end (rs_err (a_r a3) e1) (b_tx b)), bs, e1)
          end
    | Err e => Err e | Panic w => Panic w | Stuck => Stuck
    end.

(** The send "bg.control <- v": blocks while control is full. *)
Fixpoint send_control (F : file) (fuel : nat) (a : astate) (v : Z) : outcome astate :=
  match a_control a with
  | None => Ok (as_control a (Some v))
  | Some _ => match fuel with
              | O => Stuck
              | S fuel' => match t_step F a with
                           | None => Stuck
                           | Some (Ok a1) => send_control F fuel' a1 v
                           | Some (Err e) => Err e | Some (Panic w) => Panic w | Some Stuck => Stuck
                           end
              end
  end.

(** The select of Seek over waiting and working: (state, decompressor, from working?). *)
Fixpoint select_dec (F : file) (fuel : nat) (a : astate) : outcome (astate * nat * bool) :=
  match a_waiting a, a_working a with
  | d :: w, [] => Ok (as_waiting a w, d, false)
  | [], d :: w => Ok (as_working a w, d, true)
  | d1 :: w1, d2 :: w2 =>
      let '(x, a1) := pop_sched a in
      if Nat.even x then Ok (as_waiting a1 w1, d1, false) else Ok (as_working a1 w2, d2, true)
  | [], [] => match fuel with
              | O => Stuck
              | S fuel' => match t_step F a with
                           | None => Stuck
                           | Some (Ok a1) => select_dec F fuel' a1
                           | Some (Err e) => Err e | Some (Panic w) => Panic w | Some Stuck => Stuck
                           end
              end
  end.

Definition cur_next (a : astate) : Z :=
  match acur a with Some i => b_next (ablk a i) | None => -1 end.

(** Reader.Seek, bg.dec == nil. *)
Definition a_seek (F : file) (a : astate) (f o : Z) : outcome (astate * Z) :=
  match acur a with
  | None => Panic 3
  | Some ci =>
      let cur := ablk a ci in
      let fin (a1 : astate) : outcome (astate * Z) :=
        match acur a1 with
        | None => Panic 3
        | Some i =>
            if negb (b_has (ablk a1 i)) then Panic 4
            else
              let r2 := rs_err (rs_st (a_r a1) (sset (r_st (a_r a1)) i (b_seek (ablk a1 i) o))) eNil in
              Ok (as_r a1 (rs_lc r2 ((f, o), (f, o))), eNil)
        end in
      if negb (f =? b_base cur) || negb (b_has cur) then
        match r_cacheSwap (a_r a) f with
        | Ok (r1, true) => fin (as_r a r1)
        | Ok (r1, false) =>
            let a1 := as_r a r1 in
            match select_dec F (S (length (a_decs a))) a1 with
            | Ok (a2, d, fromWorking) =>
                (* from working: the decompressor may hold the wanted block *)
                let pre : outcome (astate * bool) :=
                  if fromWorking then
                    let '(a3, blk, err) := a_wait a2 d in
                    if err =? eNil then
                      match a_keep a3 blk with
                      | Ok a4 =>
                          if blk_base a4 blk =? f then
                            let a5 := as_r a4 (rs_cur (a_r a4) blk) in
                            match send_control F (S (length (a_decs a))) a5 (cur_next a5) with
                            | Ok a6 => Ok (as_waiting a6 (a_waiting a6 ++ [d]), true)
                            | Err e => Err e | Panic w => Panic w | Stuck => Stuck
                            end
                          else Ok (a4, false)
                      | Err e => Err e | Panic w => Panic w | Stuck => Stuck
                      end
                    else Ok (a3, false)
                  else Ok (a2, false) in
                match pre with
                | Ok (a3, true) => fin a3
                | Ok (a3, false) =>
                    (* synchronous fetch with the selected decompressor, re-using current *)
                    match a_fetch F a3 d (acur a3) f with
                    | Ok a4 =>
                        let '(a5, blk, err) := a_wait a4 d in
                        let a6 := as_r a5 (rs_err (rs_cur (a_r a5) blk) err) in
                        let a7 := as_control a6 None in                 (* select { case <-control: default: } *)
                        let a8 := as_waiting (as_control a7 (Some (cur_next a7))) (a_waiting a7 ++ [d]) in
                        if negb (err =? eNil) then Ok (a8, err) else fin a8
                    | Err e => Err e | Panic w => Panic w | Stuck => Stuck
                    end
                | Err e => Err e | Panic w => Panic w | Stuck => Stuck
                end
            | Err e => Err e | Panic w => Panic w | Stuck => Stuck
            end
        | Err e => Err e | Panic w => Panic w | Stuck => Stuck
        end
      else fin a
  end.

(** NewReader(r, rd), rd >= 2: the first member is fetched by bg.dec, which
    then joins the rd - 1 fresh decompressors in waiting. *)
Definition a_init (F : file) (rd : nat) (sched : list nat) : astate * Z :=
  let '(r, e) := r_init F in
  let next := match r_cur r with Some i => b_next (sget (r_st r) i) | None => -1 end in
  (mkA r (repeat (mkD None 0) rd) (seq 1 (rd - 1) ++ [O]) [] None (TIdle next) sched, e).

Definition a_step (F : file) (ch : list nat) (a0 : astate) (o : rop) : outcome (astate * fret) :=
  let '(k, a1) := pop_sched a0 in
  match t_run F k a1 with
  | Ok a =>
      match o with
      | OSeek f b => match a_seek F a f b with Ok (a', e) => Ok (a', ([], e))
                     | Err e => Err e | Panic w => Panic w | Stuck => Stuck end
      | OReseek => let '(f, b) := fst (r_lc (a_r a)) in
                   match a_seek F a f b with Ok (a', e) => Ok (a', ([], e))
                   | Err e => Err e | Panic w => Panic w | Stuck => Stuck end
      | ORead n => match a_read F a n with Ok (a', bs, e) => Ok (a', (bs, e))
                   | Err e => Err e | Panic w => Panic w | Stuck => Stuck end
      | OByte => match a_readbyte F a with Ok (a', bs, e) => Ok (a', (bs, e))
                 | Err e => Err e | Panic w => Panic w | Stuck => Stuck end
      | OBlocked b =>
          let r := a_r a in Ok (as_r a (mkR (r_st r) (r_cur r) (r_err r) (r_lc r) b (r_cache r)), ([], eNil))
      | OSetCache k cap =>
          Ok (as_r a (rs_cache (a_r a) (if cap <? 1 then None else Some (c_empty k cap ch))), ([], eNil))
      end
  | Err e => Err e | Panic w => Panic w | Stuck => Stuck
  end.

Fixpoint a_run (F : file) (ch : list nat) (a : astate) (ops : list rop) : outcome (list robs) :=
  match ops with
  | [] => Ok []
  | o :: ops' =>
      match a_step F ch a o with
      | Ok (a', r) => match a_run F ch a' ops' with
                      | Ok l => Ok ((r, r_lc (a_r a'), r_blen (a_r a')) :: l)
                      | Err e => Err e | Panic w => Panic w | Stuck => Stuck end
      | Err e => Err e | Panic w => Panic w | Stuck => Stuck
      end
  end.

(** Correspondence: the implementation's observations of a history (rd >= 2)
    must be reproduced under each of the given schedules. *)
Record acase := mkACase { ac_rd : nat; ac_case : rcase; ac_scheds : list (list nat) }.

Definition async_agree (c : acase) : bool :=
  let F := rc_file (ac_case c) in
  wf_file F &&
  forallb (fun sched =>
             match a_run F (rc_choice (ac_case c)) (fst (a_init F (ac_rd c) sched)) (rc_ops (ac_case c)) with
             | Ok l => obs_all l (rc_obs (ac_case c))
             | _ => false
             end) (ac_scheds c).

(** How a run ends: 0 returned, 1 panic, 2 stuck (deadlock), 3 error. *)
Definition a_outcome (F : file) (rd : nat) (sched : list nat) (ops : list rop) : Z :=
  match a_run F [] (fst (a_init F rd sched)) ops with
  | Ok _ => 0 | Panic _ => 1 | Stuck => 2 | Err _ => 3 end.
