(** C06 — the alignment line as the SAM specification (SAMv1 sections 1.4 and
    1.5) describes it, written independently of the Go code: a record at the
    level of the specification (1-based positions, names, operation letters,
    bases, Phred values) and its text.  [view] maps the library's in-memory
    record to that level.  Executable definitions only. *)
From Coq Require Import ZArith List Bool.
From Hts Require Import Base.Prim Model.SamText.
Import ListNotations.
Open Scope Z_scope.

Inductive spec_val :=
| SA (c : Z)                       (* A: printable character *)
| SI (v : Z)                       (* i: integer *)
| SF (bits : Z)                    (* f: float (bit pattern) *)
| SZ (s : list Z)                  (* Z: string *)
| SH (b : list Z)                  (* H: byte array in hex *)
| SBI (sub : Z) (vs : list Z)      (* B: integer array with element type letter *)
| SBF (vs : list Z).               (* B:f *)

Record spec_rec := mk_spec {
  s_qname : list Z;
  s_flag : Z;
  s_rname : option (list Z);       (* None: '*' *)
  s_pos : Z;                       (* 1-based, 0 when unavailable *)
  s_mapq : Z;
  s_cigar : list (Z * Z);          (* (length, index into MIDNSHP=X); [] : '*' *)
  s_rnext : option (list Z);
  s_pnext : Z;
  s_tlen : Z;
  s_seq : list Z;                  (* bases; [] : '*' *)
  s_qual : option (list Z);        (* Phred values; None : '*' *)
  s_opt : list (list Z * spec_val) (* TAG, value *)
}.

Definition spec_ops : list Z := [77; 73; 68; 78; 83; 72; 80; 61; 88].           (* MIDNSHP=X *)
Definition spec_bases : list Z := [61; 65; 67; 77; 71; 82; 83; 86; 84; 87; 89; 72; 75; 68; 66; 78]. (* =ACMGRSVTWYHKDBN *)

Fixpoint join (sep : Z) (fs : list (list Z)) : list Z :=
  match fs with
  | [] => []
  | [f] => f
  | f :: t => f ++ sep :: join sep t
  end.

Definition star_or (o : option (list Z)) : list Z := match o with Some s => s | None => [42] end.

Definition hex_upper (d : Z) : Z := if d <? 10 then 48 + d else 55 + d.

Section Spec.
  Variable fmt_f32 : Z -> list Z.

  Definition spec_value (v : spec_val) : list Z * list Z :=   (* TYPE letter, VALUE *)
    match v with
    | SA c => ([65], [c])
    | SI n => ([105], print_Z n)
    | SF b => ([102], fmt_f32 b)
    | SZ s => ([90], s)
    | SH b => ([72], flat_map (fun c => [hex_upper (c / 16); hex_upper (c mod 16)]) b)
    | SBI sub vs => ([66], sub :: flat_map (fun n => 44 :: print_Z n) vs)
    | SBF vs => ([66], 102 :: flat_map (fun b => 44 :: fmt_f32 b) vs)
    end.

  Definition spec_opt (o : list Z * spec_val) : list Z :=
    let '(ty, v) := spec_value (snd o) in fst o ++ [58] ++ ty ++ [58] ++ v.

  Definition spec_cigar (c : list (Z * Z)) : list Z :=
    match c with
    | [] => [42]
    | _ => flat_map (fun lo => print_Z (fst lo) ++ [nth (Z.to_nat (snd lo)) spec_ops 63]) c
    end.

  Definition spec_rnext (s : spec_rec) : list Z :=
    match s_rnext s, s_rname s with
    | Some m, Some r => if beq m r then [61] else m
    | Some m, None => m
    | None, _ => [42]
    end.

  (** The alignment line: fields separated by TAB. *)
  Definition spec_format (flagtext : list Z) (s : spec_rec) : list Z :=
    join 9 ([ s_qname s; flagtext; star_or (s_rname s); print_Z (s_pos s); print_Z (s_mapq s);
              spec_cigar (s_cigar s); spec_rnext s; print_Z (s_pnext s); print_Z (s_tlen s);
              (match s_seq s with [] => [42] | q => q end);
              (match s_qual s with None => [42] | Some q => map (fun p => p + 33) q end) ]
            ++ map spec_opt (s_opt s)).
End Spec.

(* ------------------------------------------------ the library record, viewed *)

(** SAMv1 4.2.3: the bases are 4-bit codes into "=ACMGRSVTWYHKDBN", two per
    byte, the first base of a pair in the high nibble. *)
Definition base_at (ds : list Z) (j : nat) : Z :=
  let d := nth (Nat.div2 j) ds 0 in
  nth (Z.to_nat (if Nat.even j then d / 16 else d mod 16)) spec_bases 0.

Definition view_val (v : auxv) : spec_val :=
  match v with
  | AvA c => SA c
  | AvInt _ n => SI n
  | AvF b => SF b
  | AvZ s => SZ s
  | AvH b => SH b
  | AvBI ty vs => SBI ty vs
  | AvBF vs => SBF vs
  end.

Definition view_name (h : header) (r : option nat) : option (list Z) :=
  match r with None => None | Some i => option_map fst (nth_error h i) end.

Definition all_ff (q : list Z) : bool := forallb (fun v => v =? 255) q.

Definition view (h : header) (r : samrec) : spec_rec :=
  mk_spec (r_name r) (r_flags r) (view_name h (r_ref r)) (r_pos r + 1) (r_mapq r)
          (map (fun co => (co / 16, co mod 16)) (r_cigar r))
          (view_name h (r_mref r)) (r_mpos r + 1) (r_tlen r)
          (map (base_at (r_seq r)) (seq 0 (Z.to_nat (r_seqlen r))))
          (match r_qual r with
           | None => None
           | Some q => if all_ff q then None else Some q
           end)
          (map (fun a => ([a_t0 a; a_t1 a], view_val (a_val a))) (r_aux r)).

(* ------------------------------------------------------- text made of lines *)

(** A text file as the specification sees it: lines, each ended by LF or
    CRLF; only the last line may lack its terminator. *)
Inductive eol := ELF | ECRLF | ENONE.
Definition eol_bytes (e : eol) : list Z :=
  match e with ELF => [10] | ECRLF => [13; 10] | ENONE => [] end.
Fixpoint join_lines (ls : list (list Z * eol)) : list Z :=
  match ls with
  | [] => []
  | (l, e) :: t => l ++ eol_bytes e ++ join_lines t
  end.
