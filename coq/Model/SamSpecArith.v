(** C16, specification side. Written from the SAM/BAM specification (SAMv1
    sections 1.4 "The alignment section: mandatory fields", 4.2 "The BAM
    format", 4.2.1 "BIN field calculation", 5.3 "C source code for computing
    bin number and overlapping bins") and from the CSI index note (CSIv1,
    the generalisation of the binning scheme with min_shift and depth).
    Nothing in this file refers to the library or to Generated.v.
    Executable definitions only. *)
From Coq Require Import ZArith List Bool.
Import ListNotations.
Open Scope Z_scope.

(** ** CIGAR operations (SAMv1 1.4, table of CIGAR operations; BAM codes 0..8)
    and the 'B' extension (code 9, "move backwards on the reference"). *)
Inductive cop := opM | opI | opD | opN | opS | opH | opP | opEQ | opX | opB
  | opU.  (* codes 10..15: not an operation of SAMv1; it describes nothing, so it
             consumes neither query nor reference and is neither S nor H *)

Definition cop_of_code (k : Z) : option cop :=
  match k with
  | 0 => Some opM | 1 => Some opI | 2 => Some opD | 3 => Some opN | 4 => Some opS
  | 5 => Some opH | 6 => Some opP | 7 => Some opEQ | 8 => Some opX | 9 => Some opB
  | 10 | 11 | 12 | 13 | 14 | 15 => Some opU
  | _ => None
  end.

(** "Consumes query" / "consumes reference" columns of the table in 1.4. *)
Definition consumes_query (o : cop) : bool :=
  match o with opM | opI | opS | opEQ | opX => true | _ => false end.
Definition consumes_ref (o : cop) : bool :=
  match o with opM | opD | opN | opEQ | opX => true | _ => false end.

(** BAM packs an operation as [op_len << 4 | op] in a uint32 (4.2). *)
Definition spec_op_code (w : Z) : Z := w mod 16.
Definition spec_op_len (w : Z) : Z := w / 16.

Definition sop := (cop * Z)%type.

Fixpoint spec_decode (ws : list Z) : option (list sop) :=
  match ws with
  | [] => Some []
  | w :: tl =>
      match cop_of_code (spec_op_code w), spec_decode tl with
      | Some o, Some r => Some ((o, spec_op_len w) :: r)
      | _, _ => None
      end
  end.

(** Sum of lengths of the operations that consume the reference (M D N = X),
    resp. the query (M I S = X). *)
Fixpoint spec_reflen (c : list sop) : Z :=
  match c with
  | [] => 0
  | (o, n) :: tl => (if consumes_ref o then n else 0) + spec_reflen tl
  end.
Fixpoint spec_querylen (c : list sop) : Z :=
  match c with
  | [] => 0
  | (o, n) :: tl => (if consumes_query o then n else 0) + spec_querylen tl
  end.

Definition has_back (c : list sop) : bool :=
  existsb (fun x => match fst x with opB => true | _ => false end) c.

(** Signed movement on the reference, 'B' moving backwards. *)
Definition ref_step (x : sop) : Z :=
  match fst x with
  | opB => - snd x
  | o => if consumes_ref o then snd x else 0
  end.

(** Rightmost reference coordinate reached (exclusive end) by an alignment
    starting at [pos]: with 'B' the position may move left again, so the end is
    the maximum over all prefixes; without 'B' it is [pos + spec_reflen]. *)
Fixpoint spec_end_from (cur : Z) (c : list sop) : Z :=
  match c with
  | [] => cur
  | x :: tl => Z.max cur (spec_end_from (cur + ref_step x) tl)
  end.

(** Flag bits (1.4): 0x4 segment unmapped. *)
Definition spec_unmapped (flags : Z) : bool := Z.testbit flags 2.   (* 0x4 = 2^2 *)

(** End of the alignment, 0-based exclusive. For unmapped reads the alignment
    is treated as being of length one (4.2.1); a read without CIGAR has no
    alignment length and is treated the same way. *)
Definition spec_end (flags pos : Z) (c : list sop) : Z :=
  if spec_unmapped flags || match c with [] => true | _ => false end then pos + 1
  else spec_end_from pos c.

Definition spec_len (flags pos : Z) (c : list sop) : Z := spec_end flags pos c - pos.

(** ** CIGAR validity (1.4, notes under the CIGAR table)
    - "H can only be present as the first and/or last operation."
    - "S may only have H operations between them and the ends of the CIGAR string."
    - "Sum of lengths of the M/I/S/=/X operations shall equal the length of SEQ."
    and for the 'B' extension (library documentation): back operations only
    result in query-consuming positions at or right of the alignment start. *)
Definition is_H (x : sop) : bool := match fst x with opH => true | _ => false end.
Definition is_S (x : sop) : bool := match fst x with opS => true | _ => false end.

(** [clip_ok_at before x after]: the operation [x] with the operations before
    and after it. *)
Definition clip_ok_at (before : list sop) (x : sop) (after : list sop) : bool :=
  (if is_H x then match before, after with [], _ => true | _, [] => true | _, _ => false end else true)
  && (if is_S x then forallb is_H before || forallb is_H after else true).

Fixpoint clip_ok_from (before : list sop) (c : list sop) : bool :=
  match c with
  | [] => true
  | x :: tl => clip_ok_at before x tl && clip_ok_from (before ++ [x]) tl
  end.
Definition spec_clip_ok (c : list sop) : bool := clip_ok_from [] c.

(** Every query-consuming operation starts at a reference offset >= 0. *)
Fixpoint back_ok_from (off : Z) (c : list sop) : bool :=
  match c with
  | [] => true
  | x :: tl =>
      (if consumes_query (fst x) then 0 <=? off else true)
      && back_ok_from (off + ref_step x) tl
  end.

Definition spec_valid (c : list sop) (seqlen : Z) : bool :=
  spec_clip_ok c && back_ok_from 0 c && (spec_querylen c =? seqlen).

(** ** 5.3: the fixed binning scheme of BAI, transcribed from the C source.

    int reg2bin(int beg, int end) {
        --end;
        if (beg>>14 == end>>14) return ((1<<15)-1)/7 + (beg>>14);
        if (beg>>17 == end>>17) return ((1<<12)-1)/7 + (beg>>17);
        if (beg>>20 == end>>20) return ((1<<9)-1)/7  + (beg>>20);
        if (beg>>23 == end>>23) return ((1<<6)-1)/7  + (beg>>23);
        if (beg>>26 == end>>26) return ((1<<3)-1)/7  + (beg>>26);
        return 0;
    } *)
Definition spec_reg2bin (beg end_ : Z) : Z :=
  let e := end_ - 1 in
  if Z.shiftr beg 14 =? Z.shiftr e 14 then (Z.shiftl 1 15 - 1) / 7 + Z.shiftr beg 14 else
  if Z.shiftr beg 17 =? Z.shiftr e 17 then (Z.shiftl 1 12 - 1) / 7 + Z.shiftr beg 17 else
  if Z.shiftr beg 20 =? Z.shiftr e 20 then (Z.shiftl 1 9 - 1) / 7 + Z.shiftr beg 20 else
  if Z.shiftr beg 23 =? Z.shiftr e 23 then (Z.shiftl 1 6 - 1) / 7 + Z.shiftr beg 23 else
  if Z.shiftr beg 26 =? Z.shiftr e 26 then (Z.shiftl 1 3 - 1) / 7 + Z.shiftr beg 26 else
  0.

(** [for (k = lo; k <= hi; ++k) list[i++] = k;] *)
Fixpoint count_up (lo : Z) (n : nat) : list Z :=
  match n with O => [] | S n' => lo :: count_up (lo + 1) n' end.
Definition range_incl (lo hi : Z) : list Z := count_up lo (Z.to_nat (hi - lo + 1)).

(** int reg2bins(int beg, int end, uint16_t list[MAX_BIN]) {
        int i = 0, k;
        --end;
        list[i++] = 0;
        for (k =    1 + (beg>>26); k <=    1 + (end>>26); ++k) list[i++] = k;
        for (k =    9 + (beg>>23); k <=    9 + (end>>23); ++k) list[i++] = k;
        for (k =   73 + (beg>>20); k <=   73 + (end>>20); ++k) list[i++] = k;
        for (k =  585 + (beg>>17); k <=  585 + (end>>17); ++k) list[i++] = k;
        for (k = 4681 + (beg>>14); k <= 4681 + (end>>14); ++k) list[i++] = k;
        return i;
    } *)
Definition spec_reg2bins (beg end_ : Z) : list Z :=
  let e := end_ - 1 in
  [0]
  ++ range_incl (1 + Z.shiftr beg 26) (1 + Z.shiftr e 26)
  ++ range_incl (9 + Z.shiftr beg 23) (9 + Z.shiftr e 23)
  ++ range_incl (73 + Z.shiftr beg 20) (73 + Z.shiftr e 20)
  ++ range_incl (585 + Z.shiftr beg 17) (585 + Z.shiftr e 17)
  ++ range_incl (4681 + Z.shiftr beg 14) (4681 + Z.shiftr e 14).

(** ** CSI: the same scheme with [min_shift] and [depth] (CSIv1).

    int reg2bin(int64_t beg, int64_t end, int min_shift, int depth) {
        int l, s = min_shift, t = ((1<<depth*3) - 1) / 7;
        for (--end, l = depth; l > 0; --l, s += 3, t -= 1<<l*3)
            if (beg>>s == end>>s) return t + (beg>>s);
        return 0;
    }
    The third clause of the [for] runs [--l] first, so [t -= 1<<l*3] uses the
    decremented level. *)
Fixpoint spec_csi_reg2bin_loop (l : nat) (beg e s t : Z) : Z :=
  match l with
  | O => 0
  | S l' =>
      if Z.shiftr beg s =? Z.shiftr e s then t + Z.shiftr beg s
      else spec_csi_reg2bin_loop l' beg e (s + 3) (t - Z.shiftl 1 (Z.of_nat l' * 3))
  end.
Definition spec_csi_reg2bin (beg end_ min_shift depth : Z) : Z :=
  spec_csi_reg2bin_loop (Z.to_nat depth) beg (end_ - 1) min_shift
    ((Z.shiftl 1 (depth * 3) - 1) / 7).

(** int reg2bins(int64_t beg, int64_t end, int min_shift, int depth, int *bins) {
        int l, t, n, s = min_shift + depth*3;
        for (--end, l = n = t = 0; l <= depth; s -= 3, t += 1<<l*3, ++l) {
            int b = t + (beg>>s), e = t + (end>>s), i;
            for (i = b; i <= e; ++i) bins[n++] = i;
        }
        return n;
    }
    [todo] is the number of iterations left (depth - l + 1). *)
Fixpoint spec_csi_reg2bins_loop (todo : nat) (l beg e s t : Z) : list Z :=
  match todo with
  | O => []
  | S todo' =>
      range_incl (t + Z.shiftr beg s) (t + Z.shiftr e s)
      ++ spec_csi_reg2bins_loop todo' (l + 1) beg e (s - 3) (t + Z.shiftl 1 (l * 3))
  end.
Definition spec_csi_reg2bins (beg end_ min_shift depth : Z) : list Z :=
  spec_csi_reg2bins_loop (S (Z.to_nat depth)) 0 beg (end_ - 1) (min_shift + depth * 3) 0.

(** ** Geometry of the scheme, independent of either piece of C code.
    Level [l] (0 = root .. depth = finest) has [8^l] bins of width
    [2^(min_shift + 3*(depth-l))], numbered from [(8^l - 1)/7]. *)
Definition level_offset (l : Z) : Z := (8 ^ l - 1) / 7.
Definition level_shift (min_shift depth l : Z) : Z := min_shift + 3 * (depth - l).
(** Bin [level_offset l + i] covers [i*2^shift, (i+1)*2^shift). *)
Definition bin_lo (min_shift depth l i : Z) : Z := i * 2 ^ level_shift min_shift depth l.
Definition bin_hi (min_shift depth l i : Z) : Z := (i + 1) * 2 ^ level_shift min_shift depth l.

(** BIN of a record (4.2.1): reg2bin of the 0-based position and the end of the
    alignment; unmapped reads count as length one, which for POS 0 (-1 in BAM)
    gives reg2bin(-1, 0) = 4680. *)
Definition spec_bin (flags pos : Z) (c : list sop) : Z :=
  spec_reg2bin pos (spec_end flags pos c).
