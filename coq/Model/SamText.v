(** C06 — model of the SAM text codec of package sam (record.go, auxtags.go,
    cigar.go, sam.go, flag.go), following the Go code as it is.

    Bytes are [Z]; strings and slices are [list Z].  Go [int] is unbounded [Z]
    (range checks of strconv are explicit).  The tables and format strings
    ([sam_n16Table], [sam_cigarOps], [sam_consume], [sam_auxKind],
    [sam_MarshalSAM_format] ...) come from [Generated.v], i.e. from the Go
    source on every run.  float32 values are carried as their 32 bit patterns;
    their text form is a pair of functions [fmt_f32]/[parse_f32] passed as
    parameters (strconv is an external library).

    Executable definitions only; lemmas are in Proofs/SamText.v. *)
From Coq Require Import ZArith List Bool Lia.
From Hts Require Import Base.Prim Generated.
Import ListNotations.
Open Scope Z_scope.

(* ------------------------------------------------------------------ bytes *)

Fixpoint beq (a b : list Z) : bool :=
  match a, b with
  | [], [] => true
  | x :: a', y :: b' => (x =? y) && beq a' b'
  | _, _ => false
  end.

(** bytes.Split(b, []byte{sep}): always at least one field. *)
Fixpoint split_on (sep : Z) (b : list Z) : list (list Z) :=
  match b with
  | [] => [[]]
  | c :: t =>
      if c =? sep then [] :: split_on sep t
      else match split_on sep t with
           | f :: fs => (c :: f) :: fs
           | [] => [[c]]
           end
  end.

Definition is_digit (c : Z) : bool := (48 <=? c) && (c <=? 57).

(** Digits of a non-negative number in base [b] (10 or 16, lower case), most
    significant first; fuel = number of digits allowed. *)
Definition digit_char (d : Z) : Z := if d <? 10 then 48 + d else 87 + d.
Fixpoint pdigits (b : Z) (fuel : nat) (n : Z) : list Z :=
  match fuel with
  | O => []
  | S f => if n <? b then [digit_char n] else pdigits b f (n / b) ++ [digit_char (n mod b)]
  end.
Definition print_nat_base (b n : Z) : list Z := pdigits b (S (Z.to_nat (Z.log2 n))) n.
(** %d / %v of an integer *)
Definition print_Z (z : Z) : list Z :=
  if z <? 0 then 45 :: print_nat_base 10 (- z) else print_nat_base 10 z.
(** %x of an unsigned integer *)
Definition print_hex (z : Z) : list Z := print_nat_base 16 z.
(** %02x / %x of a byte slice or string: two lower-case digits per byte *)
Definition hex_bytes (l : list Z) : list Z :=
  flat_map (fun c => [digit_char (c / 16); digit_char (c mod 16)]) l.
Definition digit_char_upper (d : Z) : Z := if d <? 10 then 48 + d else 55 + d.
Definition hex_bytes_upper (l : list Z) : list Z :=
  flat_map (fun c => [digit_char_upper (c / 16); digit_char_upper (c mod 16)]) l.
(** %c of a byte value: the UTF-8 encoding of the code point (< 256) *)
Definition utf8_byte (c : Z) : list Z :=
  if c <? 128 then [c] else [Z.lor 192 (Z.shiftr c 6); Z.lor 128 (Z.land c 63)].

(* -------------------------------------------------------------- strconv *)

Definition lower (c : Z) : Z := Z.lor c 32.

Definition digit_val (c : Z) : option Z :=
  if is_digit c then Some (c - 48)
  else let l := lower c in
       if (97 <=? l) && (l <=? 122) then Some (l - 97 + 10) else None.

(** The digit loop of strconv.ParseUint without the width: syntax only. *)
Fixpoint digits_val (base : Z) (base0 : bool) (l : list Z) (acc : Z) : option Z :=
  match l with
  | [] => Some acc
  | c :: t =>
      if (c =? 95) && base0 then digits_val base base0 t acc
      else match digit_val c with
           | None => None
           | Some d => if base <=? d then None else digits_val base base0 t (acc * base + d)
           end
  end.

(** strconv.underscoreOK; [saw]: 0 = '^', 1 = '0', 2 = '_', 3 = '!' *)
Fixpoint underscore_loop (hex : bool) (saw : Z) (s : list Z) : bool :=
  match s with
  | [] => negb (saw =? 2)
  | c :: t =>
      if is_digit c || (hex && (97 <=? lower c) && (lower c <=? 102)) then underscore_loop hex 1 t
      else if c =? 95 then (if saw =? 1 then underscore_loop hex 2 t else false)
      else if saw =? 2 then false
      else underscore_loop hex 3 t
  end.
Definition underscore_ok (s0 : list Z) : bool :=
  let s := match s0 with c :: t => if (c =? 45) || (c =? 43) then t else s0 | [] => s0 end in
  match s with
  | 48 :: p :: t =>
      let lp := lower p in
      if (lp =? 98) || (lp =? 111) || (lp =? 120) then underscore_loop (lp =? 120) 1 t
      else underscore_loop false 0 s
  | _ => underscore_loop false 0 s
  end.

(** strconv.ParseUint(s, base, bits) for base 0 or 10; [None] = any error. *)
Definition go_parse_uint (s : list Z) (base : Z) (bits : Z) : option Z :=
  match s with
  | [] => None
  | c0 :: _ =>
      let base0 := base =? 0 in
      let '(b, ds) :=
        if base0 then
          if c0 =? 48 then
            match s with
            | _ :: p :: _ :: _ =>
                let lp := lower p in
                if lp =? 98 then (2, skipn 2 s)
                else if lp =? 111 then (8, skipn 2 s)
                else if lp =? 120 then (16, skipn 2 s)
                else (8, skipn 1 s)
            | _ => (8, skipn 1 s)
            end
          else (10, s)
        else (base, s) in
      match digits_val b base0 ds 0 with
      | None => None
      | Some n =>
          if 2 ^ bits <=? n then None
          else if existsb (Z.eqb 95) ds && base0 && negb (underscore_ok s) then None
          else Some n
      end
  end.

(** strconv.ParseInt(s, base, bits) *)
Definition go_parse_int (s : list Z) (base : Z) (bits : Z) : option Z :=
  match s with
  | [] => None
  | c0 :: t =>
      let '(neg, s1) := if c0 =? 43 then (false, t) else if c0 =? 45 then (true, t) else (false, s) in
      match go_parse_uint s1 base bits with
      | None => None
      | Some un =>
          let cutoff := 2 ^ (bits - 1) in
          if negb neg && (cutoff <=? un) then None
          else if neg && (cutoff <? un) then None
          else Some (if neg then - un else un)
      end
  end.

(** strconv.Atoi on a 64 bit platform. *)
Definition go_atoi (s : list Z) : option Z := go_parse_int s 10 64.

(* ------------------------------------------------ fmt.Sprintf (the subset) *)

Inductive farg :=
| FS (s : list Z)          (* string or []byte operand *)
| FD (z : Z)               (* integer operand *)
| FC (c : Z)               (* byte operand printed with %c *)
| FStringer (z : Z) (s : list Z). (* integer type with a String method *)

Definition fpiece (verb : Z) (a : farg) : option (list Z) :=
  match a with
  | FS s => if (verb =? 115) || (verb =? 118) then Some s          (* %s %v *)
            else if verb =? 120 then Some (hex_bytes s)             (* %x *)
            else if verb =? 88 then Some (hex_bytes_upper s)        (* %X *)
            else None
  | FD z => if (verb =? 100) || (verb =? 118) then Some (print_Z z) (* %d %v *)
            else if verb =? 120 then (if z <? 0 then None else Some (print_hex z))
            else None
  | FC c => if verb =? 99 then Some (utf8_byte c) else None         (* %c *)
  | FStringer z s =>
      (* handleMethods: %v %s %x %X %q use String(); %d the number *)
      if (verb =? 115) || (verb =? 118) then Some s
      else if verb =? 120 then Some (hex_bytes s)
      else if verb =? 100 then Some (print_Z z) else None
  end.

Fixpoint sprintf (f : list Z) (args : list farg) : option (list Z) :=
  match f with
  | [] => match args with [] => Some [] | _ => None end
  | 37 :: 48 :: 50 :: 120 :: t =>                                   (* %02x of bytes *)
      match args with
      | FS s :: rest =>
          (* width 2, zero padded: only an empty operand is shorter than the width *)
          option_map (app (match s with [] => [48; 48] | _ => hex_bytes s end)) (sprintf t rest)
      | _ => None
      end
  | 37 :: v :: t =>
      match args with
      | a :: rest =>
          match fpiece v a, sprintf t rest with
          | Some p, Some q => Some (p ++ q)
          | _, _ => None
          end
      | [] => None
      end
  | c :: t => option_map (cons c) (sprintf t args)
  end.

Definition of_opt {A} (o : option A) : outcome A :=
  match o with Some a => Ok a | None => Stuck end.

(* ------------------------------------------------------------------ CIGAR *)

Definition cig_type (co : Z) : Z := Z.land co 15.
Definition cig_len (co : Z) : Z := Z.shiftr co 4.
Definition cig_max : Z := 2 ^ 28 - 1.

(** CigarOpType.String *)
Definition cig_type_string (ct : Z) : list Z :=
  let ct' := if (ct <? 0) || (sam_lastCigar <? ct) then sam_lastCigar else ct in
  nth (Z.to_nat ct') sam_cigarOps [].

(** CigarOp.String: Sprintf("%d%s", co.Len(), co.Type().String()) *)
Definition cig_op_string (co : Z) : option (list Z) :=
  sprintf (nth 0 sam_CigarOp_formats []) [FD (cig_len co); FS (cig_type_string (cig_type co))].

(** Cigar.String *)
Fixpoint cig_ops_string (c : list Z) : option (list Z) :=
  match c with
  | [] => Some []
  | co :: t => match cig_op_string co, cig_ops_string t with
               | Some a, Some b => Some (a ++ b)
               | _, _ => None
               end
  end.
Definition cigar_string (c : list Z) : option (list Z) :=
  match c with [] => Some [42] | _ => cig_ops_string c end.

(** cigarOpTypeLookup, as filled by init() *)
Fixpoint index_of (c : Z) (l : list Z) (i : Z) : option Z :=
  match l with [] => None | x :: t => if x =? c then Some i else index_of c t (i + 1) end.
(** init() assigns in order, so a repeated letter keeps the LAST position *)
Fixpoint last_index_of (c : Z) (l : list Z) (i : Z) (found : option Z) : option Z :=
  match l with [] => found | x :: t => last_index_of c t (i + 1) (if x =? c then Some i else found) end.
Definition cigar_lookup (c : Z) : Z :=
  match last_index_of c sam_cigarLetters 0 None with Some i => i | None => sam_lastCigar end.

(** atoi of cigar.go on a string of decimal digits: at most len(powers) digits *)
Fixpoint dec_val (l : list Z) (acc : Z) : Z :=
  match l with [] => acc | c :: t => dec_val t (10 * acc + u8 (c - 48)) end.
Definition cigar_atoi (ds : list Z) : option Z :=
  if zlen sam_powers <? zlen ds then None else Some (dec_val ds 0).

(** NewCigarOp: panics when uint64(n) > 1<<28-1 *)
Definition new_cigar_op (t n : Z) : outcome Z :=
  if (n <? 0) || (cig_max <? n) then Panic 2
  else Ok (Z.lor (u32 t) (u32 (Z.shiftl (u32 n) 4))).

(** the inner "for { c = append(c, NewCigarOp(op, min(n, max))); n -= max; if n <= 0 {break} }" *)
Fixpoint cig_emit (fuel : nat) (op n : Z) (acc : list Z) : outcome (Z * list Z) :=
  match fuel with
  | O => Stuck
  | S f =>
      match new_cigar_op op (Z.min n cig_max) with
      | Ok co =>
          let acc' := acc ++ [co] in
          let n' := n - cig_max in
          if n' <=? 0 then Ok (n', acc') else cig_emit f op n' acc'
      | Err e => Err e | Panic w => Panic w | Stuck => Stuck
      end
  end.
Definition cig_emit_fuel (n : Z) : nat := S (S (Z.to_nat (n / cig_max))).

Fixpoint span_digits (b : list Z) : list Z * list Z :=
  match b with
  | [] => ([], [])
  | c :: t => if is_digit c then let '(d, r) := span_digits t in (c :: d, r) else ([], b)
  end.

Fixpoint parse_cigar_loop (fuel : nat) (b : list Z) (op n : Z) (acc : list Z) : outcome (list Z) :=
  match fuel with
  | O => Stuck
  | S f =>
      match b with
      | [] => Ok acc
      | _ :: tl_b =>
          let '(ds, rest) := span_digits b in
          match rest with
          | c :: rest' =>
              match cigar_atoi ds with
              | None => Err 0
              | Some n1 =>
                  let op1 := cigar_lookup c in
                  if op1 =? sam_lastCigar then Err 0
                  else obind (cig_emit (cig_emit_fuel n1) op1 n1 acc)
                             (fun '(n2, acc2) => parse_cigar_loop f rest' op1 n2 acc2)
              end
          | [] =>
              (* no operation letter found: "length without operation" *)
              Err 0
          end
      end
  end.

Definition parse_cigar (b : list Z) : outcome (list Z) :=
  if beq b [42] then Ok [] else parse_cigar_loop (S (length b)) b 0 0 [].

(** CigarOpType.Consumes: consume[ct], index checked *)
Definition consumes (ct0 : Z) : outcome (Z * Z) :=
  let ct := if sam_lastCigar <? ct0 then sam_lastCigar else ct0 in
  match nth_error sam_consume (Z.to_nat ct) with
  | Some qr => if ct <? 0 then Panic 1 else Ok qr
  | None => Panic 1
  end.

(** Cigar.IsValid(length) *)
Fixpoint is_valid_loop (c : list Z) (i : Z) (rest : list Z) (pos length : Z) : outcome bool :=
  match rest with
  | [] => Ok (length =? 0)
  | co :: t =>
      let ct := cig_type co in
      let last := zlen c - 1 in
      if (ct =? sam_CigarHardClipped) && negb (i =? 0) && negb (i =? last) then Ok false
      else if (ct =? sam_CigarSoftClipped) && negb (i =? 0) && negb (i =? last)
              && negb (cig_type (getz c (i - 1)) =? sam_CigarHardClipped)
              && negb (cig_type (getz c (i + 1)) =? sam_CigarHardClipped) then Ok false
      else obind (consumes ct) (fun '(q, r) =>
             if (pos <? 0) && negb (q =? 0) then Ok false
             else is_valid_loop c (i + 1) t (pos + cig_len co * r) (length - cig_len co * q))
  end.
Definition cigar_is_valid (c : list Z) (length : Z) : outcome bool := is_valid_loop c 0 c 0 length.

(* --------------------------------------------------------------- sequence *)

(** contract: two bases per Doublet through n16Table *)
Fixpoint contract (s : list Z) : list Z :=
  match s with
  | [] => []
  | [a] => [u8 (Z.shiftl (getz sam_n16Table a) 4)]
  | a :: b :: t => Z.lor (u8 (Z.shiftl (getz sam_n16Table a) 4)) (getz sam_n16Table b) :: contract t
  end.

(** Seq.Expand: indexes ns.Seq[i>>1] for i < Length (panics when Seq is short) *)
Fixpoint expand_from (fuel : nat) (i len : Z) (ds : list Z) : outcome (list Z) :=
  match fuel with
  | O => Ok []
  | S f =>
      if len <=? i then Ok []
      else
        let k := Z.shiftr i 1 in
        chk (inb ds k)
            (let d := getz ds k in
             let nib := if Z.land i 1 =? 0 then Z.shiftr d 4 else Z.land d 15 in
             chk (inb sam_n16TableRev nib)
                 (obind (expand_from f (i + 1) len ds) (fun r => Ok (getz sam_n16TableRev nib :: r))))
  end.
Definition expand (len : Z) (ds : list Z) : outcome (list Z) :=
  if len <? 0 then Panic 3 (* make([]byte, negative) *) else expand_from (Z.to_nat len) 0 len ds.

Definition format_seq (len : Z) (ds : list Z) : outcome (list Z) :=
  if len =? 0 then Ok [42] else expand len ds.

(* ---------------------------------------------------------------- quality *)

Definition format_qual (q : list Z) : list Z :=
  if existsb (fun v => negb (v =? 255)) q then map (fun p => u8 (p + 33)) q else [42].

(* -------------------------------------------------------------------- aux *)

(** An aux field, decoded: tag bytes and typed value.  Integer scalars carry
    their BAM type letter (c C s S i I); float values are bit patterns. *)
Inductive auxv :=
| AvA (c : Z)
| AvInt (ty : Z) (v : Z)
| AvF (bits : Z)
| AvZ (s : list Z)
| AvH (b : list Z)
| AvBI (ty : Z) (vs : list Z)
| AvBF (vs : list Z).
Record aux := mk_aux { a_t0 : Z; a_t1 : Z; a_val : auxv }.

Definition aux_type (v : auxv) : Z :=
  match v with
  | AvA _ => 65 | AvInt ty _ => ty | AvF _ => 102 | AvZ _ => 90 | AvH _ => 72
  | AvBI _ _ => 66 | AvBF _ => 66
  end.
Definition aux_kind (v : auxv) : Z := getz sam_auxKind (aux_type v).

(** NewAux on an int (negative) or uint (non-negative) value: smallest type *)
Definition new_aux_int (i : Z) : option auxv :=
  if i <? 0 then
    if - 2 ^ 7 <=? i then Some (AvInt 99 i)
    else if - 2 ^ 15 <=? i then Some (AvInt 115 i)
    else if - 2 ^ 31 <=? i then Some (AvInt 105 i)
    else None
  else
    if i <=? 2 ^ 8 - 1 then Some (AvInt 67 i)
    else if i <=? 2 ^ 16 - 1 then Some (AvInt 83 i)
    else if i <=? 2 ^ 32 - 1 then Some (AvInt 73 i)
    else None.

(** encoding/hex.Decode *)
Definition hex_nibble (c : Z) : option Z :=
  if is_digit c then Some (c - 48)
  else if (97 <=? c) && (c <=? 102) then Some (c - 87)
  else if (65 <=? c) && (c <=? 70) then Some (c - 55)
  else None.
Fixpoint hex_decode (s : list Z) : option (list Z) :=
  match s with
  | [] => Some []
  | [_] => None
  | a :: b :: t =>
      match hex_nibble a, hex_nibble b, hex_decode t with
      | Some x, Some y, Some r => Some (16 * x + y :: r)
      | _, _, _ => None
      end
  end.

Fixpoint map_opt {A B} (f : A -> option B) (l : list A) : option (list B) :=
  match l with
  | [] => Some []
  | x :: t => match f x, map_opt f t with Some y, Some r => Some (y :: r) | _, _ => None end
  end.

Section FloatText.
  (** strconv on float32: %v formatting of a float32 (given by its bits) and
      ParseFloat(s, 32) followed by float32(); [None] = error. *)
  Variable fmt_f32 : Z -> list Z.
  Variable parse_f32 : list Z -> option Z.

  (** samAux.String *)
  Definition aux_formats (k : nat) : list Z := nth k sam_samAux_formats [].
  Definition format_aux (a : aux) : option (list Z) :=
    let tag := [a_t0 a; a_t1 a] in
    let kind := aux_kind (a_val a) in
    match a_val a with
    | AvA c => sprintf (aux_formats 0) [FS tag; FC kind; FC c]
    | AvH b => sprintf (aux_formats 1) [FS tag; FC kind; FS b]
    | AvBI ty vs =>
        match sprintf (aux_formats 2) [FS tag; FC kind; FC ty],
              map_opt (fun v => sprintf (aux_formats 3) [FD v]) vs with
        | Some p, Some es => Some (p ++ concat es)
        | _, _ => None
        end
    | AvBF vs =>
        match sprintf (aux_formats 2) [FS tag; FC kind; FC 102],
              map_opt (fun v => sprintf (aux_formats 3) [FS (fmt_f32 v)]) vs with
        | Some p, Some es => Some (p ++ concat es)
        | _, _ => None
        end
    | AvInt _ v => sprintf (aux_formats 4) [FS tag; FC kind; FD v]
    | AvF bits => sprintf (aux_formats 4) [FS tag; FC kind; FS (fmt_f32 bits)]
    | AvZ s => sprintf (aux_formats 4) [FS tag; FC kind; FS s]
    end.

  (** the element parsers of a B array *)
  Definition parse_b_elems (sub : Z) (nf : list (list Z)) : option auxv :=
    if sub =? 99 then option_map (AvBI 99) (map_opt (fun n => go_parse_int n 0 8) nf)
    else if sub =? 67 then option_map (AvBI 67) (map_opt (fun n => go_parse_uint n 0 8) nf)
    else if sub =? 115 then option_map (AvBI 115) (map_opt (fun n => go_parse_int n 0 16) nf)
    else if sub =? 83 then option_map (AvBI 83) (map_opt (fun n => go_parse_uint n 0 16) nf)
    else if sub =? 105 then option_map (AvBI 105) (map_opt (fun n => go_parse_int n 0 32) nf)
    else if sub =? 73 then option_map (AvBI 73) (map_opt (fun n => go_parse_uint n 0 32) nf)
    else if sub =? 102 then option_map AvBF (map_opt parse_f32 nf)
    else None.

  (** ParseAux *)
  Definition parse_aux (text : list Z) : outcome aux :=
    if (zlen text <? 5) || negb (getz text 2 =? 58) || negb (getz text 4 =? 58) then Err 0
    else
      let txt := skipn 5 text in
      let typ := getz text 3 in
      let mk v := Ok (mk_aux (getz text 0) (getz text 1) v) in
      let opt (o : option auxv) := match o with Some v => mk v | None => Err 0 end in
      if typ =? 65 then (if zlen txt =? 1 then mk (AvA (getz txt 0)) else Err 0)
      else if typ =? 105 then
        match go_atoi txt with Some i => opt (new_aux_int i) | None => Err 0 end
      else if typ =? 102 then opt (option_map AvF (parse_f32 txt))
      else if typ =? 90 then mk (AvZ txt)
      else if typ =? 72 then opt (option_map AvH (hex_decode txt))
      else if typ =? 66 then
        if zlen txt =? 0 then Err 0
        else if zlen txt =? 1 then opt (parse_b_elems (getz txt 0) [])   (* nf stays nil *)
        else if negb (getz txt 1 =? 44) then Err 0
        else opt (parse_b_elems (getz txt 0) (split_on 44 (skipn 2 txt)))
      else Err 0.
End FloatText.

(* ----------------------------------------------------------------- record *)

(** the SEQ field in UnmarshalSAM: NewSeq unless "*", then the CIGAR check *)
Definition parse_seq_field (cigar : list Z) (f9 : list Z) : outcome (Z * list Z) :=
  if negb (beq f9 [42]) then
    let sl := zlen f9 in
    match cigar with
    | [] => Ok (sl, contract f9)
    | _ => obind (cigar_is_valid cigar sl) (fun v => if v then Ok (sl, contract f9) else Err 0)
    end
  else Ok (0, []).

(** the QUAL field in UnmarshalSAM: -33, or 0xff fill when "*" and a sequence is present *)
Definition parse_qual_field (f10 : list Z) (seqlen : Z) : option (list Z) :=
  if negb (beq f10 [42]) then
    match f10 with [] => None | _ => Some (map (fun c => u8 (c - 33)) f10) end
  else if negb (seqlen =? 0) then Some (repeat 255 (Z.to_nat seqlen))
  else None.

Record samrec := mk_rec {
  r_name : list Z;
  r_flags : Z;
  r_ref : option nat;      (* index into the header's references; None = nil *)
  r_pos : Z;
  r_mapq : Z;
  r_cigar : list Z;        (* CigarOp values (uint32) *)
  r_mref : option nat;
  r_mpos : Z;
  r_tlen : Z;
  r_seqlen : Z;            (* Seq.Length *)
  r_seq : list Z;          (* Seq.Seq doublets *)
  r_qual : option (list Z);(* None = nil slice *)
  r_aux : list aux
}.

(** the header: reference names with their lengths *)
Definition header := list (list Z * Z).

(** Reference.Name: a star for nil *)
Definition ref_name (h : header) (r : option nat) : option (list Z) :=
  match r with
  | None => Some [42]
  | Some i => option_map fst (nth_error h i)
  end.

Definition oref_eqb (a b : option nat) : bool :=
  match a, b with
  | Some i, Some j => Nat.eqb i j
  | None, None => true
  | _, _ => false
  end.

(** formatMate: pointer equality is index equality inside one header *)
Definition format_mate (h : header) (ref mate : option nat) : option (list Z) :=
  match mate with
  | Some _ => if oref_eqb ref mate then Some [61] else ref_name h mate
  | None => ref_name h mate
  end.

(** Flags.String *)
Definition flags_paired_mask : Z := 2 + 8 + 32 + 64 + 128.
Fixpoint flag_letters (f : Z) (i : Z) (ls : list Z) (dash : bool) : list Z :=
  match ls with
  | [] => []
  | c :: t =>
      if Z.testbit f i then c :: flag_letters f (i + 1) t dash
      else if dash then 45 :: flag_letters f (i + 1) t dash
      else flag_letters f (i + 1) t dash
  end.
Definition flags_masked (f : Z) : Z := if Z.land f 1 =? 0 then Z.ldiff f flags_paired_mask else f.
Definition flags_string (f : Z) : list Z := flag_letters (flags_masked f) 0 sam_formatFlags_letters true.

(** formatFlags *)
Definition format_flags (f : Z) (format : Z) : outcome farg :=
  if format =? sam_FlagDecimal then Ok (FD f)
  else if format =? sam_FlagHex then
    (* Sprintf("0x%x", uint16(f)) *)
    of_opt (option_map FS (sprintf sam_formatFlags_hexformat [FD f]))
  else if format =? sam_FlagString then
    Ok (FS (flag_letters (flags_masked f) 0 sam_formatFlags_letters false))
  else Panic 4.

Section Record.
  Variable fmt_f32 : Z -> list Z.
  Variable parse_f32 : list Z -> option Z.

  Fixpoint format_auxes (l : list aux) : option (list Z) :=
    match l with
    | [] => Some []
    | a :: t =>
        match format_aux fmt_f32 a with
        | Some s => match sprintf sam_MarshalSAM_auxformat [FS s], format_auxes t with
                    | Some p, Some q => Some (p ++ q)
                    | _, _ => None
                    end
        | None => None
        end
    end.

  (** Record.MarshalSAM *)
  Definition format_record (h : header) (flags : Z) (r : samrec) : outcome (list Z) :=
    if (flags <? sam_FlagDecimal) || (sam_FlagString <? flags) then Err 0
    else if match r_qual r with Some q => negb (zlen q =? r_seqlen r) | None => false end then Err 0
    else
      obind (format_flags (r_flags r) flags) (fun ff =>
      obind (of_opt (ref_name h (r_ref r))) (fun rn =>
      obind (of_opt (cigar_string (r_cigar r))) (fun cg =>
      obind (of_opt (format_mate h (r_ref r) (r_mref r))) (fun mt =>
      obind (format_seq (r_seqlen r) (r_seq r)) (fun sq =>
      let ql := format_qual (match r_qual r with Some q => q | None => [] end) in
      obind (of_opt (sprintf sam_MarshalSAM_format
               [FS (r_name r); ff; FS rn; FD (s64 (r_pos r + 1)); FD (r_mapq r); FS cg; FS mt;
                FD (s64 (r_mpos r + 1)); FD (r_tlen r); FS sq; FS ql])) (fun line =>
      obind (of_opt (format_auxes (r_aux r))) (fun ax => Ok (line ++ ax)))))))).

  (** referenceForName with a non-nil header *)
  Fixpoint find_ref (h : header) (name : list Z) (i : nat) : option nat :=
    match h with
    | [] => None
    | (n, _) :: t => if beq n name then Some i else find_ref t name (S i)
    end.
  Definition reference_for_name (h : header) (name : list Z) : outcome (option nat) :=
    if beq name [42] then Ok None
    else match find_ref h name 0 with Some i => Ok (Some i) | None => Err 0 end.

  Fixpoint parse_auxes (l : list (list Z)) : outcome (list aux) :=
    match l with
    | [] => Ok []
    | t :: rest => obind (parse_aux parse_f32 t) (fun a => obind (parse_auxes rest) (fun r => Ok (a :: r)))
    end.

  Definition atoi_o (s : list Z) : outcome Z :=
    match go_atoi s with Some v => Ok v | None => Err 0 end.

  (** Record.UnmarshalSAM with a non-nil header *)
  Definition parse_record (h : header) (b : list Z) : outcome samrec :=
    match split_on 9 b with
    | f0 :: f1 :: f2 :: f3 :: f4 :: f5 :: f6 :: f7 :: f8 :: f9 :: f10 :: fa =>
        match go_parse_uint f1 0 16 with
        | None => Err 0
        | Some flags =>
        obind (reference_for_name h f2) (fun ref =>
        obind (atoi_o f3) (fun pos1 =>
        match go_parse_uint f4 10 8 with
        | None => Err 0
        | Some mapq =>
        obind (parse_cigar f5) (fun cigar =>
        obind (if beq f2 f6 || beq f6 [61] then Ok ref else reference_for_name h f6) (fun mref =>
        obind (atoi_o f7) (fun mpos1 =>
        obind (atoi_o f8) (fun tlen =>
        obind (parse_seq_field cigar f9) (fun '(seqlen, seq) =>
        let qual := parse_qual_field f10 seqlen in
        let ql := match qual with Some q => zlen q | None => 0 end in
        if negb (ql =? 0) && negb (ql =? seqlen) then Err 0
        else
          obind (parse_auxes fa) (fun auxes =>
          Ok (mk_rec f0 flags ref (s64 (pos1 - 1)) mapq cigar mref (s64 (mpos1 - 1)) tlen seqlen seq qual auxes)))))))
        end))
        end
    | _ => Err 0
    end.

  (* ----------------------------------------------------------- sam.Reader *)

  (** bufio.Reader.ReadBytes('\n'): the bytes before the delimiter and the
      rest after it, or the remaining bytes and [None] at end of input. *)
  Fixpoint read_line (b : list Z) : list Z * option (list Z) :=
    match b with
    | [] => ([], None)
    | c :: t => if c =? 10 then ([], Some t)
                else let '(l, r) := read_line t in (c :: l, r)
    end.

  Definition last_is_cr (b : list Z) : bool :=
    match rev b with 13 :: _ => true | _ => false end.

  (** One Reader.Read on the remaining input (header mode): [None] = io.EOF
      (the ReadBytes error), otherwise the result and the remaining input. *)
  Definition strip_cr (b : list Z) : list Z :=
    if last_is_cr b then removelast b else b.   (* len(b) != 0 && b[len(b)-1] == '\r' *)

  Definition reader_read (h : header) (st : list Z) : option (outcome samrec * list Z) :=
    match read_line st with
    | (l, None) =>
        (* ReadBytes returned io.EOF: an error unless bytes were read (a last
           line without trailing newline) *)
        match l with
        | [] => None
        | _ => Some (parse_record h (strip_cr l), [])
        end
    | (l, Some rest) => Some (parse_record h (strip_cr l), rest)   (* b = b[:len(b)-1] removed the newline *)
    end.

  (** All results of calling Read until it reports end of input. *)
  Fixpoint reader_all (fuel : nat) (h : header) (st : list Z) : list (outcome samrec) :=
    match fuel with
    | O => []
    | S f => match reader_read h st with
             | None => []
             | Some (o, rest) => o :: reader_all f h rest
             end
    end.
  Definition reader_run (h : header) (input : list Z) : list (outcome samrec) :=
    reader_all (S (length input)) h input.
End Record.
