(** C06 — correspondence glue: the case type written by lib/c06.py and the
    comparison of the implementation's observations with the model.  The
    float text functions are instantiated, per case, by the table of the
    texts strconv produced / accepted in that case. *)
From Coq Require Import ZArith List Bool.
From Hts Require Import Base.Prim Generated Model.SamText Model.SamSpec.
Import ListNotations.
Open Scope Z_scope.

Definition tab_fmt (t : list (Z * list Z)) (bits : Z) : list Z :=
  match find (fun p => fst p =? bits) t with Some p => snd p | None => [] end.
Definition tab_parse (t : list (list Z * option Z)) (s : list Z) : option Z :=
  match find (fun p => beq (fst p) s) t with Some p => snd p | None => None end.

Definition auxv_eqb (a b : auxv) : bool :=
  match a, b with
  | AvA x, AvA y => x =? y
  | AvInt t x, AvInt u y => (t =? u) && (x =? y)
  | AvF x, AvF y => x =? y
  | AvZ x, AvZ y => beq x y
  | AvH x, AvH y => beq x y
  | AvBI t x, AvBI u y => (t =? u) && beq x y
  | AvBF x, AvBF y => beq x y
  | _, _ => false
  end.
Definition aux_eqb (a b : aux) : bool :=
  (a_t0 a =? a_t0 b) && (a_t1 a =? a_t1 b) && auxv_eqb (a_val a) (a_val b).
Fixpoint auxes_eqb (a b : list aux) : bool :=
  match a, b with
  | [], [] => true
  | x :: a', y :: b' => aux_eqb x y && auxes_eqb a' b'
  | _, _ => false
  end.
Definition oqual_eqb (a b : option (list Z)) : bool :=
  match a, b with
  | None, None => true
  | Some x, Some y => beq x y
  | _, _ => false
  end.
Definition samrec_eqb (a b : samrec) : bool :=
  beq (r_name a) (r_name b) && (r_flags a =? r_flags b) && oref_eqb (r_ref a) (r_ref b)
  && (r_pos a =? r_pos b) && (r_mapq a =? r_mapq b) && beq (r_cigar a) (r_cigar b)
  && oref_eqb (r_mref a) (r_mref b) && (r_mpos a =? r_mpos b) && (r_tlen a =? r_tlen b)
  && (r_seqlen a =? r_seqlen b) && beq (r_seq a) (r_seq b) && oqual_eqb (r_qual a) (r_qual b)
  && auxes_eqb (r_aux a) (r_aux b).

Definition out_agree {A} (eqb : A -> A -> bool) (m o : outcome A) : bool :=
  match m, o with
  | Ok a, Ok b => eqb a b
  | Err _, Err _ => true
  | Panic _, Panic _ => true
  | _, _ => false
  end.
Fixpoint outs_agree {A} (eqb : A -> A -> bool) (m o : list (outcome A)) : bool :=
  match m, o with
  | [], [] => true
  | x :: m', y :: o' => out_agree eqb x y && outs_agree eqb m' o'
  | _, _ => false
  end.

Inductive c06case :=
| CFmt (h : header) (ft : list (Z * list Z)) (pt : list (list Z * option Z)) (flagfmt : Z) (r : samrec)
       (obs : outcome (list Z)) (back : option (outcome samrec))
| CParse (h : header) (pt : list (list Z * option Z)) (line : list Z) (obs : outcome samrec)
| CRead (h : header) (pt : list (list Z * option Z)) (input : list Z) (obs : list (outcome samrec)).

Definition c06_agree (c : c06case) : bool :=
  match c with
  | CFmt h ft pt f r obs back =>
      out_agree beq (format_record (tab_fmt ft) h f r) obs
      && match obs, back with
         | Ok line, Some o => out_agree samrec_eqb (parse_record (tab_parse pt) h line) o
         | _, _ => true
         end
  | CParse h pt line obs => out_agree samrec_eqb (parse_record (tab_parse pt) h line) obs
  | CRead h pt input obs => outs_agree samrec_eqb (reader_run (tab_parse pt) h input) obs
  end.
