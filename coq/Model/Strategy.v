(** C17 — functional model of the merge strategies of bgzf/index/strategy.go.

    The Go loops of [adjacent] and [CompressorStrategy] walk the slice from
    left to right; chunks[c-1] is always the last chunk kept so far (possibly
    the join of a run of input chunks) and chunks[c] the next input chunk.
    When the pair is mergeable the join replaces both (Begin of the left
    chunk, the larger End by vOffset, ties keep the right End) and is compared
    with the next input chunk; otherwise the left chunk is final.  That is the
    fold [merge_from] below.  Proofs/StrategyLoop.v proves that the
    statement-level translation generated from the Go source
    (Generated.bgzfindex_adjacent ...) computes exactly these functions.

    Executable definitions only. *)
From Hts Require Import Base.Prim Base.Chunks.
Open Scope Z_scope.

(** bgzf/index/index.go: vOffset, as Go computes it on int64 (File<<16 wraps). *)
Definition vo (o : offset) : Z :=
  Z.lor (i64 (Z.shiftl (o_File o) 16)) (i64 (o_Block o)).

(** The chunk that replaces a mergeable pair. *)
Definition join (l r : chunk) : chunk :=
  (c_Begin l, if vo (c_End r) <? vo (c_End l) then c_End l else c_End r).

Section Merge.
  Variable mergeable : chunk -> chunk -> bool. (* left, right *)

  Fixpoint merge_from (left : chunk) (rest : list chunk) : list chunk :=
    match rest with
    | [] => [left]
    | r :: rest' =>
        if mergeable left r then merge_from (join left r) rest'
        else left :: merge_from r rest'
    end.

  Definition merge (l : list chunk) : list chunk :=
    match l with [] => [] | c :: t => merge_from c t end.
End Merge.

(** adjacent: leftEndOffset >= vOffset(rightChunk.Begin) *)
Definition adj_mergeable (l r : chunk) : bool := vo (c_Begin r) <=? vo (c_End l).

(** CompressorStrategy(near): rightChunk.Begin.File-leftChunk.End.File <= near
    (int64 arithmetic: the difference wraps). *)
Definition cmp_mergeable (near : Z) (l r : chunk) : bool :=
  i64 (o_File (c_Begin r) - o_File (c_End l)) <=? near.

Definition identity_m (l : list chunk) : list chunk := l.
Definition adjacent_m (l : list chunk) : list chunk := merge adj_mergeable l.
Definition compressor_m (near : Z) (l : list chunk) : list chunk := merge (cmp_mergeable near) l.

(** squash: Begin of the first chunk, the largest End (first of the largest). *)
Definition max_end (right : offset) (c : chunk) : offset :=
  if vo right <? vo (c_End c) then c_End c else right.
Definition squash_m (l : list chunk) : list chunk :=
  match l with
  | [] => []
  | c :: t => [mk_chunk (c_Begin c) (fold_left max_end t (c_End c))]
  end.
