(** Correspondence glue for C17: one case is a chunk list together with what
    the implementation returned for every strategy (result, and the result of
    applying the strategy to its own result).

    Case files are large (tens of thousands of lists), so the case syntax
    avoids notations and implicit arguments: [K bf bb ef eb tl] is the chunk
    ((bf,bb),(ef,eb)) followed by tl. *)
From Hts Require Import Base.Prim Base.Chunks Generated Model.Strategy Model.StrategySpec.
Open Scope Z_scope.

Inductive cl := E | K (bf bb ef eb : Z) (t : cl).
Fixpoint chunks_of (x : cl) : list chunk :=
  match x with E => [] | K bf bb ef eb t => ((bf, bb), (ef, eb)) :: chunks_of t end.

(** Compressor runs: threshold, result, result of the second application. *)
Inductive cruns := RE | R (near : Z) (out : cl) (t : cruns).
Inductive cruns2 := RE2 | R2 (near : Z) (out out2 : cl) (t : cruns2).

(** * Exhaustive part of the case set, enumerated inside Coq

    Every list of at most [n] well-formed chunks (Begin <= End, both drawn
    from the alphabet, which is ascending by virtual offset) that is sorted by
    begin.  The driver enumerates the same set, runs the implementation on
    every member and sends only an order-independent digest of (input, all
    results) — the sum over the cases of a polynomial hash modulo 2^61 — and
    the number of cases; the model must reproduce both. *)
Fixpoint suffixes {A} (l : list A) : list (list A) :=
  match l with [] => [] | _ :: t => l :: suffixes t end.

Fixpoint enum_lists (n : nat) (alpha : list offset) : list (list chunk) :=
  match n with
  | O => [[]]
  | S n' =>
      [] :: flat_map (fun s =>
              match s with
              | [] => []
              | b :: _ =>
                  let tails := enum_lists n' s in
                  flat_map (fun e => map (fun t => (b, e) :: t) tails) s
              end) (suffixes alpha)
  end.

Definition hP : Z := 2305843009213693951.
Definition hB : Z := 65537.
(** (hB * acc + x + 1) mod 2^61, by masking (cheap inside vm_compute). *)
Definition hz (acc x : Z) : Z := Z.land (hB * acc + x + 1) hP.
Definition hchunk (acc : Z) (c : chunk) : Z :=
  hz (hz (hz (hz acc (fst (fst c))) (snd (fst c))) (fst (snd c))) (snd (snd c)).
Definition hlist (acc : Z) (l : list chunk) : Z := fold_left hchunk l (hz acc (zlen l)).
(** A run contributes its result and its second application; the common
    outcomes (second application returns its argument; result equal to the
    input) are hashed as one flag instead of the list. *)
Definition hsame (acc : Z) (ref o : list chunk) : Z :=
  if chunks_eqb o ref then hz acc 1 else hlist (hz acc 0) o.
Definition hrun (acc : Z) (f : list chunk -> list chunk) (l : list chunk) : Z :=
  let o := f l in hsame (hsame acc l o) o (f o).

(** The generated translation, run with the length of the list as fuel; any
    outcome other than Ok shows up as a list no implementation returns. *)
Definition c17_bad : list chunk := [((-1, -1), (-1, -1))].
Definition c17_unwrap (o : outcome (list chunk)) : list chunk :=
  match o with Ok l => l | _ => c17_bad end.
Definition gen_identity (l : list chunk) := c17_unwrap (bgzfindex_identity l).
Definition gen_adjacent (l : list chunk) := c17_unwrap (bgzfindex_adjacent (length l) l).
Definition gen_squash (l : list chunk) := c17_unwrap (bgzfindex_squash l).
Definition gen_compressor (near : Z) (l : list chunk) := c17_unwrap (bgzfindex_CompressorStrategy near (length l) l).

Record strategies := {
  st_identity : list chunk -> list chunk;
  st_adjacent : list chunk -> list chunk;
  st_squash : list chunk -> list chunk;
  st_compressor : Z -> list chunk -> list chunk }.

Definition hcase (S : strategies) (nears : list Z) (l : list chunk) : Z :=
  let a := hlist 7 l in
  let a := hrun a (st_identity S) l in
  let a := hrun a (st_adjacent S) l in
  let a := hrun a (st_squash S) l in
  fold_left (fun a near => hrun (hz a near) (st_compressor S near) l) nears a.

Definition digest (S : strategies) (nears : list Z) (ls : list (list chunk)) : Z :=
  fold_left (fun d l => Z.land (d + hcase S nears l) hP) ls 0.

Definition generated_strategies : strategies :=
  {| st_identity := gen_identity; st_adjacent := gen_adjacent; st_squash := gen_squash; st_compressor := gen_compressor |}.

Definition model_strategies : strategies :=
  {| st_identity := identity_m; st_adjacent := adjacent_m; st_squash := squash_m; st_compressor := compressor_m |}.

Inductive c17case :=
(** the common case: Identity returned its input and every second application
    returned its argument (checked by the driver before choosing this form) *)
| C17 (l : cl) (adj sq : cl) (comp : cruns)
| C17x (l : cl) (idn idn2 adj adj2 sq sq2 : cl) (comp : cruns2)
(** all lists of at most n chunks over the alphabet (as (Begin, End) pairs of
    equal offsets, ascending), fixed thresholds: number of cases and digest *)
| CX (alpha : cl) (n : nat) (nears : list Z) (count dg : Z).

(** Both the functional model [f] and the generated translation [g] must
    reproduce the implementation's result and its second application. *)
Definition c17_models (l out out2 : list chunk) (f g : list chunk -> list chunk) : bool :=
  chunks_eqb (f l) out && chunks_eqb (f out) out2
  && chunks_eqb (g l) out && chunks_eqb (g out) out2.

Fixpoint c17_comp_agree (l : list chunk) (x : cruns) : bool :=
  match x with
  | RE => true
  | R near out t =>
      let o := chunks_of out in
      c17_models l o o (compressor_m near) (gen_compressor near) && c17_comp_agree l t
  end.
Fixpoint c17_comp_agree2 (l : list chunk) (x : cruns2) : bool :=
  match x with
  | RE2 => true
  | R2 near out out2 t =>
      c17_models l (chunks_of out) (chunks_of out2) (compressor_m near) (gen_compressor near) && c17_comp_agree2 l t
  end.

Definition c17_agree (c : c17case) : bool :=
  match c with
  | C17 l adj sq comp =>
      let l := chunks_of l in let adj := chunks_of adj in let sq := chunks_of sq in
      c17_models l l l identity_m gen_identity && c17_models l adj adj adjacent_m gen_adjacent
      && c17_models l sq sq squash_m gen_squash
      && c17_comp_agree l comp
  | C17x l idn idn2 adj adj2 sq sq2 comp =>
      let l := chunks_of l in
      c17_models l (chunks_of idn) (chunks_of idn2) identity_m gen_identity
      && c17_models l (chunks_of adj) (chunks_of adj2) adjacent_m gen_adjacent
      && c17_models l (chunks_of sq) (chunks_of sq2) squash_m gen_squash
      && c17_comp_agree2 l comp
  | CX alpha n nears count dg =>
      let ls := enum_lists n (map fst (chunks_of alpha)) in
      (zlen ls =? count) && (digest model_strategies nears ls =? dg)
      && (digest generated_strategies nears ls =? dg)
  end.


(** * The strategies as the property statement names them, run on the
      translation generated from the Go source.  The index loops take a fuel
      argument; the length of the list is always enough (Proofs/StrategyLoop.v). *)
Definition run_strategy_fuel (s : strategy) (fuel : nat) (l : list chunk) : outcome (list chunk) :=
  match s with
  | Identity => bgzfindex_identity l
  | Adjacent => bgzfindex_adjacent fuel l
  | Squash => bgzfindex_squash l
  | Compressor near => bgzfindex_CompressorStrategy near fuel l
  end.

Definition run_strategy (s : strategy) (l : list chunk) : outcome (list chunk) :=
  run_strategy_fuel s (length l) l.

(** The functional model of each strategy. *)
Definition model_of (s : strategy) : list chunk -> list chunk :=
  match s with
  | Identity => identity_m
  | Adjacent => adjacent_m
  | Squash => squash_m
  | Compressor near => compressor_m near
  end.
