(** C17 — the vocabulary of the property statement, written from the property
    text and the SAM/BGZF notion of a virtual offset, independently of the
    library code: positions, coverage, order, separation, gaps. *)
From Coq Require Import Sorting.Sorted.
From Hts Require Import Base.Prim Base.Chunks.
Open Scope Z_scope.

(** The virtual offset of (File, Block): File * 2^16 + Block. *)
Definition pos (o : offset) : Z := o_File o * 65536 + o_Block o.

(** Offsets a BGZF file can have: the compressed offset fits the 47 bits that
    remain of a (signed) 64 bit virtual offset, the block offset is a uint16. *)
Definition valid_offset (o : offset) : Prop :=
  0 <= o_File o < 2 ^ 47 /\ 0 <= o_Block o < 2 ^ 16.
Definition valid_chunk (c : chunk) : Prop :=
  valid_offset (c_Begin c) /\ valid_offset (c_End c).
Definition valid_chunks (l : list chunk) : Prop := Forall valid_chunk l.

(** A chunk covers the positions v with pos Begin <= v < pos End. *)
Definition covers (c : chunk) (v : Z) : Prop := pos (c_Begin c) <= v < pos (c_End c).
Definition covered (l : list chunk) (v : Z) : Prop := exists c, In c l /\ covers c v.

(** Sorted by begin offset (the order internal.byBeginOffset establishes). *)
Definition begin_le (a b : chunk) : Prop := pos (c_Begin a) <= pos (c_Begin b).
Definition sorted_begin (l : list chunk) : Prop := Sorted begin_le l.

(** Every chunk ends strictly before every later chunk begins. *)
Definition separated (a b : chunk) : Prop := pos (c_End a) < pos (c_Begin b).
Definition pairwise_separated (l : list chunk) : Prop := ForallOrdPairs separated l.

(** Neighbours are further apart than [near] compressed bytes. *)
Definition far (near : Z) (a b : chunk) : Prop := o_File (c_End a) + near < o_File (c_Begin b).
Definition neighbours_far (near : Z) (l : list chunk) : Prop :=
  forall i a b, nth_error l i = Some a -> nth_error l (S i) = Some b -> far near a b.

(** The enclosing chunk of a non-empty list that is sorted by begin: begins
    where the first chunk begins, ends where the last-ending chunk ends. *)
Definition encloses (e : chunk) (l : list chunk) : Prop :=
  (forall c, In c l -> pos (c_Begin e) <= pos (c_Begin c) /\ pos (c_End c) <= pos (c_End e))
  /\ (exists c, In c l /\ c_Begin c = c_Begin e)
  /\ (exists c, In c l /\ c_End c = c_End e).

(** int64 thresholds. *)
Definition int64 (n : Z) : Prop := - 2 ^ 63 <= n < 2 ^ 63.

(** * Results as enclosing chunks of consecutive runs

    A complete description of what a merge strategy may return: the input is
    cut into consecutive runs, each run is replaced by its enclosing chunk,
    a chunk joins the run before it exactly when relation [R] holds between
    the run's enclosing chunk so far and the chunk.  For Adjacent R is
    "begins at or before the end" ([touches]), for a Compressor "begins within
    near compressed bytes of the end" ([within near]), for Squash always, for
    Identity never. *)
Definition joinp (l r : chunk) : chunk :=
  (c_Begin l, if pos (c_End r) <? pos (c_End l) then c_End l else c_End r).

Definition run := (chunk * list chunk)%type.
Definition flatten (rs : list run) : list chunk := flat_map (fun r => fst r :: snd r) rs.
Definition hull_of (r : run) : chunk := fold_left joinp (snd r) (fst r).

Fixpoint chained (R : chunk -> chunk -> Prop) (c : chunk) (g : list chunk) : Prop :=
  match g with
  | [] => True
  | x :: g' => R c x /\ chained R (joinp c x) g'
  end.

Definition merged_runs (R : chunk -> chunk -> Prop) (l out : list chunk) : Prop :=
  exists rs : list run,
    l = flatten rs
    /\ out = map hull_of rs
    /\ Forall (fun r => chained R (fst r) (snd r)) rs
    /\ Sorted (fun r1 r2 => ~ R (hull_of r1) (fst r2)) rs.

Definition touches (a b : chunk) : Prop := pos (c_Begin b) <= pos (c_End a).
Definition within (near : Z) (a b : chunk) : Prop := o_File (c_Begin b) - o_File (c_End a) <= near.

(** The strategies the library provides, and when each joins a chunk to the
    run before it. *)
Inductive strategy := Identity | Adjacent | Squash | Compressor (near : Z).

Definition joins (s : strategy) : chunk -> chunk -> Prop :=
  match s with
  | Identity => fun _ _ => False
  | Adjacent => touches
  | Squash => fun _ _ => True
  | Compressor near => within near
  end.
