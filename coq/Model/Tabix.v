(** Model of tabix/tabix.go: reference-name table in front of the shared
    index core ([Add], [Chunks], [MergeChunks]).  Strings are byte lists. *)
From Hts Require Import Base.Prim Generated Model.Index.
Open Scope Z_scope.

Definition tname := list Z.

Fixpoint tb_name_eqb (a b : tname) : bool :=
  match a, b with
  | [], [] => true
  | x :: a', y :: b' => (x =? y) && tb_name_eqb a' b'
  | _, _ => false
  end.

(** The Go map [nameMap] as an association list with distinct keys. *)
Fixpoint tb_lookup (m : list (tname * Z)) (nm : tname) : option Z :=
  match m with
  | [] => None
  | (k, v) :: t => if tb_name_eqb k nm then Some v else tb_lookup t nm
  end.

(** [t_hdr] = Format, ZeroBased (0/1), NameColumn, BeginColumn, EndColumn, MetaChar, Skip. *)
Record tbx := mkTbx { t_names : list tname; t_map : list (tname * Z); t_hdr : list Z; t_idx : index }.

Definition tb_new (hdr : list Z) : tbx := mkTbx [] [] hdr ix_empty.

(** [Add]: [rid, ok := nameMap[refName]; if !ok { rid = len(refNames); refNames = append(...); nameMap[refName] = rid }],
    then [idx.Add(shim, internal.BinFor(start, end), c, placed, mapped)]. *)
Definition tb_add (t : tbx) (nm : tname) (r : irec) : outcome tbx :=
  let '(rid, names, m) :=
    match tb_lookup (t_map t) nm with
    | Some rid => (rid, t_names t, t_map t)
    | None => let rid := zlen (t_names t) in (rid, t_names t ++ [nm], t_map t ++ [(nm, rid)])
    end in
  obind (internal_BinFor (q_start r) (q_end r)) (fun b =>
  obind (ix_add (t_idx t) (mkRec rid (q_start r) (q_end r) b (q_cb r) (q_ce r) (q_placed r) (q_mapped r)))
        (fun ix => Ok (mkTbx names m (t_hdr t) ix))).

Fixpoint tb_fold_add (t : tbx) (rs : list (tname * irec)) : outcome tbx :=
  match rs with
  | [] => Ok t
  | (nm, r) :: rest => obind (tb_add t nm r) (fun t' => tb_fold_add t' rest)
  end.

(** [Chunks(ref, beg, end)]: unknown name gives ErrNoReference (class 1). *)
Definition tb_chunks (t : tbx) (nm : tname) (beg end_ : Z) : outcome (list chunk) * tbx :=
  match tb_lookup (t_map t) nm with
  | None => (Err 1, t)
  | Some id => let '(a, ix) := ix_chunks (t_idx t) id beg end_ in
               (a, mkTbx (t_names t) (t_map t) (t_hdr t) ix)
  end.

Definition tb_merge (s : list chunk -> list chunk) (t : tbx) : tbx :=
  mkTbx (t_names t) (t_map t) (t_hdr t) (ix_merge s (t_idx t)).
