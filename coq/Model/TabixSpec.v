(** Specification side of the tabix name table: references get dense ids in
    order of first appearance of their names; the bin is BinFor(start, end). *)
From Hts Require Import Base.Prim Generated Model.Index Model.Tabix.
Open Scope Z_scope.

Fixpoint tb_index_of (nm : tname) (tbl : list tname) (i : Z) : option Z :=
  match tbl with
  | [] => None
  | h :: t => if tb_name_eqb h nm then Some i else tb_index_of nm t (i + 1)
  end.

Definition tb_bin_of (r : irec) : Z :=
  match internal_BinFor (q_start r) (q_end r) with Ok b => b | _ => 0 end.

Definition tb_step (tbl : list tname) (nm : tname) : Z * list tname :=
  match tb_index_of nm tbl 0 with
  | Some i => (i, tbl)
  | None => (zlen tbl, tbl ++ [nm])
  end.

(** The records as the index core sees them. *)
Fixpoint tb_assign (tbl : list tname) (nrs : list (tname * irec)) : list irec :=
  match nrs with
  | [] => []
  | (nm, r) :: rest =>
      let '(id, tbl') := tb_step tbl nm in
      mkRec id (q_start r) (q_end r) (tb_bin_of r) (q_cb r) (q_ce r) (q_placed r) (q_mapped r)
      :: tb_assign tbl' rest
  end.

Fixpoint tb_final (tbl : list tname) (nrs : list (tname * irec)) : list tname :=
  match nrs with
  | [] => tbl
  | (nm, _) :: rest => tb_final (snd (tb_step tbl nm)) rest
  end.
