(** Correspondence glue for C01 / C08 / C12: runs the sequential machine and
    the concurrent model (under a given schedule) on a generated case and
    compares with what the implementation did.

    Compressed bytes are not modelled.  For the run, [deflate] is instantiated
    by a function that produces zero bytes of the length the real compressor
    produced for that payload (looked up by length and a digest (byte sum, sum of prefix sums) of the payload
    among the members the independent parser found in the real output), and
    [crc32] by the constant 0.  Everything else — splitting into blocks,
    order, header bytes, the BSIZE back-patch (position and value), trailer
    ISIZE, EOF marker, results of the calls, durability marks — is computed by
    the model and compared exactly. *)
From Coq Require Import ZArith List Bool.
From Hts Require Import Base.Prim Generated Model.Bgzf Model.Writer Model.WriterConc Model.HasEof.
Import ListNotations.
Open Scope Z_scope.

(** Payload generators; the same three are in harness/c01.go (c01Payload). *)
Fixpoint gen_xs (n : nat) (x : Z) : list Z :=
  match n with
  | O => []
  | S m =>
      let x1 := Z.lxor x (Z.land (Z.shiftl x 7) 65535) in
      let x2 := Z.lxor x1 (Z.shiftr x1 9) in
      let x3 := Z.lxor x2 (Z.land (Z.shiftl x2 8) 65535) in
      Z.land x3 255 :: gen_xs m x3
  end.
Fixpoint gen_abc (n : nat) (i : Z) : list Z :=
  match n with O => [] | S m => 65 + i mod 4 :: gen_abc m (i + 1) end.
Definition gen_payload (kind seed len : Z) : list Z :=
  if kind =? 0 then repeat (seed mod 256) (Z.to_nat len)
  else if kind =? 1 then gen_xs (Z.to_nat len) (seed mod 65535 + 1)
  else gen_abc (Z.to_nat len) seed.

Definition adler (p : list Z) : Z * Z :=
  fold_left (fun ab c => let a := fst ab + c in (a, snd ab + a)) p (1, 0).

Inductive wrop := GW (kind seed len : Z) | GWlit (p : list Z) | GF | GWait | GClose.
Definition to_wop (o : wrop) : wop :=
  match o with GW k s l => OpWrite (gen_payload k s l) | GWlit p => OpWrite p | GF => OpFlush | GWait => OpWait | GClose => OpClose end.

(** Observed member: header bytes (everything before the deflate stream),
    compressed length, payload length, Adler-32 halves of the payload. *)
Definition omember := (list Z * Z * Z * Z * Z)%type.

Inductive wrcase :=
| WrCase (ops : list wrop) (lvl wc : Z) (h : gzhdr) (sched : list nat) (rounds : nat)
         (res : list (Z * Z)) (members : list omember) (eof : bool)
         (api_cum : list Z)     (* payload bytes in the members present after each API call; -1: not a member boundary *)
         (w_k : list Z)         (* member count after each underlying Write; -1: not a member boundary *)
         (probe : list (Z * Z * Z * Z))   (* (payload length, digest a, digest b, compressed length) measured on
                                             compress/flate at this level, for blocks the writer may refuse *)
         (failw : list Z)                 (* fault plan: indices of the underlying Write calls that are refused *)
| HeCase (data : list Z) (pos : Z) (kind : Z)   (* 0 Size(), 1 Stat(), 2 Seek+Len, 3 none *)
         (has : bool) (err : Z).                (* what bgzf.HasEOF returned: value, error class 0 / 2 / 3 *)

Definition clen_of (members : list omember) (probe : list (Z * Z * Z * Z)) (d : list Z) : Z :=
  let '(a, b) := adler d in
  let n := zlen d in
  match find (fun m : omember => let '(_, _, pl, ma, mb) := m in (pl =? n) && (ma =? a) && (mb =? b)) members with
  | Some (_, cl, _, _, _) => cl
  | None =>
      match find (fun q : Z * Z * Z * Z => let '(pl, ma, mb, _) := q in (pl =? n) && (ma =? a) && (mb =? b)) probe with
      | Some (_, _, _, cl) => cl
      | None => 20   (* a block that was never delivered (skipped after a fault): any length that fits *)
      end
  end.

Definition rebuild (m : omember) : list Z :=
  let '(hd, cl, pl, _, _) := m in hd ++ repeat 0 (Z.to_nat cl) ++ [0; 0; 0; 0] ++ le32 pl.

Fixpoint chunks_eqb (a b : list (list Z)) : bool :=
  match a, b with
  | [], [] => true
  | x :: a', y :: b' => zeqb x y && chunks_eqb a' b'
  | _, _ => false
  end.

Fixpoint res_eqb (a b : list (Z * Z)) : bool :=
  match a, b with
  | [], [] => true
  | (x1, x2) :: a', (y1, y2) :: b' => ((x1 =? y1) || (y1 =? -1)) && ((x2 =? y2) || (y2 =? -1)) && res_eqb a' b'
  | _, _ => false
  end.

(** Observed class -1 = not compared (result depends on how fast the failure of a
    block becomes known). *)

(** durable <= observed <= written, per returned call (-2: not observed) *)
Fixpoint marks_ok (marks : list (Z * Z)) (cum : list Z) : bool :=
  match marks, cum with
  | [], [] => true
  | (d, w) :: m', c :: c' => ((c =? -2) || ((d <=? c) && (c <=? w))) && marks_ok m' c'
  | _, _ => false
  end.

Fixpoint count_up (i : Z) (l : list Z) : bool :=
  match l with [] => true | x :: t => (x =? i) && count_up (i + 1) t end.

Definition wr_agree (c : wrcase) : bool :=
  match c with
  | WrCase ops lvl wc h sched rounds res members eof api_cum w_k probe failw =>
      let script := map to_wop ops in
      let dfl := fun (_ : Z) (d : list Z) => repeat 0 (Z.to_nat (clen_of members probe d)) in
      let crc := fun _ : list Z => 0 in
      let n := Z.to_nat (pool_size wc) in
      let st := run_conc dfl crc bgzf_wr_patch_mode bgzf_wr_patch_guard bgzf_wr_overflow_check lvl h
                         (fun k => existsb (Z.eqb k) failw) wc script (sched ++ rr rounds n) in
      let s := x_api st in
      let expect := map rebuild members ++ (if eof then [bgzf_magicBlock] else []) in
      let fuel := (length (x_out st) * 8 + length ops * 8 + 16)%nat in
      let sq := run_writer (fuel * 4) script in
      cdone st && negb (x_panic st)
      && res_eqb (s_res s) res
      && chunks_eqb (x_out st) expect
      && Bool.eqb (s_eof s) eof
      && (negb (isnil failw) || marks_ok (s_marks s) api_cum)
      && count_up 1 w_k
      && (zlen w_k =? zlen (x_out st))
      && (is_some (x_err st)
          || (sdone sq
              && chunks_eqb (seq_chunks dfl crc bgzf_wr_patch_mode bgzf_wr_patch_guard bgzf_wr_overflow_check lvl h sq) (x_out st)
              && res_eqb (s_res sq) res))
  | HeCase data pos kind has err =>
      let methods := if kind =? 0 then Some HSizer else if kind =? 1 then Some HStater
                     else if kind =? 2 then Some HLenSeeker else None in
      match haseof_go {| he_data := data; he_pos := pos; he_methods := methods |} with
      | Ok b => Bool.eqb b has && (err =? 0)
      | Err e => negb has && (err =? e)
      | _ => false
      end
  end.
