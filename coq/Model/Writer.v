(** The bgzf.Writer API as a sequential machine: the program the calling
    goroutine executes for Write / Flush / Wait / Close (bgzf/writer.go lines
    191-287), one transition per statement group between two points at which
    the goroutine may block or other goroutines may interfere.  The two
    things the caller learns from the pipeline are inputs of a step:
      [e]  the value of the error latch (bg.Error() / bg.err) read in the step,
      [fb] the block content (block[:next]) of the compressor received from
           bg.waiting in the step.
    The sequential writer is this machine run with [e = None], [fb = []]
    (no failure; a compressor that comes back has been emptied).  The
    concurrent model (WriterConc.v) executes the very same [sstep] for its API
    thread, with [e], [fb] taken from the pipeline state and with guards on
    the channel operations.

    Ghost fields (not in the Go code, never read by it): [s_sub] payloads of
    the blocks handed to bg.queue so far, in order; [s_data] all bytes copied
    into blocks so far; [s_flushmark] length of [s_data] when the last Flush
    returned nil; [s_durable] the flush mark at the last Wait that returned
    nil; [s_res] results (n, error class) of the calls that have returned.
    Error classes: 0 nil, 1 ErrClosed, otherwise the latched error code.

    Executable definitions only. *)
From Coq Require Import ZArith List Bool.
From Hts Require Import Base.Prim Generated Model.Bgzf.
Import ListNotations.
Open Scope Z_scope.

Inductive wop := OpWrite (p : list Z) | OpFlush | OpWait | OpClose.

Inductive apc :=
| AIdle                                   (* between API calls *)
| AWLoop (b : list Z) (n : Z) (err : option Z)  (* Write: head of the for loop; err = value last read *)
| AWSend (b : list Z) (n : Z)             (* Write: bg.queue <- c *)
| AWAdd (b : list Z) (n : Z)              (* Write: bg.qwg.Add(1); go c.writeBlock() *)
| AWRecv (b : list Z) (n : Z)             (* Write: c = <-bg.waiting; (post) err = bg.Error() *)
| AFRecv                                  (* Flush: c, bg.active = bg.active, <-bg.waiting *)
| AFSend                                  (* Flush: bg.queue <- c *)
| AFAdd                                   (* Flush: bg.qwg.Add(1); go c.writeBlock(); return bg.Error() *)
| AWaitQ                                  (* Wait: bg.qwg.Wait(); return bg.Error() *)
| ACSend                                  (* Close: bg.queue <- c *)
| ACAdd                                   (* Close: bg.qwg.Add(1) *)
| ACRecv                                  (* Close: <-bg.waiting *)
| ACCompress                              (* Close: c.writeBlock() *)
| ACCloseQ                                (* Close: bg.closed = true; close(bg.queue) *)
| ACWg                                    (* Close: bg.wg.Wait(); if bg.err == nil { write magic }; return bg.err *)
| ADone.                                  (* script exhausted *)

Record sst := {
  s_pc : apc;
  s_act : list Z;        (* bg.active.block[:next] (the caller's variable c in Write) *)
  s_local : list Z;      (* Flush's local c: block content *)
  s_script : list wop;
  s_closed : bool;
  s_eof : bool;          (* the magic block has been written *)
  s_res : list (Z * Z);
  s_sub : list (list Z);
  s_data : list Z;
  s_flushmark : Z;
  s_durable : Z;
  s_marks : list (Z * Z)   (* per returned call: (s_durable, length of s_data) at the return *)
}.

Definition errclass (e : option Z) : Z := match e with None => 0 | Some x => x end.
Definition is_some {A} (o : option A) : bool := match o with Some _ => true | None => false end.

Definition set_pc (s : sst) (pc : apc) : sst :=
  {| s_pc := pc; s_act := s_act s; s_local := s_local s; s_script := s_script s; s_closed := s_closed s;
     s_eof := s_eof s; s_res := s_res s; s_sub := s_sub s; s_data := s_data s;
     s_flushmark := s_flushmark s; s_durable := s_durable s; s_marks := s_marks s |}.

(** The call returns (n, class): record it, go back to AIdle. *)
Definition ret (s : sst) (n c : Z) : sst :=
  {| s_pc := AIdle; s_act := s_act s; s_local := s_local s; s_script := s_script s; s_closed := s_closed s;
     s_eof := s_eof s; s_res := s_res s ++ [(n, c)]; s_sub := s_sub s; s_data := s_data s;
     s_flushmark := s_flushmark s; s_durable := s_durable s;
     s_marks := s_marks s ++ [(s_durable s, zlen (s_data s))] |}.

Definition pop (s : sst) (r : list wop) : sst :=
  {| s_pc := s_pc s; s_act := s_act s; s_local := s_local s; s_script := r; s_closed := s_closed s;
     s_eof := s_eof s; s_res := s_res s; s_sub := s_sub s; s_data := s_data s;
     s_flushmark := s_flushmark s; s_durable := s_durable s; s_marks := s_marks s |}.

Definition set_flushmark (s : sst) : sst :=
  {| s_pc := s_pc s; s_act := s_act s; s_local := s_local s; s_script := s_script s; s_closed := s_closed s;
     s_eof := s_eof s; s_res := s_res s; s_sub := s_sub s; s_data := s_data s;
     s_flushmark := zlen (s_data s); s_durable := s_durable s; s_marks := s_marks s |}.

Definition set_durable (s : sst) : sst :=
  {| s_pc := s_pc s; s_act := s_act s; s_local := s_local s; s_script := s_script s; s_closed := s_closed s;
     s_eof := s_eof s; s_res := s_res s; s_sub := s_sub s; s_data := s_data s;
     s_flushmark := s_flushmark s; s_durable := s_flushmark s; s_marks := s_marks s |}.

(** bg.queue <- c with c's block content [blk]: ghost [s_sub] grows. *)
Definition submit (s : sst) (blk : list Z) (pc : apc) : sst :=
  {| s_pc := pc; s_act := s_act s; s_local := s_local s; s_script := s_script s; s_closed := s_closed s;
     s_eof := s_eof s; s_res := s_res s; s_sub := s_sub s ++ [blk]; s_data := s_data s;
     s_flushmark := s_flushmark s; s_durable := s_durable s; s_marks := s_marks s |}.

Definition set_act (s : sst) (a : list Z) (pc : apc) : sst :=
  {| s_pc := pc; s_act := a; s_local := s_local s; s_script := s_script s; s_closed := s_closed s;
     s_eof := s_eof s; s_res := s_res s; s_sub := s_sub s; s_data := s_data s;
     s_flushmark := s_flushmark s; s_durable := s_durable s; s_marks := s_marks s |}.

(** One iteration of Write's loop body up to the decision to queue:
      if c.next == 0 || c.next+len(b) <= len(c.block) { _n = copy(c.block[c.next:], b); ... }
      if c.next == len(c.block) || _n == 0 { queue }                      *)
Definition wcopy_n (act b : list Z) : Z :=
  if (zlen act =? 0) || (zlen act + zlen b <=? bgzf_BlockSize)
  then Z.min (bgzf_BlockSize - zlen act) (zlen b) else 0.

Definition write_iter (s : sst) (b : list Z) (n : Z) (e : option Z) : sst :=
  let k := wcopy_n (s_act s) b in
  let cp := firstn (Z.to_nat k) b in
  let b' := skipn (Z.to_nat k) b in
  let act' := s_act s ++ cp in
  let pc' := if (zlen act' =? bgzf_BlockSize) || (k =? 0) then AWSend b' (n + k) else AWLoop b' (n + k) e in
  {| s_pc := pc'; s_act := act'; s_local := s_local s; s_script := s_script s; s_closed := s_closed s;
     s_eof := s_eof s; s_res := s_res s; s_sub := s_sub s; s_data := s_data s ++ cp;
     s_flushmark := s_flushmark s; s_durable := s_durable s; s_marks := s_marks s |}.

Definition sstep (e : option Z) (fb : list Z) (s : sst) : sst :=
  match s_pc s with
  | AIdle =>
      match s_script s with
      | [] => set_pc s ADone
      | OpWrite p :: r =>
          let s := pop s r in
          if s_closed s then ret s 0 1
          else match e with Some x => ret s 0 x | None => set_pc s (AWLoop p 0 None) end
      | OpFlush :: r =>
          let s := pop s r in
          if s_closed s then ret s 0 1
          else match e with
               | Some x => ret s 0 x
               | None => if isnil (s_act s) then ret (set_flushmark s) 0 0 else set_pc s AFRecv
               end
      | OpWait :: r =>
          let s := pop s r in
          match e with Some x => ret s 0 x | None => set_pc s AWaitQ end
      | OpClose :: r =>
          let s := pop s r in
          if s_closed s then ret s 0 (errclass e) else set_pc s ACSend
      end
  | AWLoop b n err =>
      if isnil b || is_some err then ret s n (errclass e)     (* bg.active = c; return n, bg.Error() *)
      else write_iter s b n e
  | AWSend b n => submit s (s_act s) (AWAdd b n)
  | AWAdd b n => set_pc s (AWRecv b n)
  | AWRecv b n => set_act s fb (AWLoop b n e)
  | AFRecv =>
      {| s_pc := AFSend; s_act := fb; s_local := s_act s; s_script := s_script s; s_closed := s_closed s;
         s_eof := s_eof s; s_res := s_res s; s_sub := s_sub s; s_data := s_data s;
         s_flushmark := s_flushmark s; s_durable := s_durable s; s_marks := s_marks s |}
  | AFSend => submit s (s_local s) AFAdd
  | AFAdd => match e with None => ret (set_flushmark s) 0 0 | Some x => ret s 0 x end
  | AWaitQ => match e with None => ret (set_durable s) 0 0 | Some x => ret s 0 x end
  | ACSend => submit s (s_act s) ACAdd
  | ACAdd => set_pc s ACRecv
  | ACRecv => set_pc s ACCompress
  | ACCompress => set_act s [] ACCloseQ
  | ACCloseQ =>
      {| s_pc := ACWg; s_act := s_act s; s_local := s_local s; s_script := s_script s; s_closed := true;
         s_eof := s_eof s; s_res := s_res s; s_sub := s_sub s; s_data := s_data s;
         s_flushmark := s_flushmark s; s_durable := s_durable s; s_marks := s_marks s |}
  | ACWg =>
      (* [e] is the latch after the attempt to write the magic block; a
         successful Close makes everything durable *)
      let s1 :=
        {| s_pc := s_pc s; s_act := s_act s; s_local := s_local s; s_script := s_script s; s_closed := s_closed s;
           s_eof := negb (is_some e); s_res := s_res s; s_sub := s_sub s; s_data := s_data s;
           s_flushmark := s_flushmark s;
           s_durable := if is_some e then s_durable s else zlen (s_data s); s_marks := s_marks s |} in
      ret s1 0 (errclass e)
  | ADone => s
  end.

Definition sinit (script : list wop) : sst :=
  {| s_pc := AIdle; s_act := []; s_local := []; s_script := script; s_closed := false; s_eof := false;
     s_res := []; s_sub := []; s_data := []; s_flushmark := 0; s_durable := 0; s_marks := [] |}.

Fixpoint siter (n : nat) (s : sst) : sst :=
  match n with O => s | S m => siter m (sstep None [] s) end.

Definition sdone (s : sst) : bool := match s_pc s with ADone => true | _ => false end.

(** The sequential writer: run the script to completion (fuel steps). *)
Definition run_writer (fuel : nat) (script : list wop) : sst := siter fuel (sinit script).

Section Out.
  Variable deflate : Z -> list Z -> list Z.
  Variable crc32 : list Z -> Z.
  Variables (pm : wr_patch) (guard ovf : bool) (lvl : Z) (h : gzhdr).

  (** The member a block becomes (empty list when writeBlock fails). *)
  Definition memb (p : list Z) : list Z :=
    match write_block deflate crc32 pm guard ovf lvl h [] p with Ok m => m | _ => [] end.

  (** Bytes the sequential writer has handed to the underlying writer: every
      submitted block is compressed and written at once, in order. *)
  Definition seq_chunks (s : sst) : list (list Z) :=
    map memb (s_sub s) ++ (if s_eof s then [bgzf_magicBlock] else []).
  Definition seq_out (s : sst) : list Z := concat (seq_chunks s).
End Out.

(** Payloads accepted before the first Close of a script. *)
Fixpoint written (script : list wop) : list Z :=
  match script with
  | [] => []
  | OpWrite p :: r => p ++ written r
  | OpClose :: _ => []
  | _ :: r => written r
  end.
