(** The bgzf.Writer pipeline as a small-step concurrent system driven by a
    schedule (list of thread ids):
      thread 0       the goroutine calling the API: executes Writer.sstep, with
                     guards on its channel operations and with the effects of
                     those operations on the pipeline;
      thread 1       the emitter goroutine started by NewWriterLevel
                     (for qw := range bg.queue { writeOK(bg, <-qw.flush) }: it keeps draining after a failure);
      thread 2+i     the goroutine `go c.writeBlock()` of the compressor with id i.
    A step of a thread that is blocked (guard false) or has nothing to do
    leaves the state unchanged.

    Compressors are records that live where the pointer to them is: in
    [x_active] (bg.active / Write's c), [x_local] (Flush's c), the channel
    buffers [x_queue], [x_waiting], or [x_held] (the emitter's qw).  The
    goroutine of compressor i works on the record with id i wherever it is
    (the pointer is shared with the queue); the stage field tells what has
    happened to a queued compressor:
      SSent    sent on bg.queue, qwg.Add and go writeBlock not yet executed
      STasked  writeBlock goroutine started (or, in Close, about to run inline)
      SFlushed writeBlock done, c is in its own flush channel.
    Channel capacities are max(wc+1,2) (x_cap), the pool has that many
    compressors.  [fault k] says whether the k-th Write call on the underlying
    writer fails (fault plan, for C09; the theorems of C01/C08/C12 take the
    all-false plan).  [x_out] has one element per successful underlying Write.

    Executable definitions only. *)
From Coq Require Import ZArith List Bool.
From Hts Require Import Base.Prim Generated Model.Bgzf Model.Writer.
Import ListNotations.
Open Scope Z_scope.

Inductive stage := SIdle | SSent | STasked | SFlushed.

Record comp := {
  c_id : Z;
  c_block : list Z;      (* block[:next] *)
  c_buf : list Z;        (* buf (bytes.Buffer) *)
  c_stage : stage;
  c_err : option Z
}.

Inductive epc :=
| ERange       (* for qw := range bg.queue *)
| EFlushWait   (* <-qw.flush *)
| EWrite       (* writeOK body: error checks, io.Copy, setErr, c.next = 0 *)
| EDone        (* writeOK's deferred calls: qwg.Done(), then bg.waiting <- c *)
| EExit.       (* queue closed and drained: loop left, wg.Done() *)

Record cst := {
  x_api : sst;
  x_active : comp;
  x_local : comp;
  x_queue : list comp;
  x_waiting : list comp;
  x_held : option comp;
  x_epc : epc;
  x_wfail : bool;            (* unused since the emitter no longer breaks on failure; always false *)
  x_qwg : Z;
  x_out : list (list Z);
  x_nwr : Z;                 (* underlying Write calls so far *)
  x_err : option Z;          (* bg.err *)
  x_qclosed : bool;
  x_panic : bool;            (* negative WaitGroup counter *)
  x_cap : Z
}.

Definition stage_eqb (a b : stage) : bool :=
  match a, b with
  | SIdle, SIdle | SSent, SSent | STasked, STasked | SFlushed, SFlushed => true
  | _, _ => false
  end.

Definition with_stage (c : comp) (s : stage) : comp :=
  {| c_id := c_id c; c_block := c_block c; c_buf := c_buf c; c_stage := s; c_err := c_err c |}.
Definition with_block (c : comp) (b : list Z) : comp :=
  {| c_id := c_id c; c_block := b; c_buf := c_buf c; c_stage := c_stage c; c_err := c_err c |}.

Definition set_err (e : option Z) (x : Z) : option Z := match e with None => Some x | _ => e end.

Section Conc.
  Variable deflate : Z -> list Z -> list Z.
  Variable crc32 : list Z -> Z.
  Variables (pm : wr_patch) (guard ovf : bool) (lvl : Z) (h : gzhdr).
  Variable fault : Z -> bool.

  (** compressor.writeBlock (the deferred c.flush <- c is the stage change). *)
  Definition run_block (c : comp) : comp :=
    match write_block deflate crc32 pm guard ovf lvl h (c_buf c) (c_block c) with
    | Ok m => {| c_id := c_id c; c_block := []; c_buf := m; c_stage := SFlushed; c_err := None |}
    | Err e => {| c_id := c_id c; c_block := c_block c;
                  c_buf := c_buf c ++ raw_member deflate crc32 lvl h (c_block c);
                  c_stage := SFlushed; c_err := Some e |}
    | _ => with_stage c SFlushed
    end.

  Definition task_on (id : Z) (c : comp) : comp :=
    if (c_id c =? id) && stage_eqb (c_stage c) STasked then run_block c else c.
  Definition mark_on (id : Z) (c : comp) : comp :=
    if (c_id c =? id) && stage_eqb (c_stage c) SSent then with_stage c STasked else c.

  Definition map_pending (f : comp -> comp) (st : cst) : cst :=
    {| x_api := x_api st; x_active := x_active st; x_local := x_local st;
       x_queue := map f (x_queue st); x_waiting := x_waiting st;
       x_held := match x_held st with Some c => Some (f c) | None => None end;
       x_epc := x_epc st; x_wfail := x_wfail st; x_qwg := x_qwg st; x_out := x_out st; x_nwr := x_nwr st;
       x_err := x_err st; x_qclosed := x_qclosed st; x_panic := x_panic st; x_cap := x_cap st |}.

  (** Generic record update used by the API steps. *)
  Definition upd_api (st : cst) (s : sst) (act loc : comp) (q w : list comp) (qwg : Z) : cst :=
    {| x_api := s; x_active := act; x_local := loc; x_queue := q; x_waiting := w;
       x_held := x_held st; x_epc := x_epc st; x_wfail := x_wfail st; x_qwg := qwg; x_out := x_out st;
       x_nwr := x_nwr st; x_err := x_err st; x_qclosed := x_qclosed st; x_panic := x_panic st; x_cap := x_cap st |}.

  Definition fb_of (st : cst) : list Z :=
    match x_waiting st with c :: _ => c_block c | [] => [] end.

  Definition api_step (st : cst) : cst :=
    let s := x_api st in
    let e := x_err st in
    let adv := sstep e (fb_of st) s in
    let same := upd_api st adv (x_active st) (x_local st) (x_queue st) (x_waiting st) (x_qwg st) in
    match s_pc s with
    | AIdle | AWLoop _ _ _ | ADone => same
    | AWSend _ _ | ACSend =>
        if zlen (x_queue st) <? x_cap st then
          upd_api st adv (x_active st) (x_local st)
                  (x_queue st ++ [with_stage (with_block (x_active st) (s_act s)) SSent])
                  (x_waiting st) (x_qwg st)
        else st
    | AWAdd _ _ | ACAdd =>
        map_pending (mark_on (c_id (x_active st)))
          (upd_api st adv (x_active st) (x_local st) (x_queue st) (x_waiting st) (x_qwg st + 1))
    | AWRecv _ _ =>
        match x_waiting st with
        | c :: w => upd_api st adv c (x_local st) (x_queue st) w (x_qwg st)
        | [] => st
        end
    | AFRecv =>
        match x_waiting st with
        | c :: w => upd_api st adv c (x_active st) (x_queue st) w (x_qwg st)
        | [] => st
        end
    | AFSend =>
        if zlen (x_queue st) <? x_cap st then
          upd_api st adv (x_active st) (x_local st)
                  (x_queue st ++ [with_stage (with_block (x_local st) (s_local s)) SSent])
                  (x_waiting st) (x_qwg st)
        else st
    | AFAdd =>
        map_pending (mark_on (c_id (x_local st)))
          (upd_api st adv (x_active st) (x_local st) (x_queue st) (x_waiting st) (x_qwg st + 1))
    | AWaitQ => if x_qwg st =? 0 then same else st
    | ACRecv =>
        match x_waiting st with
        | _ :: w => upd_api st adv (x_active st) (x_local st) (x_queue st) w (x_qwg st)
        | [] => st
        end
    | ACCompress => map_pending (task_on (c_id (x_active st))) same
    | ACCloseQ =>
        {| x_api := adv; x_active := x_active st; x_local := x_local st; x_queue := x_queue st;
           x_waiting := x_waiting st; x_held := x_held st; x_epc := x_epc st; x_wfail := x_wfail st;
           x_qwg := x_qwg st; x_out := x_out st; x_nwr := x_nwr st; x_err := x_err st;
           x_qclosed := true; x_panic := x_panic st; x_cap := x_cap st |}
    | ACWg =>
        match x_epc st with
        | EExit =>
            match x_err st with
            | Some _ => same
            | None =>
                let bad := fault (x_nwr st) in
                let e' := if bad then Some 9 else None in
                {| x_api := sstep e' (fb_of st) s; x_active := x_active st; x_local := x_local st;
                   x_queue := x_queue st; x_waiting := x_waiting st; x_held := x_held st; x_epc := x_epc st;
                   x_wfail := x_wfail st; x_qwg := x_qwg st;
                   x_out := if bad then x_out st else x_out st ++ [bgzf_magicBlock];
                   x_nwr := x_nwr st + 1; x_err := e'; x_qclosed := x_qclosed st; x_panic := x_panic st;
                   x_cap := x_cap st |}
            end
        | _ => st
        end
    end.

  Definition upd_emit (st : cst) (q w : list comp) (held : option comp) (pc : epc) (wfail : bool)
             (qwg : Z) (out : list (list Z)) (nwr : Z) (err : option Z) (panic : bool) : cst :=
    {| x_api := x_api st; x_active := x_active st; x_local := x_local st; x_queue := q; x_waiting := w;
       x_held := held; x_epc := pc; x_wfail := wfail; x_qwg := qwg; x_out := out; x_nwr := nwr;
       x_err := err; x_qclosed := x_qclosed st; x_panic := panic; x_cap := x_cap st |}.

  Definition emit_step (st : cst) : cst :=
    match x_epc st with
    | ERange =>
        match x_queue st with
        | c :: q => upd_emit st q (x_waiting st) (Some c) EFlushWait false (x_qwg st) (x_out st) (x_nwr st) (x_err st) (x_panic st)
        | [] => if x_qclosed st
                then upd_emit st [] (x_waiting st) None EExit false (x_qwg st) (x_out st) (x_nwr st) (x_err st) (x_panic st)
                else st
        end
    | EFlushWait =>
        match x_held st with
        | Some c => if stage_eqb (c_stage c) SFlushed
                    then upd_emit st (x_queue st) (x_waiting st) (Some c) EWrite false (x_qwg st) (x_out st) (x_nwr st) (x_err st) (x_panic st)
                    else st
        | None => st
        end
    | EWrite =>
        (* writeOK up to the deferred calls:
             if c.err != nil { bg.setErr(c.err); return false }
             if bg.Error() != nil { c.buf.Reset(); return false }
             if c.buf.Len() == 0 { return true }
             _, err := io.Copy(bg.w, &c.buf); if err != nil { bg.setErr(err); return false }
             c.next = 0; return true *)
        match x_held st with
        | None => st
        | Some c =>
            match c_err c with
            | Some e =>
                upd_emit st (x_queue st) (x_waiting st) (Some c) EDone false
                         (x_qwg st) (x_out st) (x_nwr st) (set_err (x_err st) e) (x_panic st)
            | None =>
                if is_some (x_err st) then
                  upd_emit st (x_queue st) (x_waiting st)
                           (Some {| c_id := c_id c; c_block := c_block c; c_buf := []; c_stage := c_stage c; c_err := c_err c |})
                           EDone false (x_qwg st) (x_out st) (x_nwr st) (x_err st) (x_panic st)
                else if isnil (c_buf c) then
                  upd_emit st (x_queue st) (x_waiting st) (Some c) EDone false
                           (x_qwg st) (x_out st) (x_nwr st) (x_err st) (x_panic st)
                else if fault (x_nwr st) then
                  upd_emit st (x_queue st) (x_waiting st) (Some c) EDone false
                           (x_qwg st) (x_out st) (x_nwr st + 1) (set_err (x_err st) 9) (x_panic st)
                else
                  upd_emit st (x_queue st) (x_waiting st)
                           (Some {| c_id := c_id c; c_block := []; c_buf := []; c_stage := c_stage c; c_err := c_err c |})
                           EDone false (x_qwg st) (x_out st ++ [c_buf c]) (x_nwr st + 1) (x_err st) (x_panic st)
            end
        end
    | EDone =>
        (* deferred: bg.qwg.Done(); then bg.waiting <- c; back to the range loop *)
        match x_held st with
        | None => st
        | Some c =>
            if zlen (x_waiting st) <? x_cap st then
              upd_emit st (x_queue st) (x_waiting st ++ [with_stage c SIdle]) None ERange false
                       (x_qwg st - 1) (x_out st) (x_nwr st) (x_err st) (x_panic st || (x_qwg st <=? 0))
            else st
        end
    | EExit => st
    end.

  Definition step (t : nat) (st : cst) : cst :=
    match t with
    | O => api_step st
    | S O => emit_step st
    | S (S i) => map_pending (task_on (Z.of_nat i)) st
    end.

  Fixpoint run (sched : list nat) (st : cst) : cst :=
    match sched with [] => st | t :: r => run r (step t (st)) end.

  Definition mkcomp (i : Z) : comp :=
    {| c_id := i; c_block := []; c_buf := []; c_stage := SIdle; c_err := None |}.

  (** NewWriterLevel: wc++; if wc < 2 { wc = 2 }; the pool; bg.active = <-bg.waiting. *)
  Definition pool_size (wc : Z) : Z := Z.max (wc + 1) 2.
  Definition cinit (wc : Z) (script : list wop) : cst :=
    let n := pool_size wc in
    {| x_api := sinit script; x_active := mkcomp 0; x_local := mkcomp 0; x_queue := [];
       x_waiting := map (fun i => mkcomp (Z.of_nat i)) (seq 1 (Z.to_nat n - 1));
       x_held := None; x_epc := ERange; x_wfail := false; x_qwg := 0; x_out := []; x_nwr := 0;
       x_err := None; x_qclosed := false; x_panic := false; x_cap := n |}.

  Definition run_conc (wc : Z) (script : list wop) (sched : list nat) : cst :=
    run sched (cinit wc script).

  Definition cdone (st : cst) : bool := sdone (x_api st).
  Definition out_bytes (st : cst) : list Z := concat (x_out st).
End Conc.

Definition no_fault (k : Z) : bool := false.

(** Round-robin schedule over the API thread, the emitter and n task threads. *)
Definition rr_round (n : nat) : list nat := seq 0 (n + 2).
Fixpoint rr (rounds n : nat) : list nat :=
  match rounds with O => [] | S r => rr_round n ++ rr r n end.
