(** Which thread of the writer pipeline (Model/WriterConc.v) can take a step:
    the guards of [api_step], [emit_step] and of the compressor goroutines,
    spelled out.  A state in which the caller has not finished its script and
    no thread is enabled would be Stuck (deadlock).  Executable definitions only. *)
From Coq Require Import ZArith List Bool.
From Hts Require Import Base.Prim Generated Model.Bgzf Model.Writer Model.WriterConc.
Import ListNotations.
Open Scope Z_scope.

Definition api_enabled (st : cst) : bool :=
  match s_pc (x_api st) with
  | AWSend _ _ | AFSend | ACSend => zlen (x_queue st) <? x_cap st          (* bg.queue <- c *)
  | AWRecv _ _ | AFRecv | ACRecv => negb (isnil (x_waiting st))            (* <-bg.waiting *)
  | AWaitQ => x_qwg st =? 0                                                 (* bg.qwg.Wait() *)
  | ACWg => match x_epc st with EExit => true | _ => false end              (* bg.wg.Wait() *)
  | ADone => false
  | _ => true
  end.

Definition emit_enabled (st : cst) : bool :=
  match x_epc st with
  | ERange => negb (isnil (x_queue st)) || x_qclosed st                     (* range bg.queue *)
  | EFlushWait => match x_held st with Some c => stage_eqb (c_stage c) SFlushed | None => false end   (* <-qw.flush *)
  | EWrite => true
  | EDone => zlen (x_waiting st) <? x_cap st                                (* deferred bg.waiting <- c *)
  | EExit => false
  end.

(** The goroutine `go c.writeBlock()` of compressor id exists and has not finished. *)
Definition task_enabled (id : Z) (st : cst) : bool :=
  existsb (fun c => (c_id c =? id) && stage_eqb (c_stage c) STasked)
          (match x_held st with Some c => [c] | None => [] end ++ x_queue st).

Definition some_enabled (st : cst) : Prop :=
  api_enabled st = true \/ emit_enabled st = true \/ exists id, task_enabled id st = true.

(** Compressors in the caller's hands, by program point. *)
Definition api_holds (pc : apc) : Z :=
  match pc with
  | AWAdd _ _ | AWRecv _ _ | ACAdd | ACRecv => 0
  | AFSend => 2
  | _ => 1
  end.
