(** C02 / C03, rd > 1 — a safety invariant of the schedule-driven model that
    holds for every file, cache, schedule and history: the rd decompressors
    are conserved.  Between API calls every decompressor is in exactly one of
    {waiting, working, held by the parked read-ahead thread}; no call and no
    read-ahead step duplicates or loses one.  (So the channels never overflow:
    their capacity is rd.) *)
From Coq Require Import ZArith List Bool Lia Permutation.
From Hts Require Import Base.Prim Model.Flat Model.Reader Model.ReaderAsync.
Import ListNotations.
Open Scope Z_scope.

Definition tpark (t : tstate) : list nat := match t with TParked d => [d] | TIdle _ => [] end.
Definition tokens (a : astate) : list nat := a_waiting a ++ a_working a ++ tpark (a_t a).

(** State updates that do not touch the channels. *)
Lemma tokens_as_r a r : tokens (as_r a r) = tokens a. Proof. reflexivity. Qed.
Lemma tokens_dset a i d : tokens (dset a i d) = tokens a. Proof. reflexivity. Qed.
Lemma tokens_as_control a c : tokens (as_control a c) = tokens a. Proof. reflexivity. Qed.
Lemma tokens_as_sched a s : tokens (as_sched a s) = tokens a. Proof. reflexivity. Qed.

Lemma a_fetch_tokens F a i blk off a' : a_fetch F a i blk off = Ok a' -> tokens a' = tokens a.
Proof.
  unfold a_fetch. destruct (r_peekchain _ _ _) as [off'| | |]; try discriminate.
  destruct blk as [b|]; destruct (b_fill F _ off') as [bb e]; intros H; inversion H; reflexivity.
Qed.

Lemma a_fetch_chan F a i blk off a' : a_fetch F a i blk off = Ok a' ->
  a_waiting a' = a_waiting a /\ a_working a' = a_working a /\ a_t a' = a_t a /\ a_control a' = a_control a /\ a_sched a' = a_sched a /\ length (a_decs a') = length (a_decs a).
Proof.
  unfold a_fetch. destruct (r_peekchain _ _ _) as [off'| | |]; try discriminate.
  assert (Hl : forall (l : list dec) i d, length (upd_nat l i d) = length l).
  { induction l as [|x l IH]; intros [|j] d; simpl; auto. }
  destruct blk as [b|]; destruct (b_fill F _ off') as [bb e]; intros H; inversion H; simpl; rewrite Hl; auto 10.
Qed.

Lemma a_keep_chan a b a' : a_keep a b = Ok a' ->
  a_waiting a' = a_waiting a /\ a_working a' = a_working a /\ a_t a' = a_t a /\ a_control a' = a_control a /\ a_sched a' = a_sched a /\ a_decs a' = a_decs a.
Proof.
  unfold a_keep. destruct b as [i|]; [|intros H; inversion H; auto 10].
  destruct (r_cache (a_r a)) as [c|]; [|intros H; inversion H; auto 10].
  destruct (negb (b_has (sget (r_st (a_r a)) i))); [intros H; inversion H; auto 10|].
  destruct (c_put (r_st (a_r a)) c i) as [[[c1 x] y]| | |]; try discriminate. intros H; inversion H; auto 10.
Qed.

(** One read-ahead step conserves the decompressors. *)
Lemma t_step_tokens F a a' : t_step F a = Some (Ok a') -> Permutation (tokens a') (tokens a).
Proof.
  unfold t_step.
  set (run := fun (a1 : astate) (d : nat) (off : Z) =>
    match a_fetch F a1 d (d_blk (dget a1 d)) off with
    | Ok a2 => Ok (as_t (as_working a2 (a_working a2 ++ [d]))
                        (TIdle match d_blk (dget a2 d) with Some bid => b_next (sget (r_st (a_r a2)) bid) | None => -1 end))
    | Err e => Err e | Panic w => Panic w | Stuck => Stuck end).
  assert (Hrun : forall a1 d off a2, run a1 d off = Ok a2 ->
            a_waiting a2 = a_waiting a1 /\ a_working a2 = a_working a1 ++ [d] /\ tpark (a_t a2) = []).
  { intros a1 d off a2. unfold run. destruct (a_fetch F a1 d _ off) as [a3| | |] eqn:Hf; try discriminate.
    destruct (a_fetch_chan _ _ _ _ _ _ Hf) as (H1 & H2 & _). intros H; inversion H; subst; simpl. rewrite H1, H2. auto. }
  assert (Hmove : forall (d : nat) (w x : list nat), Permutation (w ++ (x ++ [d]) ++ []) ((d :: w) ++ x ++ [])).
  { intros d w x. rewrite !app_nil_r. simpl. rewrite app_assoc. apply Permutation_sym. apply Permutation_cons_append. }
  destruct (a_t a) as [next|d] eqn:Ht.
  - destruct (a_waiting a) as [|d w] eqn:Hw; [discriminate|].
    destruct (next <? 0).
    + destruct (a_control a) as [v|] eqn:Hc.
      * intros H. injection H as H1. destruct (Hrun _ _ _ _ H1) as (E1 & E2 & E3).
        unfold tokens. rewrite E1, E2, E3. simpl a_waiting. simpl a_working. rewrite Hw, Ht. simpl tpark. apply Hmove.
      * intros H. inversion H; subst. unfold tokens. simpl. rewrite Hw, Ht. simpl. rewrite app_nil_r.
        rewrite app_assoc. apply Permutation_sym. apply Permutation_cons_append.
    + destruct (a_control a) as [v|] eqn:Hc; intros H; injection H as H1; destruct (Hrun _ _ _ _ H1) as (E1 & E2 & E3);
        unfold tokens; rewrite E1, E2, E3; simpl a_waiting; simpl a_working; rewrite Hw, Ht; simpl tpark; apply Hmove.
  - destruct (a_control a) as [v|] eqn:Hc; [|discriminate].
    intros H. injection H as H1. destruct (Hrun _ _ _ _ H1) as (E1 & E2 & E3).
    unfold tokens. rewrite E1, E2, E3. simpl a_waiting. simpl a_working. rewrite Ht. simpl tpark.
    rewrite app_nil_r. reflexivity.
Qed.

Lemma t_run_tokens F : forall k a a', t_run F k a = Ok a' -> Permutation (tokens a') (tokens a).
Proof.
  induction k as [|k IH]; intros a a' H; simpl in H; [inversion H; reflexivity|].
  destruct (t_step F a) as [[a1| | |]|] eqn:E; try discriminate.
  - rewrite (IH _ _ H). apply (t_step_tokens _ _ _ E).
  - inversion H; reflexivity.
Qed.

Lemma recv_working_tokens F : forall fuel a a' d, recv_working F fuel a = Ok (a', d) -> Permutation (d :: tokens a') (tokens a).
Proof.
  induction fuel as [|fuel IH]; intros a a' d H; simpl in H.
  - destruct (a_working a) as [|x w] eqn:E; [discriminate|]. inversion H; subst. unfold tokens. simpl. rewrite E.
    apply Permutation_middle.
  - destruct (a_working a) as [|x w] eqn:E.
    + destruct (t_step F a) as [[a1| | |]|] eqn:Et; try discriminate.
      rewrite (IH _ _ _ H). apply (t_step_tokens _ _ _ Et).
    + inversion H; subst. unfold tokens. simpl. rewrite E. apply Permutation_middle.
Qed.

Lemma send_control_tokens F : forall fuel a v a', send_control F fuel a v = Ok a' -> Permutation (tokens a') (tokens a).
Proof.
  induction fuel as [|fuel IH]; intros a v a' H; simpl in H.
  - destruct (a_control a); [discriminate|]. inversion H; reflexivity.
  - destruct (a_control a).
    + destruct (t_step F a) as [[a1| | |]|] eqn:Et; try discriminate.
      rewrite (IH _ _ _ H). apply (t_step_tokens _ _ _ Et).
    + inversion H; reflexivity.
Qed.

Lemma select_dec_tokens F : forall fuel a a' d b, select_dec F fuel a = Ok (a', d, b) -> Permutation (d :: tokens a') (tokens a).
Proof.
  assert (Hbase : forall a a' d b,
    match a_waiting a, a_working a with
    | d :: w, [] => Ok (as_waiting a w, d, false)
    | [], d :: w => Ok (as_working a w, d, true)
    | d1 :: w1, d2 :: w2 =>
        let '(x, a1) := pop_sched a in
        if Nat.even x then Ok (as_waiting a1 w1, d1, false) else Ok (as_working a1 w2, d2, true)
    | [], [] => Stuck
    end = Ok (a', d, b) -> Permutation (d :: tokens a') (tokens a)).
  { intros a a' d b H. destruct (a_waiting a) as [|d1 w1] eqn:E1; destruct (a_working a) as [|d2 w2] eqn:E2; try discriminate.
    - inversion H; subst. unfold tokens. simpl. rewrite E1, E2. reflexivity.
    - inversion H; subst. unfold tokens. simpl. rewrite E1, E2. reflexivity.
    - unfold pop_sched in H. destruct (a_sched a) as [|x s]; simpl in H.
      + inversion H; subst. unfold tokens. simpl. rewrite E1, E2. reflexivity.
      + destruct (Nat.even x); inversion H; subst; unfold tokens; simpl; rewrite E1, E2; simpl; [reflexivity|].
        change (d1 :: w1 ++ d :: w2 ++ tpark (a_t a)) with ((d1 :: w1) ++ d :: w2 ++ tpark (a_t a)).
        change (d :: d1 :: w1 ++ w2 ++ tpark (a_t a)) with (d :: (d1 :: w1) ++ w2 ++ tpark (a_t a)).
        apply Permutation_middle. }
  induction fuel as [|fuel IH]; intros a a' d b H; simpl in H.
  - apply (Hbase a a' d b). destruct (a_waiting a), (a_working a); exact H.
  - destruct (a_waiting a) as [|d1 w1] eqn:E1; destruct (a_working a) as [|d2 w2] eqn:E2.
    + destruct (t_step F a) as [[a1| | |]|] eqn:Et; try discriminate.
      rewrite (IH _ _ _ _ H). apply (t_step_tokens _ _ _ Et).
    + apply (Hbase a a' d b). rewrite E1, E2. exact H.
    + apply (Hbase a a' d b). rewrite E1, E2. exact H.
    + apply (Hbase a a' d b). rewrite E1, E2. exact H.
Qed.

Lemma a_keep_tokens a b a' : a_keep a b = Ok a' -> tokens a' = tokens a.
Proof. intros H. destruct (a_keep_chan _ _ _ H) as (H1 & H2 & H3 & _). unfold tokens. rewrite H1, H2, H3. reflexivity. Qed.

Opaque recv_working a_keep blk_base.
Lemma nb_loop_tokens F : forall i a base a' e, nb_loop F i a base = Ok (a', e) -> Permutation (tokens a') (tokens a).
Proof.
  induction i as [|i IH]; intros a base a' e H; simpl in H; [discriminate|].
  destruct (recv_working F (S (length (a_decs a))) a) as [[a1 d]| | |] eqn:Er; try discriminate.
  pose proof (recv_working_tokens _ _ _ _ _ Er) as P1.
  unfold a_wait in H. simpl in H.
  match type of H with context [blk_base ?A3 _ =? base] => set (a3 := A3) in * end.
  assert (P3 : Permutation (tokens a3) (d :: tokens a1)).
  { unfold a3, tokens. simpl. rewrite <- app_assoc. simpl. apply Permutation_sym. apply Permutation_middle. }
  destruct (blk_base a3 (d_blk (dget a1 d)) =? base).
  - inversion H; subst. rewrite P3. exact P1.
  - destruct (d_err (dget a1 d) =? eNil).
    + destruct (a_keep a3 (d_blk (dget a1 d))) as [a4| | |] eqn:Ek; try discriminate.
      pose proof (a_keep_tokens _ _ _ Ek) as P4.
      rewrite (IH _ _ _ _ H). rewrite tokens_as_r, P4, P3. exact P1.
    + rewrite (IH _ _ _ _ H). rewrite P3. exact P1.
Qed.

Transparent recv_working a_keep blk_base.
Lemma a_nextBlock_tokens F a a' e : a_nextBlock F a = Ok (a', e) -> Permutation (tokens a') (tokens a).
Proof.
  unfold a_nextBlock. destruct (r_cur (a_r a)) as [i|]; [|discriminate].
  destruct (r_cacheSwap (a_r a) _) as [[r1 [|]]| | |]; try discriminate.
  - intros H; inversion H; reflexivity.
  - intros H. apply nb_loop_tokens in H. exact H.
Qed.

Lemma a_skip_tokens F : forall fuel a a' e, a_skip F fuel a = Ok (a', e) -> Permutation (tokens a') (tokens a).
Proof.
  induction fuel as [|fuel IH]; intros a a' e H; simpl in H; destruct (acur a) as [i|]; try discriminate.
  - destruct (b_len (ablk a i) =? 0); [discriminate|inversion H; reflexivity].
  - destruct (b_len (ablk a i) =? 0); [|inversion H; reflexivity].
    destruct (a_nextBlock F a) as [[a1 e1]| | |] eqn:En; try discriminate.
    pose proof (a_nextBlock_tokens _ _ _ _ En) as P1.
    destruct (e1 =? eNil).
    + rewrite (IH _ _ _ H). exact P1.
    + inversion H; subst. exact P1.
Qed.

Lemma a_copy_tokens F n : forall fuel a acc a' bs e, a_copy F fuel a n acc = Ok (a', bs, e) -> Permutation (tokens a') (tokens a).
Proof.
  induction fuel as [|fuel IH]; intros a acc a' bs e H; simpl in H.
  - destruct (zlen acc <? n); [discriminate|inversion H; reflexivity].
  - destruct (zlen acc <? n); [|inversion H; reflexivity].
    destruct (acur a) as [i|]; [|discriminate].
    destruct (b_read (ablk a i) (n - zlen acc)) as [[b bs1] e1].
    destruct (e1 =? eEOF).
    + destruct (zlen (acc ++ bs1) =? n); [inversion H; reflexivity|].
      destruct (r_blocked (a_r a)); [inversion H; reflexivity|].
      destruct (a_nextBlock F _) as [[a2 e2]| | |] eqn:En; try discriminate.
      pose proof (a_nextBlock_tokens _ _ _ _ En) as P1.
      destruct (e2 =? eNil).
      * rewrite (IH _ _ _ _ _ H). exact P1.
      * inversion H; subst. exact P1.
    + rewrite (IH _ _ _ _ _ H). reflexivity.
Qed.

Lemma a_read_tokens F a n a' bs e : a_read F a n = Ok (a', bs, e) -> Permutation (tokens a') (tokens a).
Proof.
  unfold a_read. destruct (negb (r_err (a_r a) =? eNil)); [intros H; inversion H; reflexivity|].
  destruct (a_skip F (a_fuel F a) a) as [[a1 e1]| | |] eqn:Es; try discriminate.
  pose proof (a_skip_tokens _ _ _ _ _ Es) as P1.
  destruct (negb (e1 =? eNil)); [intros H; inversion H; subst; exact P1|].
  intros H. apply a_copy_tokens in H. rewrite H. exact P1.
Qed.

Lemma a_readbyte_tokens F a a' bs e : a_readbyte F a = Ok (a', bs, e) -> Permutation (tokens a') (tokens a).
Proof.
  unfold a_readbyte. destruct (negb (r_err (a_r a) =? eNil)); [intros H; inversion H; reflexivity|].
  destruct (a_skip F (a_fuel F a) a) as [[a1 e1]| | |] eqn:Es; try discriminate.
  pose proof (a_skip_tokens _ _ _ _ _ Es) as P1.
  destruct (negb (e1 =? eNil)); [intros H; inversion H; subst; exact P1|].
  destruct (acur _) as [i|]; [|discriminate].
  destruct (b_readbyte _) as [[b bs1] e2].
  destruct (e2 =? eEOF).
  - destruct (r_blocked _); [intros H; inversion H; subst; exact P1|].
    destruct (a_nextBlock F _) as [[a4 e4]| | |] eqn:En; try discriminate.
    pose proof (a_nextBlock_tokens _ _ _ _ En) as P2.
    intros H; inversion H; subst. rewrite tokens_as_r, P2. exact P1.
  - intros H; inversion H; subst. exact P1.
Qed.

Lemma a_seek_tokens F a f o a' e : a_seek F a f o = Ok (a', e) -> Permutation (tokens a') (tokens a).
Proof.
  unfold a_seek. destruct (acur a) as [ci|]; [|discriminate].
  set (fin := fun a1 : astate => match acur a1 with
        | Some i => if negb (b_has (ablk a1 i)) then Panic 4
                    else Ok (as_r a1 (rs_lc (rs_err (rs_st (a_r a1) (sset (r_st (a_r a1)) i (b_seek (ablk a1 i) o))) eNil) (f, o, (f, o))), eNil)
        | None => Panic 3 end).
  assert (Hfin : forall a1 a2 e2, fin a1 = Ok (a2, e2) -> tokens a2 = tokens a1).
  { intros a1 a2 e2. unfold fin. destruct (acur a1) as [i|]; [|discriminate].
    destruct (negb (b_has (ablk a1 i))); [discriminate|]. intros H; inversion H; reflexivity. }
  destruct (negb (f =? b_base (ablk a ci)) || negb (b_has (ablk a ci))).
  2:{ destruct (negb (b_has (ablk a ci))); [discriminate|]. intros H; inversion H; reflexivity. }
  destruct (r_cacheSwap (a_r a) f) as [[r1 [|]]| | |]; try discriminate.
  - intros H. rewrite (Hfin _ _ _ H). reflexivity.
  - destruct (select_dec F (S (length (a_decs a))) (as_r a r1)) as [[[a2 d] fromW]| | |] eqn:Esel; try discriminate.
    pose proof (select_dec_tokens _ _ _ _ _ _ Esel) as P2. rewrite tokens_as_r in P2.
    (* the synchronous fetch with decompressor d from a state a3 in which d is held by the consumer *)
    assert (Hsync : forall a3 a9 e9, Permutation (d :: tokens a3) (tokens a) ->
      match a_fetch F a3 d (acur a3) f with
      | Ok a4 =>
          let '(a5, blk, err) := a_wait a4 d in
          let a6 := as_r a5 (rs_err (rs_cur (a_r a5) blk) err) in
          let a7 := as_control a6 None in
          let a8 := as_waiting (as_control a7 (Some (cur_next a7))) (a_waiting a7 ++ [d]) in
          if negb (err =? eNil) then Ok (a8, err) else fin a8
      | Err e => Err e | Panic w => Panic w | Stuck => Stuck
      end = Ok (a9, e9) -> Permutation (tokens a9) (tokens a)).
    { intros a3 a9 e9 P3. destruct (a_fetch F a3 d (acur a3) f) as [a4| | |] eqn:Ef; try discriminate.
      pose proof (a_fetch_tokens _ _ _ _ _ _ Ef) as P4. unfold a_wait. cbv beta iota zeta.
      match goal with |- (if _ then Ok (?A8, _) else _) = _ -> _ => set (a8 := A8) end.
      assert (P8 : Permutation (tokens a8) (d :: tokens a4)).
      { unfold a8, tokens. simpl. rewrite <- app_assoc. simpl. apply Permutation_sym. apply Permutation_middle. }
      destruct (negb (d_err (dget a4 d) =? eNil)).
      - intros H; inversion H; subst. rewrite P8, P4. exact P3.
      - intros H. rewrite (Hfin _ _ _ H), P8, P4. exact P3. }
    destruct fromW.
    + unfold a_wait. cbv beta iota zeta.
      destruct (d_err (dget a2 d) =? eNil).
      * destruct (a_keep _ (d_blk (dget a2 d))) as [a4| | |] eqn:Ek; try discriminate.
        pose proof (a_keep_tokens _ _ _ Ek) as P4. rewrite tokens_dset in P4.
        destruct (blk_base a4 (d_blk (dget a2 d)) =? f).
        -- destruct (send_control F _ _ _) as [a6| | |] eqn:Es; try discriminate.
           pose proof (send_control_tokens _ _ _ _ _ Es) as P6. rewrite tokens_as_r in P6.
           intros H. rewrite (Hfin _ _ _ H).
           assert (P7 : Permutation (tokens (as_waiting a6 (a_waiting a6 ++ [d]))) (d :: tokens a6)).
           { unfold tokens. simpl. rewrite <- app_assoc. simpl. apply Permutation_sym. apply Permutation_middle. }
           rewrite P7, P6, P4. exact P2.
        -- apply Hsync. rewrite P4. exact P2.
      * apply Hsync. rewrite tokens_dset. exact P2.
    + apply Hsync. exact P2.
Qed.

Lemma a_step_tokens F ch a o a' r : a_step F ch a o = Ok (a', r) -> Permutation (tokens a') (tokens a).
Proof.
  unfold a_step. unfold pop_sched.
  assert (Hpop : tokens (snd (match a_sched a with [] => (O, a) | x :: s => (x, as_sched a s) end)) = tokens a)
    by (destruct (a_sched a); reflexivity).
  destruct (match a_sched a with [] => (O, a) | x :: s => (x, as_sched a s) end) as [k a1]. simpl in Hpop.
  destruct (t_run F k a1) as [a2| | |] eqn:Et; try discriminate.
  pose proof (t_run_tokens _ _ _ _ Et) as P2. rewrite Hpop in P2.
  destruct o as [f b|n| |b| |kk cap].
  - destruct (a_seek F a2 f b) as [[a3 e]| | |] eqn:E; try discriminate.
    intros H; inversion H; subst. rewrite (a_seek_tokens _ _ _ _ _ _ E). exact P2.
  - destruct (a_read F a2 n) as [[[a3 bs] e]| | |] eqn:E; try discriminate.
    intros H; inversion H; subst. rewrite (a_read_tokens _ _ _ _ _ _ E). exact P2.
  - destruct (a_readbyte F a2) as [[[a3 bs] e]| | |] eqn:E; try discriminate.
    intros H; inversion H; subst. rewrite (a_readbyte_tokens _ _ _ _ _ E). exact P2.
  - intros H; inversion H; subst. exact P2.
  - destruct (fst (r_lc (a_r a2))) as [f b].
    destruct (a_seek F a2 f b) as [[a3 e]| | |] eqn:E; try discriminate.
    intros H; inversion H; subst. rewrite (a_seek_tokens _ _ _ _ _ _ E). exact P2.
  - intros H; inversion H; subst. exact P2.
Qed.

(** The state after a history. *)
Fixpoint a_exec (F : file) (ch : list nat) (a : astate) (ops : list rop) : outcome astate :=
  match ops with
  | [] => Ok a
  | o :: ops' => match a_step F ch a o with
                 | Ok (a', _) => a_exec F ch a' ops'
                 | Err e => Err e | Panic w => Panic w | Stuck => Stuck
                 end
  end.

Theorem decompressors_conserved (F : file) (ch : list nat) (rd : nat) (sched : list nat) (ops : list rop) (a' : astate) :
  (1 <= rd)%nat -> a_exec F ch (fst (a_init F rd sched)) ops = Ok a' ->
  Permutation (tokens a') (seq 0 rd) /\ (length (a_waiting a') + length (a_working a') <= rd)%nat.
Proof.
  intros Hrd H.
  assert (P : Permutation (tokens a') (tokens (fst (a_init F rd sched)))).
  { revert H. generalize (fst (a_init F rd sched)). induction ops as [|o ops IH]; intros a H; simpl in H.
    - inversion H; reflexivity.
    - destruct (a_step F ch a o) as [[a1 r]| | |] eqn:E; try discriminate.
      rewrite (IH _ H). apply (a_step_tokens _ _ _ _ _ _ E). }
  assert (P0 : Permutation (tokens (fst (a_init F rd sched))) (seq 0 rd)).
  { unfold a_init. destruct (r_init F) as [r e]. unfold tokens. simpl. rewrite app_nil_r.
    destruct rd as [|rd']; [lia|]. simpl. rewrite Nat.sub_0_r.
    apply Permutation_sym. apply Permutation_cons_append. }
  split; [rewrite P; exact P0|].
  pose proof (Permutation_length (Permutation_trans P P0)) as Hl. unfold tokens in Hl.
  rewrite !app_length, seq_length in Hl. lia.
Qed.
