(** C02, rd > 1, no cache — the schedule-driven model of the read-ahead reader
    refines the reader on block values (hence the flat reader) for every
    schedule: invariant AInv. *)
From Coq Require Import ZArith List Bool Lia Permutation.
From Hts Require Import Base.Prim Model.Flat Model.Reader Model.ReaderAsync
  Proofs.FlatLemmas Proofs.ReaderFlat Proofs.ReaderStore Proofs.CacheSim Proofs.AsyncInv.
Import ListNotations.
Open Scope Z_scope.

Ltac Zify.zify_post_hook ::= Z.div_mod_to_equations.

(** ---- lists with update *)

Lemma upd_nat_length {A} (l : list A) (i : nat) (x : A) : length (upd_nat l i x) = length l.
Proof. revert i. induction l as [|y l IH]; intros [|i]; simpl; auto. Qed.

Lemma nth_upd_same {A} (l : list A) (i : nat) (x d : A) : (i < length l)%nat -> nth i (upd_nat l i x) d = x.
Proof. revert i. induction l as [|y l IH]; intros [|i] H; simpl in *; try lia; auto with arith. Qed.

Lemma nth_upd_other {A} (l : list A) (i j : nat) (x d : A) : i <> j -> nth j (upd_nat l i x) d = nth j l d.
Proof. revert i j. induction l as [|y l IH]; intros [|i] [|j] H; simpl; auto; try lia. Qed.

Lemma nodup_mid {A} (l1 : list A) (d : A) (w l2 : list A) : NoDup (l1 ++ (d :: w) ++ l2) -> ~ In d w.
Proof.
  induction l1 as [|x l1 IH]; simpl; intros H.
  - inversion H as [|? ? Hx _]; subst. intros Hin. apply Hx. apply in_or_app. left. exact Hin.
  - inversion H; subst. apply IH. assumption.
Qed.

Section AR.
Variable F : file.
Hypothesis W : wf_file F = true.
Variable rd : nat.
Hypothesis Hrd : (2 <= rd)%nat.

(** The offsets the read-ahead dispatches from [o] on, if it is not redirected:
    member after member, then the offset at which the fetch fails. *)
Inductive is_chain : Z -> list Z -> Prop :=
| ch_end o : (forall m, fetch F o <> FOk m) -> is_chain o [o]
| ch_step o m l : fetch F o = FOk m -> is_chain (o + m_size m) l -> is_chain o (o :: l).

Lemma chain_head o l : is_chain o l -> exists l', l = o :: l'.
Proof. intros H; inversion H; eauto. Qed.

Lemma fetch_ok_split o m : fetch F o = FOk m -> exists pre post, split_at F pre m post /\ m_base m = o.
Proof.
  unfold fetch. destruct (o <? 0); [discriminate|].
  destruct (find_member F o) as [m'|] eqn:E; [|destruct (fsize F <=? o); discriminate].
  intros H; inversion H; subst m'. unfold find_member in E. apply find_some in E. destruct E as [Hin Hb].
  apply Z.eqb_eq in Hb. apply in_split in Hin. destruct Hin as (pre & post & ->).
  exists pre, post. split; [split; [reflexivity|exact W]|exact Hb].
Qed.

Lemma chain_ok_inv o l m : is_chain o l -> fetch F o = FOk m -> exists l', l = o :: l' /\ is_chain (o + m_size m) l'.
Proof.
  intros H Hf. inversion H as [o' Hne|o' m' l' Hf' Hl']; subst.
  - exfalso. apply (Hne m). exact Hf.
  - rewrite Hf in Hf'. inversion Hf'; subst. eauto.
Qed.

Lemma chain_exists : forall o, 0 <= o -> exists l, is_chain o l.
Proof.
  intros o Ho. destruct (fetch F o) as [m| | |] eqn:E; try (exists [o]; apply ch_end; intros m' Hm; congruence).
  destruct (fetch_ok_split o m E) as (pre & post & S & Hb). subst o. clear Ho E.
  revert pre m S. induction post as [|m' post IH]; intros pre m S.
  - exists [m_base m; m_base m + m_size m]. apply (ch_step _ m); [apply (fetch_at S)|].
    apply ch_end. intros m' Hm. rewrite fetch_end in Hm; [discriminate|exact W|].
    rewrite (split_fsize S). simpl. lia.
  - destruct (IH (pre ++ [m]) m' (split_next S)) as (l & Hl).
    exists (m_base m :: l). apply (ch_step _ m); [apply (fetch_at S)|]. rewrite <- (split_next_base S). exact Hl.
Qed.

(** ---- what a fetch into a fresh block does *)

Definition st_of (a : astate) : store := r_st (a_r a).

Lemma peekchain_none (r : rstate) (fuel : nat) (off : Z) : r_cache r = None -> r_peekchain fuel r off = Ok off.
Proof. intros H. destruct fuel; simpl; rewrite H; reflexivity. Qed.

Lemma a_fetch_fresh (a : astate) (d : nat) (off : Z) :
  r_cache (a_r a) = None ->
  a_fetch F a d None off =
  Ok (dset (as_r a (rs_st (a_r a) (sset (st_of a ++ [b_new]) (length (st_of a)) (fst (b_fill F b_new off)))))
           d (mkD (Some (length (st_of a))) (snd (b_fill F b_new off)))).
Proof.
  intros Hc. unfold a_fetch. rewrite (peekchain_none _ _ _ Hc).
  assert (Hs : sget (r_st (a_r a) ++ [b_new]) (length (r_st (a_r a))) = b_new).
  { unfold sget. rewrite app_nth2 by lia. rewrite Nat.sub_diag. reflexivity. }
  rewrite Hs. destruct (b_fill F b_new off) as [b e]. reflexivity.
Qed.

Lemma a_fetch_reuse (a : astate) (d : nat) (bid : nat) (off : Z) :
  r_cache (a_r a) = None ->
  a_fetch F a d (Some bid) off =
  Ok (dset (as_r a (rs_st (a_r a) (sset (st_of a) bid (fst (b_fill F (sget (st_of a) bid) off)))))
           d (mkD (Some bid) (snd (b_fill F (sget (st_of a) bid) off)))).
Proof.
  intros Hc. unfold a_fetch. rewrite (peekchain_none _ _ _ Hc). unfold st_of.
  destruct (b_fill F (sget (r_st (a_r a)) bid) off) as [b e]. reflexivity.
Qed.

(** ---- the invariant of the channels *)

Definition wbase (a : astate) (d : nat) : Z := blk_base a (d_blk (dget a d)).

(** A queued decompressor holds a faithful fetch of the member at its block's base. *)
Definition entry_ok (a : astate) (d : nat) : Prop :=
  exists bid, d_blk (dget a d) = Some bid /\ (bid < length (st_of a))%nat /\
    0 <= b_base (sget (st_of a) bid) /\
    beq (sget (st_of a) bid) (fst (b_fill F b_new (b_base (sget (st_of a) bid)))) /\
    d_err (dget a d) = snd (b_fill F b_new (b_base (sget (st_of a) bid))).

(** What the read-ahead thread will dispatch, as far as it is determined. *)
Definition fut_ok (a : astate) (fut : list Z) : Prop :=
  match a_control a with
  | Some v => is_chain v fut
  | None => match a_t a with
            | TIdle n => if n <? 0 then fut = [] else is_chain n fut
            | TParked _ => fut = []
            end
  end.

Record chinv (a : astate) : Prop := {
  ci_cache : r_cache (a_r a) = None;
  ci_len : length (a_decs a) = rd;
  ci_tok : Permutation (tokens a) (seq 0 rd);
  ci_idle : forall d, (d < rd)%nat -> ~ In d (a_working a) -> d_blk (dget a d) = None;
  ci_ent : forall d, In d (a_working a) -> entry_ok a d;
  ci_cur : forall d bid, In d (a_working a) -> d_blk (dget a d) = Some bid -> r_cur (a_r a) <> Some bid;
  ci_inj : forall d d' bid, In d (a_working a) -> In d' (a_working a) ->
             d_blk (dget a d) = Some bid -> d_blk (dget a d') = Some bid -> d = d';
  ci_curlt : forall i, r_cur (a_r a) = Some i -> (i < length (st_of a))%nat;
  ci_ctl : forall v, a_control a = Some v -> 0 <= v /\ (a_waiting a <> [] \/ exists d, a_t a = TParked d);
  ci_next : forall n, a_control a = None -> a_t a = TIdle n -> -1 <= n }.

(** The queue followed by what will still be dispatched reads [junk ++ l]. *)
Definition seq_ok (a : astate) (junk l : list Z) : Prop :=
  exists fut, map (wbase a) (a_working a) ++ fut = junk ++ l /\ fut_ok a fut.

(** The expected block [E] is found after at most rd - 1 others. *)
Definition chan_ok (a : astate) (E : Z) : Prop :=
  exists junk l, seq_ok a junk l /\ is_chain E l /\ (length junk + 1 <= rd)%nat.

Lemma tokens_lt (a : astate) : chinv a -> forall d, In d (tokens a) -> (d < rd)%nat.
Proof. intros C d Hin. apply (Permutation_in _ (ci_tok a C)) in Hin. apply in_seq in Hin. lia. Qed.

Lemma tokens_nodup (a : astate) : chinv a -> NoDup (tokens a).
Proof. intros C. apply (Permutation_NoDup (Permutation_sym (ci_tok a C))). apply seq_NoDup. Qed.

Lemma dget_dset_same (a : astate) (d : nat) (x : dec) : (d < length (a_decs a))%nat -> dget (dset a d x) d = x.
Proof. intros H. unfold dget, dset. simpl. apply nth_upd_same. exact H. Qed.

Lemma dget_dset_other (a : astate) (d d' : nat) (x : dec) : d <> d' -> dget (dset a d x) d' = dget a d'.
Proof. intros H. unfold dget, dset. simpl. apply nth_upd_other. exact H. Qed.


(** ---- one dispatch of the read-ahead thread *)

Definition dispatch (a1 : astate) (d : nat) (off : Z) : astate :=
  let n0 := length (st_of a1) in
  let blk := fst (b_fill F b_new off) in
  let a2 := dset (as_r a1 (rs_st (a_r a1) (sset (st_of a1 ++ [b_new]) n0 blk))) d (mkD (Some n0) (snd (b_fill F b_new off))) in
  as_t (as_working a2 (a_working a2 ++ [d])) (TIdle (b_next blk)).

Lemma sget_ext (st : store) (b : block) (j : nat) : (j < length st)%nat ->
  sget (sset (st ++ [b_new]) (length st) b) j = sget st j.
Proof. intros H. rewrite sget_sset_other by lia. apply sget_app_old. exact H. Qed.

Lemma sget_ext_new (st : store) (b : block) : sget (sset (st ++ [b_new]) (length st) b) (length st) = b.
Proof. apply sget_sset_same. rewrite app_length. simpl. lia. Qed.

Lemma run_is_dispatch (a1 : astate) (d : nat) (off : Z) :
  r_cache (a_r a1) = None -> (d < length (a_decs a1))%nat -> d_blk (dget a1 d) = None ->
  (match a_fetch F a1 d (d_blk (dget a1 d)) off with
  | Ok a2 =>
      Ok (as_t (as_working a2 (a_working a2 ++ [d]))
               (TIdle match d_blk (dget a2 d) with Some bid => b_next (sget (r_st (a_r a2)) bid) | None => -1 end))
  | Err e => Err e | Panic w => Panic w | Stuck => Stuck
  end) = Ok (dispatch a1 d off).
Proof.
  intros Hc Hd Hn. rewrite Hn, (a_fetch_fresh a1 d off Hc).
  rewrite dget_dset_same by exact Hd. simpl d_blk. cbv iota.
  unfold dispatch. simpl. unfold st_of. rewrite sget_ext_new. reflexivity.
Qed.

(** The invariant after a dispatch from a state [a1] that differs from a state
    [a0] satisfying the invariant only in its channels: [d] has been taken out,
    control is empty. *)
Lemma dispatch_inv (a0 a1 : astate) (d : nat) (off : Z) :
  chinv a0 -> a_r a1 = a_r a0 -> a_decs a1 = a_decs a0 -> a_working a1 = a_working a0 ->
  a_control a1 = None -> a_sched a1 = a_sched a0 ->
  Permutation (d :: a_waiting a1 ++ a_working a0) (seq 0 rd) -> 0 <= off ->
  let a' := dispatch a1 d off in
  chinv a' /\
  map (wbase a') (a_working a') = map (wbase a0) (a_working a0) ++ [off] /\
  a_t a' = TIdle (b_next (fst (b_fill F b_new off))) /\ a_control a' = None /\ a_sched a' = a_sched a0 /\
  r_cur (a_r a') = r_cur (a_r a0) /\ r_err (a_r a') = r_err (a_r a0) /\ r_lc (a_r a') = r_lc (a_r a0) /\
  r_blocked (a_r a') = r_blocked (a_r a0) /\ a_waiting a' = a_waiting a1 /\
  (length (st_of a0) <= length (st_of a'))%nat /\ (forall j, (j < length (st_of a0))%nat -> sget (st_of a') j = sget (st_of a0) j).
Proof.
  intros C Hr Hdecs Hwk Hctl Hsch Hperm Hoff a'.
  assert (Hdlt : (d < rd)%nat) by (assert (In d (seq 0 rd)) by (apply (Permutation_in _ Hperm); left; reflexivity); apply in_seq in H; lia).
  assert (Hnd : NoDup (d :: a_waiting a1 ++ a_working a0)) by (apply (Permutation_NoDup (Permutation_sym Hperm)); apply seq_NoDup).
  assert (Hdnw : ~ In d (a_working a0)).
  { inversion Hnd as [|? ? Hx _]; subst. intros Hin. apply Hx. apply in_or_app. right. exact Hin. }
  assert (Hlen : length (a_decs a1) = rd) by (rewrite Hdecs; apply (ci_len a0 C)).
  set (n0 := length (st_of a0)).
  assert (Hst1 : st_of a1 = st_of a0) by (unfold st_of; rewrite Hr; reflexivity).
  assert (Hsg : forall j, (j < n0)%nat -> sget (st_of a') j = sget (st_of a0) j).
  { intros j Hj. unfold a', dispatch, st_of. simpl. rewrite Hr. apply sget_ext. exact Hj. }
  assert (Hsgn : sget (st_of a') n0 = fst (b_fill F b_new off)).
  { unfold a', dispatch, st_of. simpl. rewrite Hr. apply sget_ext_new. }
  assert (Hlen' : length (st_of a') = S n0).
  { unfold a', dispatch, st_of. simpl. rewrite Hr, sset_length, app_length. simpl. unfold n0, st_of. lia. }
  assert (Hdg_other : forall d', d' <> d -> dget a' d' = dget a0 d').
  { intros d' Hne. unfold a', dispatch, dget. simpl. rewrite nth_upd_other by congruence. rewrite Hdecs. reflexivity. }
  assert (Hdg_same : dget a' d = mkD (Some n0) (snd (b_fill F b_new off))).
  { unfold a', dispatch, dget. simpl. rewrite nth_upd_same by lia. rewrite Hst1. reflexivity. }
  assert (Hwk' : a_working a' = a_working a0 ++ [d]) by (unfold a', dispatch; simpl; rewrite Hwk; reflexivity).
  destruct (fill_beq F b_new b_new off W Hoff) as (_ & _ & _ & Hbase & _).
  assert (Hwb_old : forall d', In d' (a_working a0) -> wbase a' d' = wbase a0 d' /\ d' <> d).
  { intros d' Hin. assert (Hne : d' <> d) by (intros ->; contradiction). split; [|exact Hne].
    unfold wbase, blk_base. rewrite (Hdg_other d' Hne).
    destruct (ci_ent a0 C d' Hin) as (bid & Hb & Hlt & _). rewrite Hb. fold (st_of a'). fold (st_of a0). rewrite Hsg by exact Hlt. reflexivity. }
  assert (Hmap : map (wbase a') (a_working a') = map (wbase a0) (a_working a0) ++ [off]).
  { rewrite Hwk', map_app. simpl. f_equal.
    - apply map_ext_in. intros d' Hin. apply (Hwb_old d' Hin).
    - unfold wbase, blk_base. rewrite Hdg_same. cbn [d_blk]. fold (st_of a'). rewrite Hsgn, Hbase. reflexivity. }
  split; [|split; [exact Hmap|]].
  2:{ split; [reflexivity|]. split; [unfold a', dispatch; simpl; exact Hctl|]. split; [unfold a', dispatch; simpl; exact Hsch|].
      split; [unfold a', dispatch; simpl; rewrite Hr; reflexivity|].
      split; [unfold a', dispatch; simpl; rewrite Hr; reflexivity|].
      split; [unfold a', dispatch; simpl; rewrite Hr; reflexivity|].
      split; [unfold a', dispatch; simpl; rewrite Hr; reflexivity|].
      split; [reflexivity|]. split; [rewrite Hlen'; unfold n0; lia|exact Hsg]. }
  constructor.
  - unfold a', dispatch. simpl. rewrite Hr. apply (ci_cache a0 C).
  - unfold a', dispatch. simpl. rewrite upd_nat_length. exact Hlen.
  - unfold tokens. rewrite Hwk'. unfold a', dispatch. simpl.
    rewrite app_nil_r. eapply Permutation_trans; [|exact Hperm].
    rewrite app_assoc. apply Permutation_sym. apply Permutation_cons_append.
  - intros d' Hlt Hnin. rewrite Hwk' in Hnin. rewrite in_app_iff in Hnin. simpl in Hnin.
    assert (Hne : d' <> d) by (intros ->; apply Hnin; right; left; reflexivity). rewrite (Hdg_other d' Hne). apply (ci_idle a0 C d' Hlt). tauto.
  - intros d' Hin. rewrite Hwk' in Hin. apply in_app_iff in Hin. destruct Hin as [Hin|[<-|[]]].
    + destruct (Hwb_old d' Hin) as [_ Hne]. destruct (ci_ent a0 C d' Hin) as (bid & Hb & Hlt & H0 & Hbq & He).
      exists bid. rewrite (Hdg_other d' Hne). fold n0 in Hlt. rewrite Hlen', Hsg by exact Hlt.
      split; [exact Hb|]. split; [lia|]. split; [exact H0|]. split; [exact Hbq|exact He].
    + exists n0. rewrite Hdg_same. simpl. rewrite Hlen', Hsgn, Hbase.
      split; [reflexivity|]. split; [lia|]. split; [exact Hoff|]. split; [apply beq_refl|reflexivity].
  - intros d' bid Hin Hb. rewrite Hwk' in Hin. apply in_app_iff in Hin.
    assert (Hcur : r_cur (a_r a') = r_cur (a_r a0)) by (unfold a', dispatch; simpl; rewrite Hr; reflexivity).
    rewrite Hcur. destruct Hin as [Hin|[<-|[]]].
    + destruct (Hwb_old d' Hin) as [_ Hne]. rewrite (Hdg_other d' Hne) in Hb. apply (ci_cur a0 C d' bid Hin Hb).
    + rewrite Hdg_same in Hb. simpl in Hb. inversion Hb; subst bid. intros Hx. pose proof (ci_curlt a0 C _ Hx). unfold n0 in H. lia.
  - intros d1 d2 bid H1 H2 B1 B2. rewrite Hwk' in H1, H2. apply in_app_iff in H1, H2.
    destruct H1 as [H1|[<-|[]]]; destruct H2 as [H2|[<-|[]]].
    + destruct (Hwb_old d1 H1) as [_ N1]. destruct (Hwb_old d2 H2) as [_ N2].
      rewrite (Hdg_other d1 N1) in B1. rewrite (Hdg_other d2 N2) in B2. apply (ci_inj a0 C d1 d2 bid H1 H2 B1 B2).
    + destruct (Hwb_old d1 H1) as [_ N1]. rewrite (Hdg_other d1 N1) in B1. rewrite Hdg_same in B2. simpl in B2. inversion B2; subst bid.
      destruct (ci_ent a0 C d1 H1) as (bid' & Hb' & Hlt' & _). rewrite Hb' in B1. inversion B1; subst. unfold n0 in Hlt'. lia.
    + destruct (Hwb_old d2 H2) as [_ N2]. rewrite (Hdg_other d2 N2) in B2. rewrite Hdg_same in B1. simpl in B1. inversion B1; subst bid.
      destruct (ci_ent a0 C d2 H2) as (bid' & Hb' & Hlt' & _). rewrite Hb' in B2. inversion B2; subst. unfold n0 in Hlt'. lia.
    + reflexivity.
  - intros i Hi. assert (Hcur : r_cur (a_r a') = r_cur (a_r a0)) by (unfold a', dispatch; simpl; rewrite Hr; reflexivity).
    rewrite Hcur in Hi. pose proof (ci_curlt a0 C i Hi). rewrite Hlen'. unfold n0. lia.
  - intros v Hv. unfold a', dispatch in Hv. simpl in Hv. rewrite Hctl in Hv. discriminate.
  - intros n _ Ht. unfold a', dispatch in Ht. simpl in Ht. inversion Ht.
    unfold b_fill. destruct (fetch F off) as [m| | |] eqn:Ef; simpl; unfold b_next; simpl; try lia.
    + destruct (fetch_ok_split off m Ef) as (pre & post & S & Hb). pose proof (split_size_pos S).
      destruct (Z.eqb_spec (m_size m) (-1)); lia.
Qed.


Lemma chain_tail (o : Z) (fut' : list Z) : is_chain o (o :: fut') -> 0 <= o ->
  let n' := b_next (fst (b_fill F b_new o)) in if n' <? 0 then fut' = [] else is_chain n' fut'.
Proof.
  intros H Ho. inversion H as [o' Hne|o' m l Hf Hl]; subst.
  - unfold b_fill, fetch in *. destruct (Z.ltb_spec o 0); [lia|].
    destruct (find_member F o) as [m|]; [exfalso; apply (Hne m); reflexivity|].
    destruct (fsize F <=? o); simpl; reflexivity.
  - unfold b_fill. rewrite Hf. simpl. unfold b_next. simpl.
    destruct (fetch_ok_split o m Hf) as (pre & post & S & Hb). pose proof (split_size_pos S).
    destruct (Z.eqb_spec (m_size m) (-1)); [lia|].
    destruct (Z.ltb_spec (o + m_size m) 0); [lia|exact Hl].
Qed.

(** What a step of the read-ahead thread leaves alone. *)
Definition frame (a a' : astate) : Prop :=
  r_cur (a_r a') = r_cur (a_r a) /\ r_err (a_r a') = r_err (a_r a) /\ r_lc (a_r a') = r_lc (a_r a) /\
  r_blocked (a_r a') = r_blocked (a_r a) /\ a_sched a' = a_sched a /\
  (length (st_of a) <= length (st_of a'))%nat /\ (forall j, (j < length (st_of a))%nat -> sget (st_of a') j = sget (st_of a) j).

Lemma frame_refl a : frame a a.
Proof. unfold frame. repeat split; auto. Qed.

Lemma frame_trans a b c : frame a b -> frame b c -> frame a c.
Proof.
  intros (A1 & A2 & A3 & A4 & A5 & A6 & A7) (B1 & B2 & B3 & B4 & B5 & B6 & B7). unfold frame.
  repeat split; try congruence; try lia. intros j Hj. rewrite B7 by lia. apply A7. exact Hj.
Qed.

Lemma t_step_inv (a : astate) (o : outcome astate) : chinv a -> t_step F a = Some o ->
  exists a', o = Ok a' /\ chinv a' /\ frame a a' /\ (forall junk l, seq_ok a junk l -> seq_ok a' junk l).
Proof.
  intros C Hst. unfold t_step in Hst. cbv zeta in Hst.
  pose proof (tokens_nodup a C) as Hnd. unfold tokens in Hnd.
  (* a dispatch with decompressor d taken from the channels *)
  assert (Hdisp : forall (a1 : astate) (d : nat) (off : Z) (fut' : list Z),
            a_r a1 = a_r a -> a_decs a1 = a_decs a -> a_working a1 = a_working a -> a_control a1 = None -> a_sched a1 = a_sched a ->
            Permutation (d :: a_waiting a1 ++ a_working a) (seq 0 rd) -> 0 <= off ->
            (forall fut, fut_ok a fut -> fut = off :: tl fut /\ is_chain off fut) ->
            exists a', (match a_fetch F a1 d (d_blk (dget a1 d)) off with
                        | Ok a2 => Ok (as_t (as_working a2 (a_working a2 ++ [d]))
                                     (TIdle match d_blk (dget a2 d) with Some bid => b_next (sget (r_st (a_r a2)) bid) | None => -1 end))
                        | Err e => Err e | Panic w => Panic w | Stuck => Stuck end) = Ok a' /\
                       chinv a' /\ frame a a' /\ (forall junk l, seq_ok a junk l -> seq_ok a' junk l)).
  { intros a1 d off _ Hr Hdecs Hwk Hctl Hsch Hperm Hoff Hfut.
    assert (Hdlt : (d < rd)%nat) by (assert (In d (seq 0 rd)) by (apply (Permutation_in _ Hperm); left; reflexivity); apply in_seq in H; lia).
    assert (Hnd1 : NoDup (d :: a_waiting a1 ++ a_working a)) by (apply (Permutation_NoDup (Permutation_sym Hperm)); apply seq_NoDup).
    assert (Hdnw : ~ In d (a_working a)) by (inversion Hnd1 as [|? ? Hx _]; subst; intros Hin; apply Hx; apply in_or_app; right; exact Hin).
    assert (Hnone : d_blk (dget a1 d) = None) by (unfold dget; rewrite Hdecs; apply (ci_idle a C d Hdlt Hdnw)).
    rewrite (run_is_dispatch a1 d off ltac:(rewrite Hr; apply (ci_cache a C)) ltac:(rewrite Hdecs, (ci_len a C); exact Hdlt) Hnone).
    destruct (dispatch_inv a a1 d off C Hr Hdecs Hwk Hctl Hsch Hperm Hoff)
      as (C' & Hmap & Ht' & Hc' & Hs' & F1 & F2 & F3 & F4 & _ & F6 & F7).
    exists (dispatch a1 d off). split; [reflexivity|]. split; [exact C'|].
    split; [unfold frame; repeat split; assumption|].
    intros junk l (fut & HS & Hfo).
    destruct (Hfut fut Hfo) as [Hfeq Hch]. rewrite Hfeq in HS, Hch.
    exists (tl fut). split; [rewrite Hmap, <- app_assoc; exact HS|].
    unfold fut_ok. rewrite Hc', Ht'. apply (chain_tail off (tl fut) Hch Hoff). }
  destruct (a_t a) as [next|d] eqn:Ht.
  - destruct (a_waiting a) as [|d w] eqn:Hw; [discriminate|].
    assert (Hperm : Permutation (d :: w ++ a_working a) (seq 0 rd)).
    { pose proof (ci_tok a C) as P. unfold tokens in P. rewrite Hw, Ht in P. simpl in P. rewrite app_nil_r in P. exact P. }
    destruct (Z.ltb_spec next 0) as [Hneg|Hpos].
    + destruct (a_control a) as [v|] eqn:Hc.
      * destruct (ci_ctl a C v Hc) as [Hv _]. inversion Hst; subst o.
        apply (Hdisp (as_control (as_waiting a w) None) d v []); try reflexivity; try exact Hperm; try exact Hv.
        intros fut Hfo. unfold fut_ok in Hfo. rewrite Hc in Hfo. destruct (chain_head v fut Hfo) as (l' & ->). simpl. auto.
      * inversion Hst; subst o. eexists. split; [reflexivity|].
        split; [|split; [unfold frame; simpl; repeat split; auto|]].
        -- destruct C as [C1 C2 C3 C4 C5 C6 C7 C8 C9 C10]. constructor; simpl; auto.
           ++ unfold tokens. simpl. unfold tokens in C3. rewrite Hw, Ht in C3. simpl in C3. rewrite app_nil_r in C3.
              eapply Permutation_trans; [|exact C3]. rewrite app_assoc. apply Permutation_sym. apply Permutation_cons_append.
           ++ intros v Hv. rewrite Hc in Hv. discriminate.
           ++ intros n _ Hn. discriminate.
        -- intros junk l (fut & HS & Hfo). exists fut. simpl. split; [exact HS|].
           unfold fut_ok in *. simpl. rewrite Hc, Ht in Hfo. rewrite Hc.
           destruct (Z.ltb_spec next 0); [exact Hfo|lia].
    + destruct (a_control a) as [v|] eqn:Hc.
      * destruct (ci_ctl a C v Hc) as [Hv _]. inversion Hst; subst o.
        apply (Hdisp (as_control (as_waiting a w) None) d v []); try reflexivity; try exact Hperm; try exact Hv.
        intros fut Hfo. unfold fut_ok in Hfo. rewrite Hc in Hfo. destruct (chain_head v fut Hfo) as (l' & ->). simpl. auto.
      * inversion Hst; subst o.
        apply (Hdisp (as_waiting a w) d next []); try reflexivity; try exact Hperm; try exact Hpos; try exact Hc.
        intros fut Hfo. unfold fut_ok in Hfo. rewrite Hc, Ht in Hfo.
        destruct (Z.ltb_spec next 0); [lia|]. destruct (chain_head next fut Hfo) as (l' & ->). simpl. auto.
  - destruct (a_control a) as [v|] eqn:Hc; [|discriminate].
    destruct (ci_ctl a C v Hc) as [Hv _]. inversion Hst; subst o.
    apply (Hdisp (as_control a None) d v []); try reflexivity; try exact Hv.
    + pose proof (ci_tok a C) as P. unfold tokens in P. rewrite Ht in P. simpl in P.
      eapply Permutation_trans; [|exact P]. rewrite app_assoc. apply Permutation_cons_append.
    + intros fut Hfo. unfold fut_ok in Hfo. rewrite Hc in Hfo. destruct (chain_head v fut Hfo) as (l' & ->). simpl. auto.
Qed.


(** ---- the consumer's blocking receive from working *)

Lemma perm_len_seq (l : list nat) : Permutation l (seq 0 rd) -> length l = rd.
Proof. intros P. rewrite (Permutation_length P), seq_length. reflexivity. Qed.

Lemma recv_spec (a : astate) (junk l : list Z) (fuel : nat) :
  chinv a -> seq_ok a junk l -> l <> [] -> (2 <= fuel)%nat ->
  exists a' d w, recv_working F fuel a = Ok (as_working a' w, d) /\ a_working a' = d :: w /\
                 chinv a' /\ frame a a' /\ seq_ok a' junk l.
Proof.
  intros C Hch Hlne Hf. destruct fuel as [|fuel]; [lia|].
  destruct (a_working a) as [|d w] eqn:Hw.
  - (* the read-ahead thread must produce an entry *)
    pose proof Hch as (fut & HS & Hfo).
    rewrite Hw in HS. simpl in HS.
    assert (Hfne : fut <> []).
    { intros ->. destruct l; [congruence|]. destruct junk; discriminate. }
    assert (Hwlen : a_t a = TIdle (match a_t a with TIdle n => n | _ => 0 end) -> a_waiting a <> []).
    { intros Ht. pose proof (ci_tok a C) as P. unfold tokens in P. rewrite Hw, Ht in P. simpl in P. rewrite app_nil_r in P.
      pose proof (perm_len_seq _ P). intros E0. rewrite E0 in H. simpl in H. lia. }
    simpl recv_working. rewrite Hw.
    assert (Hen : exists o, t_step F a = Some o /\ (forall a1, o = Ok a1 -> a_working a1 <> [])).
    { unfold t_step. cbv zeta. unfold fut_ok in Hfo.
      destruct (a_t a) as [next|dp] eqn:Ht.
      - destruct (a_waiting a) as [|d0 w0] eqn:Hwt; [exfalso; apply (Hwlen eq_refl); reflexivity|].
        destruct (a_control a) as [v|] eqn:Hc.
        + destruct (next <? 0); eexists; (split; [reflexivity|]);
            intros a1 H1; destruct (a_fetch F _ d0 _ v) as [a2| | |]; try discriminate; inversion H1; subst; simpl; destruct (a_working a2); discriminate.
        + destruct (Z.ltb_spec next 0); [congruence|].
          eexists; (split; [reflexivity|]).
          intros a1 H1; destruct (a_fetch F _ d0 _ next) as [a2| | |]; try discriminate; inversion H1; subst; simpl; destruct (a_working a2); discriminate.
      - destruct (a_control a) as [v|] eqn:Hc; [|congruence].
        eexists; (split; [reflexivity|]).
        intros a1 H1; destruct (a_fetch F _ dp _ v) as [a2| | |]; try discriminate; inversion H1; subst; simpl; destruct (a_working a2); discriminate. }
    destruct Hen as (o & Hts & Hne). rewrite Hts.
    destruct (t_step_inv a o C Hts) as (a1 & -> & C1 & Fr1 & Hch1).
    specialize (Hne a1 eq_refl). destruct (a_working a1) as [|d w] eqn:Hw1; [congruence|].
    exists a1, d, w. split.
    + destruct fuel as [|fuel']; [lia|]. simpl. rewrite Hw1. reflexivity.
    + split; [exact Hw1|]. split; [exact C1|]. split; [exact Fr1|exact (Hch1 junk l Hch)].
  - exists a, d, w. split; [simpl; rewrite Hw; reflexivity|]. split; [exact Hw|]. split; [exact C|]. split; [apply frame_refl|exact Hch].
Qed.


(** ---- nextBlock: the loop over the queued decompressors *)

Lemma fill_nil (o : Z) (b : block) : snd (b_fill F b o) = eNil ->
  exists m, fetch F o = FOk m /\ b_next (fst (b_fill F b o)) = o + m_size m.
Proof.
  unfold b_fill. destruct (fetch F o) as [m| | |] eqn:Ef; simpl; intros H; try discriminate.
  exists m. split; [reflexivity|]. unfold b_next. simpl.
  destruct (fetch_ok_split o m Ef) as (pre & post & S & Hb). pose proof (split_size_pos S).
  destruct (Z.eqb_spec (m_size m) (-1)); [lia|reflexivity].
Qed.

(** What the consumer keeps of its own state across channel operations. *)
Definition rframe (a a' : astate) : Prop :=
  r_err (a_r a') = r_err (a_r a) /\ r_lc (a_r a') = r_lc (a_r a) /\ r_blocked (a_r a') = r_blocked (a_r a) /\
  (length (st_of a) <= length (st_of a'))%nat /\ (forall j, (j < length (st_of a))%nat -> sget (st_of a') j = sget (st_of a) j).

Lemma frame_rframe a a' : frame a a' -> rframe a a'.
Proof. intros (_ & A2 & A3 & A4 & _ & A6 & A7). unfold rframe. auto. Qed.

Lemma rframe_trans a b c : rframe a b -> rframe b c -> rframe a c.
Proof.
  intros (A2 & A3 & A4 & A6 & A7) (B2 & B3 & B4 & B6 & B7). unfold rframe.
  repeat split; try congruence; try lia. intros j Hj. rewrite B7 by lia. apply A7. exact Hj.
Qed.

(** The current block is a faithful fetch of the member at [E]. *)
Definition got (a : astate) (E e : Z) : Prop :=
  exists bid, r_cur (a_r a) = Some bid /\ (bid < length (st_of a))%nat /\
              beq (sget (st_of a) bid) (fst (b_fill F b_new E)) /\ e = snd (b_fill F b_new E).

(** Taking the head of working: wait(), waiting <- dec, current = its block. *)
Definition popped (a1 : astate) (d : nat) (w : list nat) : astate :=
  let a2 := dset (as_working a1 w) d (mkD None (d_err (dget a1 d))) in
  as_waiting (as_r a2 (rs_cur (a_r a2) (d_blk (dget a1 d)))) (a_waiting a2 ++ [d]).

Lemma popped_inv (a1 : astate) (d : nat) (w : list nat) :
  chinv a1 -> a_working a1 = d :: w ->
  let a3 := popped a1 d w in
  chinv a3 /\ rframe a1 a3 /\ a_working a3 = w /\ st_of a3 = st_of a1 /\
  map (wbase a3) w = map (wbase a1) w /\ a_control a3 = a_control a1 /\ a_t a3 = a_t a1 /\ a_sched a3 = a_sched a1 /\
  got a3 (wbase a1 d) (d_err (dget a1 d)) /\ 0 <= wbase a1 d /\ a_waiting a3 <> [].
Proof.
  intros C Hw a3.
  pose proof (tokens_nodup a1 C) as Hnd. unfold tokens in Hnd. rewrite Hw in Hnd.
  assert (Hdin : In d (a_working a1)) by (rewrite Hw; left; reflexivity).
  assert (Hdlt : (d < rd)%nat) by (apply (tokens_lt a1 C); unfold tokens; rewrite Hw; apply in_or_app; right; left; reflexivity).
  assert (Hdnw : ~ In d w).
  { apply (nodup_mid _ _ _ _ Hnd). }
  destruct (ci_ent a1 C d Hdin) as (bid & Hb & Hlt & H0 & Hbq & He).
  assert (Hdg_same : dget a3 d = mkD None (d_err (dget a1 d))).
  { unfold a3, popped, dget. simpl. apply nth_upd_same. rewrite (ci_len a1 C). exact Hdlt. }
  assert (Hdg_other : forall d', d' <> d -> dget a3 d' = dget a1 d').
  { intros d' Hne. unfold a3, popped, dget. simpl. apply nth_upd_other. congruence. }
  assert (Hst : st_of a3 = st_of a1) by reflexivity.
  assert (Hwb : forall d', In d' w -> wbase a3 d' = wbase a1 d').
  { intros d' Hin. unfold wbase, blk_base. rewrite Hdg_other by (intros ->; contradiction). reflexivity. }
  split; [|split; [unfold rframe; simpl; repeat split; auto|]].
  2:{ split; [reflexivity|]. split; [reflexivity|]. split; [apply map_ext_in; exact Hwb|].
      split; [reflexivity|]. split; [reflexivity|]. split; [reflexivity|].
      split.
      - exists bid. unfold a3, popped. simpl. rewrite Hb. split; [reflexivity|]. split; [exact Hlt|].
        unfold wbase, blk_base. rewrite Hb. fold (st_of a1). split; [exact Hbq|exact He].
      - split; [unfold wbase, blk_base; rewrite Hb; exact H0|].
        unfold a3, popped. simpl. destruct (a_waiting a1); discriminate. }
  constructor.
  - apply (ci_cache a1 C).
  - unfold a3, popped. simpl. rewrite upd_nat_length. apply (ci_len a1 C).
  - unfold tokens, a3, popped. simpl. pose proof (ci_tok a1 C) as P. unfold tokens in P. rewrite Hw in P.
    eapply Permutation_trans; [|exact P]. rewrite <- app_assoc. apply Permutation_app_head. simpl. apply Permutation_refl.
  - intros d' Hlt' Hnin. destruct (Nat.eq_dec d' d) as [->|Hne]; [rewrite Hdg_same; reflexivity|].
    rewrite (Hdg_other d' Hne). apply (ci_idle a1 C d' Hlt'). rewrite Hw. intros [E0|Hin]; [congruence|]. apply Hnin. exact Hin.
  - intros d' Hin. change (a_working a3) with w in Hin.
    assert (Hne : d' <> d) by (intros ->; contradiction).
    destruct (ci_ent a1 C d' ltac:(rewrite Hw; right; exact Hin)) as (bid' & Hb' & R).
    exists bid'. rewrite (Hdg_other d' Hne). split; [exact Hb'|exact R].
  - intros d' bid' Hin Hb'. change (a_working a3) with w in Hin.
    assert (Hne : d' <> d) by (intros ->; contradiction). rewrite (Hdg_other d' Hne) in Hb'.
    unfold a3, popped. simpl. rewrite Hb. intros Hx. inversion Hx; subst bid'.
    apply Hne. apply (ci_inj a1 C d' d bid); [rewrite Hw; right; exact Hin|exact Hdin|exact Hb'|exact Hb].
  - intros d1 d2 bid' H1 H2 B1 B2. change (a_working a3) with w in H1, H2.
    assert (N1 : d1 <> d) by (intros ->; contradiction). assert (N2 : d2 <> d) by (intros ->; contradiction).
    rewrite (Hdg_other d1 N1) in B1. rewrite (Hdg_other d2 N2) in B2.
    apply (ci_inj a1 C d1 d2 bid'); [rewrite Hw; right; exact H1|rewrite Hw; right; exact H2|exact B1|exact B2].
  - intros i Hi. unfold a3, popped in Hi. simpl in Hi. rewrite Hb in Hi. inversion Hi; subst. exact Hlt.
  - intros v Hv. change (a_control a3) with (a_control a1) in Hv. destruct (ci_ctl a1 C v Hv) as [Hv0 _]. split; [exact Hv0|].
    left. unfold a3, popped. simpl. destruct (a_waiting a1); discriminate.
  - intros n Hc Ht. apply (ci_next a1 C n Hc Ht).
Qed.


Lemma chinv_cur_none (a : astate) : chinv a -> chinv (as_r a (rs_cur (a_r a) None)).
Proof.
  intros [C1 C2 C3 C4 C5 C6 C7 C8 C9 C10]. constructor; simpl; auto; try discriminate.
Qed.

Lemma a_keep_none (a : astate) (b : option nat) : r_cache (a_r a) = None -> a_keep a b = Ok a.
Proof. intros H. unfold a_keep. rewrite H. destruct b; reflexivity. Qed.

Lemma nb_loop_S (i : nat) (a : astate) (base : Z) :
  nb_loop F (S i) a base =
  match recv_working F (S (length (a_decs a))) a with
  | Ok (a1, d) =>
      let '(a2, blk, err) := a_wait a1 d in
      let a3 := as_waiting (as_r a2 (rs_cur (a_r a2) blk)) (a_waiting a2 ++ [d]) in
      if blk_base a3 blk =? base then Ok (a3, err)
      else if err =? eNil then
             match a_keep a3 blk with
             | Ok a4 => nb_loop F i (as_r a4 (rs_cur (a_r a4) None)) base
             | Err e => Err e | Panic w => Panic w | Stuck => Stuck
             end
           else nb_loop F i a3 base
  | Err e => Err e | Panic w => Panic w | Stuck => Stuck
  end.
Proof. reflexivity. Qed.

Lemma seq_ok_cur_none (a : astate) junk l : seq_ok a junk l -> seq_ok (as_r a (rs_cur (a_r a) None)) junk l.
Proof. intros (fut & HS & Hfo). exists fut. split; [exact HS|exact Hfo]. Qed.

Lemma nb_loop_spec : forall i a E junk l,
  chinv a -> 0 <= E -> seq_ok a junk l -> is_chain E l ->
  (length junk + 1 <= rd)%nat -> (length junk < i)%nat ->
  exists a' e, nb_loop F i a E = Ok (a', e) /\ chinv a' /\ rframe a a' /\ got a' E e /\ a_sched a' = a_sched a /\
               (e = eNil -> chan_ok a' (b_next (fst (b_fill F b_new E)))).
Proof.
  induction i as [|i IH]; intros a E junk l C HE Hseq Hl Hjb Hji; [lia|].
  assert (Hlne : l <> []) by (destruct (chain_head E l Hl) as (l' & ->); discriminate).
  destruct (recv_spec a junk l (S (length (a_decs a))) C Hseq Hlne ltac:(rewrite (ci_len a C); lia))
    as (a1 & d & w & Hrecv & Hw1 & C1 & Fr1 & Hseq1).
  rewrite nb_loop_S, Hrecv. unfold a_wait. cbv beta iota zeta.
  change (dget (as_working a1 w) d) with (dget a1 d).
  change (as_waiting (as_r (dset (as_working a1 w) d (mkD None (d_err (dget a1 d))))
            (rs_cur (a_r (dset (as_working a1 w) d (mkD None (d_err (dget a1 d))))) (d_blk (dget a1 d))))
            (a_waiting (dset (as_working a1 w) d (mkD None (d_err (dget a1 d)))) ++ [d]))
    with (popped a1 d w).
  pose proof (popped_inv a1 d w C1 Hw1) as Hpi. cbv zeta in Hpi.
  set (a3 := popped a1 d w) in *.
  destruct Hpi as (C3 & Fr3 & Hw3 & Hst3 & Hmap3 & Hc3 & Ht3 & Hs3 & Hgot & Hb0 & Hwne).
  assert (Hbb : blk_base a3 (d_blk (dget a1 d)) = wbase a1 d) by reflexivity.
  rewrite Hbb. clear Hbb. clearbody a3.
  (* the sequence after the pop *)
  destruct Hseq1 as (fut1 & HS1 & Hfo1). rewrite Hw1 in HS1. simpl in HS1.
  assert (Hfo3 : fut_ok a3 fut1) by (unfold fut_ok in *; rewrite Hc3, Ht3; exact Hfo1).
  assert (Hrf : rframe a a3) by (apply (rframe_trans _ a1); [apply frame_rframe; exact Fr1|exact Fr3]).
  assert (Hsch : a_sched a3 = a_sched a) by (rewrite Hs3; apply Fr1).
  destruct (Z.eqb_spec (wbase a1 d) E) as [Heq|Hneq].
  - (* accepted *)
    exists a3, (d_err (dget a1 d)). split; [reflexivity|]. split; [exact C3|]. split; [exact Hrf|].
    split; [rewrite <- Heq; exact Hgot|]. split; [exact Hsch|].
    intros Hnil. destruct Hgot as (bid & _ & _ & _ & Herr). rewrite Heq in Herr. rewrite Hnil in Herr.
    destruct (fill_nil E b_new (eq_sym Herr)) as (m & Hfm & Hnx). rewrite Hnx.
    destruct (chain_ok_inv E l m Hl Hfm) as (l' & Hleq & Hl'). rewrite Hleq in HS1.
    destruct junk as [|x junk'].
    + simpl in HS1. inversion HS1 as [[Hx HS3]].
      exists [], l'. split; [exists fut1; split; [rewrite Hw3, Hmap3; exact HS3|exact Hfo3]|]. split; [try rewrite Heq; exact Hl'|simpl; lia].
    + simpl in HS1. inversion HS1 as [[Hx HS3]].
      exists (junk' ++ [E]), l'. split; [exists fut1; split; [rewrite Hw3, Hmap3, HS3, <- app_assoc; reflexivity|exact Hfo3]|].
      split; [try rewrite Heq; exact Hl'|]. rewrite app_length. simpl in *. lia.
  - (* not the block wanted: it is one of the stale entries *)
    destruct junk as [|x junk'].
    { exfalso. simpl in HS1. destruct (chain_head E l Hl) as (l' & ->). inversion HS1. congruence. }
    simpl in HS1. inversion HS1 as [[Hx HS3]].
    assert (Hseq3 : seq_ok a3 junk' l) by (exists fut1; split; [rewrite Hw3, Hmap3; exact HS3|exact Hfo3]).
    simpl in Hjb, Hji.
    destruct (d_err (dget a1 d) =? eNil).
    + rewrite (a_keep_none a3 _ (ci_cache a3 C3)).
      destruct (IH (as_r a3 (rs_cur (a_r a3) None)) E junk' l (chinv_cur_none a3 C3) HE (seq_ok_cur_none a3 _ _ Hseq3) Hl ltac:(lia) ltac:(lia))
        as (a' & e & Hnb & C' & Fr' & Hg' & Hs' & Hch').
      exists a', e. split; [exact Hnb|]. split; [exact C'|]. split; [apply (rframe_trans _ a3); [exact Hrf|exact Fr']|].
      split; [exact Hg'|]. split; [rewrite Hs'; exact Hsch|exact Hch'].
    + destruct (IH a3 E junk' l C3 HE Hseq3 Hl ltac:(lia) ltac:(lia)) as (a' & e & Hnb & C' & Fr' & Hg' & Hs' & Hch').
      exists a', e. split; [exact Hnb|]. split; [exact C'|]. split; [apply (rframe_trans _ a3); [exact Hrf|exact Fr']|].
      split; [exact Hg'|]. split; [rewrite Hs'; exact Hsch|exact Hch'].
Qed.


(** ---- the relation with the reader on block values *)

Definition chan_for (a : astate) (v : vstate) : Prop :=
  b_has (v_cur v) = true -> chan_ok a (b_next (v_cur v)).

Lemma fill_has_nil (b : block) (k : Z) : 0 <= k -> b_has (fst (b_fill F b k)) = true -> snd (b_fill F b k) = eNil.
Proof.
  intros Hk. unfold b_fill, fetch. destruct (Z.ltb_spec k 0); [lia|].
  destruct (find_member F k); [reflexivity|]. destruct (fsize F <=? k); simpl; discriminate.
Qed.

Record arel (a : astate) (v : vstate) : Prop := {
  ar_csr : csr F (a_r a) v;
  ar_ch : chinv a;
  ar_chan : chan_for a v }.

Lemma chinv_eta (a : astate) : chinv a -> chinv (as_r a (a_r a)).
Proof. destruct a. intros H. exact H. Qed.

Lemma seq_ok_eta (a : astate) junk l : seq_ok a junk l -> seq_ok (as_r a (a_r a)) junk l.
Proof. destruct a. intros H. exact H. Qed.

Lemma cacheSwap_none (r : rstate) (k : Z) : r_cache r = None -> r_cacheSwap r k = Ok (r, false).
Proof. intros H. unfold r_cacheSwap. rewrite H. reflexivity. Qed.

Lemma b_next_beq (b b' : block) : beq b b' -> b_next b = b_next b'.
Proof. intros (B1 & B2 & _). unfold b_next. rewrite B1, B2. reflexivity. Qed.

Lemma a_nextBlock_sim (a : astate) (v : vstate) :
  arel a v -> b_has (v_cur v) = true ->
  exists a', a_nextBlock F a = Ok (a', snd (v_nextBlock F v)) /\ arel a' (fst (v_nextBlock F v)).
Proof.
  intros [Hcs C Hcf] Hh.
  destruct (cs_cur _ _ _ Hcs) as (i & Hci & Hil & Hbeq & _).
  unfold a_nextBlock. rewrite Hci. rewrite (cacheSwap_none _ _ (ci_cache a C)).
  rewrite (b_next_beq _ _ Hbeq).
  set (E := b_next (v_cur v)).
  destruct (good_next ((cs_vgood _ _ _ Hcs) Hh)) as [_ HE]. fold E in HE.
  destruct (Hcf Hh) as (junk & l & Hseq & Hl & Hjb). fold E in Hl.
  destruct (nb_loop_spec (length (a_decs a)) (as_r a (a_r a)) E junk l (chinv_eta a C) HE (seq_ok_eta a _ _ Hseq) Hl Hjb
              ltac:(rewrite (ci_len a C); lia)) as (a' & e & Hnb & C' & Fr' & (bid & Hcb & Hbl & Hbq & Hee) & Hs' & Hch').
  rewrite Hnb.
  destruct (fill_beq F b_new (v_cur v) E W HE) as (Hb1 & Hb2 & _).
  destruct (fill_beq F (v_cur v) (v_cur v) E W HE) as (_ & _ & Hvg & _).
  pose proof (fill_has_nil (v_cur v) E HE) as Hhn.
  unfold v_nextBlock. fold E.
  destruct (b_fill F (v_cur v) E) as [bv ev] eqn:Hfill. simpl in *.
  assert (Hev : e = ev) by congruence. subst e.
  exists a'. split; [try rewrite Hev; try rewrite Hb2; reflexivity|].
  destruct Fr' as (R1 & R2 & R3 & _).
  constructor.
  - constructor; simpl.
    + rewrite R1. apply (cs_err _ _ _ Hcs).
    + rewrite R2. apply (cs_lc _ _ _ Hcs).
    + rewrite R3. apply (cs_bl _ _ _ Hcs).
    + exact Hvg.
    + exists bid. split; [exact Hcb|]. split; [exact Hbl|]. split.
      * destruct Hbq as (Q1 & Q2 & Q3 & Q4 & Q5 & Q6). destruct Hb1 as (P1 & P2 & P3 & P4 & P5 & P6).
        unfold beq. unfold st_of in *. repeat split; congruence.
      * rewrite (ci_cache a' C'). exact I.
  - exact C'.
  - intros Hn. simpl in Hn. rewrite (b_next_beq _ _ Hb1) in Hch'. apply Hch'. rewrite Hev. apply Hhn. exact Hn.
Qed.

(** Updating the current block in place (block.Read / ReadByte / seek). *)
Lemma arel_set_cur (a : astate) (v : vstate) (i : nat) (b bv : block) :
  arel a v -> r_cur (a_r a) = Some i -> beq b bv -> vgood F bv -> keeps_good F (sget (st_of a) i) b ->
  b_next bv = b_next (v_cur v) -> (b_has bv = true -> b_has (v_cur v) = true) ->
  arel (as_r a (rs_st (a_r a) (sset (st_of a) i b))) (set_cur v bv).
Proof.
  intros [Hcs C Hcf] Hi Hb Hv Hkg Hnx Hhas.
  assert (Hil : (i < length (st_of a))%nat) by (apply (ci_curlt a C i Hi)).
  assert (Hother : forall d bid, In d (a_working a) -> d_blk (dget a d) = Some bid -> sget (sset (st_of a) i b) bid = sget (st_of a) bid).
  { intros d bid Hin Hb'. apply sget_sset_other. intros ->. apply (ci_cur a C d bid Hin Hb'). exact Hi. }
  constructor.
  - simpl. apply (csr_set_cur F (a_r a) v i b bv Hcs Hi Hb Hv Hkg).
  - destruct C as [C1 C2 C3 C4 C5 C6 C7 C8 C9 C10]. constructor; simpl; auto.
    + intros d Hin. destruct (C5 d Hin) as (bid & Hb' & Hlt & R).
      exists bid. unfold st_of. simpl. rewrite sset_length. fold (st_of a).
      rewrite (Hother d bid Hin Hb'). split; [exact Hb'|]. split; [exact Hlt|exact R].
    + intros i' Hi'. unfold st_of. simpl. rewrite sset_length. apply (C8 i' Hi').
  - intros Hh. simpl in Hh. unfold set_cur at 1. cbn [v_cur]. rewrite Hnx. destruct (Hcf (Hhas Hh)) as (junk & l & (fut & HS & Hfo) & Hl & Hjb).
    exists junk, l. split; [|split; assumption]. exists fut. split; [|exact Hfo].
    rewrite <- HS. f_equal. apply map_ext_in. intros d Hin. unfold wbase, blk_base. simpl.
    change (dget (as_r a (rs_st (a_r a) (sset (st_of a) i b))) d) with (dget a d).
    destruct (d_blk (dget a d)) as [bid|] eqn:Hb'; [|reflexivity]. fold (st_of a). rewrite (Hother d bid Hin Hb'). reflexivity.
Qed.


(** Updates of the reader's scalar fields. *)
Lemma chinv_rs (a : astate) (r' : rstate) :
  r_st r' = r_st (a_r a) -> r_cur r' = r_cur (a_r a) -> r_cache r' = r_cache (a_r a) ->
  chinv a -> chinv (as_r a r').
Proof.
  destruct a as [r decs wt wk ctl t sc]. destruct r as [st cur err lc bl ca]. destruct r' as [st' cur' err' lc' bl' ca'].
  simpl. intros -> -> -> [C1 C2 C3 C4 C5 C6 C7 C8 C9 C10]. constructor; assumption.
Qed.

Lemma chan_ok_rs (a : astate) (r' : rstate) (E : Z) :
  r_st r' = r_st (a_r a) -> chan_ok a E -> chan_ok (as_r a r') E.
Proof.
  destruct a as [r decs wt wk ctl t sc]. destruct r as [st cur err lc bl ca]. destruct r' as [st' cur' err' lc' bl' ca'].
  simpl. intros -> H. exact H.
Qed.

Lemma arel_rs (a : astate) (v v' : vstate) (r' : rstate) :
  arel a v -> csr F r' v' ->
  r_st r' = r_st (a_r a) -> r_cur r' = r_cur (a_r a) -> r_cache r' = r_cache (a_r a) -> v_cur v' = v_cur v ->
  arel (as_r a r') v'.
Proof.
  intros [Hcs C Hcf] Hcs' H1 H2 H3 H4. constructor.
  - exact Hcs'.
  - apply chinv_rs; assumption.
  - intros Hh. rewrite H4 in *. apply chan_ok_rs; [exact H1|]. apply Hcf. exact Hh.
Qed.

Lemma next_read (b : block) (n : Z) : b_next (fst (fst (b_read b n))) = b_next b.
Proof. unfold b_read. destruct (zlen (b_data b) <=? b_pos b); reflexivity. Qed.
Lemma next_readbyte (b : block) : b_next (fst (fst (b_readbyte b))) = b_next b.
Proof. unfold b_readbyte. destruct (zlen (b_data b) <=? b_pos b); reflexivity. Qed.

Lemma nb_has (v : vstate) : b_has (v_cur v) = true -> vgood F (v_cur v) ->
  snd (v_nextBlock F v) = eNil -> b_has (v_cur (fst (v_nextBlock F v))) = true.
Proof.
  intros Hh Hvg He. unfold v_nextBlock in *. destruct (good_next (Hvg Hh)) as [_ Hk].
  destruct (fill_beq F (v_cur v) (v_cur v) (b_next (v_cur v)) W Hk) as (_ & _ & _ & _ & H).
  destruct (b_fill F (v_cur v) (b_next (v_cur v))) as [b e]. simpl in *. apply H. exact He.
Qed.

(** The loop that skips exhausted blocks. *)
Lemma a_skip_sim : forall fuel a v x, arel a v -> b_has (v_cur v) = true ->
  v_skip F fuel v = Ok x -> forall fuel', (fuel <= fuel')%nat ->
  exists a', a_skip F fuel' a = Ok (a', snd x) /\ arel a' (fst x) /\ (snd x = eNil -> b_has (v_cur (fst x)) = true) /\
             (snd x <> eNil -> v_err (fst x) = snd x).
Proof.
  induction fuel as [|fuel IH]; intros a v x Ha Hhas Hv fuel' Hle.
  - pose proof (ar_csr _ _ Ha) as Hcs. destruct (cs_cur _ _ _ Hcs) as (i & Hci & _ & Hbeq & _).
    simpl in Hv. destruct (b_len (v_cur v) =? 0) eqn:E; [discriminate|]. inversion Hv; subst.
    exists a. destruct fuel'; simpl; unfold acur, ablk; rewrite Hci, (beq_len Hbeq), E; (split; [reflexivity|]); (split; [exact Ha|]); (split; [intros _; exact Hhas|intros H0; contradiction]).
  - pose proof (ar_csr _ _ Ha) as Hcs. destruct (cs_cur _ _ _ Hcs) as (i & Hci & _ & Hbeq & _).
    simpl in Hv. destruct (b_len (v_cur v) =? 0) eqn:E.
    + destruct fuel' as [|fuel']; [lia|]. simpl. unfold acur, ablk. rewrite Hci, (beq_len Hbeq), E.
      destruct (a_nextBlock_sim a v Ha Hhas) as (a1 & Hnb & Ha1). rewrite Hnb.
      pose proof (nb_has v Hhas (cs_vgood _ _ _ Hcs)) as Hh1.
      destruct (v_nextBlock F v) as [v1 e] eqn:Hvn. simpl in *.
      destruct (e =? eNil) eqn:Ee.
      * apply Z.eqb_eq in Ee. subst e. apply (IH a1 v1 x Ha1 (Hh1 eq_refl) Hv fuel'). lia.
      * inversion Hv; subst. simpl. exists (as_r a1 (rs_err (a_r a1) e)). split; [reflexivity|].
        split; [apply (arel_rs a1 v1); try reflexivity; [exact Ha1|apply csr_err; exact (ar_csr _ _ Ha1)]|].
        split; [intros ->; discriminate|intros _; reflexivity].
    + inversion Hv; subst. exists a. destruct fuel'; simpl; unfold acur, ablk; rewrite Hci, (beq_len Hbeq), E; (split; [reflexivity|]); (split; [exact Ha|]); (split; [intros _; exact Hhas|intros H0; contradiction]).
Qed.


Lemma arel_end_err (a : astate) (v : vstate) (e : Z) (o : voff) :
  arel a v -> arel (as_r a (rs_end (rs_err (a_r a) e) o)) (set_end (set_err v e) o).
Proof.
  intros Ha. apply (arel_rs a v); try reflexivity; [exact Ha|]. apply csr_end. apply csr_err. exact (ar_csr _ _ Ha).
Qed.

Lemma arel_begin (a : astate) (v : vstate) (o : voff) :
  arel a v -> arel (as_r a (rs_begin (a_r a) o)) (set_begin v o).
Proof.
  intros Ha. apply (arel_rs a v); try reflexivity; [exact Ha|]. apply csr_begin. exact (ar_csr _ _ Ha).
Qed.

Lemma a_cur_tx (a : astate) (v : vstate) : arel a v -> cur_tx (a_r a) = b_tx (v_cur v).
Proof. intros Ha. apply (csr_cur_tx F). exact (ar_csr _ _ Ha). Qed.

(** The copy loop. *)
Lemma a_copy_sim (n : Z) : forall fuel a v acc x, arel a v -> b_has (v_cur v) = true ->
  v_copy F fuel v n acc = Ok x -> forall fuel', (fuel <= fuel')%nat ->
  exists a', a_copy F fuel' a n acc = Ok (a', snd (fst x), snd x) /\ arel a' (fst (fst x)) /\
             (v_err (fst (fst x)) = eNil -> b_has (v_cur (fst (fst x))) = true).
Proof.
  induction fuel as [|fuel IH]; intros a v acc x Ha Hhas Hv fuel' Hle.
  - simpl in Hv. destruct (zlen acc <? n) eqn:E; [discriminate|]. inversion Hv; subst. simpl.
    exists (as_r a (rs_end (rs_err (a_r a) eNil) (cur_tx (a_r a)))).
    split; [destruct fuel'; simpl; rewrite E; reflexivity|].
    split; [rewrite (a_cur_tx a v Ha); apply arel_end_err; exact Ha|]. intros _. exact Hhas.
  - simpl in Hv. destruct (zlen acc <? n) eqn:E.
    2:{ inversion Hv; subst. simpl. exists (as_r a (rs_end (rs_err (a_r a) eNil) (cur_tx (a_r a)))).
        split; [destruct fuel'; simpl; rewrite E; reflexivity|].
        split; [rewrite (a_cur_tx a v Ha); apply arel_end_err; exact Ha|]. intros _. exact Hhas. }
    destruct fuel' as [|fuel']; [lia|]. simpl. rewrite E.
    pose proof (ar_csr _ _ Ha) as Hcs.
    pose proof Hcs as [_ _ Hbl Hvg (i & Hci & Hil & Hbeq & _)].
    unfold acur, ablk. rewrite Hci.
    destruct (beq_read (n - zlen acc) Hbeq) as (Hb1 & Hb2 & Hb3).
    pose proof (keeps_read F (sget (r_st (a_r a)) i) (n - zlen acc)) as Hkg.
    pose proof (vgood_read F (n - zlen acc) Hvg) as Hvg1.
    pose proof (@has_read (v_cur v) (n - zlen acc)) as Hh1.
    pose proof (next_read (v_cur v) (n - zlen acc)) as Hn1.
    destruct (b_read (v_cur v) (n - zlen acc)) as [[bv bsv] ev].
    destruct (b_read (sget (r_st (a_r a)) i) (n - zlen acc)) as [[br bsr] er].
    simpl in Hb1, Hb2, Hb3, Hvg1, Hh1, Hkg, Hn1. subst bsr er.
    assert (Ha1 : arel (as_r a (rs_st (a_r a) (sset (r_st (a_r a)) i br))) (set_cur v bv)).
    { apply (arel_set_cur a v i br bv); try assumption. intros _. exact Hhas. }
    assert (Hhas1 : b_has (v_cur (set_cur v bv)) = true) by (simpl; congruence).
    destruct (ev =? eEOF).
    + destruct (zlen (acc ++ bsv) =? n).
      * inversion Hv; subst. simpl. eexists. split; [reflexivity|]. rewrite (beq_tx Hb1).
        split; [apply (arel_end_err _ _ eNil (b_tx bv) Ha1)|]. intros _. exact Hhas1.
      * rewrite Hbl. destruct (v_blocked v).
        -- inversion Hv; subst. simpl. eexists. split; [reflexivity|]. rewrite (beq_tx Hb1).
           split; [apply (arel_end_err _ _ eNil (b_tx bv) Ha1)|]. intros _. exact Hhas1.
        -- destruct (a_nextBlock_sim _ _ Ha1 Hhas1) as (a2 & Hnb & Ha2). rewrite Hnb.
           pose proof (nb_has (set_cur v bv) Hhas1 Hvg1) as Hh2.
           destruct (v_nextBlock F (set_cur v bv)) as [v2 e2] eqn:Hvn. simpl in Hh2, Ha2. simpl snd. cbv iota.
           destruct (e2 =? eNil) eqn:Ee.
           ++ apply Z.eqb_eq in Ee. subst e2.
              apply (IH a2 v2 (acc ++ bsv) x Ha2 (Hh2 eq_refl) Hv fuel'). lia.
           ++ inversion Hv; subst. simpl. eexists. split; [reflexivity|].
              rewrite (a_cur_tx a2 v2 Ha2). split; [apply (arel_end_err _ _ e2 _ Ha2)|].
              intros He. simpl in He. subst e2. discriminate.
    + apply (IH _ _ (acc ++ bsv) x Ha1 Hhas1 Hv fuel'). lia.
Qed.

Lemma a_read_sim (a : astate) (v : vstate) (n : Z) (x : vstate * list Z * Z) :
  arel a v -> (v_err v = eNil -> b_has (v_cur v) = true) -> v_read F v n = Ok x ->
  exists a', a_read F a n = Ok (a', snd (fst x), snd x) /\ arel a' (fst (fst x)) /\
             (v_err (fst (fst x)) = eNil -> b_has (v_cur (fst (fst x))) = true).
Proof.
  intros Ha Hnh Hv. pose proof (ar_csr _ _ Ha) as Hcs.
  unfold v_read in Hv. unfold a_read. rewrite (cs_err _ _ _ Hcs).
  destruct (v_err v =? eNil) eqn:Ee; simpl negb in *; cbv iota in *.
  2:{ inversion Hv; subst. simpl. exists a. split; [reflexivity|]. split; [exact Ha|exact Hnh]. }
  apply Z.eqb_eq in Ee. specialize (Hnh Ee).
  destruct (v_skip F (S (length F)) v) as [[v1 e1]| | |] eqn:Hsk; try discriminate.
  destruct (a_skip_sim _ a v _ Ha Hnh Hsk (a_fuel F a) ltac:(unfold a_fuel, r_fuel; lia)) as (a1 & Hrs & Ha1 & Hh1 & He1).
  rewrite Hrs. simpl in *.
  destruct (e1 =? eNil) eqn:E1; simpl negb in *; cbv iota in *.
  2:{ inversion Hv; subst. simpl. exists a1. split; [reflexivity|]. split; [exact Ha1|].
      intros He. apply Z.eqb_neq in E1. rewrite (He1 E1) in He. contradiction. }
  apply Z.eqb_eq in E1. subst e1. specialize (Hh1 eq_refl).
  rewrite (a_cur_tx a1 v1 Ha1).
  destruct (a_copy_sim n _ (as_r a1 (rs_begin (a_r a1) (b_tx (v_cur v1)))) (set_begin v1 (b_tx (v_cur v1))) [] x
              (arel_begin _ _ _ Ha1) Hh1 Hv (a_fuel F a + Z.to_nat n)%nat ltac:(unfold a_fuel, r_fuel, fuel_of; lia))
    as (a' & Hrc & Ha' & Hh').
  exists a'. split; [exact Hrc|]. split; [exact Ha'|exact Hh'].
Qed.

Lemma a_readbyte_sim (a : astate) (v : vstate) (x : vstate * list Z * Z) :
  arel a v -> (v_err v = eNil -> b_has (v_cur v) = true) -> v_readbyte F v = Ok x ->
  exists a', a_readbyte F a = Ok (a', snd (fst x), snd x) /\ arel a' (fst (fst x)).
Proof.
  intros Ha Hnh Hv. pose proof (ar_csr _ _ Ha) as Hcs.
  unfold v_readbyte in Hv. unfold a_readbyte. rewrite (cs_err _ _ _ Hcs).
  destruct (v_err v =? eNil) eqn:Ee; simpl negb in *; cbv iota in *.
  2:{ inversion Hv; subst. simpl. exists a. split; [reflexivity|exact Ha]. }
  apply Z.eqb_eq in Ee. specialize (Hnh Ee).
  destruct (v_skip F (S (length F)) v) as [[v1 e1]| | |] eqn:Hsk; try discriminate.
  destruct (a_skip_sim _ a v _ Ha Hnh Hsk (a_fuel F a) ltac:(unfold a_fuel, r_fuel; lia)) as (a1 & Hrs & Ha1 & Hh1 & He1).
  rewrite Hrs. simpl in *.
  destruct (e1 =? eNil) eqn:E1; simpl negb in *; cbv iota in *.
  2:{ inversion Hv; subst. simpl. exists a1. split; [reflexivity|exact Ha1]. }
  apply Z.eqb_eq in E1. subst e1. specialize (Hh1 eq_refl).
  rewrite (a_cur_tx a1 v1 Ha1).
  set (a2 := as_r a1 (rs_begin (a_r a1) (b_tx (v_cur v1)))). set (v2 := set_begin v1 (b_tx (v_cur v1))) in *.
  assert (Ha2 : arel a2 v2) by (apply arel_begin; exact Ha1).
  pose proof (ar_csr _ _ Ha2) as Hcs2.
  pose proof Hcs2 as [_ _ Hbl Hvg (i & Hci & Hil & Hbeq & _)].
  unfold acur, ablk. rewrite Hci.
  destruct (beq_readbyte Hbeq) as (Hb1 & Hb2 & Hb3).
  pose proof (keeps_readbyte F (sget (r_st (a_r a2)) i)) as Hkg.
  pose proof (vgood_readbyte F Hvg) as Hvg1.
  pose proof (@has_readbyte (v_cur v2)) as Hhb.
  pose proof (next_readbyte (v_cur v2)) as Hn1.
  change (v_cur v2) with (v_cur v1) in *.
  destruct (b_readbyte (v_cur v1)) as [[bv bsv] ev].
  destruct (b_readbyte (sget (r_st (a_r a2)) i)) as [[br bsr] er].
  simpl in Hb1, Hb2, Hb3, Hvg1, Hhb, Hkg, Hn1. subst bsr er.
  assert (Ha3 : arel (as_r a2 (rs_st (a_r a2) (sset (r_st (a_r a2)) i br))) (set_cur v2 bv)).
  { apply (arel_set_cur a2 v2 i br bv); try assumption. intros _. exact Hh1. }
  assert (Hhas3 : b_has (v_cur (set_cur v2 bv)) = true) by (simpl; congruence).
  assert (Hbl1 : r_blocked (a_r a1) = v_blocked v1) by exact (cs_bl _ _ _ (ar_csr _ _ Ha1)).
  destruct (ev =? eEOF).
  - simpl r_blocked. rewrite Hbl1.
    change (v_blocked (set_cur v2 bv)) with (v_blocked v1) in Hv.
    destruct (v_blocked v1).
    + inversion Hv; subst. simpl. eexists. split; [reflexivity|]. rewrite (beq_tx Hb1).
      apply (arel_end_err _ _ eNil (b_tx bv) Ha3).
    + destruct (a_nextBlock_sim _ _ Ha3 Hhas3) as (a4 & Hnb & Ha4).
      change (as_r a2 (rs_st (a_r a2) (sset (r_st (a_r a2)) i br))) with (as_r a2 (rs_st (rs_begin (a_r a1) (b_tx (v_cur v1))) (sset (r_st (a_r a1)) i br))) in Hnb.
      rewrite Hnb.
      destruct (v_nextBlock F (set_cur v2 bv)) as [v4 e2]. simpl in Ha4. simpl snd. cbv iota.
      inversion Hv; subst. simpl. eexists. split; [reflexivity|].
      rewrite (a_cur_tx a4 v4 Ha4). apply (arel_end_err _ _ e2 _ Ha4).
  - inversion Hv; subst. simpl. eexists. split; [reflexivity|]. rewrite (beq_tx Hb1).
    apply (arel_end_err _ _ ev (b_tx bv) Ha3).
Qed.


(** ---- structural facts about a fetch and a read-ahead iteration *)

Lemma a_fetch_waiting (a : astate) (Wt : list nat) (i : nat) (blk : option nat) (off : Z) :
  a_fetch F (as_waiting a Wt) i blk off =
  match a_fetch F a i blk off with Ok a2 => Ok (as_waiting a2 Wt) | Err e => Err e | Panic w => Panic w | Stuck => Stuck end.
Proof.
  unfold a_fetch. cbv zeta. change (a_r (as_waiting a Wt)) with (a_r a).
  destruct (r_peekchain _ (a_r a) off) as [off'| | |]; try reflexivity.
  destruct blk as [b|]; simpl; destruct (b_fill F _ off') as [b' e]; reflexivity.
Qed.

Lemma a_fetch_chan (a : astate) (i : nat) (blk : option nat) (off : Z) (a2 : astate) :
  a_fetch F a i blk off = Ok a2 ->
  a_waiting a2 = a_waiting a /\ a_working a2 = a_working a /\ a_control a2 = a_control a /\ a_t a2 = a_t a /\ a_sched a2 = a_sched a.
Proof.
  unfold a_fetch. cbv zeta.
  destruct (r_peekchain _ (a_r a) off) as [off'| | |]; try discriminate.
  destruct blk as [b|]; simpl; destruct (b_fill F _ off') as [b' e]; intros H; inversion H; subst; simpl; auto.
Qed.

Definition trun (a1 : astate) (d : nat) (off : Z) : outcome astate :=
  match a_fetch F a1 d (d_blk (dget a1 d)) off with
  | Ok a2 =>
      Ok (as_t (as_working a2 (a_working a2 ++ [d]))
               (TIdle match d_blk (dget a2 d) with Some bid => b_next (sget (r_st (a_r a2)) bid) | None => -1 end))
  | Err e => Err e | Panic w => Panic w | Stuck => Stuck
  end.

Lemma t_step_ctl (a : astate) (v : Z) : a_control a = Some v ->
  t_step F a = match a_t a with
               | TParked d => Some (trun (as_control a None) d v)
               | TIdle _ => match a_waiting a with [] => None | d :: w => Some (trun (as_control (as_waiting a w) None) d v) end
               end.
Proof.
  intros H. unfold t_step, trun. cbv zeta. rewrite H.
  destruct (a_t a); [destruct (a_waiting a); [reflexivity|destruct (_ <? 0); reflexivity]|reflexivity].
Qed.

Lemma trun_waiting (a1 : astate) (Wt : list nat) (d : nat) (off : Z) :
  trun (as_waiting a1 Wt) d off =
  match trun a1 d off with Ok a2 => Ok (as_waiting a2 Wt) | Err e => Err e | Panic w => Panic w | Stuck => Stuck end.
Proof.
  unfold trun. change (dget (as_waiting a1 Wt) d) with (dget a1 d). rewrite a_fetch_waiting.
  destruct (a_fetch F a1 d (d_blk (dget a1 d)) off); reflexivity.
Qed.

Lemma trun_chan (a1 : astate) (d : nat) (off : Z) (a2 : astate) :
  trun a1 d off = Ok a2 -> a_waiting a2 = a_waiting a1 /\ a_control a2 = a_control a1.
Proof.
  unfold trun. destruct (a_fetch F a1 d (d_blk (dget a1 d)) off) as [a3| | |] eqn:E; try discriminate.
  intros H. inversion H; subst. simpl. destruct (a_fetch_chan _ _ _ _ _ E) as (H1 & _ & H3 & _). auto.
Qed.

(** With control full, the iteration is the same whether or not the consumer
    has already given its decompressor back. *)
Lemma t_step_held (a : astate) (d : nat) (v : Z) :
  a_control a = Some v -> (a_waiting a <> [] \/ exists d', a_t a = TParked d') ->
  exists X d1, t_step F a = Some (trun X d1 v) /\
               t_step F (as_waiting a (a_waiting a ++ [d])) = Some (trun (as_waiting X (a_waiting X ++ [d])) d1 v) /\
               a_control X = None.
Proof.
  intros Hc K.
  rewrite (t_step_ctl a v Hc).
  rewrite (t_step_ctl (as_waiting a (a_waiting a ++ [d])) v Hc).
  change (a_t (as_waiting a (a_waiting a ++ [d]))) with (a_t a).
  change (a_waiting (as_waiting a (a_waiting a ++ [d]))) with (a_waiting a ++ [d]).
  destruct (a_t a) as [next|d''] eqn:Ht.
  - destruct (a_waiting a) as [|d1 w] eqn:Hw.
    + destruct K as [K|(d' & K)]; [contradiction|discriminate].
    + exists (as_control (as_waiting a w) None), d1. split; [reflexivity|]. split; reflexivity.
  - exists (as_control a None), d''. split; [reflexivity|]. split; reflexivity.
Qed.

Lemma chinv_set_control (a : astate) (E : Z) :
  chinv a -> 0 <= E -> a_waiting a <> [] -> chinv (as_control a (Some E)).
Proof.
  intros [C1 C2 C3 C4 C5 C6 C7 C8 C9 C10] HE Hw. constructor; simpl; auto.
  - intros v Hv. inversion Hv; subst. split; [exact HE|left; exact Hw].
  - intros n Hc. discriminate.
Qed.

Lemma working_bound (a : astate) : chinv a -> a_waiting a <> [] -> (length (a_working a) + 1 <= rd)%nat.
Proof.
  intros C Hw. pose proof (perm_len_seq _ (ci_tok a C)) as H. unfold tokens in H. rewrite !app_length in H.
  destruct (a_waiting a); [contradiction|]. simpl in H. lia.
Qed.

Lemma chan_from_control (a : astate) (E : Z) :
  chinv a -> a_control a = Some E -> a_waiting a <> [] -> chan_ok a E.
Proof.
  intros C Hc Hw. destruct (ci_ctl a C E Hc) as [HE _].
  destruct (chain_exists E HE) as (l & Hl).
  exists (map (wbase a) (a_working a)), l. split; [|split; [exact Hl|rewrite map_length; apply working_bound; assumption]].
  exists l. split; [reflexivity|]. unfold fut_ok. rewrite Hc. exact Hl.
Qed.

Lemma app_one_ne {A} (l : list A) (x : A) : l ++ [x] <> [].
Proof. destruct l; discriminate. Qed.

(** The send on control by a consumer that still holds decompressor [d]. *)
Lemma send_control_spec (a : astate) (d : nat) (E : Z) (fuel : nat) :
  let a' := as_waiting a (a_waiting a ++ [d]) in
  chinv a' -> (forall v, a_control a = Some v -> a_waiting a <> [] \/ exists d', a_t a = TParked d') ->
  (1 <= fuel)%nat -> 0 <= E ->
  exists a6, send_control F fuel a E = Ok a6 /\
    chinv (as_waiting a6 (a_waiting a6 ++ [d])) /\ a_control a6 = Some E /\
    frame a' (as_waiting a6 (a_waiting a6 ++ [d])).
Proof.
  intros a' C K Hf HE. destruct (a_control a) as [v|] eqn:Hc.
  - destruct fuel as [|fuel]; [lia|]. simpl. rewrite Hc.
    destruct (t_step_held a d v Hc (K v eq_refl)) as (X & d1 & Hts & Hts' & HcX).
    fold a' in Hts'. rewrite Hts.
    destruct (t_step_inv a' _ C Hts') as (a1' & Ho & C1 & Fr & _).
    rewrite trun_waiting in Ho.
    destruct (trun X d1 v) as [a2| | |] eqn:Htr; try discriminate.
    inversion Ho; subst a1'.
    destruct (trun_chan _ _ _ _ Htr) as (Hw2 & Hc2). rewrite HcX in Hc2.
    assert (Hsend : send_control F fuel a2 E = Ok (as_control a2 (Some E))) by (destruct fuel; simpl; rewrite Hc2; reflexivity).
    rewrite Hsend. exists (as_control a2 (Some E)). split; [reflexivity|].
    rewrite <- Hw2 in C1, Fr.
    split; [|split; [reflexivity|exact Fr]].
    apply (chinv_set_control (as_waiting a2 (a_waiting a2 ++ [d])) E C1 HE). simpl. apply app_one_ne.
  - exists (as_control a (Some E)). split; [destruct fuel; simpl; rewrite Hc; reflexivity|].
    split; [|split; [reflexivity|unfold frame, st_of; simpl; repeat split; auto]].
    apply (chinv_set_control a' E C HE). simpl. apply app_one_ne.
Qed.

(** ---- the read-ahead thread runs between the consumer's calls *)

Lemma csr_frame (a a' : astate) (v : vstate) :
  csr F (a_r a) v -> frame a a' -> r_cache (a_r a') = None -> csr F (a_r a') v.
Proof.
  intros [He Hlc Hbl Hvg (i & Hci & Hil & Hbeq & _)] (A1 & A2 & A3 & A4 & _ & A6 & A7) Hca.
  constructor; try congruence; try exact Hvg.
  exists i. split; [congruence|]. unfold st_of in *. split; [lia|]. split; [rewrite A7 by exact Hil; exact Hbeq|].
  rewrite Hca. exact I.
Qed.

Lemma arel_frame (a a' : astate) (v : vstate) :
  arel a v -> chinv a' -> frame a a' -> (forall junk l, seq_ok a junk l -> seq_ok a' junk l) -> arel a' v.
Proof.
  intros [Hcs C Hcf] C' Fr Hseq. constructor.
  - apply (csr_frame a a' v Hcs Fr (ci_cache a' C')).
  - exact C'.
  - intros Hh. destruct (Hcf Hh) as (junk & l & H1 & H2 & H3). exists junk, l. split; [apply Hseq; exact H1|split; assumption].
Qed.

Lemma t_run_inv : forall k a v, arel a v -> exists a', t_run F k a = Ok a' /\ arel a' v.
Proof.
  induction k as [|k IH]; intros a v Ha; [exists a; split; [reflexivity|exact Ha]|].
  simpl. destruct (t_step F a) as [o|] eqn:Hs; [|exists a; split; [reflexivity|exact Ha]].
  destruct (t_step_inv a o (ar_ch _ _ Ha) Hs) as (a1 & -> & C1 & Fr & Hseq).
  apply IH. apply (arel_frame a a1 v Ha C1 Fr Hseq).
Qed.


(** ---- Seek *)

Lemma chinv_sched (a : astate) (sc : list nat) : chinv a -> chinv (as_sched a sc).
Proof. intros [C1 C2 C3 C4 C5 C6 C7 C8 C9 C10]. constructor; assumption. Qed.

Lemma chan_ok_sched (a : astate) (sc : list nat) (E : Z) : chan_ok a E -> chan_ok (as_sched a sc) E.
Proof. intros H. exact H. Qed.

Lemma arel_sched (a : astate) (v : vstate) (sc : list nat) : arel a v -> arel (as_sched a sc) v.
Proof.
  intros [Hcs C Hcf]. constructor; [exact Hcs|apply chinv_sched; exact C|].
  intros Hh. apply chan_ok_sched. apply Hcf. exact Hh.
Qed.

Lemma beq_trans (b1 b2 b3 : block) : beq b1 b2 -> beq b2 b3 -> beq b1 b3.
Proof.
  intros (Q1 & Q2 & Q3 & Q4 & Q5 & Q6) (P1 & P2 & P3 & P4 & P5 & P6). unfold beq. repeat split; congruence.
Qed.

Lemma beq_sym (b1 b2 : block) : beq b1 b2 -> beq b2 b1.
Proof. intros (Q1 & Q2 & Q3 & Q4 & Q5 & Q6). unfold beq. repeat split; congruence. Qed.

(** The select over waiting and working always finds a decompressor. *)
Lemma select_spec (a : astate) (fuel : nat) : chinv a ->
  exists a2 d fw sc, select_dec F fuel a = Ok (a2, d, fw) /\
    ((fw = false /\ exists w, a_waiting a = d :: w /\ a2 = as_waiting (as_sched a sc) w) \/
     (fw = true /\ exists w, a_working a = d :: w /\ a2 = as_working (as_sched a sc) w)).
Proof.
  intros C.
  destruct (a_waiting a) as [|d1 w1] eqn:Hw; destruct (a_working a) as [|d2 w2] eqn:Hk.
  - exfalso. pose proof (perm_len_seq _ (ci_tok a C)) as H. unfold tokens in H. rewrite Hw, Hk in H. simpl in H.
    destruct (a_t a); simpl in H; lia.
  - exists (as_working a w2), d2, true, (a_sched a). split; [destruct fuel; simpl; rewrite Hw, Hk; reflexivity|].
    right. split; [reflexivity|]. exists w2. split; reflexivity.
  - exists (as_waiting a w1), d1, false, (a_sched a). split; [destruct fuel; simpl; rewrite Hw, Hk; reflexivity|].
    left. split; [reflexivity|]. exists w1. split; reflexivity.
  - unfold pop_sched. destruct (a_sched a) as [|x sc] eqn:Hs.
    + exists (as_waiting a w1), d1, false, (a_sched a). split; [destruct fuel; simpl; unfold pop_sched; rewrite Hw, Hk, Hs; reflexivity|].
      left. split; [reflexivity|]. exists w1. split; reflexivity.
    + destruct (Nat.even x) eqn:Hx.
      * exists (as_waiting (as_sched a sc) w1), d1, false, sc. split; [destruct fuel; simpl; unfold pop_sched; rewrite Hw, Hk, Hs, Hx; reflexivity|].
        left. split; [reflexivity|]. exists w1. split; reflexivity.
      * exists (as_working (as_sched a sc) w2), d2, true, sc. split; [destruct fuel; simpl; unfold pop_sched; rewrite Hw, Hk, Hs, Hx; reflexivity|].
        right. split; [reflexivity|]. exists w2. split; reflexivity.
Qed.

(** The state after the synchronous fetch of Seek with decompressor [d] into
    the current block. *)
Lemma refetch_inv (a a8 : astate) (d ci : nat) (wt wk : list nat) (blk : block) (E : Z) :
  chinv a -> r_cur (a_r a) = Some ci ->
  Permutation (d :: wt ++ wk ++ tpark (a_t a)) (seq 0 rd) ->
  (forall x, In x wk -> In x (a_working a)) ->
  (forall x, In x (a_working a) -> x = d \/ In x wk) ->
  0 <= E ->
  length (a_decs a8) = rd -> (forall d', d' <> d -> dget a8 d' = dget a d') -> d_blk (dget a8 d) = None ->
  a_waiting a8 = wt ++ [d] -> a_working a8 = wk -> a_control a8 = Some E -> a_t a8 = a_t a ->
  r_st (a_r a8) = sset (st_of a) ci blk -> r_cur (a_r a8) = Some ci -> r_cache (a_r a8) = None ->
  chinv a8.
Proof.
  intros C Hci Hperm Hsub Hsup HE Hlen Hoth Hd Hwt Hwk Hctl Ht Hst Hcur Hca.
  assert (Hnd : NoDup (d :: wt ++ wk ++ tpark (a_t a))) by (apply (Permutation_NoDup (Permutation_sym Hperm)); apply seq_NoDup).
  assert (Hdnk : ~ In d wk).
  { inversion Hnd as [|? ? Hx _]; subst. intros Hin. apply Hx. apply in_or_app. right. apply in_or_app. left. exact Hin. }
  assert (Hcl : (ci < length (st_of a))%nat) by (apply (ci_curlt a C ci Hci)).
  assert (Hst' : st_of a8 = sset (st_of a) ci blk) by exact Hst.
  constructor.
  - exact Hca.
  - exact Hlen.
  - unfold tokens. rewrite Hwt, Hwk, Ht. eapply Permutation_trans; [|exact Hperm].
    rewrite <- app_assoc. simpl. apply Permutation_sym. apply Permutation_middle.
  - intros d' Hlt Hnin. rewrite Hwk in Hnin. destruct (Nat.eq_dec d' d) as [->|Hne]; [exact Hd|].
    rewrite (Hoth d' Hne). apply (ci_idle a C d' Hlt). intros Hin. destruct (Hsup d' Hin) as [->|Hin']; [congruence|contradiction].
  - intros d' Hin. rewrite Hwk in Hin.
    assert (Hne : d' <> d) by (intros ->; contradiction).
    destruct (ci_ent a C d' (Hsub d' Hin)) as (bid & Hb & Hlt & H0 & Hbq & He).
    assert (Hbc : ci <> bid) by (intros <-; apply (ci_cur a C d' ci (Hsub d' Hin) Hb); exact Hci).
    exists bid. rewrite (Hoth d' Hne), Hst', sset_length, (sget_sset_other _ _ _ _ Hbc). auto.
  - intros d' bid Hin Hb. rewrite Hwk in Hin.
    assert (Hne : d' <> d) by (intros ->; contradiction). rewrite (Hoth d' Hne) in Hb.
    rewrite Hcur, <- Hci. apply (ci_cur a C d' bid (Hsub d' Hin) Hb).
  - intros d1 d2 bid H1 H2 B1 B2. rewrite Hwk in H1, H2.
    assert (N1 : d1 <> d) by (intros ->; contradiction). assert (N2 : d2 <> d) by (intros ->; contradiction).
    rewrite (Hoth d1 N1) in B1. rewrite (Hoth d2 N2) in B2.
    apply (ci_inj a C d1 d2 bid (Hsub d1 H1) (Hsub d2 H2) B1 B2).
  - intros i Hi. rewrite Hcur in Hi. inversion Hi; subst. rewrite Hst', sset_length. exact Hcl.
  - intros v Hv. rewrite Hctl in Hv. inversion Hv; subst. split; [exact HE|]. left. rewrite Hwt. apply app_one_ne.
  - intros n Hc. rewrite Hctl in Hc. discriminate.
Qed.

(** The end of Seek: block.seek in the current block, err and lastChunk. *)
Lemma fin_sim (a : astate) (v : vstate) (i : nat) (f o : Z) :
  arel a v -> r_cur (a_r a) = Some i ->
  arel (as_r a (rs_lc (rs_err (rs_st (a_r a) (sset (r_st (a_r a)) i (b_seek (sget (r_st (a_r a)) i) o))) eNil) ((f, o), (f, o))))
       (set_lc (set_err (set_cur v (b_seek (v_cur v) o)) eNil) ((f, o), (f, o))).
Proof.
  intros Ha Hi. pose proof (ar_csr _ _ Ha) as Hcs.
  destruct (cs_cur _ _ _ Hcs) as (i' & Hci & Hil & Hbeq & _). rewrite Hi in Hci. inversion Hci; subst i'.
  pose proof (arel_set_cur a v i (b_seek (sget (r_st (a_r a)) i) o) (b_seek (v_cur v) o) Ha Hi
                (beq_seek o Hbeq) (vgood_seek F o (cs_vgood _ _ _ Hcs)) (keeps_seek F _ o) eq_refl (fun H => H)) as Ha1.
  apply (arel_rs _ _ _ _ Ha1); try reflexivity.
  apply csr_misc. exact (ar_csr _ _ Ha1).
Qed.


Lemma fill_ok (bb : block) (f : Z) (m : member) : fetch F f = FOk m ->
  b_fill F bb f = (mkB f (m_size m) (m_data m) 0 0 true (b_used bb), eNil).
Proof. intros H. unfold b_fill. rewrite H. reflexivity. Qed.

(** Seek in pieces. *)
Definition afin (f o : Z) (a1 : astate) : outcome (astate * Z) :=
  match acur a1 with
  | None => Panic 3
  | Some i =>
      if negb (b_has (ablk a1 i)) then Panic 4
      else
        let r2 := rs_err (rs_st (a_r a1) (sset (r_st (a_r a1)) i (b_seek (ablk a1 i) o))) eNil in
        Ok (as_r a1 (rs_lc r2 ((f, o), (f, o))), eNil)
  end.

Definition seek_pre (fuel : nat) (a2 : astate) (d : nat) (fromWorking : bool) (f : Z) : outcome (astate * bool) :=
  if fromWorking then
    let '(a3, blk, err) := a_wait a2 d in
    if err =? eNil then
      match a_keep a3 blk with
      | Ok a4 =>
          if blk_base a4 blk =? f then
            let a5 := as_r a4 (rs_cur (a_r a4) blk) in
            match send_control F fuel a5 (cur_next a5) with
            | Ok a6 => Ok (as_waiting a6 (a_waiting a6 ++ [d]), true)
            | Err e => Err e | Panic w => Panic w | Stuck => Stuck
            end
          else Ok (a4, false)
      | Err e => Err e | Panic w => Panic w | Stuck => Stuck
      end
    else Ok (a3, false)
  else Ok (a2, false).

Definition seek_sync (a3 : astate) (d : nat) (f o : Z) : outcome (astate * Z) :=
  match a_fetch F a3 d (acur a3) f with
  | Ok a4 =>
      let '(a5, blk, err) := a_wait a4 d in
      let a6 := as_r a5 (rs_err (rs_cur (a_r a5) blk) err) in
      let a7 := as_control a6 None in
      let a8 := as_waiting (as_control a7 (Some (cur_next a7))) (a_waiting a7 ++ [d]) in
      if negb (err =? eNil) then Ok (a8, err) else afin f o a8
  | Err e => Err e | Panic w => Panic w | Stuck => Stuck
  end.

Lemma a_seek_eq (a : astate) (f o : Z) :
  a_seek F a f o =
  match acur a with
  | None => Panic 3
  | Some ci =>
      let cur := ablk a ci in
      if negb (f =? b_base cur) || negb (b_has cur) then
        match r_cacheSwap (a_r a) f with
        | Ok (r1, true) => afin f o (as_r a r1)
        | Ok (r1, false) =>
            match select_dec F (S (length (a_decs a))) (as_r a r1) with
            | Ok (a2, d, fw) =>
                match seek_pre (S (length (a_decs a))) a2 d fw f with
                | Ok (a3, true) => afin f o a3
                | Ok (a3, false) => seek_sync a3 d f o
                | Err e => Err e | Panic w => Panic w | Stuck => Stuck
                end
            | Err e => Err e | Panic w => Panic w | Stuck => Stuck
            end
        | Err e => Err e | Panic w => Panic w | Stuck => Stuck
        end
      else afin f o a
  end.
Proof. reflexivity. Qed.

Lemma afin_spec (a1 : astate) (v1 : vstate) (f o : Z) :
  arel a1 v1 -> b_has (v_cur v1) = true ->
  exists a', afin f o a1 = Ok (a', eNil) /\
             arel a' (set_lc (set_err (set_cur v1 (b_seek (v_cur v1) o)) eNil) ((f, o), (f, o))).
Proof.
  intros Ha Hh. destruct (cs_cur _ _ _ (ar_csr _ _ Ha)) as (i & Hci & _ & Hbeq & _).
  pose proof Hbeq as (_ & _ & _ & _ & _ & B6).
  unfold afin, acur, ablk. cbv zeta. rewrite Hci, B6, Hh. simpl negb. cbv iota.
  eexists. split; [reflexivity|]. apply (fin_sim a1 v1 i f o Ha Hci).
Qed.

Lemma seek_sync_spec (a a3 : astate) (v : vstate) (d ci : nat) (wt wk : list nat) (f o : Z) (m : member) :
  arel a v -> r_cur (a_r a) = Some ci -> fetch F f = FOk m ->
  Permutation (d :: wt ++ wk ++ tpark (a_t a)) (seq 0 rd) ->
  (forall x, In x wk -> In x (a_working a)) ->
  (forall x, In x (a_working a) -> x = d \/ In x wk) ->
  a_r a3 = a_r a -> length (a_decs a3) = rd -> (forall d', d' <> d -> dget a3 d' = dget a d') ->
  a_waiting a3 = wt -> a_working a3 = wk -> a_t a3 = a_t a ->
  let b := mkB f (m_size m) (m_data m) 0 0 true (b_used (v_cur v)) in
  exists a', seek_sync a3 d f o = Ok (a', eNil) /\
    arel a' (set_lc (set_err (set_cur (set_err (set_cur v b) eNil) (b_seek b o)) eNil) ((f, o), (f, o))).
Proof.
  intros Ha Hci Hfm Hperm Hsub Hsup Hr Hlen Hoth Hwt Hwk Ht b.
  pose proof (ar_csr _ _ Ha) as Hcs. pose proof (ar_ch _ _ Ha) as C.
  assert (Hdlt : (d < rd)%nat) by (assert (In d (seq 0 rd)) by (apply (Permutation_in _ Hperm); left; reflexivity); apply in_seq in H; lia).
  unfold seek_sync, acur. rewrite Hr, Hci. rewrite a_fetch_reuse by (rewrite Hr; exact (ci_cache a C)).
  rewrite (fill_ok _ f m Hfm). cbn [fst snd].
  unfold a_wait. cbv beta iota zeta.
  rewrite !dget_dset_same by (simpl; rewrite Hlen; exact Hdlt).
  cbn [d_blk d_err]. change (negb (eNil =? eNil)) with false. cbv iota.
  match goal with |- context [afin f o ?A] => set (a8 := A) end.
  destruct (cs_cur _ _ _ Hcs) as (ci' & Hci' & Hcil & Hbeq & _). rewrite Hci in Hci'. inversion Hci'; subst ci'. clear Hci'.
  destruct (fetch_ok_split f m Hfm) as (pre & post & Sp & Hmb).
  pose proof (split_size_pos Sp) as Hsz. pose proof (split_base_nonneg Sp) as Hbn.
  set (blk := mkB f (m_size m) (m_data m) 0 0 true (b_used (sget (st_of a3) ci))) in *.
  assert (Hsta : st_of a3 = st_of a) by (unfold st_of; rewrite Hr; reflexivity).
  assert (Hnb : forall u, b_next (mkB f (m_size m) (m_data m) 0 0 true u) = f + m_size m).
  { intros u. unfold b_next. simpl. destruct (Z.eqb_spec (m_size m) (-1)); [lia|reflexivity]. }
  assert (Hst8 : r_st (a_r a8) = sset (st_of a) ci blk) by (unfold a8; simpl; rewrite Hsta; reflexivity).
  assert (Hctl8 : a_control a8 = Some (f + m_size m)).
  { unfold a8. simpl. unfold cur_next, acur, ablk. simpl. rewrite Hsta, sget_sset_same by exact Hcil. unfold blk. rewrite Hnb. reflexivity. }
  assert (Hwt8 : a_waiting a8 = wt ++ [d]) by (unfold a8; simpl; rewrite Hwt; reflexivity).
  assert (Hca8 : r_cache (a_r a8) = None) by (unfold a8; simpl; rewrite Hr; exact (ci_cache a C)).
  assert (C8 : chinv a8).
  { assert (G1 : length (a_decs a8) = rd) by (unfold a8; simpl; rewrite !upd_nat_length; exact Hlen).
    assert (G2 : forall d', d' <> d -> dget a8 d' = dget a d').
    { intros d' Hne. unfold a8, dget. simpl. rewrite !nth_upd_other by congruence. apply (Hoth d' Hne). }
    assert (G3 : d_blk (dget a8 d) = None).
    { unfold a8, dget. simpl. rewrite nth_upd_same by (rewrite upd_nat_length, Hlen; exact Hdlt). reflexivity. }
    assert (G4 : a_working a8 = wk) by (unfold a8; simpl; exact Hwk).
    assert (G5 : a_t a8 = a_t a) by (unfold a8; simpl; exact Ht).
    assert (G6 : r_cur (a_r a8) = Some ci) by (unfold a8; reflexivity).
    exact (refetch_inv a a8 d ci wt wk blk (f + m_size m) C Hci Hperm Hsub Hsup ltac:(lia) G1 G2 G3 Hwt8 G4 Hctl8 G5 Hst8 G6 Hca8). }
  assert (Ha8 : arel a8 (set_err (set_cur v b) eNil)).
  { constructor.
    - constructor.
      + unfold a8. reflexivity.
      + unfold a8. simpl. rewrite Hr. apply (cs_lc _ _ _ Hcs).
      + unfold a8. simpl. rewrite Hr. apply (cs_bl _ _ _ Hcs).
      + simpl. destruct (fill_beq F (v_cur v) (v_cur v) f W ltac:(lia)) as (_ & _ & Hvg & _).
        rewrite (fill_ok _ f m Hfm) in Hvg. exact Hvg.
      + exists ci. split; [unfold a8; reflexivity|]. rewrite Hst8, sset_length. split; [exact Hcil|].
        split; [rewrite sget_sset_same by exact Hcil; unfold beq, blk, b; simpl; auto 10|]. rewrite Hca8. exact I.
    - exact C8.
    - intros _. simpl v_cur. unfold b. rewrite Hnb. apply (chan_from_control a8 _ C8 Hctl8). rewrite Hwt8. apply app_one_ne. }
  destruct (afin_spec a8 _ f o Ha8 eq_refl) as (a' & Hfin & Ha'). exists a'. split; [exact Hfin|exact Ha'].
Qed.


Lemma seek_pre_working (a1 : astate) (v : vstate) (d : nat) (w : list nat) (f : Z) (m : member) (fuel : nat) :
  arel a1 v -> a_working a1 = d :: w -> fetch F f = FOk m -> (1 <= fuel)%nat ->
  let b := mkB f (m_size m) (m_data m) 0 0 true (b_used (v_cur v)) in
  (exists a3, seek_pre fuel (as_working a1 w) d true f = Ok (a3, true) /\ arel a3 (set_cur v b)) \/
  (exists e, seek_pre fuel (as_working a1 w) d true f = Ok (dset (as_working a1 w) d (mkD None e), false)).
Proof.
  intros Ha Hk Hfm Hf b. pose proof (ar_ch _ _ Ha) as C. pose proof (ar_csr _ _ Ha) as Hcs.
  destruct (fetch_ok_split f m Hfm) as (pre & post & Sp & Hmb).
  pose proof (split_size_pos Sp) as Hsz. pose proof (split_base_nonneg Sp) as Hbn.
  assert (Hnb : forall u, b_next (mkB f (m_size m) (m_data m) 0 0 true u) = f + m_size m).
  { intros u. unfold b_next. simpl. destruct (Z.eqb_spec (m_size m) (-1)); [lia|reflexivity]. }
  unfold seek_pre, a_wait. cbv beta iota zeta.
  change (dget (as_working a1 w) d) with (dget a1 d).
  destruct (d_err (dget a1 d) =? eNil) eqn:Ee; [|right; exists (d_err (dget a1 d)); reflexivity].
  rewrite a_keep_none by (exact (ci_cache a1 C)).
  destruct (blk_base (dset (as_working a1 w) d (mkD None (d_err (dget a1 d)))) (d_blk (dget a1 d)) =? f) eqn:Eb;
    [|right; exists (d_err (dget a1 d)); reflexivity].
  left. apply Z.eqb_eq in Eb. change (wbase a1 d = f) in Eb. apply Z.eqb_eq in Ee.
  destruct (popped_inv a1 d w C Hk) as (C3 & Rf & Hw3 & Hst3 & _ & Hc3 & Ht3 & _ & (bid & Hcb & Hbl & Hbq & _) & _ & Hwn).
  rewrite Eb in Hbq. rewrite (fill_ok b_new f m Hfm) in Hbq. cbn [fst] in Hbq.
  set (a5 := as_r (dset (as_working a1 w) d (mkD None (d_err (dget a1 d))))
                  (rs_cur (a_r (dset (as_working a1 w) d (mkD None (d_err (dget a1 d))))) (d_blk (dget a1 d)))).
  change (popped a1 d w) with (as_waiting a5 (a_waiting a5 ++ [d])) in *.
  assert (HE : cur_next a5 = f + m_size m).
  { unfold cur_next, acur, ablk. change (r_cur (a_r a5)) with (r_cur (a_r (as_waiting a5 (a_waiting a5 ++ [d])))). rewrite Hcb.
    change (sget (r_st (a_r a5)) bid) with (sget (st_of (as_waiting a5 (a_waiting a5 ++ [d]))) bid).
    rewrite (b_next_beq _ _ Hbq). apply Hnb. }
  rewrite HE.
  destruct (send_control_spec a5 d (f + m_size m) fuel C3 (fun v0 H => proj2 (ci_ctl a1 C v0 H)) Hf ltac:(lia))
    as (a6 & Hsend & C7 & Hc6 & Fr).
  rewrite Hsend. eexists. split; [reflexivity|].
  set (a7 := as_waiting a6 (a_waiting a6 ++ [d])) in *.
  destruct Rf as (R1 & R2 & R3 & _). destruct Fr as (F1 & F2 & F3 & F4 & _ & F6 & F7).
  constructor.
  - constructor.
    + rewrite F2, R1. apply (cs_err _ _ _ Hcs).
    + rewrite F3, R2. apply (cs_lc _ _ _ Hcs).
    + rewrite F4, R3. apply (cs_bl _ _ _ Hcs).
    + simpl. destruct (fill_beq F (v_cur v) (v_cur v) f W ltac:(lia)) as (_ & _ & Hvg & _).
      rewrite (fill_ok _ f m Hfm) in Hvg. exact Hvg.
    + exists bid. split; [rewrite F1; exact Hcb|]. unfold st_of in *. split; [lia|].
      split; [rewrite F7 by exact Hbl; apply (beq_trans _ _ _ Hbq); unfold beq, b; simpl; auto 10|].
      rewrite (ci_cache a7 C7). exact I.
  - exact C7.
  - intros _. simpl v_cur. unfold b. rewrite Hnb. apply (chan_from_control a7 _ C7 Hc6). unfold a7. simpl. apply app_one_ne.
Qed.


Lemma a_seek_sim (a : astate) (v : vstate) (f o : Z) (m : member) :
  arel a v -> fetch F f = FOk m ->
  exists a', a_seek F a f o = Ok (a', snd (v_seek F v f o)) /\ arel a' (fst (v_seek F v f o)).
Proof.
  intros Ha Hfm. pose proof (ar_csr _ _ Ha) as Hcs. pose proof (ar_ch _ _ Ha) as C.
  destruct (cs_cur _ _ _ Hcs) as (ci & Hci & Hcil & Hbeq & _).
  pose proof Hbeq as (B1 & _ & _ & _ & _ & B6).
  rewrite a_seek_eq. unfold v_seek. unfold acur at 1. rewrite Hci. cbv zeta. unfold ablk at 1 2. rewrite B1, B6.
  destruct (negb (f =? b_base (v_cur v)) || negb (b_has (v_cur v))) eqn:Hre.
  2:{ change (negb (eNil =? eNil)) with false. cbv iota.
      apply orb_false_iff in Hre. destruct Hre as [_ H2]. apply negb_false_iff in H2.
      destruct (afin_spec a v f o Ha H2) as (a' & Hfin & Ha'). exists a'. split; [exact Hfin|exact Ha']. }
  rewrite (cacheSwap_none _ _ (ci_cache a C)).
  rewrite (fill_ok (v_cur v) f m Hfm). change (negb (eNil =? eNil)) with false. cbv iota.
  set (b := mkB f (m_size m) (m_data m) 0 0 true (b_used (v_cur v))).
  destruct (select_spec (as_r a (a_r a)) (S (length (a_decs a))) (chinv_eta a C)) as (a2 & d & fw & sc & Hsel & Hcase).
  rewrite Hsel.
  destruct Hcase as [(-> & w & Hw & ->)|(-> & w & Hk & ->)].
  - (* a decompressor from waiting *)
    change (a_waiting (as_r a (a_r a))) with (a_waiting a) in Hw.
    cbn [seek_pre].
    assert (Hperm : Permutation (d :: w ++ a_working a ++ tpark (a_t a)) (seq 0 rd)).
    { pose proof (ci_tok a C) as P. unfold tokens in P. rewrite Hw in P. exact P. }
    destruct (seek_sync_spec a (as_waiting (as_sched (as_r a (a_r a)) sc) w) v d ci w (a_working a) f o m Ha Hci Hfm Hperm
                (fun x H => H) (fun x H => or_intror H) eq_refl (ci_len a C) (fun d' _ => eq_refl) eq_refl eq_refl eq_refl)
      as (a' & Hss & Ha').
    exists a'. split; [exact Hss|exact Ha'].
  - (* a decompressor from working *)
    change (a_working (as_r a (a_r a))) with (a_working a) in Hk.
    pose proof (arel_sched a v sc Ha) as Ha1.
    destruct (seek_pre_working (as_sched (as_r a (a_r a)) sc) v d w f m (S (length (a_decs a))) Ha1 Hk Hfm ltac:(lia))
      as [(a3 & Hpre & Ha3)|(e & Hpre)]; rewrite Hpre.
    + destruct (afin_spec a3 _ f o Ha3 eq_refl) as (a' & Hfin & Ha'). exists a'. split; [exact Hfin|exact Ha'].
    + assert (Hdlt : (d < rd)%nat) by (apply (tokens_lt a C); unfold tokens; rewrite Hk; apply in_or_app; right; left; reflexivity).
      assert (Hperm : Permutation (d :: a_waiting a ++ w ++ tpark (a_t a)) (seq 0 rd)).
      { pose proof (ci_tok a C) as P. unfold tokens in P. rewrite Hk in P.
        eapply Permutation_trans; [|exact P]. simpl. apply Permutation_middle. }
      destruct (seek_sync_spec a (dset (as_working (as_sched (as_r a (a_r a)) sc) w) d (mkD None e)) v d ci (a_waiting a) w f o m
                  Ha Hci Hfm Hperm
                  (fun x H => ltac:(rewrite Hk; right; exact H))
                  (fun x H => ltac:(rewrite Hk in H; destruct H as [H|H]; [left; symmetry; exact H|right; exact H]))
                  eq_refl
                  ltac:(simpl; rewrite upd_nat_length; exact (ci_len a C))
                  (fun d' Hne => ltac:(unfold dget; simpl; apply nth_upd_other; congruence))
                  eq_refl eq_refl eq_refl)
        as (a' & Hss & Ha').
      exists a'. split; [exact Hss|exact Ha'].
Qed.

(** ---- histories *)

Lemma pop_sched_arel (a : astate) (v : vstate) : arel a v -> arel (snd (pop_sched a)) v.
Proof. intros Ha. unfold pop_sched. destruct (a_sched a); simpl; [exact Ha|apply arel_sched; exact Ha]. Qed.

Lemma a_step_sim (ch : list nat) (a0 : astate) (v : vstate) (f : fstate) (o : rop) :
  arel a0 v -> sim F v f -> valid_op F o -> no_cache_op o = true ->
  exists a' v' r, v_step F v o = Ok (v', r) /\ a_step F ch a0 o = Ok (a', r) /\ arel a' v' /\ sim F v' (fst (flat_step F f o)).
Proof.
  intros Ha0 Hsim Hv Hn.
  destruct (step_sim F v f o W Hsim Hv) as (v' & r & Hvs & _ & Hsim').
  unfold a_step. pose proof (pop_sched_arel a0 v Ha0) as Ha1. destruct (pop_sched a0) as [k a1]. simpl in Ha1.
  destruct (t_run_inv k a1 v Ha1) as (a & Htr & Ha). rewrite Htr. clear Htr Ha1 Ha0 a0 a1.
  pose proof (ar_csr _ _ Ha) as Hcs.
  destruct o as [fo bo|n| |b| |kk cap]; simpl in Hvs |- *.
  - destruct (valid_off_split F fo bo W Hv) as (pre & m & post & Sp & Hb & _).
    pose proof (fetch_at Sp) as Hfm. rewrite Hb in Hfm.
    destruct (a_seek_sim a v fo bo m Ha Hfm) as (a' & Hrs & Ha').
    destruct (v_seek F v fo bo) as [v1 e] eqn:Hk. inversion Hvs; subst. simpl in *. rewrite Hrs.
    eexists _, _, _. split; [reflexivity|]. split; [reflexivity|]. split; assumption.
  - destruct (v_read F v n) as [[[v1 bs] e]| | |] eqn:Hr; try discriminate. inversion Hvs; subst.
    destruct (a_read_sim a v n _ Ha (sim_nil_has F Hsim) Hr) as (a' & Hrs & Ha' & _). simpl in *. rewrite Hrs.
    eexists _, _, _. split; [reflexivity|]. split; [reflexivity|]. split; assumption.
  - destruct (v_readbyte F v) as [[[v1 bs] e]| | |] eqn:Hr; try discriminate. inversion Hvs; subst.
    destruct (a_readbyte_sim a v _ Ha (sim_nil_has F Hsim) Hr) as (a' & Hrs & Ha'). simpl in *. rewrite Hrs.
    eexists _, _, _. split; [reflexivity|]. split; [reflexivity|]. split; [|exact Hsim'].
    exact Ha'.
  - inversion Hvs; subst. eexists _, _, _. split; [reflexivity|]. split; [reflexivity|]. split; [|exact Hsim'].
    apply (arel_rs a v); try reflexivity; [exact Ha|].
    destruct Hcs as [He Hlc Hbl Hvg Hc]. constructor; simpl; auto.
  - rewrite (cs_lc _ _ _ Hcs). destruct (fst (v_lc v)) as [fo bo] eqn:Hlc.
    pose proof (sim_begin_valid _ _ _ Hsim) as Hbv. rewrite Hlc in Hbv. simpl in Hbv.
    destruct (valid_off_split F fo bo W Hbv) as (pre & m & post & Sp & Hb & _).
    pose proof (fetch_at Sp) as Hfm. rewrite Hb in Hfm.
    destruct (a_seek_sim a v fo bo m Ha Hfm) as (a' & Hrs & Ha').
    destruct (v_seek F v fo bo) as [v1 e] eqn:Hk. inversion Hvs; subst. simpl in *. rewrite Hrs.
    eexists _, _, _. split; [reflexivity|]. split; [reflexivity|]. split; assumption.
  - discriminate.
Qed.

Lemma a_run_sim (ch : list nat) : forall ops a v f,
  arel a v -> sim F v f -> Forall (valid_op F) ops -> forallb no_cache_op ops = true ->
  a_run F ch a ops = v_run F v ops.
Proof.
  induction ops as [|o ops IH]; intros a v f Ha Hsim Hv Hn; [reflexivity|].
  inversion Hv; subst. simpl in Hn. apply andb_true_iff in Hn. destruct Hn as [Hn1 Hn2].
  destruct (a_step_sim ch a v f o Ha Hsim H1 Hn1) as (a' & v' & r & Hvs & Has & Ha' & Hsim').
  simpl. rewrite Hvs, Has. rewrite (IH a' v' _ Ha' Hsim' H2 Hn2).
  rewrite (cs_lc _ _ _ (ar_csr _ _ Ha')), (csr_blen _ _ _ (ar_csr _ _ Ha')). reflexivity.
Qed.

Lemma nth_repeat_same {A} (x : A) (n d : nat) : nth d (repeat x n) x = x.
Proof. revert d. induction n; intros [|d]; simpl; auto. Qed.

Lemma init_arel (sched : list nat) : F <> [] -> arel (fst (a_init F rd sched)) (fst (v_init F)).
Proof.
  intros Hne. pose proof (init_csr F W Hne) as Hcs. destruct (init_sim F W Hne) as [Hsim He0].
  pose proof (sim_nil_has F Hsim) as Hhas.
  unfold a_init. rewrite r_init_emb in *. cbn [fst snd] in *.
  set (v0 := fst (v_init F)) in *.
  assert (Hh : b_has (v_cur v0) = true).
  { apply Hhas. unfold v0, v_init. destruct (b_fill F b_new 0); reflexivity. }
  destruct (good_next ((cs_vgood _ _ _ Hcs) Hh)) as [_ Hnx].
  simpl. 
  assert (C : chinv (mkA (emb v0) (repeat (mkD None 0) rd) (seq 1 (rd - 1) ++ [O]) [] None (TIdle (b_next (v_cur v0))) sched)).
  { constructor; simpl.
    - reflexivity.
    - apply repeat_length.
    - unfold tokens. simpl. rewrite app_nil_r. destruct rd as [|n]; [lia|]. simpl. rewrite Nat.sub_0_r.
      apply Permutation_sym. apply Permutation_cons_append.
    - intros d _ _. unfold dget. simpl. rewrite nth_repeat_same. reflexivity.
    - intros d [].
    - intros d bid [].
    - intros d d' bid [].
    - intros i Hi. inversion Hi; subst. unfold st_of. simpl. lia.
    - intros v0' H. discriminate.
    - intros n _ Hn. inversion Hn; subst. lia. }
  constructor.
  - exact Hcs.
  - exact C.
  - intros _. destruct (chain_exists _ Hnx) as (l & Hl).
    exists [], l. split; [|split; [exact Hl|simpl; lia]].
    exists l. split; [reflexivity|]. unfold fut_ok. simpl. change (sget [v_cur v0] 0) with (v_cur v0).
    destruct (Z.ltb_spec (b_next (v_cur v0)) 0); [lia|exact Hl].
Qed.

End AR.

(** C02 for the reader with read-ahead (rd >= 2, no cache): under every
    schedule of the read-ahead goroutine the calls return, with the
    observations of the flat stream — no panic, no deadlock. *)
Theorem async_refines_flat_proof (F : file) (rd : nat) (ch sched : list nat) (ops : list rop) :
  wf_file F = true -> F <> [] -> (2 <= rd)%nat -> Forall (valid_op F) ops -> forallb no_cache_op ops = true ->
  snd (a_init F rd sched) = eNil /\
  exists l, a_run F ch (fst (a_init F rd sched)) ops = Ok l /\
    rets l = map fst (flat_run F f_init ops) /\
    begins F l = map (fun y => fst (snd y)) (flat_run F f_init ops) /\
    (addressable F = true -> ends F l = map (fun y => snd (snd y)) (flat_run F f_init ops)).
Proof.
  intros W Hne Hrd Hv Hn.
  destruct (v_refines_flat F ops W Hne Hv) as (He & l & Hrun & R).
  split.
  - unfold a_init. rewrite r_init_emb. simpl. exact He.
  - exists l. split; [|exact R].
    destruct (init_sim F W Hne) as [Hsim _].
    rewrite (a_run_sim F W rd Hrd ch ops _ _ _ (init_arel F W rd Hrd sched Hne) Hsim Hv Hn). exact Hrun.
Qed.

Print Assumptions async_refines_flat_proof.

(** In particular no call panics ("unexpected block", nil block) or deadlocks. *)
Corollary async_calls_return (F : file) (rd : nat) (sched : list nat) (ops : list rop) :
  wf_file F = true -> F <> [] -> (2 <= rd)%nat -> Forall (valid_op F) ops -> forallb no_cache_op ops = true ->
  a_outcome F rd sched ops = 0.
Proof.
  intros W Hne Hrd Hv Hn. unfold a_outcome.
  destruct (async_refines_flat_proof F rd [] sched ops W Hne Hrd Hv Hn) as (_ & l & H & _). rewrite H. reflexivity.
Qed.
