(** C14 — linearizability of lock;body;unlock operations (Model/Atomic.v). *)
From Coq Require Import List Bool Arith Lia.
From Hts Require Import Model.Atomic.
Import ListNotations.

Section Proofs.
  Variables (S O R : Type).
  Variable step : S -> O -> S * R.
  Variable is_read : O -> bool.
  Hypothesis read_pure : forall s o, is_read o = true -> fst (step s o) = s.
  Variable s0 : S.

  Notation config := (config S O R).
  Notation tstep := (tstep S O R step is_read).
  Notation seq_run := (seq_run S O R step).

  Definition hop (p : phase S O R) : option O :=
    match p with Holding _ _ _ o | Mid _ _ _ o _ | Ran _ _ _ o _ => Some o | _ => None end.

  Definition op_of (e : nat * O * R) : O := snd (fst e).
  Definition res_of (e : nat * O * R) : R := snd e.

  Definition lock_ok (c : config) : Prop :=
    match lk _ _ _ c with
    | LFree => forall t, hop (ph _ _ _ c t) = None
    | LW t0 => forall t, hop (ph _ _ _ c t) <> None -> t = t0
    | LR ts => NoDup ts /\ ts <> [] /\
               forall t, (hop (ph _ _ _ c t) <> None <-> In t ts)
                         /\ (forall o, hop (ph _ _ _ c t) = Some o -> is_read o = true)
    end.

  Definition hist_ok (c : config) : Prop :=
    forall t, match ph _ _ _ c t with
              | Idle _ _ _ => last_of _ _ t (hist _ _ _ c) = None
                              \/ exists o r, last_of _ _ t (hist _ _ _ c) = Some (ERes _ _ t o r)
              | Waiting _ _ _ o | Holding _ _ _ o | Mid _ _ _ o _ =>
                  last_of _ _ t (hist _ _ _ c) = Some (EInv _ _ t o)
              | Ran _ _ _ o r | Released _ _ _ o r =>
                  last_of _ _ t (hist _ _ _ c) = Some (ELin _ _ t o r)
              end.

  Record ainv (c : config) : Prop := mk_ainv {
    a_seq : seq_run s0 (map op_of (lin _ _ _ c)) = (sh _ _ _ c, map res_of (lin _ _ _ c));
    a_snap : forall t o snap, ph _ _ _ c t = Mid _ _ _ o snap -> snap = sh _ _ _ c;
    a_lock : lock_ok c;
    a_hist : hist_ok c;
    a_br : bracketed _ _ (hist _ _ _ c);
    a_lin : lin_of _ _ (hist _ _ _ c) = lin _ _ _ c }.

  Lemma seq_run_app s l1 l2 :
    seq_run s (l1 ++ l2) =
    let '(s1, r1) := seq_run s l1 in let '(s2, r2) := seq_run s1 l2 in (s2, r1 ++ r2).
  Proof.
    revert s. induction l1 as [|o l1 IH]; intros s; simpl.
    - destruct (seq_run s l2); reflexivity.
    - destruct (step s o) as [s' x]. rewrite IH.
      destruct (seq_run s' l1) as [s1 r1]. destruct (seq_run s1 l2). reflexivity.
  Qed.

  Lemma upd_same {A} (f : nat -> A) t v : upd f t v t = v.
  Proof. unfold upd. rewrite Nat.eqb_refl. reflexivity. Qed.
  Lemma upd_other {A} (f : nat -> A) t v x : x <> t -> upd f t v x = f x.
  Proof. unfold upd. intros H. destruct (Nat.eqb_spec x t); congruence. Qed.

  Lemma in_remove1 t x l : In x (remove1 t l) -> In x l.
  Proof.
    induction l as [|a l IH]; simpl; auto. destruct (Nat.eqb_spec a t); auto.
    intros [H|H]; auto.
  Qed.
  Lemma remove1_spec t l : NoDup l -> forall x, In x (remove1 t l) <-> (In x l /\ x <> t).
  Proof.
    induction l as [|a l IH]; simpl; intros ND x; [tauto|].
    inversion ND; subst. destruct (Nat.eqb_spec a t).
    - subst. split; [intros H; split; auto; intros ->; auto | intros [[H|H] H']; congruence].
    - simpl. rewrite IH by auto. split; [intros [H|[H H']]; subst; auto | intros [[H|H] H']; auto].
  Qed.
  Lemma nodup_remove1 t l : NoDup l -> NoDup (remove1 t l).
  Proof.
    induction l as [|a l IH]; simpl; intros ND; auto. inversion ND; subst.
    destruct (Nat.eqb_spec a t); auto. constructor; auto.
    intros H. apply in_remove1 in H. auto.
  Qed.

  Ltac upd_cases t' t :=
    destruct (Nat.eq_dec t' t) as [->|?]; [rewrite ?upd_same in * | rewrite ?upd_other in * by auto].

  Lemma last_of_cons t e h :
    last_of O R t (e :: h) = if Nat.eqb (ev_thread _ _ e) t then Some e else last_of O R t h.
  Proof. reflexivity. Qed.

  Lemma tstep_inv c t : ainv c -> ainv (tstep c t).
  Proof.
    intros [SEQ SNAP LOCK HIST BR LIN]. unfold tstep.
    pose proof (HIST t) as Ht.
    destruct (ph S O R c t) as [|o|o|o snap|o r|o r] eqn:PH.
    - (* invoke *)
      destruct (prog S O R c t) as [|o rest] eqn:PR; [constructor; auto|].
      constructor; simpl; auto.
      + intros t' o' snap'. upd_cases t' t; [discriminate|]. apply SNAP.
      + unfold lock_ok in *; simpl. destruct (lk S O R c).
        * intros t'. upd_cases t' t; auto.
        * intros t'. upd_cases t' t; [simpl; congruence|]. apply LOCK.
        * destruct LOCK as (ND & NE & L). repeat split; auto.
          all: upd_cases t0 t; try apply L; simpl in *; try congruence.
          intros Hin. apply L in Hin. rewrite PH in Hin. simpl in Hin. congruence.
      + intros t'. simpl. upd_cases t' t.
        * rewrite Nat.eqb_refl. reflexivity.
        * destruct (Nat.eqb_spec t t'); [congruence|]. apply HIST.
      + constructor; auto. simpl. destruct Ht as [->|(o' & r' & ->)]; constructor.
    - (* acquire *)
      unfold acquire. destruct (is_read o) eqn:RD.
      + destruct (lk S O R c) as [|t0|ts] eqn:LK; [| constructor; auto; unfold lock_ok; rewrite LK; auto |].
        * constructor; simpl; auto.
          { intros t' o' snap'. upd_cases t' t; [discriminate|]. apply SNAP. }
          { unfold lock_ok in *; simpl. rewrite LK in LOCK. repeat split.
            - constructor; [simpl; tauto | constructor].
            - discriminate.
            - upd_cases t0 t; simpl; auto; try (rewrite LOCK; tauto).
            - upd_cases t0 t; simpl; auto; try (intros; discriminate); try (rewrite LOCK; intros [?|[]]; congruence).
            - upd_cases t0 t; simpl; [congruence|]. rewrite LOCK. discriminate. }
          { intros t'. simpl. upd_cases t' t; auto. apply HIST. }
        * constructor; simpl; auto.
          { intros t' o' snap'. upd_cases t' t; [discriminate|]. apply SNAP. }
          { unfold lock_ok in *; simpl. rewrite LK in LOCK. destruct LOCK as (ND & NE & L).
            assert (Hnt : ~ In t ts). { intros Hin. apply L in Hin. rewrite PH in Hin. simpl in Hin. congruence. }
            repeat split.
            - constructor; auto.
            - discriminate.
            - upd_cases t0 t; simpl; auto. intros H. right. apply L; auto.
            - upd_cases t0 t; simpl; [discriminate|]. intros [?|Hin]; [congruence|]. apply L; auto.
            - upd_cases t0 t; simpl; [congruence|]. apply L. }
          { intros t'. simpl. upd_cases t' t; auto. apply HIST. }
      + destruct (lk S O R c) as [|t0|ts] eqn:LK;
          [| constructor; auto; unfold lock_ok; rewrite LK; auto | constructor; auto; unfold lock_ok; rewrite LK; auto].
        constructor; simpl; auto.
        { intros t' o' snap'. upd_cases t' t; [discriminate|]. apply SNAP. }
        { unfold lock_ok in *; simpl. rewrite LK in LOCK.
          intros t'. upd_cases t' t; auto. rewrite LOCK. congruence. }
        { intros t'. simpl. upd_cases t' t; auto. apply HIST. }
    - (* begin: copy the shared state *)
      constructor; simpl; auto.
      + intros t' o' snap'. upd_cases t' t; [intros H; inversion H; auto | apply SNAP].
      + unfold lock_ok in *; simpl. destruct (lk S O R c).
        * intros t'. specialize (LOCK t'). upd_cases t' t; auto. rewrite PH in LOCK. discriminate.
        * intros t'. upd_cases t' t; [|apply LOCK]. intros _. apply LOCK. rewrite PH. discriminate.
        * destruct LOCK as (ND & NE & L). repeat split; auto.
          all: upd_cases t0 t; try apply L; simpl in *.
          { intros _. apply L. rewrite PH. discriminate. }
          { discriminate. }
          { intros o' H; inversion H; subst. apply (proj2 (L t)). rewrite PH. reflexivity. }
      + intros t'. simpl. upd_cases t' t; auto. apply HIST.
    - (* finish: the linearization point *)
      pose proof (SNAP t o snap PH) as ->.
      destruct (step (sh S O R c) o) as [s' r] eqn:ST.
      assert (EXCL : is_read o = false -> forall t', t' <> t -> hop (ph S O R c t') = None).
      { intros RD t' Hne. unfold lock_ok in LOCK. destruct (lk S O R c) as [|t0|ts].
        - apply LOCK.
        - destruct (hop (ph S O R c t')) eqn:E; auto. exfalso.
          assert (t' = t0) by (apply LOCK; congruence).
          assert (t = t0) by (apply LOCK; rewrite PH; discriminate). congruence.
        - destruct LOCK as (_ & _ & L). exfalso.
          assert (is_read o = true) by (apply (proj2 (L t)); rewrite PH; reflexivity). congruence. }
      constructor; simpl; auto.
      + rewrite map_app, seq_run_app, SEQ. simpl. unfold op_of at 1. simpl. rewrite ST.
        rewrite map_app. simpl. destruct (is_read o) eqn:RD; auto.
        pose proof (read_pure (sh S O R c) o RD) as P. rewrite ST in P. simpl in P. subst. reflexivity.
      + intros t' o' snap'. upd_cases t' t; [discriminate|]. intros H.
        destruct (is_read o) eqn:RD; [eapply SNAP; eauto|].
        specialize (EXCL eq_refl t' n). rewrite H in EXCL. discriminate.
      + unfold lock_ok in *; simpl. destruct (lk S O R c).
        * intros t'. specialize (LOCK t'). upd_cases t' t; auto. rewrite PH in LOCK. discriminate.
        * intros t'. upd_cases t' t; [|apply LOCK]. intros _. apply LOCK. rewrite PH. discriminate.
        * destruct LOCK as (ND & NE & L). repeat split; auto.
          all: upd_cases t0 t; try apply L; simpl in *.
          { intros _. apply L. rewrite PH. discriminate. }
          { discriminate. }
          { intros o' H; inversion H; subst. apply (proj2 (L t)). rewrite PH. reflexivity. }
      + intros t'. simpl. upd_cases t' t.
        * rewrite Nat.eqb_refl. reflexivity.
        * destruct (Nat.eqb_spec t t'); [congruence|]. apply HIST.
      + constructor; auto. simpl. rewrite Ht. constructor.
      + rewrite LIN. reflexivity.
    - (* release *)
      constructor; simpl; auto.
      + intros t' o' snap'. upd_cases t' t; [discriminate|]. apply SNAP.
      + unfold lock_ok, release in *; simpl. destruct (lk S O R c) as [|t0|ts] eqn:LK.
        * intros t'. specialize (LOCK t'). upd_cases t' t; auto.
        * intros t'. upd_cases t' t; auto.
          destruct (hop (ph S O R c t')) eqn:E; auto. exfalso.
          assert (t' = t0) by (apply LOCK; congruence).
          assert (t = t0) by (apply LOCK; rewrite PH; discriminate). congruence.
        * destruct LOCK as (ND & NE & L).
          pose proof (remove1_spec t ts ND) as RS.
          destruct (remove1 t ts) as [|a ts'] eqn:RM.
          { intros t'. upd_cases t' t; auto.
            destruct (hop (ph S O R c t')) eqn:E; auto. exfalso.
            assert (In t' ts) by (apply L; congruence).
            apply (proj2 (RS t')); auto. }
          { repeat split.
            - rewrite <- RM. apply nodup_remove1; auto.
            - discriminate.
            - upd_cases t0 t; simpl; [congruence|]. intros H. apply RS. split; auto. apply L; auto.
            - upd_cases t0 t; simpl.
              + intros H. apply RS in H. tauto.
              + intros H. apply RS in H. apply L. tauto.
            - upd_cases t0 t; simpl; [discriminate|]. apply L. }
      + intros t'. simpl. upd_cases t' t; auto. apply HIST.
    - (* respond *)
      constructor; simpl; auto.
      + intros t' o' snap'. upd_cases t' t; [discriminate|]. apply SNAP.
      + unfold lock_ok in *; simpl. destruct (lk S O R c).
        * intros t'. upd_cases t' t; auto.
        * intros t'. upd_cases t' t; [simpl; congruence|]. apply LOCK.
        * destruct LOCK as (ND & NE & L). repeat split; auto.
          all: upd_cases t0 t; try apply L; simpl in *; try congruence.
          intros Hin. apply L in Hin. rewrite PH in Hin. simpl in Hin. congruence.
      + intros t'. simpl. upd_cases t' t.
        * rewrite Nat.eqb_refl. right. eauto.
        * destruct (Nat.eqb_spec t t'); [congruence|]. apply HIST.
      + constructor; auto. simpl. rewrite Ht. constructor.
  Qed.

  Lemma init_inv p : ainv (init S O R s0 p).
  Proof.
    constructor; simpl; auto.
    - discriminate.
    - unfold lock_ok; simpl; auto.
    - intros t; simpl; auto.
    - constructor.
  Qed.

  Lemma exec_inv sched : forall c, ainv c -> ainv (exec S O R step is_read c sched).
  Proof. induction sched as [|t r IH]; intros c H; simpl; auto. apply IH. apply tstep_inv; auto. Qed.

  (** Every interleaved execution, under every schedule: the shared state
      and all results are those of the sequential execution of the operations
      in the order of their linearization points; that order is the order of
      the ELin events of the history, and in the history every operation's
      ELin lies between its invocation and its response (so the order
      respects real time). *)
  Theorem linearizable_gen p sched :
    let c := exec S O R step is_read (init S O R s0 p) sched in
    seq_run s0 (map op_of (lin _ _ _ c)) = (sh _ _ _ c, map res_of (lin _ _ _ c))
    /\ lin_of _ _ (hist _ _ _ c) = lin _ _ _ c
    /\ bracketed _ _ (hist _ _ _ c).
  Proof.
    intros c. destruct (exec_inv sched _ (init_inv p)) as [H1 _ _ _ H5 H6]. auto.
  Qed.
End Proofs.
