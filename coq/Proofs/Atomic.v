(** C14 — linearizability of lock; body; unlock operations whose bodies are
    arbitrary micro-step programs over the shared state (Model/Atomic.v). *)
From Coq Require Import List Bool Arith Lia.
From Hts Require Import Model.Atomic.
Import ListNotations.

Section Proofs.
  Variables (St Op Rs Lc : Type).
  Variable l0 : Op -> Lc.
  Variable bstep : Op -> St -> Lc -> St * (Lc + Rs).
  Variable is_read : Op -> bool.
  (** a body that runs under the read lock does not store *)
  Hypothesis read_pure : forall o s l, is_read o = true -> fst (bstep o s l) = s.
  Variable s0 : St.

  Notation config := (config St Op Rs Lc).
  Notation tstep := (tstep St Op Rs Lc l0 bstep is_read).
  Notation iterp := (iterp St Op Rs Lc bstep).
  Notation seq_rel := (seq_rel St Op Rs Lc l0 bstep).
  Notation phase := (phase Op Rs Lc).

  Definition hop (p : phase) : option Op :=
    match p with Body _ _ _ o _ | Ran _ _ _ o _ => Some o | _ => None end.

  Definition op_of (e : nat * Op * Rs) : Op := snd (fst e).
  Definition res_of (e : nat * Op * Rs) : Rs := snd e.

  Definition lock_ok (c : config) : Prop :=
    match lk _ _ _ _ c with
    | LFree => forall t, hop (ph _ _ _ _ c t) = None
    | LW t0 => forall t, hop (ph _ _ _ _ c t) <> None -> t = t0
    | LR ts => NoDup ts /\ ts <> [] /\
               forall t, (hop (ph _ _ _ _ c t) <> None <-> In t ts)
                         /\ (forall o, hop (ph _ _ _ _ c t) = Some o -> is_read o = true)
    end.

  Definition hist_ok (c : config) : Prop :=
    forall t, match ph _ _ _ _ c t with
              | Idle _ _ _ => last_of _ _ t (hist _ _ _ _ c) = None
                              \/ exists o r, last_of _ _ t (hist _ _ _ _ c) = Some (ERes _ _ t o r)
              | Waiting _ _ _ o | Body _ _ _ o _ =>
                  last_of _ _ t (hist _ _ _ _ c) = Some (EInv _ _ t o)
              | Ran _ _ _ o r | Released _ _ _ o r =>
                  last_of _ _ t (hist _ _ _ _ c) = Some (ELin _ _ t o r)
              end.

  (** [sg]: the state after the sequential execution of the finished
      operations; every thread inside its body has got from [sg] to the
      current shared state by its own micro-steps alone *)
  Definition seq_ok (c : config) : Prop :=
    exists sg, seq_rel s0 (lin _ _ _ _ c) sg
      /\ (no_writer_mid _ _ _ _ is_read c -> sg = sh _ _ _ _ c)
      /\ forall t o l, ph _ _ _ _ c t = Body _ _ _ o l ->
           exists k, iterp k o sg (l0 o) = Some (sh _ _ _ _ c, l).

  Record ainv (c : config) : Prop := mk_ainv {
    a_seq : seq_ok c;
    a_lock : lock_ok c;
    a_hist : hist_ok c;
    a_br : bracketed _ _ (hist _ _ _ _ c);
    a_lin : lin_of _ _ (hist _ _ _ _ c) = lin _ _ _ _ c }.

  Lemma iterp_snoc k : forall o s l s1 l1 s2 l2,
    iterp k o s l = Some (s1, l1) -> bstep o s1 l1 = (s2, inl l2) ->
    iterp (S k) o s l = Some (s2, l2).
  Proof.
    induction k as [|k IH]; intros o s l s1 l1 s2 l2 H B; simpl in *.
    - inversion H; subst. rewrite B. reflexivity.
    - destruct (bstep o s l) as [s' [l'|r]] eqn:E; [|discriminate].
      specialize (IH o s' l' s1 l1 s2 l2 H B). simpl in IH. exact IH.
  Qed.

  Lemma iterp_read k : forall o s l s1 l1,
    is_read o = true -> iterp k o s l = Some (s1, l1) -> s1 = s.
  Proof.
    induction k as [|k IH]; intros o s l s1 l1 RD H; simpl in *.
    - inversion H; auto.
    - pose proof (read_pure o s l RD) as P.
      destruct (bstep o s l) as [s' [l'|r]] eqn:E; [|discriminate].
      simpl in P. subst s'. eapply IH; eauto.
  Qed.

  Lemma upd_same {A} (f : nat -> A) t v : upd f t v t = v.
  Proof. unfold upd. rewrite Nat.eqb_refl. reflexivity. Qed.
  Lemma upd_other {A} (f : nat -> A) t v x : x <> t -> upd f t v x = f x.
  Proof. unfold upd. intros H. destruct (Nat.eqb_spec x t); congruence. Qed.

  Lemma in_remove1 t x l : In x (remove1 t l) -> In x l.
  Proof.
    induction l as [|a l IH]; simpl; auto. destruct (Nat.eqb_spec a t); auto.
    intros [H|H]; auto.
  Qed.
  Lemma remove1_spec t l : NoDup l -> forall x, In x (remove1 t l) <-> (In x l /\ x <> t).
  Proof.
    induction l as [|a l IH]; simpl; intros ND x; [tauto|].
    inversion ND; subst. destruct (Nat.eqb_spec a t).
    - subst. split; [intros H; split; auto; intros ->; auto | intros [[H|H] H']; congruence].
    - simpl. rewrite IH by auto. split; [intros [H|[H H']]; subst; auto | intros [[H|H] H']; auto].
  Qed.
  Lemma nodup_remove1 t l : NoDup l -> NoDup (remove1 t l).
  Proof.
    induction l as [|a l IH]; simpl; intros ND; auto. inversion ND; subst.
    destruct (Nat.eqb_spec a t); auto. constructor; auto.
    intros H. apply in_remove1 in H. auto.
  Qed.

  Ltac upd_cases t' t :=
    destruct (Nat.eq_dec t' t) as [->|?]; [rewrite ?upd_same in * | rewrite ?upd_other in * by auto].

  (** a step that changes neither shared state nor [lin], and moves [t]
      between phases that are not [Body], keeps [seq_ok] *)
  Lemma seq_ok_frame c t p' lk' pr' h' :
    (forall o l, ph _ _ _ _ c t <> Body _ _ _ o l) -> (forall o l, p' <> Body _ _ _ o l) ->
    seq_ok c ->
    seq_ok (mkcfg _ _ _ _ (sh _ _ _ _ c) lk' pr' (upd (ph _ _ _ _ c) t p') h' (lin _ _ _ _ c)).
  Proof.
    intros NB NB' (sg & S1 & S2 & S3). exists sg. simpl. repeat split; auto.
    - intros NW. apply S2. intros t' o l H. apply (NW t' o l). simpl.
      upd_cases t' t; auto. exfalso. eapply NB; eauto.
    - intros t' o l. upd_cases t' t; [intros H; exfalso; eapply NB'; eauto|]. apply S3.
  Qed.

  Lemma tstep_inv c t : ainv c -> ainv (tstep c t).
  Proof.
    intros [SEQ LOCK HIST BR LIN]. unfold tstep.
    pose proof (HIST t) as Ht.
    destruct (ph St Op Rs Lc c t) as [|o|o l|o r|o r] eqn:PH.
    - (* invoke *)
      destruct (prog St Op Rs Lc c t) as [|o rest] eqn:PR; [constructor; auto|].
      constructor; simpl; auto.
      + apply seq_ok_frame; auto; try (rewrite PH); discriminate.
      + unfold lock_ok in *; simpl. destruct (lk St Op Rs Lc c).
        * intros t'. upd_cases t' t; auto.
        * intros t'. upd_cases t' t; [simpl; congruence|]. apply LOCK.
        * destruct LOCK as (ND & NE & L). repeat split; auto.
          all: upd_cases t0 t; try apply L; simpl in *; try congruence.
          intros Hin. apply L in Hin. rewrite PH in Hin. simpl in Hin. congruence.
      + intros t'. simpl. upd_cases t' t.
        * rewrite Nat.eqb_refl. reflexivity.
        * destruct (Nat.eqb_spec t t'); [congruence|]. apply HIST.
      + constructor; auto. simpl. destruct Ht as [->|(o' & r' & ->)]; constructor.
    - (* acquire *)
      assert (ACQ : forall lk', (forall t', hop (ph St Op Rs Lc c t') <> None -> forall o', hop (ph St Op Rs Lc c t') = Some o' -> is_read o' = true) ->
                seq_ok (mkcfg _ _ _ _ (sh St Op Rs Lc c) lk' (prog St Op Rs Lc c)
                          (upd (ph St Op Rs Lc c) t (Body _ _ _ o (l0 o))) (hist St Op Rs Lc c) (lin St Op Rs Lc c))).
      { intros lk' RDS. destruct SEQ as (sg & S1 & S2 & S3).
        assert (NW : no_writer_mid _ _ _ _ is_read c).
        { intros t' o' l' H. apply (RDS t'); rewrite H; simpl; congruence. }
        exists sg. simpl. split; [auto|]. split; [intros _; auto|].
        intros t' o' l'. upd_cases t' t.
        - intros H; inversion H; subst. exists O. simpl. rewrite (S2 NW). reflexivity.
        - apply S3. }
      unfold acquire. destruct (is_read o) eqn:RD.
      + destruct (lk St Op Rs Lc c) as [|t0|ts] eqn:LK; [| constructor; auto; unfold lock_ok; rewrite LK; auto |].
        * constructor; simpl; auto.
          { apply ACQ. unfold lock_ok in LOCK. rewrite LK in LOCK. intros t' H. rewrite LOCK in H. congruence. }
          { unfold lock_ok in *; simpl. rewrite LK in LOCK. repeat split.
            - constructor; [simpl; tauto | constructor].
            - discriminate.
            - upd_cases t0 t; simpl; auto; try (rewrite LOCK; tauto).
            - upd_cases t0 t; simpl; auto; try (intros; discriminate); try (rewrite LOCK; intros [?|[]]; congruence).
            - upd_cases t0 t; simpl; [congruence|]. rewrite LOCK. discriminate. }
          { intros t'. simpl. upd_cases t' t; auto. apply HIST. }
        * constructor; simpl; auto.
          { apply ACQ. unfold lock_ok in LOCK. rewrite LK in LOCK. destruct LOCK as (_ & _ & L).
            intros t' _ o' H. apply (proj2 (L t')); auto. }
          { unfold lock_ok in *; simpl. rewrite LK in LOCK. destruct LOCK as (ND & NE & L).
            assert (Hnt : ~ In t ts). { intros Hin. apply L in Hin. rewrite PH in Hin. simpl in Hin. congruence. }
            repeat split.
            - constructor; auto.
            - discriminate.
            - upd_cases t0 t; simpl; auto. intros H. right. apply L; auto.
            - upd_cases t0 t; simpl; [discriminate|]. intros [?|Hin]; [congruence|]. apply L; auto.
            - upd_cases t0 t; simpl; [congruence|]. apply L. }
          { intros t'. simpl. upd_cases t' t; auto. apply HIST. }
      + destruct (lk St Op Rs Lc c) as [|t0|ts] eqn:LK;
          [| constructor; auto; unfold lock_ok; rewrite LK; auto | constructor; auto; unfold lock_ok; rewrite LK; auto].
        constructor; simpl; auto.
        { apply ACQ. unfold lock_ok in LOCK. rewrite LK in LOCK. intros t' H. rewrite LOCK in H. congruence. }
        { unfold lock_ok in *; simpl. rewrite LK in LOCK.
          intros t'. upd_cases t' t; auto. rewrite LOCK. congruence. }
        { intros t'. simpl. upd_cases t' t; auto. apply HIST. }
    - (* a micro-step of the body, on the shared state *)
      destruct SEQ as (sg & S1 & S2 & S3).
      destruct (S3 t o l PH) as [k IT].
      assert (EXCL : is_read o = false -> forall t', t' <> t -> hop (ph St Op Rs Lc c t') = None).
      { intros RD t' Hne. unfold lock_ok in LOCK. destruct (lk St Op Rs Lc c) as [|t0|ts].
        - apply LOCK.
        - destruct (hop (ph St Op Rs Lc c t')) eqn:E; auto. exfalso.
          assert (t' = t0) by (apply LOCK; congruence).
          assert (t = t0) by (apply LOCK; rewrite PH; discriminate). congruence.
        - destruct LOCK as (_ & _ & L). exfalso.
          assert (is_read o = true) by (apply (proj2 (L t)); rewrite PH; reflexivity). congruence. }
      assert (LOCK' : forall p', hop p' = Some o -> forall s' h' li',
                lock_ok (mkcfg _ _ _ _ s' (lk St Op Rs Lc c) (prog St Op Rs Lc c) (upd (ph St Op Rs Lc c) t p') h' li')).
      { intros p' HP s' h' li'. unfold lock_ok in *; simpl. destruct (lk St Op Rs Lc c).
        - intros t'. specialize (LOCK t'). upd_cases t' t; auto. rewrite PH in LOCK. discriminate.
        - intros t'. upd_cases t' t; [|apply LOCK]. intros _. apply LOCK. rewrite PH. discriminate.
        - destruct LOCK as (ND & NE & L). repeat split; auto.
          all: upd_cases t0 t; try apply L; simpl in *.
          + intros _. apply L. rewrite PH. discriminate.
          + rewrite HP. discriminate.
          + rewrite HP. intros o' H; inversion H; subst. apply (proj2 (L t)). rewrite PH. reflexivity. }
      destruct (bstep o (sh St Op Rs Lc c) l) as [s' [l'|r]] eqn:ST.
      + (* continues *)
        constructor; simpl; auto.
        * destruct (is_read o) eqn:RD.
          { pose proof (read_pure o (sh St Op Rs Lc c) l RD) as P. rewrite ST in P. simpl in P. subst s'.
            exists sg. simpl. repeat split; auto.
            - intros NW. apply S2. intros t' o' l'' H. upd_cases t' t; [congruence|].
              apply (NW t' o' l''). simpl. rewrite upd_other; auto.
            - intros t' o' l''. upd_cases t' t; [|apply S3].
              intros H; inversion H; subst. exists (S k). eapply iterp_snoc; eauto. }
          { exists sg. simpl. repeat split; auto.
            - intros NW. specialize (NW t o l'). simpl in NW. rewrite upd_same in NW. rewrite NW in RD; auto. discriminate.
            - intros t' o' l''. upd_cases t' t.
              + intros H; inversion H; subst. exists (S k). eapply iterp_snoc; eauto.
              + intros H. specialize (EXCL eq_refl t' n). rewrite H in EXCL. discriminate. }
        * intros t'. simpl. upd_cases t' t; auto. apply HIST.
      + (* finishes: the linearization point *)
        assert (RUN : runs _ _ _ _ l0 bstep o sg s' r) by (exists k, (sh St Op Rs Lc c), l; auto).
        constructor; simpl; auto.
        * exists s'. simpl. split; [eapply seq_snoc; eauto|]. split; auto.
          intros t' o' l''. upd_cases t' t; [discriminate|]. intros H.
          destruct (is_read o) eqn:RD.
          { pose proof (read_pure o (sh St Op Rs Lc c) l RD) as P. rewrite ST in P. simpl in P. subst s'.
            pose proof (iterp_read _ _ _ _ _ _ RD IT) as E.
            destruct (S3 t' o' l'' H) as [k' IT']. exists k'. rewrite <- E in IT'. exact IT'. }
          { specialize (EXCL eq_refl t' n). rewrite H in EXCL. discriminate. }
        * intros t'. simpl. upd_cases t' t.
          { rewrite Nat.eqb_refl. reflexivity. }
          { destruct (Nat.eqb_spec t t'); [congruence|]. apply HIST. }
        * constructor; auto. simpl. rewrite Ht. constructor.
        * rewrite LIN. reflexivity.
    - (* release *)
      constructor; simpl; auto.
      + apply seq_ok_frame; auto; try (rewrite PH); discriminate.
      + unfold lock_ok, release in *; simpl. destruct (lk St Op Rs Lc c) as [|t0|ts] eqn:LK.
        * intros t'. specialize (LOCK t'). upd_cases t' t; auto.
        * intros t'. upd_cases t' t; auto.
          destruct (hop (ph St Op Rs Lc c t')) eqn:E; auto. exfalso.
          assert (t' = t0) by (apply LOCK; congruence).
          assert (t = t0) by (apply LOCK; rewrite PH; discriminate). congruence.
        * destruct LOCK as (ND & NE & L).
          pose proof (remove1_spec t ts ND) as RS.
          destruct (remove1 t ts) as [|a ts'] eqn:RM.
          { intros t'. upd_cases t' t; auto.
            destruct (hop (ph St Op Rs Lc c t')) eqn:E; auto. exfalso.
            assert (In t' ts) by (apply L; congruence).
            apply (proj2 (RS t')); auto. }
          { repeat split.
            - rewrite <- RM. apply nodup_remove1; auto.
            - discriminate.
            - upd_cases t0 t; simpl; [congruence|]. intros H. apply RS. split; auto. apply L; auto.
            - upd_cases t0 t; simpl.
              + intros H. apply RS in H. tauto.
              + intros H. apply RS in H. apply L. tauto.
            - upd_cases t0 t; simpl; [discriminate|]. apply L. }
      + intros t'. simpl. upd_cases t' t; auto. apply HIST.
    - (* respond *)
      constructor; simpl; auto.
      + apply seq_ok_frame; auto; try (rewrite PH); discriminate.
      + unfold lock_ok in *; simpl. destruct (lk St Op Rs Lc c).
        * intros t'. upd_cases t' t; auto.
        * intros t'. upd_cases t' t; [simpl; congruence|]. apply LOCK.
        * destruct LOCK as (ND & NE & L). repeat split; auto.
          all: upd_cases t0 t; try apply L; simpl in *; try congruence.
          intros Hin. apply L in Hin. rewrite PH in Hin. simpl in Hin. congruence.
      + intros t'. simpl. upd_cases t' t.
        * rewrite Nat.eqb_refl. right. eauto.
        * destruct (Nat.eqb_spec t t'); [congruence|]. apply HIST.
      + constructor; auto. simpl. rewrite Ht. constructor.
  Qed.

  Lemma init_inv p : ainv (init St Op Rs Lc s0 p).
  Proof.
    constructor; simpl; auto.
    - exists s0. simpl. repeat split; auto; [constructor | discriminate].
    - unfold lock_ok; simpl; auto.
    - intros t; simpl; auto.
    - constructor.
  Qed.

  Lemma exec_inv sched : forall c, ainv c -> ainv (exec St Op Rs Lc l0 bstep is_read c sched).
  Proof. induction sched as [|t r IH]; intros c H; simpl; auto. apply IH. apply tstep_inv; auto. Qed.

  (** Every interleaved execution, under every schedule, with bodies cut
      into micro-steps in any way: there is a state [sg] that the sequential
      execution of the finished operations - the same bodies, one after the
      other, in the order of their linearization points - reaches from [s0]
      with exactly the results observed; the shared state is [sg] whenever no
      writer is in the middle of its body; the order is that of the ELin
      events of the history, each of which lies between the invocation and
      the response of its operation (real-time order). *)
  Theorem linearizable_gen p sched :
    let c := exec St Op Rs Lc l0 bstep is_read (init St Op Rs Lc s0 p) sched in
    (exists sg, seq_rel s0 (lin _ _ _ _ c) sg
                /\ (no_writer_mid _ _ _ _ is_read c -> sg = sh _ _ _ _ c))
    /\ lin_of _ _ (hist _ _ _ _ c) = lin _ _ _ _ c
    /\ bracketed _ _ (hist _ _ _ _ c).
  Proof.
    intros c. destruct (exec_inv sched _ (init_inv p)) as [(sg & H1 & H2 & _) _ _ H5 H6].
    split; eauto.
  Qed.

  (** If the bodies, run alone, compute a step function, the sequential
      execution is [seq_run] of that function. *)
  Lemma seq_rel_run (step : St -> Op -> St * Rs) :
    (forall o s s' r, runs _ _ _ _ l0 bstep o s s' r -> step s o = (s', r)) ->
    forall s l s', seq_rel s l s' -> seq_run St Op Rs step s (map op_of l) = (s', map res_of l).
  Proof.
    intros IMP s l s' H. induction H; simpl; auto.
    rewrite !map_app. simpl.
    assert (APP : forall a os1 os2, seq_run St Op Rs step a (os1 ++ os2) =
              let '(s1, r1) := seq_run St Op Rs step a os1 in
              let '(s2', r2) := seq_run St Op Rs step s1 os2 in (s2', r1 ++ r2)).
    { intros a os1. revert a. induction os1 as [|x os1 IHo]; intros a os2; simpl.
      - destruct (seq_run St Op Rs step a os2); reflexivity.
      - destruct (step a x) as [a' y]. rewrite IHo.
        destruct (seq_run St Op Rs step a' os1) as [s1' r1]. destruct (seq_run St Op Rs step s1' os2). reflexivity. }
    rewrite APP, IHseq_rel. simpl. unfold op_of at 1. simpl. rewrite (IMP _ _ _ _ H0). reflexivity.
  Qed.

  (** both together *)
  Theorem linearizable_step (step : St -> Op -> St * Rs) p sched :
    (forall o s s' r, runs _ _ _ _ l0 bstep o s s' r -> step s o = (s', r)) ->
    let c := exec St Op Rs Lc l0 bstep is_read (init St Op Rs Lc s0 p) sched in
    (exists sg, seq_run St Op Rs step s0 (map op_of (lin _ _ _ _ c)) = (sg, map res_of (lin _ _ _ _ c))
                /\ (no_writer_mid _ _ _ _ is_read c -> sg = sh _ _ _ _ c))
    /\ lin_of _ _ (hist _ _ _ _ c) = lin _ _ _ _ c
    /\ bracketed _ _ (hist _ _ _ _ c).
  Proof.
    intros IMP c. destruct (linearizable_gen p sched) as ((sg & H1 & H2) & H3 & H4).
    split; auto. exists sg. split; auto. apply seq_rel_run; auto.
  Qed.
End Proofs.
