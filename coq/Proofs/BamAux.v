(** C05 — parseAux (buildAux aa) = aa for well-formed aux fields. *)
From Coq Require Import ZArith Lia List Bool.
From Hts Require Import Base.Prim Base.Bits Generated Model.BamCodec Base.BytesLE.
Import ListNotations.
Open Scope Z_scope.
Ltac Zify.zify_post_hook ::= Z.div_mod_to_equations.

(** The generated jumps table gives every fixed-size type of the
    specification its width (checked by computation on the table). *)
Lemma spec_width_cases t :
  0 < spec_width t ->
  (t = 65 \/ t = 99 \/ t = 67 \/ t = 115 \/ t = 83 \/ t = 105 \/ t = 73 \/ t = 102).
Proof.
  unfold spec_width. intros H.
  destruct (t =? 65) eqn:E1; [apply Z.eqb_eq in E1; tauto|].
  destruct (t =? 99) eqn:E2; [apply Z.eqb_eq in E2; tauto|].
  destruct (t =? 67) eqn:E3; [apply Z.eqb_eq in E3; tauto|].
  destruct (t =? 115) eqn:E4; [apply Z.eqb_eq in E4; tauto|].
  destruct (t =? 83) eqn:E5; [apply Z.eqb_eq in E5; tauto|].
  destruct (t =? 105) eqn:E6; [apply Z.eqb_eq in E6; tauto|].
  destruct (t =? 73) eqn:E7; [apply Z.eqb_eq in E7; tauto|].
  destruct (t =? 102) eqn:E8; [apply Z.eqb_eq in E8; tauto|].
  simpl in H. lia.
Qed.

Lemma jumps_fixed t :
  0 < spec_width t -> inb bam_jumps t = true /\ getz bam_jumps t = spec_width t.
Proof.
  intros H. destruct (spec_width_cases t H) as [->|[->|[->|[->|[->|[->|[->| ->]]]]]]]; split; vm_compute; reflexivity.
Qed.

Lemma jumps_ZHB : getz bam_jumps 90 = -1 /\ getz bam_jumps 72 = -1 /\ getz bam_jumps 66 = -1
  /\ inb bam_jumps 90 = true /\ inb bam_jumps 72 = true /\ inb bam_jumps 66 = true.
Proof. repeat split; vm_compute; reflexivity. Qed.

Lemma index_byte_app a rest :
  nonzero_bytes a = true -> index_byte (a ++ 0 :: rest) 0 = Some (zlen a).
Proof.
  induction a as [|b t IH]; intros H.
  - reflexivity.
  - unfold nonzero_bytes in H. cbn [forallb] in H. apply andb_true_iff in H. destruct H as [Hb Ht].
    cbn [app index_byte]. apply negb_true_iff in Hb. rewrite Hb.
    rewrite (IH Ht). rewrite zlen_cons. f_equal. lia.
Qed.

Lemma getz_app_l (a b : list Z) i : 0 <= i < zlen a -> getz (a ++ b) i = getz a i.
Proof. apply getz_app. Qed.

(** Size of what buildAux appends for one field. *)
Definition aux_term (a : list Z) : list Z :=
  if (getz a 2 =? 90) || (getz a 2 =? 72) then [0] else [].

Lemma build_aux_cons a t tags :
  3 <= zlen a -> build_aux t = Ok tags -> build_aux (a :: t) = Ok (a ++ aux_term a ++ tags).
Proof.
  intros Hlen Ht. cbn [build_aux]. unfold chk, inb.
  replace ((0 <=? 2) && (2 <? zlen a)) with true by (symmetry; apply andb_true_intro; split; [reflexivity|apply Z.ltb_lt; lia]).
  rewrite Ht. reflexivity.
Qed.

Lemma wf_aux_len a : wf_aux a = true -> 3 <= zlen a /\ all_bytes a = true.
Proof.
  unfold wf_aux. intros H. apply andb_true_iff in H. destruct H as [H _].
  apply andb_true_iff in H. destruct H as [H1 H2]. apply Z.leb_le in H2. tauto.
Qed.

Lemma build_aux_ok aa : forallb wf_aux aa = true -> exists tags, build_aux aa = Ok tags /\ zlen tags = tags_len aa /\ all_bytes tags = true.
Proof.
  induction aa as [|a t IH]; intros H.
  - exists []. repeat split.
  - cbn [forallb] in H. apply andb_true_iff in H. destruct H as [Ha Ht].
    destruct (IH Ht) as [tags [Hb [Hl Hby]]]. destruct (wf_aux_len a Ha) as [H3 Hab].
    exists (a ++ aux_term a ++ tags). split; [apply build_aux_cons; assumption|]. split.
    + rewrite !zlen_app, Hl. cbn [tags_len]. unfold aux_term.
      destruct ((getz a 2 =? 90) || (getz a 2 =? 72)); [rewrite zlen_cons, zlen_nil|rewrite zlen_nil]; lia.
    + rewrite !all_bytes_app, Hab, Hby. unfold aux_term.
      destruct ((getz a 2 =? 90) || (getz a 2 =? 72)); reflexivity.
Qed.

Lemma zskipn3_app (a b : list Z) : 3 <= zlen a -> zskipn 3 (a ++ b) = zskipn 3 a ++ b.
Proof.
  intros H. unfold zskipn. rewrite skipn_app.
  replace (Z.to_nat 3 - length a)%nat with 0%nat by (unfold zlen in H; lia). reflexivity.
Qed.

Lemma zlen_zskipn3 (a : list Z) : 3 <= zlen a -> zlen (zskipn 3 a) = zlen a - 3.
Proof. intros H. unfold zskipn, zlen in *. rewrite skipn_length. lia. Qed.

(** One step of the parse loop on a well-formed field followed by anything. *)
Lemma parse_step fuel a rest :
  wf_aux a = true ->
  parse_aux_loop (S fuel) (a ++ aux_term a ++ rest)
  = ocons a (parse_aux_loop fuel rest).
Proof.
  intros Hwf. destruct (wf_aux_len a Hwf) as [H3 Hab].
  unfold wf_aux in Hwf. apply andb_true_iff in Hwf. destruct Hwf as [_ Hwf].
  cbn [parse_aux_loop].
  assert (Hl : 2 <? zlen (a ++ aux_term a ++ rest) = true).
  { apply Z.ltb_lt. rewrite zlen_app. pose proof (zlen_nonneg (aux_term a ++ rest)). lia. }
  rewrite Hl. cbn [negb].
  rewrite (getz_app_l a _ 2) by lia.
  set (t := getz a 2) in *.
  destruct (0 <? spec_width t) eqn:Hfix.
  - (* fixed size *)
    apply Z.ltb_lt in Hfix. apply Z.eqb_eq in Hwf.
    destruct (jumps_fixed t Hfix) as [Hin Hj]. rewrite Hin, Hj. unfold chk3.
    replace (0 <? spec_width t) with true by (symmetry; apply Z.ltb_lt; assumption).
    assert (Hterm : aux_term a = []).
    { unfold aux_term. fold t.
      destruct (spec_width_cases t Hfix) as [->|[->|[->|[->|[->|[->|[->| ->]]]]]]]; reflexivity. }
    rewrite Hterm. cbn [app].
    replace (zlen (a ++ rest) <? spec_width t + 3) with false
      by (symmetry; apply Z.ltb_ge; rewrite zlen_app; pose proof (zlen_nonneg rest); lia).
    rewrite zfirstn_app_n by lia. rewrite zskipn_app_n by lia. reflexivity.
  - destruct ((t =? 90) || (t =? 72)) eqn:HZ.
    + (* Z / H *)
      assert (Hj : getz bam_jumps t = -1 /\ inb bam_jumps t = true).
      { apply orb_true_iff in HZ. destruct HZ as [E|E]; apply Z.eqb_eq in E; rewrite E; split; vm_compute; reflexivity. }
      destruct Hj as [Hj Hin]. rewrite Hin, Hj. unfold chk3.
      change (0 <? -1) with false. change (-1 <? 0) with true. cbv iota.
      assert (Hterm : aux_term a = [0]) by (unfold aux_term; fold t; rewrite HZ; reflexivity).
      rewrite Hterm. cbn [app].
      rewrite zskipn3_app by assumption.
      rewrite (index_byte_app (zskipn 3 a) rest Hwf).
      rewrite zlen_zskipn3 by assumption.
      replace (zlen a - 3 + 3) with (zlen a) by lia.
      rewrite zfirstn_app_n by reflexivity.
      replace (a ++ 0 :: rest) with ((a ++ [0]) ++ rest) by (rewrite <- app_assoc; reflexivity).
      rewrite zskipn_app_n by (rewrite zlen_app, zlen_cons, zlen_nil; lia). reflexivity.
    + destruct (t =? 66) eqn:HB; [|discriminate].
      (* B *)
      apply Z.eqb_eq in HB.
      assert (Hterm : aux_term a = []) by (unfold aux_term; fold t; rewrite HZ; reflexivity).
      rewrite Hterm. cbn [app].
      rewrite HB. destruct jumps_ZHB as [_ [_ [Hj [_ [_ Hin]]]]]. rewrite Hin, Hj. unfold chk3.
      change (0 <? -1) with false. change (-1 <? 0) with true. cbv iota.
      apply andb_true_iff in Hwf. destruct Hwf as [Hwf Hlen]. apply andb_true_iff in Hwf. destruct Hwf as [Hwf Hsub].
      apply andb_true_iff in Hwf. destruct Hwf as [H8 HnA].
      apply Z.leb_le in H8. apply Z.ltb_lt in Hsub. apply Z.eqb_eq in Hlen.
      replace (zlen (a ++ rest) <? 8) with false
        by (symmetry; apply Z.ltb_ge; rewrite zlen_app; pose proof (zlen_nonneg rest); lia).
      rewrite (getz_app_l a rest 3) by lia.
      destruct (jumps_fixed _ Hsub) as [Hin2 Hj2]. rewrite Hin2, Hj2.
      replace (spec_width (getz a 3) <=? 0) with false by (symmetry; apply Z.leb_gt; assumption).
      (* the count is read from bytes 4..8 of a *)
      assert (Hcnt : zfirstn 4 (zskipn 4 (a ++ rest)) = zfirstn 4 (zskipn 4 a)).
      { unfold zfirstn, zskipn.
        rewrite skipn_app. rewrite firstn_app.
        assert (Hl4 : (length (skipn (Z.to_nat 4) a) >= 4)%nat).
        { rewrite skipn_length. unfold zlen in H8. lia. }
        replace (Z.to_nat 4 - length (skipn (Z.to_nat 4) a))%nat with 0%nat by (change (Z.to_nat 4) with 4%nat in *; lia).
        cbn [firstn]. rewrite app_nil_r. reflexivity. }
      rewrite Hcnt.
      set (cnt := le_get (zfirstn 4 (zskipn 4 a))) in *.
      assert (Hj8 : cnt * spec_width (getz a 3) + 4 + 4 = zlen a) by lia.
      rewrite Hj8.
      replace (zlen a <? 0) with false by (symmetry; apply Z.ltb_ge; lia).
      replace (zlen (a ++ rest) <? zlen a) with false
        by (symmetry; apply Z.ltb_ge; rewrite zlen_app; pose proof (zlen_nonneg rest); lia).
      cbn [orb]. rewrite zfirstn_app, zskipn_app. reflexivity.
Qed.

Lemma parse_loop_build aa : forall fuel tags,
  forallb wf_aux aa = true -> build_aux aa = Ok tags ->
  (length aa < fuel)%nat ->
  parse_aux_loop fuel tags = Ok aa.
Proof.
  induction aa as [|a t IH]; intros fuel tags Hwf Hb Hf.
  - cbn [build_aux] in Hb. injection Hb as <-. destruct fuel; [inversion Hf|]. reflexivity.
  - cbn [forallb] in Hwf. apply andb_true_iff in Hwf. destruct Hwf as [Ha Ht].
    destruct (build_aux_ok t Ht) as [tg [Hbt _]].
    destruct (wf_aux_len a Ha) as [H3 _].
    rewrite (build_aux_cons a t tg H3 Hbt) in Hb. injection Hb as <-.
    destruct fuel; [inversion Hf|].
    rewrite parse_step by assumption.
    rewrite (IH fuel tg Ht Hbt) by (cbn [length] in Hf; lia). reflexivity.
Qed.

Lemma tags_len_ge aa : forallb wf_aux aa = true -> Z.of_nat (length aa) <= tags_len aa.
Proof.
  induction aa as [|a t IH]; intros H; [cbn; lia|].
  cbn [forallb] in H. apply andb_true_iff in H. destruct H as [Ha Ht].
  destruct (wf_aux_len a Ha) as [H3 _]. specialize (IH Ht). cbn [tags_len length].
  destruct ((getz a 2 =? 90) || (getz a 2 =? 72)); lia.
Qed.

(** parseAux inverts buildAux on well-formed fields. *)
Theorem parse_build_aux aa tags :
  forallb wf_aux aa = true -> build_aux aa = Ok tags ->
  parse_aux tags = Ok aa.
Proof.
  intros Hwf Hb. unfold parse_aux.
  destruct (build_aux_ok aa Hwf) as [tg [Hb' [Hl _]]]. rewrite Hb in Hb'. injection Hb' as <-.
  destruct (zlen tags =? 0) eqn:E.
  - apply Z.eqb_eq in E. pose proof (tags_len_ge aa Hwf). destruct aa; [reflexivity|].
    cbn [length] in H. lia.
  - apply parse_loop_build; try assumption.
    pose proof (tags_len_ge aa Hwf). unfold zlen in Hl. lia.
Qed.

(** * parseAux is total: on every byte string it returns fields or an error,
    it never panics and never loops (the fuel [length aux + 1] suffices). *)
Definition ok_or_err {A} (o : outcome A) : Prop := (exists r, o = Ok r) \/ (exists e, o = Err e).

Lemma ocons_total {A} (a : A) o : ok_or_err o -> ok_or_err (ocons a o).
Proof. intros [[r ->]|[e ->]]; [left|right]; eexists; reflexivity. Qed.

Lemma getz_byte l i : all_bytes l = true -> 0 <= i < zlen l -> 0 <= getz l i < 256.
Proof.
  intros Hb Hi. apply all_bytes_forall in Hb. rewrite Forall_forall in Hb. apply Hb.
  unfold getz. apply nth_In. unfold zlen in Hi. lia.
Qed.

Lemma jumps_in t : 0 <= t < 256 -> inb bam_jumps t = true.
Proof.
  intros H. unfold inb. change (zlen bam_jumps) with 256.
  apply andb_true_intro; split; [apply Z.leb_le|apply Z.ltb_lt]; lia.
Qed.

Lemma jumps_neg_cases t : 0 <= t < 256 -> getz bam_jumps t < 0 -> t = 90 \/ t = 72 \/ t = 66.
Proof.
  intros Ht Hn.
  pose proof (byte_forall (fun x => if getz bam_jumps x <? 0 then (x =? 90) || (x =? 72) || (x =? 66) else true)) as F.
  specialize (F ltac:(vm_compute; reflexivity) t Ht). cbv beta in F.
  replace (getz bam_jumps t <? 0) with true in F by (symmetry; apply Z.ltb_lt; assumption).
  apply orb_true_iff in F. destruct F as [F|F]; [apply orb_true_iff in F; destruct F as [F|F]|]; apply Z.eqb_eq in F; tauto.
Qed.

Lemma index_byte_nonneg l c j : index_byte l c = Some j -> 0 <= j.
Proof.
  revert j; induction l as [|b t IH]; intros j H; [discriminate|].
  cbn [index_byte] in H. destruct (b =? c); [injection H as <-; lia|].
  destruct (index_byte t c) as [k|]; [|discriminate]. injection H as <-. specialize (IH k eq_refl). lia.
Qed.

Lemma skip_shorter (rest : list Z) k f :
  1 <= k -> (length rest < S f)%nat -> (length (zskipn k rest) < f)%nat \/ length rest = 0%nat.
Proof. intros Hk Hl. unfold zskipn. rewrite skipn_length. lia. Qed.

Theorem parse_aux_loop_total : forall fuel rest,
  all_bytes rest = true -> (length rest < fuel)%nat -> ok_or_err (parse_aux_loop fuel rest).
Proof.
  induction fuel as [|f IH]; intros rest Hb Hf; [inversion Hf|].
  cbn [parse_aux_loop].
  destruct (2 <? zlen rest) eqn:H2; cbn [negb]; [|left; eexists; reflexivity].
  apply Z.ltb_lt in H2.
  assert (Hne : length rest <> 0%nat) by (unfold zlen in H2; lia).
  assert (Hrec : forall k, 1 <= k -> ok_or_err (parse_aux_loop f (zskipn k rest))).
  { intros k Hk. apply IH; [apply all_bytes_skipn; assumption|].
    destruct (skip_shorter rest k f Hk Hf); [assumption|contradiction]. }
  pose proof (getz_byte rest 2 Hb ltac:(lia)) as Ht.
  set (t := getz rest 2) in *.
  rewrite (jumps_in t Ht). unfold chk3 at 1.
  destruct (0 <? getz bam_jumps t) eqn:Hpos.
  - apply Z.ltb_lt in Hpos. destruct (zlen rest <? getz bam_jumps t + 3); [right; eexists; reflexivity|].
    apply ocons_total, Hrec. lia.
  - destruct (getz bam_jumps t <? 0) eqn:Hneg; [|right; eexists; reflexivity].
    apply Z.ltb_lt in Hneg.
    destruct (jumps_neg_cases t Ht Hneg) as [E|[E|E]]; rewrite E.
    + change ((90 =? 90) || (90 =? 72)) with true. cbv iota.
      destruct (index_byte (zskipn 3 rest) 0) as [j|] eqn:Ei; [|right; eexists; reflexivity].
      pose proof (index_byte_nonneg _ _ _ Ei). apply ocons_total, Hrec. lia.
    + change ((72 =? 90) || (72 =? 72)) with true. cbv iota.
      destruct (index_byte (zskipn 3 rest) 0) as [j|] eqn:Ei; [|right; eexists; reflexivity].
      pose proof (index_byte_nonneg _ _ _ Ei). apply ocons_total, Hrec. lia.
    + change ((66 =? 90) || (66 =? 72)) with false. change (66 =? 66) with true. cbv iota.
      destruct (zlen rest <? 8) eqn:H8; [right; eexists; reflexivity|]. apply Z.ltb_ge in H8.
      pose proof (getz_byte rest 3 Hb ltac:(lia)) as Hs.
      rewrite (jumps_in _ Hs). unfold chk3.
      destruct (getz bam_jumps (getz rest 3) <=? 0) eqn:Hsz; [right; eexists; reflexivity|]. apply Z.leb_gt in Hsz.
      set (cnt := le_get (zfirstn 4 (zskipn 4 rest))).
      assert (0 <= cnt).
      { unfold cnt, zfirstn, zskipn. apply le_get_range. apply all_bytes_firstn, all_bytes_skipn. assumption. }
      destruct ((cnt * getz bam_jumps (getz rest 3) + 4 + 4 <? 0) || (zlen rest <? cnt * getz bam_jumps (getz rest 3) + 4 + 4));
        [right; eexists; reflexivity|].
      apply ocons_total, Hrec. pose proof (Z.mul_nonneg_nonneg cnt (getz bam_jumps (getz rest 3))). lia.
Qed.

Theorem parse_aux_total aux : all_bytes aux = true -> ok_or_err (parse_aux aux).
Proof.
  intros Hb. unfold parse_aux. destruct (zlen aux =? 0); [left; eexists; reflexivity|].
  apply parse_aux_loop_total; [assumption|lia].
Qed.
