(** C05 — proofs about the BAM record codec model (Model/BamCodec.v). *)
From Coq Require Import ZArith Lia List Bool.
From Hts Require Import Base.Prim Base.Bits Generated Model.BamCodec Base.BytesLE.
Import ListNotations.
Open Scope Z_scope.
Ltac Zify.zify_post_hook ::= Z.div_mod_to_equations.

(** * The buffer on a known prefix *)

Lemma b_unsafe_app x rest n :
  n = zlen x -> b_unsafe (x ++ rest, false) n = (Some x, (rest, false)).
Proof.
  intros ->. unfold b_unsafe. rewrite zlen_app.
  replace (zlen x + zlen rest <? zlen x) with false by (symmetry; apply Z.ltb_ge; pose proof (zlen_nonneg rest); lia).
  rewrite zfirstn_app, zskipn_app. reflexivity.
Qed.

Lemma b_unsafe_all x n :
  n = zlen x -> b_unsafe (x, false) n = (Some x, ([], false)).
Proof. intros H. rewrite <- (app_nil_r x) at 1. apply b_unsafe_app; assumption. Qed.

Lemma b_discard_app x rest n :
  n = zlen x -> b_discard (x ++ rest, false) n = (rest, false).
Proof.
  intros ->. unfold b_discard. rewrite zlen_app.
  replace (zlen x + zlen rest <? zlen x) with false by (symmetry; apply Z.ltb_ge; pose proof (zlen_nonneg rest); lia).
  rewrite zskipn_app. reflexivity.
Qed.

Lemma b_read_le (w : nat) (kind v : Z) rest :
  kind <> 2 -> 0 <= v < 256 ^ Z.of_nat w ->
  b_read (le_put w v ++ rest, false) (Z.of_nat w) kind = (if kind =? 1 then s32 v else v, (rest, false)).
Proof.
  intros Hk Hv. unfold b_read.
  replace (kind =? 2) with false by (symmetry; apply Z.eqb_neq; assumption).
  rewrite zlen_app, zlen_le_put.
  replace (Z.of_nat w + zlen rest <? Z.of_nat w) with false by (symmetry; apply Z.ltb_ge; pose proof (zlen_nonneg rest); lia).
  rewrite zfirstn_app_n, zskipn_app_n by (rewrite zlen_le_put; reflexivity).
  rewrite le_get_put_small by assumption. reflexivity.
Qed.

Lemma b_read_i32 x rest :
  - 2 ^ 31 <= x < 2 ^ 31 ->
  b_read (le_put 4 (u32 (s32 x)) ++ rest, false) 4 1 = (x, (rest, false)).
Proof.
  intros H. change 4 with (Z.of_nat 4). rewrite b_read_le; [|discriminate|rewrite u32_s32; apply u32_range].
  change (1 =? 1) with true. cbv iota. rewrite u32_s32, s32_u32 by assumption. reflexivity.
Qed.

Lemma b_read_u16 x rest :
  0 <= x < 2 ^ 16 ->
  b_read (le_put 2 (u16 x) ++ rest, false) 2 0 = (x, (rest, false)).
Proof.
  intros H. change 2 with (Z.of_nat 2). rewrite b_read_le; [|discriminate|apply u16_range].
  change (0 =? 1) with false. cbv iota. rewrite u16_small by assumption. reflexivity.
Qed.

Lemma b_read_u8 x rest :
  0 <= x < 2 ^ 8 ->
  b_read (le_put 1 (u8 x) ++ rest, false) 1 0 = (x, (rest, false)).
Proof.
  intros H. change 1 with (Z.of_nat 1) at 1. rewrite b_read_le; [|discriminate|apply u8_range].
  change (0 =? 1) with false. cbv iota. rewrite u8_small by assumption. reflexivity.
Qed.

Lemma b_read_discard2 y rest :
  b_read (le_put 2 y ++ rest, false) 2 2 = (0, (rest, false)).
Proof.
  unfold b_read. change (2 =? 2) with true. cbv iota.
  rewrite b_discard_app by (rewrite zlen_le_put; reflexivity). reflexivity.
Qed.

(** * Shape of the encoder's output *)

Definition cig_bytes (cig : list Z) : list Z := flat_map (fun op => le_put 4 (u32 op)) cig.

(** The block (everything after the block size) of a record. *)
Definition body_of (r : rec) (tags : list Z) (bin : Z) : list Z :=
  le_put 4 (u32 (s32 (r_ref r))) ++ le_put 4 (u32 (s32 (r_pos r)))
  ++ le_put 1 (u8 (zlen (r_name r) + 1)) ++ le_put 1 (u8 (r_mapq r)) ++ le_put 2 (u16 bin)
  ++ le_put 2 (u16 (zlen (r_cigar r))) ++ le_put 2 (u16 (r_flags r)) ++ le_put 4 (u32 (s32 (r_lseq r)))
  ++ le_put 4 (u32 (s32 (r_mref r))) ++ le_put 4 (u32 (s32 (r_mpos r))) ++ le_put 4 (u32 (s32 (r_tlen r)))
  ++ r_name r ++ [0] ++ cig_bytes (r_cigar r) ++ r_seq r ++ qual_bytes r ++ tags.

Lemma enc_shape r len bin tags :
  enc_fixed r len bin ++ flat_map (enc_var r tags) bam_Write_var
  = le_put 4 (u32 (s32 len)) ++ body_of r tags bin.
Proof.
  unfold enc_fixed, bam_Write_fixed, bam_Write_var, body_of, cig_bytes.
  cbn [flat_map fst snd].
  change (wfield r len bin 0) with (u32 (s32 len)).
  change (wfield r len bin 1) with (u32 (s32 (r_ref r))).
  change (wfield r len bin 2) with (u32 (s32 (r_pos r))).
  change (wfield r len bin 3) with (u8 (zlen (r_name r) + 1)).
  change (wfield r len bin 4) with (u8 (r_mapq r)).
  change (wfield r len bin 5) with (u16 bin).
  change (wfield r len bin 6) with (u16 (zlen (r_cigar r))).
  change (wfield r len bin 7) with (u16 (r_flags r)).
  change (wfield r len bin 8) with (u32 (s32 (r_lseq r))).
  change (wfield r len bin 9) with (u32 (s32 (r_mref r))).
  change (wfield r len bin 10) with (u32 (s32 (r_mpos r))).
  change (wfield r len bin 11) with (u32 (s32 (r_tlen r))).
  change (enc_var r tags 20) with (r_name r).
  change (enc_var r tags 21) with [0].
  change (enc_var r tags 22) with (flat_map (fun op => le_put 4 (u32 op)) (r_cigar r)).
  change (enc_var r tags 23) with (r_seq r).
  change (enc_var r tags 24) with (qual_bytes r).
  change (enc_var r tags 25) with tags.
  change (Z.to_nat 4) with 4%nat. change (Z.to_nat 2) with 2%nat. change (Z.to_nat 1) with 1%nat.
  rewrite !app_nil_r. rewrite <- !app_assoc. reflexivity.
Qed.
