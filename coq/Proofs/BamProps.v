(** C05 — corollaries stated in Props/C05.v. *)
From Coq Require Import ZArith Lia List Bool.
From Hts Require Import Base.Prim Base.Bits Generated Model.BamCodec Base.BytesLE
  Proofs.BamCodec Proofs.BamAux Proofs.BamRecord Proofs.BamStream.
Import ListNotations.
Open Scope Z_scope.

Lemma record_roundtrip_omit nrefs r omit sh sp :
  valid_rec nrefs r = true -> 0 <= sp ->
  exists body,
    encode_record r = Ok (le_put 4 (zlen body) ++ body) /\
    zlen body = block_size r /\
    decode_record omit nrefs sh sp body = Ok (omit_view omit (canon r), false).
Proof.
  intros Hv Hsp. destruct (encode_valid nrefs r Hv) as [tags [bin [Hb [He Hl]]]].
  exists (body_of r tags bin). split; [assumption|]. split; [assumption|].
  apply decode_body; assumption.
Qed.

(** The three Omit modes, spelled out. *)
Lemma omit_view_none r : omit_view bam_None r = r.
Proof. reflexivity. Qed.
Lemma omit_view_aux r :
  omit_view bam_AuxTags r
  = mkRec (r_name r) (r_ref r) (r_pos r) (r_mapq r) (r_cigar r) (r_flags r) (r_mref r) (r_mpos r)
          (r_tlen r) (r_lseq r) (r_seq r) (r_qual r) [].
Proof. reflexivity. Qed.
Lemma omit_view_all r :
  omit_view bam_AllVariableLengthData r
  = mkRec (r_name r) (r_ref r) (r_pos r) (r_mapq r) (r_cigar r) (r_flags r) (r_mref r) (r_mpos r)
          (r_tlen r) 0 [] None [].
Proof. reflexivity. Qed.

Lemma omit_modes nrefs r sh sp :
  valid_rec nrefs r = true -> 0 <= sp ->
  exists body,
    encode_record r = Ok (le_put 4 (zlen body) ++ body) /\
    decode_record bam_None nrefs sh sp body = Ok (canon r, false) /\
    decode_record bam_AuxTags nrefs sh sp body
      = Ok (mkRec (r_name r) (r_ref r) (r_pos r) (r_mapq r) (r_cigar r) (r_flags r) (r_mref r) (r_mpos r)
                  (r_tlen r) (r_lseq r) (r_seq r) (Some (qual_bytes r)) [], false) /\
    decode_record bam_AllVariableLengthData nrefs sh sp body
      = Ok (mkRec (r_name r) (r_ref r) (r_pos r) (r_mapq r) (r_cigar r) (r_flags r) (r_mref r) (r_mpos r)
                  (r_tlen r) 0 [] None [], false).
Proof.
  intros Hv Hsp. destruct (encode_valid nrefs r Hv) as [tags [bin [Hb [He Hl]]]].
  exists (body_of r tags bin). split; [assumption|].
  rewrite !(decode_body nrefs r _ sh sp tags bin Hv Hb Hsp). repeat split.
Qed.

(** The shared/private decision. *)
Lemma shared_irrelevant_all_inputs omit nrefs data :
  decode_record omit nrefs true 0 data = decode_record omit nrefs false 0 data.
Proof. reflexivity. Qed.

Lemma shared_irrelevant_valid nrefs r omit sh sh' sp sp' :
  valid_rec nrefs r = true -> 0 <= sp -> 0 <= sp' ->
  exists body,
    encode_record r = Ok (le_put 4 (zlen body) ++ body) /\
    decode_record omit nrefs sh sp body = decode_record omit nrefs sh' sp' body /\
    (forall res, decode_record omit nrefs sh sp body = Ok res -> snd res = false).
Proof.
  intros Hv Hsp Hsp'. destruct (encode_valid nrefs r Hv) as [tags [bin [Hb [He Hl]]]].
  exists (body_of r tags bin). split; [assumption|].
  rewrite (decode_body nrefs r omit sh sp tags bin Hv Hb Hsp), (decode_body nrefs r omit sh' sp' tags bin Hv Hb Hsp').
  split; [reflexivity|]. intros res H. injection H as <-. reflexivity.
Qed.

(** Where the spare capacity of the copy does matter: an aux field cut short. *)
Definition cut_aux_record : list Z :=
  [255;255;255;255; 255;255;255;255; 2; 0; 0;0; 0;0; 0;0; 0;0;0;0; 255;255;255;255; 255;255;255;255; 0;0;0;0;
   97; 0; 88; 89; 105; 1; 2].

Lemma spare_matters_on_cut_aux :
  decode_record 0 0 true 0 cut_aux_record = Panic 3 /\
  exists r, decode_record 0 0 true 2 cut_aux_record = Ok (r, false) /\ r_aux r = [[88; 89; 105; 1; 2; 0; 0]].
Proof. split; [vm_compute; reflexivity|]. eexists. split; vm_compute; reflexivity. Qed.

(** parseAux makes no progress on a B array whose subtype has a negative
    jumps entry (Z, H or B) and whose count is 8: j = 8 * -1 + 8 = 0. *)
Definition stuck_aux : list Z := [88; 89; 66; 90; 8; 0; 0; 0].

Lemma parse_aux_no_progress : forall fuel spare, 0 <= spare -> parse_aux_loop fuel spare stuck_aux = Stuck.
Proof.
  induction fuel as [|f IH]; intros spare Hsp; [reflexivity|].
  cbn [parse_aux_loop].
  change (negb (2 <? zlen stuck_aux)) with false. cbv iota.
  change (getz stuck_aux 2) with 66.
  change (inb bam_jumps 66) with true. change (getz bam_jumps 66) with (-1).
  unfold chk3 at 1. change (0 <? -1) with false. change (-1 <? 0) with true. cbv iota.
  change ((66 =? 90) || (66 =? 72)) with false. change (66 =? 66) with true. cbv iota.
  change (zlen stuck_aux) with 8. change (3 <? 8) with true.
  change (getz stuck_aux 3) with 90. change (inb bam_jumps 90) with true. change (getz bam_jumps 90) with (-1).
  replace (8 <=? 8 + spare) with true by (symmetry; apply Z.leb_le; lia). unfold chk3.
  assert (Hl : le_get (zfirstn 4 (zskipn 4 (stuck_aux ++ repeat 0 (Z.to_nat spare)))) = 8).
  { unfold stuck_aux. reflexivity. }
  rewrite Hl. change (8 * -1 + 4 + 4) with 0. change ((0 <? 0) || (8 <? 0)) with false. cbv iota.
  change (zskipn 0 stuck_aux) with stuck_aux. rewrite IH by assumption. reflexivity.
Qed.
