(** C05 — corollaries stated in Props/C05.v. *)
From Coq Require Import ZArith Lia List Bool.
From Hts Require Import Base.Prim Base.Bits Generated Model.BamCodec Base.BytesLE
  Proofs.BamCodec Proofs.BamAux Proofs.BamRecord Proofs.BamStream.
Import ListNotations.
Open Scope Z_scope.

Lemma record_roundtrip_omit nrefs r omit sh :
  valid_rec nrefs r = true ->
  exists body,
    encode_record r = Ok (le_put 4 (zlen body) ++ body) /\
    zlen body = block_size r /\
    decode_record omit nrefs sh body = Ok (omit_view omit (canon r), false).
Proof.
  intros Hv. destruct (encode_valid nrefs r Hv) as [tags [bin [Hb [He Hl]]]].
  exists (body_of r tags bin). split; [assumption|]. split; [assumption|].
  apply decode_body; assumption.
Qed.

Lemma omit_modes nrefs r sh :
  valid_rec nrefs r = true ->
  exists body,
    encode_record r = Ok (le_put 4 (zlen body) ++ body) /\
    decode_record bam_None nrefs sh body = Ok (canon r, false) /\
    decode_record bam_AuxTags nrefs sh body
      = Ok (mkRec (r_name r) (r_ref r) (r_pos r) (r_mapq r) (r_cigar r) (r_flags r) (r_mref r) (r_mpos r)
                  (r_tlen r) (r_lseq r) (r_seq r) (Some (qual_bytes r)) [], false) /\
    decode_record bam_AllVariableLengthData nrefs sh body
      = Ok (mkRec (r_name r) (r_ref r) (r_pos r) (r_mapq r) (r_cigar r) (r_flags r) (r_mref r) (r_mpos r)
                  (r_tlen r) 0 [] None [], false).
Proof.
  intros Hv. destruct (encode_valid nrefs r Hv) as [tags [bin [Hb [He Hl]]]].
  exists (body_of r tags bin). split; [assumption|].
  rewrite !(decode_body nrefs r _ sh tags bin Hv Hb). repeat split.
Qed.

(** The shared/private decision: no influence on any input. *)
Lemma shared_irrelevant_all_inputs omit nrefs data :
  decode_record omit nrefs true data = decode_record omit nrefs false data.
Proof. unfold decode_record. rewrite !storage_not_reused. reflexivity. Qed.

Lemma no_alias omit nrefs sh data res :
  decode_record omit nrefs sh data = Ok res -> snd res = false.
Proof.
  unfold decode_record, bam_Read_nameLen, bam_Read_cigarLen, bam_Read_seqLen. rewrite storage_not_reused.
  destruct (read_fixed bam_Read_fixed (data, false) (fun _ => 0)) as [env b].
  destruct (env 3 <? 1); [discriminate|].
  destruct (b_unsafe b (env 3 - 1)) as [nm b1].
  destruct (b_unsafe (b_discard b1 1) (env 6 * 4)) as [cb b2].
  match goal with |- obind ?v _ = _ -> _ => assert (Hv : forall x, v = Ok x -> fst (snd (fst x) , tt) = false) end.
  { intros x.
    destruct (bam_AllVariableLengthData <=? omit); [intros H; injection H as <-; reflexivity|].
    destruct (env 8 <? 0); [discriminate|].
    destruct (b_bytes sh b2 (Z.shiftr (env 8) 1 + Z.land (env 8) 1)) as [sq b3].
    destruct (b_bytes sh b3 (env 8)) as [ql b4].
    destruct (bam_AuxTags <=? omit); [intros H; injection H as <-; reflexivity|].
    destruct (b_bytes sh b4 (b_len b4)) as [ax b5].
    destruct (parse_aux (odef [] ax)); try discriminate. intros H; injection H as <-; reflexivity. }
  match goal with |- obind ?v _ = _ -> _ => destruct v as [x| | |] eqn:Ev end; cbn [obind]; try discriminate.
  specialize (Hv x eq_refl). destruct x as [[[[[ls sq] ql] aa] alias] berr]. cbn [fst snd] in Hv. subst alias.
  destruct berr; [discriminate|].
  destruct (if negb (env 1 =? -1) then if (env 1 <? -1) || (nrefs <=? env 1) then Err 12 else Ok (env 1) else Ok (-1)) as [ref| | |];
    cbn [obind]; try discriminate.
  destruct (negb (env 9 =? -1)).
  - destruct (env 1 =? env 9); [intros H; injection H as <-; reflexivity|].
    destruct ((env 9 <? -1) || (nrefs <=? env 9)); [discriminate|]. intros H; injection H as <-; reflexivity.
  - intros H; injection H as <-; reflexivity.
Qed.

(** The decoder is total on byte strings: a record, or an error; no panic, no
    non-termination (after the repairs of Reader.Read and parseAux). *)
Lemma b_unsafe_bytes b n : all_bytes (fst b) = true ->
  all_bytes (odef [] (fst (b_unsafe b n))) = true /\ all_bytes (fst (snd (b_unsafe b n))) = true.
Proof.
  destruct b as [d e]. cbn [fst]. intros H. unfold b_unsafe.
  destruct e; [cbn; tauto|]. destruct (zlen d <? n); [cbn; tauto|].
  cbn [fst snd odef]. unfold zfirstn, zskipn. split; [apply all_bytes_firstn|apply all_bytes_skipn]; assumption.
Qed.

Lemma b_discard_bytes b n : all_bytes (fst b) = true -> all_bytes (fst (b_discard b n)) = true.
Proof.
  destruct b as [d e]. cbn [fst]. intros H. unfold b_discard.
  destruct e; [assumption|]. destruct (zlen d <? n); [assumption|]. cbn [fst]. apply all_bytes_skipn. assumption.
Qed.

Lemma b_read_bytes b w k : all_bytes (fst b) = true -> all_bytes (fst (snd (b_read b w k))) = true.
Proof.
  intros H. unfold b_read. destruct (k =? 2); [cbn [snd]; apply b_discard_bytes; assumption|].
  destruct b as [d e]. cbn [fst] in H. destruct e; [assumption|]. destruct (zlen d <? w); [assumption|].
  cbn [fst snd]. apply all_bytes_skipn. assumption.
Qed.

Lemma read_fixed_bytes l : forall b env, all_bytes (fst b) = true -> all_bytes (fst (snd (read_fixed l b env))) = true.
Proof.
  induction l as [|[[w k] dst] t IH]; intros b env H; [assumption|].
  cbn [read_fixed]. pose proof (b_read_bytes b w k H) as Hb.
  destruct (b_read b w k) as [v b']. cbn [snd] in Hb. apply IH. assumption.
Qed.

Theorem decode_total omit nrefs sh data :
  all_bytes data = true -> ok_or_err (decode_record omit nrefs sh data).
Proof.
  intros Hd. unfold decode_record, bam_Read_nameLen, bam_Read_cigarLen, bam_Read_seqLen.
  pose proof (read_fixed_bytes bam_Read_fixed (data, false) (fun _ => 0) Hd) as Hb0.
  destruct (read_fixed bam_Read_fixed (data, false) (fun _ => 0)) as [env b]. cbn [snd] in Hb0.
  destruct (env 3 <? 1); [right; eexists; reflexivity|].
  destruct (b_unsafe_bytes b (env 3 - 1) Hb0) as [_ Hb1].
  destruct (b_unsafe b (env 3 - 1)) as [nm b1]. cbn [fst snd] in Hb1.
  pose proof (b_discard_bytes b1 1 Hb1) as Hb1'.
  destruct (b_unsafe_bytes (b_discard b1 1) (env 6 * 4) Hb1') as [_ Hb2].
  destruct (b_unsafe (b_discard b1 1) (env 6 * 4)) as [cb b2]. cbn [fst snd] in Hb2.
  match goal with |- ok_or_err (obind ?v ?k) => assert (Hv : ok_or_err v) end.
  { destruct (bam_AllVariableLengthData <=? omit); [left; eexists; reflexivity|].
    destruct (env 8 <? 0); [right; eexists; reflexivity|].
    unfold b_bytes.
    destruct (b_unsafe_bytes b2 (Z.shiftr (env 8) 1 + Z.land (env 8) 1) Hb2) as [_ Hb3].
    destruct (b_unsafe b2 (Z.shiftr (env 8) 1 + Z.land (env 8) 1)) as [sq b3]. cbn [fst snd] in Hb3.
    destruct (b_unsafe_bytes b3 (env 8) Hb3) as [_ Hb4].
    destruct (b_unsafe b3 (env 8)) as [ql b4]. cbn [fst snd] in Hb4.
    destruct (bam_AuxTags <=? omit); [left; eexists; reflexivity|].
    destruct (b_unsafe_bytes b4 (b_len b4) Hb4) as [Hax _].
    destruct (b_unsafe b4 (b_len b4)) as [ax b5]. cbn [fst] in Hax.
    destruct (parse_aux_total (odef [] ax) Hax) as [[aa ->]|[e ->]]; [left|right]; eexists; reflexivity. }
  destruct Hv as [[x ->]|[e ->]]; cbn [obind]; [|right; eexists; reflexivity].
  destruct x as [[[[[ls sq] ql] aa] alias] berr].
  destruct berr; [right; eexists; reflexivity|].
  destruct (negb (env 1 =? -1)); [destruct ((env 1 <? -1) || (nrefs <=? env 1)); cbn [obind]; [right; eexists; reflexivity|]|cbn [obind]];
    (destruct (negb (env 9 =? -1)); [|left; eexists; reflexivity];
     destruct (env 1 =? env 9); [left; eexists; reflexivity|];
     destruct ((env 9 <? -1) || (nrefs <=? env 9)); [right|left]; eexists; reflexivity).
Qed.

(** The two inputs that used to show the defects, now rejected with errors. *)
Definition cut_aux_record : list Z :=
  [255;255;255;255; 255;255;255;255; 2; 0; 0;0; 0;0; 0;0; 0;0;0;0; 255;255;255;255; 255;255;255;255; 0;0;0;0;
   97; 0; 88; 89; 105; 1; 2].
Definition stuck_aux : list Z := [88; 89; 66; 90; 8; 0; 0; 0].

Lemma former_witnesses :
  decode_record 0 0 true cut_aux_record = Err 23 /\ decode_record 0 0 false cut_aux_record = Err 23
  /\ parse_aux stuck_aux = Err 25.
Proof. repeat split; vm_compute; reflexivity. Qed.
