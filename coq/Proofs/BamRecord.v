(** C05 — one record: Reader.Read on the bytes Writer.Write produces. *)
From Coq Require Import ZArith Lia List Bool.
From Hts Require Import Base.Prim Base.Bits Generated Model.BamCodec Base.BytesLE Proofs.BamCodec Proofs.BamAux.
Import ListNotations.
Open Scope Z_scope.
Ltac Zify.zify_post_hook ::= Z.div_mod_to_equations.

(** * Validity as propositions *)
Lemma in_i32_iff x : in_i32 x = true <-> - 2 ^ 31 <= x < 2 ^ 31.
Proof. unfold in_i32. rewrite andb_true_iff, Z.leb_le, Z.ltb_lt. tauto. Qed.

Record valid_props (nrefs : Z) (r : rec) : Prop := {
  vp_name_bytes : all_bytes (r_name r) = true;
  vp_name_nz : nonzero_bytes (r_name r) = true;
  vp_name_len : 1 <= zlen (r_name r) <= 254;
  vp_ref : -1 <= r_ref r < nrefs;
  vp_mref : -1 <= r_mref r < nrefs;
  vp_nrefs : nrefs < 2 ^ 31;
  vp_pos : - 2 ^ 31 <= r_pos r < 2 ^ 31;
  vp_mpos : - 2 ^ 31 <= r_mpos r < 2 ^ 31;
  vp_tlen : - 2 ^ 31 <= r_tlen r < 2 ^ 31;
  vp_mapq : 0 <= r_mapq r < 256;
  vp_flags : 0 <= r_flags r < 65536;
  vp_cigar : forallb wf_cigar_op (r_cigar r) = true;
  vp_ncigar : zlen (r_cigar r) <= 65535;
  vp_lseq : 0 <= r_lseq r < 2 ^ 31;
  vp_seq_bytes : all_bytes (r_seq r) = true;
  vp_seq_len : zlen (r_seq r) = (r_lseq r + 1) / 2;
  vp_qual : match r_qual r with Some q => all_bytes q = true /\ zlen q = r_lseq r | None => True end;
  vp_aux : forallb wf_aux (r_aux r) = true;
  vp_size : block_size r < 2 ^ 31
}.

Lemma valid_rec_props nrefs r : valid_rec nrefs r = true -> valid_props nrefs r.
Proof.
  unfold valid_rec. intros H.
  repeat (apply andb_true_iff in H; let H' := fresh "V" in destruct H as [H H']).
  constructor;
    repeat match goal with
    | X : (_ <=? _) = true |- _ => apply Z.leb_le in X
    | X : (_ <? _) = true |- _ => apply Z.ltb_lt in X
    | X : (_ =? _) = true |- _ => apply Z.eqb_eq in X
    | X : in_i32 _ = true |- _ => apply in_i32_iff in X
    | X : is_byte _ = true |- _ => apply is_byte_iff in X
    end; try assumption; try lia.
  destruct (r_qual r); [|exact I].
  apply andb_true_iff in V1. destruct V1 as [Q1 Q2]. apply Z.eqb_eq in Q2. tauto.
Qed.

(** * CIGAR *)
Lemma zlen_cig_bytes c : zlen (cig_bytes c) = 4 * zlen c.
Proof.
  induction c as [|op t IH]; [reflexivity|].
  unfold cig_bytes in *. cbn [flat_map]. rewrite zlen_app, IH, zlen_le_put, zlen_cons. lia.
Qed.

Lemma read_cigar_bytes c :
  forallb wf_cigar_op c = true -> read_cigar_ops (length c) (cig_bytes c) = c.
Proof.
  induction c as [|op t IH]; intros H; [reflexivity|].
  cbn [forallb] in H. apply andb_true_iff in H. destruct H as [Hop Ht].
  unfold wf_cigar_op in Hop.
  apply andb_true_iff in Hop. destruct Hop as [H0 H1]. apply Z.leb_le in H0. apply Z.ltb_lt in H1.
  unfold cig_bytes. cbn [flat_map length read_cigar_ops]. fold (cig_bytes t).
  rewrite firstn_app_len by (rewrite le_put_length; reflexivity).
  rewrite skipn_app_len by (rewrite le_put_length; reflexivity).
  rewrite IH by assumption. rewrite le_get_put_small by (rewrite u32_small by lia; change (256 ^ Z.of_nat 4) with (2 ^ 32); lia).
  rewrite u32_small by lia. reflexivity.
Qed.

Lemma cig_count c : Z.to_nat (Z.quot (zlen (cig_bytes c)) 4) = length c.
Proof.
  rewrite zlen_cig_bytes. rewrite Z.mul_comm, Z.quot_mul by lia. unfold zlen. apply Nat2Z.id.
Qed.

(** * Record.Bin never fails on valid CIGAR operations *)
Lemma rec_end_loop_ok c : forallb wf_cigar_op c = true -> forall p e, exists v, rec_end_loop c p e = Ok v.
Proof.
  induction c as [|op t IH]; intros H p e; [eexists; reflexivity|].
  cbn [forallb] in H. apply andb_true_iff in H. destruct H as [Hop Ht].
  unfold wf_cigar_op in Hop.
  apply andb_true_iff in Hop. destruct Hop as [H0 H1]. apply Z.leb_le in H0.
  cbn [rec_end_loop]. unfold chk.
  assert (Hin : inb sam_consumeRef (consumes_idx (cig_type op)) = true).
  { unfold inb, consumes_idx. change sam_lastCigar with 10. change (zlen sam_consumeRef) with 11.
    assert (0 <= cig_type op) by (unfold cig_type; apply Z.land_nonneg; right; lia).
    destruct (10 <? cig_type op) eqn:E; [reflexivity|]. apply Z.ltb_ge in E.
    apply andb_true_intro. split; [apply Z.leb_le|apply Z.ltb_lt]; lia. }
  rewrite Hin. apply IH. assumption.
Qed.

Lemma binfor_ok b e : exists v, internal_BinFor b e = Ok v.
Proof.
  unfold internal_BinFor.
  repeat match goal with |- context [if ?c then _ else _] => destruct c end; eexists; reflexivity.
Qed.

Lemma rec_bin_ok r : forallb wf_cigar_op (r_cigar r) = true -> exists bin, rec_bin r = Ok bin.
Proof.
  intros H. unfold rec_bin, sam_Record_Bin.
  unfold rec_end.
  destruct (negb (Z.land (r_flags r) sam_Unmapped =? 0) || (zlen (r_cigar r) =? 0)).
  - cbn [obind]. apply binfor_ok.
  - destruct (rec_end_loop_ok _ H (r_pos r) (r_pos r)) as [v Hv]. rewrite Hv. cbn [obind]. apply binfor_ok.
Qed.

(** * The fixed part read back *)
Lemma read_fixed_enc (ref pos nlen mapq bin ncig flags lseq mref mpos tlen : Z) rest :
  - 2 ^ 31 <= ref < 2 ^ 31 -> - 2 ^ 31 <= pos < 2 ^ 31 -> 0 <= nlen < 2 ^ 8 -> 0 <= mapq < 2 ^ 8 ->
  0 <= ncig < 2 ^ 16 -> 0 <= flags < 2 ^ 16 -> - 2 ^ 31 <= lseq < 2 ^ 31 -> - 2 ^ 31 <= mref < 2 ^ 31 ->
  - 2 ^ 31 <= mpos < 2 ^ 31 -> - 2 ^ 31 <= tlen < 2 ^ 31 ->
  exists env,
    read_fixed bam_Read_fixed
      (le_put 4 (u32 (s32 ref)) ++ le_put 4 (u32 (s32 pos)) ++ le_put 1 (u8 nlen) ++ le_put 1 (u8 mapq)
       ++ le_put 2 (u16 bin) ++ le_put 2 (u16 ncig) ++ le_put 2 (u16 flags) ++ le_put 4 (u32 (s32 lseq))
       ++ le_put 4 (u32 (s32 mref)) ++ le_put 4 (u32 (s32 mpos)) ++ le_put 4 (u32 (s32 tlen)) ++ rest, false)
      (fun _ => 0) = (env, (rest, false))
    /\ env 1 = ref /\ env 2 = pos /\ env 3 = nlen /\ env 4 = mapq /\ env 6 = ncig /\ env 7 = flags
    /\ env 8 = lseq /\ env 9 = mref /\ env 10 = mpos /\ env 11 = tlen.
Proof.
  intros. unfold bam_Read_fixed. cbn [read_fixed].
  rewrite b_read_i32 by assumption. cbv beta iota.
  rewrite b_read_i32 by assumption. cbv beta iota.
  rewrite b_read_u8 by assumption. cbv beta iota.
  rewrite b_read_u8 by assumption. cbv beta iota.
  rewrite b_read_discard2. cbv beta iota.
  rewrite b_read_u16 by assumption. cbv beta iota.
  rewrite b_read_u16 by assumption. cbv beta iota.
  rewrite b_read_i32 by assumption. cbv beta iota.
  rewrite b_read_i32 by assumption. cbv beta iota.
  rewrite b_read_i32 by assumption. cbv beta iota.
  rewrite b_read_i32 by assumption. cbv beta iota.
  eexists. split; [reflexivity|]. repeat split; reflexivity.
Qed.

Lemma half_up x : 0 <= x -> Z.shiftr x 1 + Z.land x 1 = (x + 1) / 2.
Proof.
  intros H. rewrite Z.shiftr_div_pow2 by lia. change (Z.land x 1) with (Z.land x (Z.ones 1)).
  rewrite Z.land_ones by lia. change (2 ^ 1) with 2. lia.
Qed.

Lemma ref_check n x :
  -1 <= x < n ->
  (if negb (x =? -1) then if (x <? -1) || (n <=? x) then Err 12 else Ok x else @Ok Z (-1)) = Ok x.
Proof.
  intros H. destruct (x =? -1) eqn:E; cbn [negb].
  - apply Z.eqb_eq in E. subst. reflexivity.
  - replace (x <? -1) with false by (symmetry; apply Z.ltb_ge; lia).
    replace (n <=? x) with false by (symmetry; apply Z.leb_gt; lia). reflexivity.
Qed.

Lemma zlen_qual_bytes nrefs r : valid_props nrefs r -> zlen (qual_bytes r) = r_lseq r /\ all_bytes (qual_bytes r) = true.
Proof.
  intros V. pose proof (vp_qual _ _ V) as Q. pose proof (vp_lseq _ _ V). unfold qual_bytes.
  destruct (r_qual r).
  - tauto.
  - rewrite zlen_repeat. split; [lia|].
    apply all_bytes_forall. apply Forall_forall. intros x Hx. apply repeat_spec in Hx. subst. lia.
Qed.

Ltac projs := cbn [r_name r_ref r_pos r_mapq r_cigar r_flags r_mref r_mpos r_tlen r_lseq r_seq r_qual r_aux] in *.

(** The mate reference: nil, the record's own reference, or another one. *)
Ltac mate_tac ref mref nrefs :=
  destruct (mref =? -1) eqn:Em; cbn [negb];
  [ apply Z.eqb_eq in Em; rewrite Em; reflexivity
  | destruct (ref =? mref) eqn:Em';
    [ apply Z.eqb_eq in Em'; rewrite Em'; reflexivity
    | replace (mref <? -1) with false by (symmetry; apply Z.ltb_ge; lia);
      replace (nrefs <=? mref) with false by (symmetry; apply Z.leb_gt; lia);
      reflexivity ] ].

Lemma storage_not_reused sh : storage_reused sh = false.
Proof. destruct sh; reflexivity. Qed.

(** * Reader.Read of a written block *)
Theorem decode_body nrefs r omit sh tags bin :
  valid_rec nrefs r = true -> build_aux (r_aux r) = Ok tags ->
  decode_record omit nrefs sh (body_of r tags bin) = Ok (omit_view omit (canon r), false).
Proof.
  intros Hv Hb. pose proof (valid_rec_props _ _ Hv) as V.
  destruct V as [Vnb Vnz Vnl Vref Vmref Vnrefs Vpos Vmpos Vtlen Vmapq Vflags Vcig Vncig Vlseq Vsb Vsl Vq Vaux Vsz].
  pose proof (zlen_qual_bytes nrefs r (valid_rec_props _ _ Hv)) as [Hql _].
  clear Hv.
  remember (qual_bytes r) as qb eqn:Hqb.
  unfold decode_record, body_of, bam_Read_nameLen, bam_Read_cigarLen, bam_Read_seqLen. rewrite storage_not_reused. rewrite <- Hqb.
  assert (Hcanon : canon r = mkRec (r_name r) (r_ref r) (r_pos r) (r_mapq r) (r_cigar r) (r_flags r) (r_mref r) (r_mpos r)
        (r_tlen r) (r_lseq r) (r_seq r) (Some qb) (r_aux r)) by (rewrite Hqb; reflexivity).
  rewrite Hcanon. clear Hcanon Hqb.
  destruct r as [name ref pos mapq cigar flags mref mpos tlen lseq seq qual aux]. projs.
  destruct (read_fixed_enc ref pos (zlen name + 1) mapq bin (zlen cigar) flags
              lseq mref mpos tlen
              (name ++ [0] ++ cig_bytes cigar ++ seq ++ qb ++ tags))
    as [env [Hrf [E1 [E2 [E3 [E4 [E6 [E7 [E8 [E9 [E10 E11]]]]]]]]]]];
    try (change (2 ^ 8) with 256; change (2 ^ 16) with 65536); try lia.
  { pose proof (zlen_nonneg cigar). lia. }
  rewrite Hrf. cbv beta iota. rewrite E1, E2, E3, E4, E6, E7, E8, E9, E10, E11.
  replace (zlen name + 1 <? 1) with false by (symmetry; apply Z.ltb_ge; lia).
  rewrite b_unsafe_app by lia. cbv beta iota.
  rewrite (b_discard_app [0]) by reflexivity.
  rewrite b_unsafe_app by (rewrite zlen_cig_bytes; lia). cbv beta iota.
  cbn [odef]. rewrite cig_count, read_cigar_bytes by assumption.
  unfold omit_view. projs.
  destruct (bam_AllVariableLengthData <=? omit) eqn:O2.
  - cbn [obind snd]. cbv beta iota. rewrite ref_check by assumption. cbn [obind].
    mate_tac ref mref nrefs.
  - replace (lseq <? 0) with false by (symmetry; apply Z.ltb_ge; lia).
    unfold b_bytes.
    rewrite b_unsafe_app by (rewrite half_up by lia; lia). cbv beta iota.
    rewrite b_unsafe_app by lia. cbv beta iota.
    destruct (bam_AuxTags <=? omit) eqn:O1.
    + cbn [obind odef snd]. cbv beta iota. rewrite ref_check by assumption. cbn [obind].
      mate_tac ref mref nrefs.
    + unfold b_len. cbn [fst]. rewrite b_unsafe_all by reflexivity. cbv beta iota. cbn [odef].
      rewrite (parse_build_aux aux tags) by assumption.
      cbn [obind snd]. cbv beta iota. rewrite ref_check by assumption. cbn [obind].
      mate_tac ref mref nrefs.
Qed.

(** Writer.Write on a valid record: block size, then the block. *)
Theorem encode_valid nrefs r :
  valid_rec nrefs r = true ->
  exists tags bin,
    build_aux (r_aux r) = Ok tags /\
    encode_record r = Ok (le_put 4 (zlen (body_of r tags bin)) ++ body_of r tags bin) /\
    zlen (body_of r tags bin) = block_size r.
Proof.
  intros Hv. pose proof (valid_rec_props _ _ Hv) as V.
  destruct (build_aux_ok _ (vp_aux _ _ V)) as [tags [Hb [Hl _]]].
  destruct (rec_bin_ok r (vp_cigar _ _ V)) as [bin Hbin].
  pose proof (zlen_qual_bytes nrefs r V) as [Hql _].
  assert (Hlen : zlen (body_of r tags bin) = block_size r).
  { unfold body_of, block_size. rewrite !zlen_app, !zlen_le_put, zlen_cig_bytes, Hql, Hl, zlen_cons, zlen_nil. lia. }
  exists tags, bin. split; [assumption|]. split; [|assumption].
  unfold encode_record.
  pose proof (vp_name_len _ _ V).
  replace (zlen (r_name r) =? 0) with false by (symmetry; apply Z.eqb_neq; lia).
  replace (254 <? zlen (r_name r)) with false by (symmetry; apply Z.ltb_ge; lia).
  cbn [orb].
  assert (Hq : match r_qual r with Some q => negb (zlen q =? r_lseq r) | None => false end = false).
  { pose proof (vp_qual _ _ V) as Q. destruct (r_qual r); [|reflexivity]. destruct Q as [_ Q]. rewrite Q, Z.eqb_refl. reflexivity. }
  rewrite Hq, Hb. cbn [obind]. rewrite Hbin. cbn [obind].
  rewrite enc_shape. f_equal. f_equal.
  assert (Hrl : rec_len r tags = block_size r).
  { unfold rec_len, block_size. change bam_bamFixedRemainder with 32. rewrite Z.shiftl_mul_pow2 by lia. change (2 ^ 2) with 4. lia. }
  rewrite Hrl, Hlen. rewrite u32_s32. f_equal. apply u32_small.
  pose proof (vp_size _ _ V). unfold block_size in *.
  pose proof (zlen_nonneg (r_cigar r)). pose proof (zlen_nonneg (r_seq r)). pose proof (vp_lseq _ _ V).
  assert (0 <= tags_len (r_aux r)) by (rewrite <- Hl; apply zlen_nonneg). lia.
Qed.

(** Round trip of one record, for either buffer decision. *)
Theorem record_roundtrip nrefs r sh :
  valid_rec nrefs r = true ->
  exists body,
    encode_record r = Ok (le_put 4 (zlen body) ++ body) /\
    zlen body = block_size r /\
    decode_record 0 nrefs sh body = Ok (canon r, false).
Proof.
  intros Hv. destruct (encode_valid nrefs r Hv) as [tags [bin [Hb [He Hl]]]].
  exists (body_of r tags bin). split; [assumption|]. split; [assumption|].
  rewrite (decode_body nrefs r 0 sh tags bin Hv Hb). reflexivity.
Qed.
