(** C13 — bam.Reader: SetChunk(Begin of record i, End of record j) yields
    records i..j and then io.EOF.  Framing level: the stream after the header
    is a sequence of frames (4-byte little-endian length, body). *)
From Coq Require Import ZArith List Bool Lia.
From Hts Require Import Base.Prim Model.Flat Model.Reader Model.ChunkReader
  Proofs.FlatLemmas Proofs.ReaderFlat Proofs.ChunkReaderProof.
Import ListNotations.
Open Scope Z_scope.

Ltac Zify.zify_post_hook ::= Z.div_mod_to_equations.

(** ---- after a read that returned bytes the cursor is inside a block *)

Lemma b_fill_pos (F : file) (b : block) (k : Z) : 0 <= b_pos b -> 0 <= b_pos (fst (b_fill F b k)).
Proof. intros H. unfold b_fill. destruct (fetch F k); simpl; lia. Qed.

Lemma copy_pos (F : file) (n : Z) : forall fuel s acc s' bs e,
  v_copy F fuel s n acc = Ok (s', bs, e) -> 0 <= b_pos (v_cur s) -> e = eNil ->
  0 <= b_pos (v_cur s') /\ (zlen acc < n -> 1 <= b_pos (v_cur s')).
Proof.
  induction fuel as [|fuel IH]; intros s acc s' bs e H Hp He; simpl in H.
  - destruct (Z.ltb_spec (zlen acc) n); [discriminate|]. inversion H; subst. simpl. split; [exact Hp|lia].
  - destruct (Z.ltb_spec (zlen acc) n); [|inversion H; subst; simpl; split; [exact Hp|lia]].
    unfold b_read in H.
    destruct (Z.leb_spec (zlen (b_data (v_cur s))) (b_pos (v_cur s))).
    + (* end of block *)
      change (eEOF =? eEOF) with true in H. cbv iota in H. rewrite app_nil_r in H.
      destruct (Z.eqb_spec (zlen acc) n); [lia|].
      destruct (v_blocked s); [exfalso; inversion H; unfold eEOF, eNil in *; congruence|].
      destruct (v_nextBlock F (set_cur s (v_cur s))) as [s2 e2] eqn:En.
      destruct (e2 =? eNil) eqn:E2.
      * assert (Hp2 : 0 <= b_pos (v_cur s2)).
        { unfold v_nextBlock in En. simpl in En.
          pose proof (b_fill_pos F (v_cur s) (b_next (v_cur s)) Hp).
          destruct (b_fill F (v_cur s) (b_next (v_cur s))). inversion En; subst. exact H2. }
        destruct (IH _ _ _ _ _ H Hp2 He) as [A B]. split; [exact A|]. intros _. apply B. lia.
      * exfalso. inversion H; subst. apply Z.eqb_neq in E2. congruence.
    + change (eNil =? eEOF) with false in H. cbv iota in H.
      set (k := Z.min (n - zlen acc) (zlen (b_data (v_cur s)) - b_pos (v_cur s))) in *.
      assert (Hk : 1 <= k) by (unfold k; lia).
      assert (Hz : zlen (ztake k (zdrop (b_pos (v_cur s)) (b_data (v_cur s)))) = k).
      { apply ztake_zlen. rewrite zlen_zdrop by lia. unfold k. lia. }
      match type of H with v_copy F fuel ?S1 n ?A1 = _ => destruct (IH S1 A1 _ _ _ H ltac:(simpl; lia) He) as [A B] end.
      split; [exact A|]. intros _.
      destruct (Z.ltb_spec (zlen (acc ++ ztake k (zdrop (b_pos (v_cur s)) (b_data (v_cur s))))) n) as [Hlt|Hge].
      * apply B. exact Hlt.
      * (* the loop ends here: the cursor is where this read left it *)
        destruct fuel as [|fuel']; simpl in H; destruct (Z.ltb_spec (zlen (acc ++ ztake k (zdrop (b_pos (v_cur s)) (b_data (v_cur s))))) n); try lia;
          inversion H; subst; simpl; lia.
Qed.

(** ---- canonical offsets of a flat position *)

Definition is_before (F : file) (o : voff) (p : Z) : Prop :=
  exists pre m post, split_at F pre m post /\ fst o = m_base m /\ 0 <= snd o < m_len m /\ p = total pre + snd o.
Definition is_after (F : file) (o : voff) (p : Z) : Prop :=
  exists pre m post, split_at F pre m post /\ fst o = m_base m /\ 1 <= snd o <= m_len m /\ p = total pre + snd o.

Lemma after_lt (F : file) (o o' : voff) (p p' : Z) : addressable F = true ->
  is_after F o p -> is_after F o' p' -> p < p' -> voffset o < voffset o'.
Proof.
  intros Ha (pre & m & post & S & Hf & Ho & Hp) (pre' & m' & post' & S' & Hf' & Ho' & Hp') Hlt.
  pose proof (addressable_len S Ha). pose proof (addressable_len S' Ha).
  unfold voffset. rewrite Hf, Hf'.
  destruct (Z.lt_trichotomy (m_base m) (m_base m')) as [L|[E|G]].
  - lia.
  - destruct (split_unique S S' E) as (-> & -> & ->). lia.
  - pose proof (split_order S' S G). lia.
Qed.

Lemma before_lt_after (F : file) (o o' : voff) (p p' : Z) : addressable F = true ->
  is_before F o p -> is_after F o' p' -> p < p' -> voffset o < voffset o'.
Proof.
  intros Ha (pre & m & post & S & Hf & Ho & Hp) (pre' & m' & post' & S' & Hf' & Ho' & Hp') Hlt.
  pose proof (addressable_len S Ha). pose proof (addressable_len S' Ha).
  unfold voffset. rewrite Hf, Hf'.
  destruct (Z.lt_trichotomy (m_base m) (m_base m')) as [L|[E|G]].
  - lia.
  - destruct (split_unique S S' E) as (-> & -> & ->). lia.
  - pose proof (split_order S' S G). lia.
Qed.

Lemma after_unique (F : file) (o o' : voff) (p : Z) : is_after F o p -> is_after F o' p -> o = o'.
Proof.
  intros (pre & m & post & S & Hf & Ho & Hp) (pre' & m' & post' & S' & Hf' & Ho' & Hp').
  destruct o as [a b], o' as [a' b']. simpl in *.
  destruct (Z.lt_trichotomy (m_base m) (m_base m')) as [L|[E|G]].
  - pose proof (split_order S S' L). lia.
  - destruct (split_unique S S' E) as (-> & -> & ->). f_equal; lia.
  - pose proof (split_order S' S G). lia.
Qed.

Lemma before_valid (F : file) (o : voff) (p : Z) : addressable F = true ->
  is_before F o p -> valid_off F (fst o) (snd o) = true /\ tr F o = p.
Proof.
  intros Ha (pre & m & post & S & Hf & Ho & Hp). pose proof (addressable_len S Ha). split.
  - unfold valid_off. apply existsb_exists. exists m. split; [destruct S as [-> _]; apply in_or_app; right; left; reflexivity|].
    rewrite Hf, Z.eqb_refl. simpl. repeat rewrite andb_true_iff. repeat split; apply Z.leb_le; lia.
  - unfold tr. rewrite Hf, (split_before S). lia.
Qed.

(** ---- an unblocked read that finds all its bytes *)

Lemma unblocked_read (F : file) (s : vstate) (f : fstate) (k : Z) :
  wf_file F = true -> addressable F = true -> sim F s f ->
  f_eof f = false -> f_blocked f = false -> 1 <= k -> f_pos f + k <= total F ->
  exists s', v_read F s k = Ok (s', ztake k (zdrop (f_pos f) (flat_data F)), eNil) /\
    sim F s' (mkF (f_pos f + k) false false (f_pos f, f_pos f + k)) /\
    is_before F (fst (v_lc s')) (f_pos f) /\ is_after F (snd (v_lc s')) (f_pos f + k).
Proof.
  intros W Ha Hsim Hfe Hfb Hk Hfit.
  destruct (read_sim F s f k W Hsim ltac:(lia)) as (s' & f' & bs & e & Hrd & Hfl & Hsim').
  (* the flat side *)
  unfold flat_read in Hfl. rewrite Hfe, Hfb in Hfl.
  destruct (Z.eqb_spec (total F - f_pos f) 0) as [E0|E0]; [lia|].
  replace (Z.min k (total F - f_pos f)) with k in Hfl by lia.
  replace (k <? k) with false in Hfl by (symmetry; apply Z.ltb_ge; lia).
  simpl in Hfl. inversion Hfl; subst f' bs e. clear Hfl.
  exists s'. split; [exact Hrd|]. split; [exact Hsim'|].
  (* the literal chunk: redo the read on the model side *)
  pose proof Hsim as [Hbl Hbg Hbv Hen Hst].
  destruct Hst as [[_ (He & pre & m & post & S & On & Hq)]|[Hx _]]; [|congruence].
  unfold v_read in Hrd. rewrite He in Hrd. simpl negb in Hrd. cbv iota in Hrd.
  destruct (skip_spec F post pre m s (Datatypes.S (length F)) S On He ltac:(pose proof (split_length S); lia))
    as (s1 & e1 & Hsk & [Hlc1 Hbl1] & Hcase).
  rewrite Hsk in Hrd.
  destruct Hcase as [(-> & He1 & pre' & m' & post' & S' & On' & Hlt' & Hq' & _)|(-> & _ & Hq')].
  2:{ simpl in Hrd. inversion Hrd. }
  simpl negb in Hrd. cbv iota in Hrd.
  set (s1b := set_begin s1 (b_tx (v_cur s1))) in *.
  assert (Hblb : v_blocked s1b = false) by (simpl; congruence).
  destruct (copy_unblocked F k pre' m' post' s1b (fuel_of F) S' On' Hblb
              ltac:(unfold fuel_of; pose proof (split_length S'); lia) ltac:(lia)) as (s2 & Hcp & Hpb & Hpf & Hps & _).
  rewrite Hcp in Hrd. inversion Hrd as [[Hs' Hbs He']]. subst s2.
  pose proof On' as (Hb' & _ & _ & _ & Hp' & Ho').
  pose proof (split_len_le S') as Hle'.
  split.
  - (* Begin *)
    rewrite Hpf. simpl. exists pre', m', post'. split; [exact S'|]. unfold b_tx. simpl.
    rewrite Ho', u16_small by lia. split; [exact Hb'|]. split; [lia|lia].
  - (* End *)
    rewrite Hps.
    destruct (copy_pos F k (fuel_of F) s1b [] s' _ _ Hcp ltac:(simpl; lia) ltac:(destruct (Z.min k _ <? k); [discriminate|reflexivity]))
      as [_ Hpos].
    specialize (Hpos ltac:(rewrite zlen_nil; lia)).
    pose proof Hsim' as [_ _ _ _ Hst'].
    destruct Hst' as [[_ (_ & pre2 & m2 & post2 & S2 & On2 & Hq2)]|[Hx _]]; [|discriminate].
    simpl in Hq2. pose proof On2 as (Hb2 & _ & _ & _ & Hp2 & Ho2). pose proof (addressable_len S2 Ha).
    exists pre2, m2, post2. split; [exact S2|]. unfold b_tx. simpl. rewrite Ho2, u16_small by lia.
    split; [exact Hb2|]. split; [lia|lia].
Qed.

(** ---- io.ReadFull on the reader *)

Lemma readfull_ok (F : file) (s : vstate) (f : fstate) (k : Z) (fuel : nat) :
  wf_file F = true -> addressable F = true -> sim F s f ->
  f_eof f = false -> f_blocked f = false -> 1 <= k -> f_pos f + k <= total F -> (1 <= fuel)%nat ->
  exists s', readfull (vM F) fuel s k [] eNil = Ok (s', ztake k (zdrop (f_pos f) (flat_data F)), eNil) /\
    sim F s' (mkF (f_pos f + k) false false (f_pos f, f_pos f + k)) /\
    is_before F (fst (v_lc s')) (f_pos f) /\ is_after F (snd (v_lc s')) (f_pos f + k).
Proof.
  intros W Ha Hsim Hfe Hfb Hk Hfit Hfuel.
  destruct (unblocked_read F s f k W Ha Hsim Hfe Hfb Hk Hfit) as (s' & Hrd & Hsim' & Hb & He).
  exists s'. split; [|split; [exact Hsim'|split; assumption]].
  destruct fuel as [|fuel]; [lia|].
  assert (Hz : zlen (ztake k (zdrop (f_pos f) (flat_data F))) = k).
  { apply ztake_zlen. split; [lia|]. pose proof Hsim as [_ _ _ _ Hst].
    destruct Hst as [[_ (_ & pre & m & post & S & On & Hq)]|[Hx _]]; [|congruence].
    pose proof On as (_ & _ & _ & _ & Hp & _). pose proof (total_nonneg pre).
    rewrite zlen_zdrop by (unfold total in *; lia). unfold total in *. lia. }
  simpl readfull. rewrite zlen_nil.
  destruct (Z.ltb_spec 0 k); [|lia]. simpl andb. cbv iota.
  change (m_step (vM F) s (ORead (k - 0))) with (v_step F s (ORead (k - 0))). simpl v_step.
  replace (k - 0) with k by lia. rewrite Hrd. simpl app.
  destruct fuel; simpl readfull; rewrite Hz; destruct (Z.ltb_spec k k); try lia; simpl andb; cbv iota;
    destruct (Z.leb_spec k k); try lia; reflexivity.
Qed.

Lemma readfull_eof (F : file) (s : vstate) (f : fstate) (k : Z) (fuel : nat) :
  wf_file F = true -> sim F s f -> f_eof f = false -> 1 <= k -> f_pos f = total F -> (1 <= fuel)%nat ->
  exists s', readfull (vM F) fuel s k [] eNil = Ok (s', [], eEOF) /\
    sim F s' (mkF (f_pos f) true (f_blocked f) (f_chunk f)).
Proof.
  intros W Hsim Hfe Hk Hend Hfuel.
  destruct (read_sim F s f k W Hsim ltac:(lia)) as (s' & f' & bs & e & Hrd & Hfl & Hsim').
  unfold flat_read in Hfl. rewrite Hfe in Hfl.
  replace (total F - f_pos f =? 0) with true in Hfl by (symmetry; apply Z.eqb_eq; lia).
  inversion Hfl; subst f' bs e. clear Hfl.
  exists s'. split; [|exact Hsim'].
  destruct fuel as [|fuel]; [lia|].
  simpl readfull. rewrite zlen_nil.
  destruct (Z.ltb_spec 0 k); [|lia]. simpl andb. cbv iota.
  change (m_step (vM F) s (ORead (k - 0))) with (v_step F s (ORead (k - 0))). simpl v_step.
  replace (k - 0) with k by lia. rewrite Hrd. simpl app.
  destruct fuel; simpl readfull; rewrite zlen_nil; destruct (Z.ltb_spec 0 k); try lia; simpl andb; cbv iota;
    destruct (Z.leb_spec k 0); try lia; reflexivity.
Qed.

(** ---- frames *)

Section Frames.
Variable F : file.
Hypothesis W : wf_file F = true.
Hypothesis Ha : addressable F = true.
Let data := flat_data F.

(** From position [p] the stream holds frames with body sizes [sizes], ending at [pe]. *)
Fixpoint frames (p : Z) (sizes : list Z) (pe : Z) : Prop :=
  match sizes with
  | [] => pe = p
  | sz :: r => 1 <= sz /\ le32s (ztake 4 (zdrop p data)) = sz /\ frames (p + 4 + sz) r pe
  end.

Fixpoint bodies (p : Z) (sizes : list Z) : list (list Z) :=
  match sizes with
  | [] => []
  | sz :: r => ztake sz (zdrop (p + 4) data) :: bodies (p + 4 + sz) r
  end.

(** The chunks reported for the records: Begin / End are the canonical offsets of the frame's two ends. *)
Fixpoint chunks_at (p : Z) (sizes : list Z) (recs : list (list Z * chunk)) : Prop :=
  match sizes, recs with
  | [], [] => True
  | sz :: r, (_, (B, E)) :: recs' => is_before F B p /\ is_after F E (p + 4 + sz) /\ chunks_at (p + 4 + sz) r recs'
  | _, _ => False
  end.

Lemma frames_le : forall sizes p pe, frames p sizes pe -> p <= pe.
Proof. induction sizes as [|sz r IH]; simpl; intros p pe H; [lia|]. destruct H as (H1 & _ & H3). apply IH in H3. lia. Qed.

Lemma frames_app : forall a b p pe, frames p (a ++ b) pe -> exists pm, frames p a pm /\ frames pm b pe.
Proof.
  induction a as [|sz a IH]; simpl; intros b p pe H; [exists p; auto|].
  destruct H as (H1 & H2 & H3). destruct (IH _ _ _ H3) as (pm & Ha' & Hb'). exists pm. auto.
Qed.

Definition simv (s : vstate) (p : Z) : Prop :=
  exists f, sim F s f /\ f_eof f = false /\ f_blocked f = false /\ f_pos f = p.

(** One record. *)
Lemma br_read_frame (b : bstate (vM F)) (p sz : Z) :
  simv (br_s _ b) p -> 1 <= sz -> p + 4 + sz <= total F -> le32s (ztake 4 (zdrop p data)) = sz ->
  match br_limit _ b with Some c => voffset (snd (v_lc (br_s _ b))) < voffset (snd c) | None => True end ->
  exists b' B E, br_read (vM F) b = Ok (b', BRec (ztake sz (zdrop (p + 4) data))) /\
    br_limit _ b' = br_limit _ b /\ br_lc _ b' = (B, E) /\ snd (v_lc (br_s _ b')) = E /\
    is_before F B p /\ is_after F E (p + 4 + sz) /\ simv (br_s _ b') (p + 4 + sz).
Proof.
  intros (f & Hsim & Hfe & Hfb & Hfp) Hsz Hfit Hle Hlim. subst p.
  unfold br_read.
  assert (Hl : match br_limit (vM F) b with
               | Some c => voffset (snd c) <=? voffset (snd (m_lc (vM F) (br_s (vM F) b)))
               | None => false end = false).
  { destruct (br_limit (vM F) b) as [c|]; [|reflexivity]. apply Z.leb_gt. exact Hlim. }
  rewrite Hl.
  destruct (readfull_ok F (br_s _ b) f 4 rf_fuel W Ha Hsim Hfe Hfb ltac:(lia) ltac:(lia) ltac:(unfold rf_fuel; lia))
    as (s1 & Hr1 & Hsim1 & Hb1 & He1).
  rewrite Hr1. change (eNil =? eEOF) with false. change (negb (eNil =? eNil)) with false. cbv iota.
  fold data. rewrite Hle.
  destruct (Z.eqb_spec sz 0); [lia|]. destruct (Z.ltb_spec sz 0); [lia|].
  set (f1 := mkF (f_pos f + 4) false false (f_pos f, f_pos f + 4)) in *.
  destruct (readfull_ok F s1 f1 sz rf_fuel W Ha Hsim1 eq_refl eq_refl Hsz ltac:(simpl; lia) ltac:(unfold rf_fuel; lia))
    as (s2 & Hr2 & Hsim2 & Hb2 & He2).
  rewrite Hr2. change (eNil =? eEOF) with false. change (negb (eNil =? eNil)) with false. cbv iota.
  simpl f_pos in *.
  eexists _, _, _. split; [reflexivity|]. simpl.
  split; [reflexivity|]. split; [reflexivity|]. split; [reflexivity|].
  split; [exact Hb1|]. split; [replace (f_pos f + 4 + sz) with (f_pos f + 4 + sz) by lia; exact He2|].
  eexists. split; [exact Hsim2|]. simpl. auto.
Qed.


(** Reading frames until the limit (or the end of the data) says stop. *)
Lemma readall_frames : forall sizes p pe s lim blc fuel,
  simv s p -> frames p sizes pe -> pe <= total F ->
  ((lim = None /\ pe = total F) \/ (exists c, lim = Some c /\ is_after F (snd c) pe)) ->
  (lim = None \/ is_after F (snd (v_lc s)) p \/ (sizes <> [] /\ is_before F (snd (v_lc s)) p)) ->
  (length sizes < fuel)%nat ->
  exists b' recs, br_readall (vM F) fuel (mkBR (vM F) s lim blc) = Ok (b', recs, BEOF) /\
    map fst recs = bodies p sizes /\ chunks_at p sizes recs /\ br_limit _ b' = lim /\
    exists f', sim F (br_s _ b') f' /\ f_blocked f' = false.
Proof.
  induction sizes as [|sz r IH]; intros p pe s lim blc fuel Hs Hfr Hpe Hstop Hcur Hfuel.
  - simpl in Hfr. subst pe. destruct fuel as [|fuel]; [simpl in Hfuel; lia|].
    destruct Hs as (f & Hsim & Hfe & Hfb & Hfp).
    simpl br_readall. unfold br_read. simpl br_s. simpl br_limit.
    destruct Hstop as [[-> Hend]|(c & -> & Hc)].
    + (* the data ends here *)
      destruct (readfull_eof F s f 4 rf_fuel W Hsim Hfe ltac:(lia) ltac:(lia) ltac:(unfold rf_fuel; lia)) as (s1 & Hr & Hsim1).
      rewrite Hr. change (eEOF =? eEOF) with true. cbv iota.
      eexists _, []. split; [reflexivity|]. simpl. split; [reflexivity|]. split; [exact I|]. split; [reflexivity|].
      eexists. split; [exact Hsim1|]. simpl. exact Hfb.
    + (* the limit is reached *)
      destruct Hcur as [Hx|[Hx|[Hx _]]]; [discriminate| |contradiction].
      rewrite (after_unique F _ _ _ Hc Hx). change (m_lc (vM F) s) with (v_lc s). rewrite Z.leb_refl.
      eexists _, []. split; [reflexivity|]. simpl. split; [reflexivity|]. split; [exact I|]. split; [reflexivity|].
      exists f. split; [exact Hsim|exact Hfb].
  - simpl in Hfr. destruct Hfr as (Hsz & Hle & Hfr').
    pose proof (frames_le _ _ _ Hfr') as Hmono.
    destruct fuel as [|fuel]; [simpl in Hfuel; lia|].
    simpl br_readall.
    destruct (br_read_frame (mkBR (vM F) s lim blc) p sz Hs Hsz ltac:(lia) Hle) as (b1 & B & E & Hrd & Hl1 & Hlc1 & Hend1 & HB & HE & Hs1).
    { simpl. destruct lim as [c|]; [|exact I].
      destruct Hstop as [[Hx _]|(c' & Hc' & Hc)]; [discriminate|]. inversion Hc'; subst c'.
      destruct Hcur as [Hx|[Hx|[_ Hx]]]; [discriminate| |].
      - apply (after_lt F _ _ p pe Ha Hx Hc). lia.
      - apply (before_lt_after F _ _ p pe Ha Hx Hc). lia. }
    rewrite Hrd.
    destruct b1 as [s1 lim1 blc1]. simpl in Hl1, Hlc1, Hend1, Hs1. subst lim1 blc1.
    destruct (IH (p + 4 + sz) pe s1 lim (B, E) fuel Hs1 Hfr' Hpe Hstop ltac:(right; left; rewrite Hend1; exact HE) ltac:(simpl in Hfuel; lia))
      as (b' & recs & Hra & Hbod & Hch & Hlim' & Hf').
    rewrite Hra. eexists _, _. split; [reflexivity|]. simpl.
    split; [f_equal; exact Hbod|]. split; [split; [exact HB|split; [exact HE|exact Hch]]|]. split; [exact Hlim'|exact Hf'].
Qed.


Lemma chunks_at_app : forall a b p pm recs, chunks_at p (a ++ b) recs -> frames p a pm ->
  exists ra rb, recs = ra ++ rb /\ length ra = length a /\ chunks_at p a ra /\ chunks_at pm b rb.
Proof.
  induction a as [|sz a IH]; simpl; intros b p pm recs H Hf.
  - subst pm. exists [], recs. simpl. auto.
  - destruct recs as [|[body [B E]] recs']; [contradiction|].
    destruct H as (H1 & H2 & H3). destruct Hf as (_ & _ & Hf').
    destruct (IH _ _ _ _ H3 Hf') as (ra & rb & -> & Hl & Hca & Hcb).
    exists ((body, (B, E)) :: ra), rb. simpl. repeat split; auto.
Qed.

Lemma bodies_app : forall a b p pm, frames p a pm -> bodies p (a ++ b) = bodies p a ++ bodies pm b.
Proof.
  induction a as [|sz a IH]; simpl; intros b p pm Hf; [subst; reflexivity|].
  destruct Hf as (_ & _ & Hf'). rewrite (IH _ _ _ Hf'). reflexivity.
Qed.

Lemma chunks_at_length : forall a p recs, chunks_at p a recs -> length recs = length a.
Proof.
  induction a as [|sz a IH]; intros p [|[body [B E]] recs'] H; simpl in *; try contradiction; [reflexivity|].
  destruct H as (_ & _ & H). rewrite (IH _ _ H). reflexivity.
Qed.

Lemma chunks_at_last : forall a p pe recs d, a <> [] -> chunks_at p a recs -> frames p a pe ->
  is_after F (snd (snd (last recs d))) pe.
Proof.
  induction a as [|sz a IH]; intros p pe recs d Hne H Hf; [congruence|].
  destruct recs as [|[body [B E]] recs']; [contradiction|].
  simpl in H, Hf. destruct H as (H1 & H2 & H3). destruct Hf as (_ & _ & Hf').
  destruct a as [|sz' a'].
  - simpl in Hf'. subst pe. destruct recs'; [simpl; exact H2|simpl in H3; contradiction].
  - destruct recs' as [|r' recs'']; [simpl in H3; contradiction|].
    change (last ((body, (B, E)) :: r' :: recs'') d) with (last (r' :: recs'') d).
    apply (IH _ _ _ d ltac:(discriminate) H3 Hf').
Qed.

Lemma app_eq_len {A} (a c b d : list A) : a ++ b = c ++ d -> length a = length c -> a = c /\ b = d.
Proof.
  revert c. induction a as [|x a IH]; intros [|y c] H Hl; simpl in *; try discriminate; [auto|].
  inversion H; subst. destruct (IH _ H2 ltac:(lia)) as [-> ->]. auto.
Qed.

Lemma v_seek_lc (s : vstate) (f o : Z) (s' : vstate) : v_seek F s f o = (s', eNil) -> v_lc s' = ((f, o), (f, o)).
Proof.
  unfold v_seek. destruct (negb (f =? b_base (v_cur s)) || negb (b_has (v_cur s))).
  - destruct (b_fill F (v_cur s) f) as [b e]. destruct (e =? eNil) eqn:E; simpl.
    + intros H; inversion H; reflexivity.
    + intros H; inversion H; subst. discriminate.
  - simpl. intros H; inversion H; reflexivity.
Qed.

Lemma replay_one (b : bstate (vM F)) (fb : fstate) (B E : voff) (mid : list Z) (pi pj : Z) :
  sim F (br_s _ b) fb -> f_blocked fb = false -> is_before F B pi -> is_after F E pj ->
  frames pi mid pj -> mid <> [] -> pj <= total F ->
  exists b2, br_setchunk (vM F) b (B, E) = Ok (b2, eNil) /\
  exists b3 l, br_readall (vM F) (S (length mid)) b2 = Ok (b3, l, BEOF) /\ map fst l = bodies pi mid.
Proof.
  intros Hsb Hbb HB HE Hfmid Hne Hpj.
  destruct (before_valid F B pi Ha HB) as [Hv Htr].
  destruct B as [fb0 bb0]. simpl in Hv.
  destruct (seek_sim F (br_s _ b) fb fb0 bb0 W Hsb Hv) as (s' & Hsk & Hsim').
  unfold br_setchunk. simpl fst. simpl snd.
  change (m_step (vM F) (br_s (vM F) b) (OSeek fb0 bb0)) with (v_step F (br_s (vM F) b) (OSeek fb0 bb0)).
  simpl v_step. rewrite Hsk.
  change (negb (eNil =? eNil)) with false. cbv iota.
  eexists. split; [reflexivity|].
  pose proof (v_seek_lc _ _ _ _ Hsk) as Hlc.
  assert (Hsv : simv s' pi).
  { eexists. split; [exact Hsim'|]. unfold flat_seek. simpl. rewrite Htr. auto. }
  destruct (readall_frames mid pi pj s' (Some ((fb0, bb0), E)) (br_lc _ b) (S (length mid)) Hsv Hfmid Hpj
              ltac:(right; eexists; split; [reflexivity|exact HE])
              ltac:(right; right; split; [exact Hne|rewrite Hlc; exact HB]) ltac:(lia))
    as (b3 & l & Hra3 & Hbod3 & _).
  exists b3, l. split; [exact Hra3|exact Hbod3].
Qed.

(** C13, bam.Reader: the records of a sequential pass, and the replay of a
    chunk running from the Begin of one record to the End of a later one. *)
Theorem chunk_replay_proof (s0 : vstate) (p0 : Z) (pre mid post : list Z) (blc0 : chunk) (dflt : list Z * chunk) :
  simv s0 p0 -> frames p0 (pre ++ mid ++ post) (total F) -> mid <> [] ->
  exists b1 recs, br_readall (vM F) (S (length (pre ++ mid ++ post))) (mkBR (vM F) s0 None blc0) = Ok (b1, recs, BEOF) /\
    map fst recs = bodies p0 (pre ++ mid ++ post) /\
    exists rp rm rq, recs = rp ++ rm ++ rq /\ length rp = length pre /\ length rm = length mid /\
      forall (b : bstate (vM F)) (fb : fstate), sim F (br_s _ b) fb -> f_blocked fb = false ->
        exists b2, br_setchunk (vM F) b (fst (snd (hd dflt rm)), snd (snd (last rm dflt))) = Ok (b2, eNil) /\
        exists b3 l, br_readall (vM F) (S (length mid)) b2 = Ok (b3, l, BEOF) /\ map fst l = map fst rm.
Proof.
  intros Hs0 Hfr Hmid.
  destruct (readall_frames (pre ++ mid ++ post) p0 (total F) s0 None blc0 (S (length (pre ++ mid ++ post))) Hs0 Hfr ltac:(lia)
              ltac:(left; auto) ltac:(left; reflexivity) ltac:(lia)) as (b1 & recs & Hra & Hbod & Hch & _).
  exists b1, recs. split; [exact Hra|]. split; [exact Hbod|].
  destruct (frames_app _ _ _ _ Hfr) as (pi & Hfpre & Hfr2).
  destruct (frames_app _ _ _ _ Hfr2) as (pj & Hfmid & Hfpost).
  destruct (chunks_at_app _ _ _ _ _ Hch Hfpre) as (rp & rest & -> & Hlp & Hcp & Hc2).
  destruct (chunks_at_app _ _ _ _ _ Hc2 Hfmid) as (rm & rq & -> & Hlm & Hcm & Hcq).
  exists rp, rm, rq. split; [reflexivity|]. split; [exact Hlp|]. split; [exact Hlm|].
  (* bodies of the middle records *)
  assert (Hbm : map fst rm = bodies pi mid).
  { rewrite (bodies_app _ _ _ _ Hfpre), (bodies_app _ _ _ _ Hfmid) in Hbod. rewrite !map_app in Hbod.
    pose proof (chunks_at_length _ _ _ Hcp) as L1. pose proof (chunks_at_length _ _ _ Hcm) as L2.
    assert (Lb : forall a p, length (bodies p a) = length a) by (induction a; intros; simpl; auto).
    destruct (app_eq_len _ _ _ _ Hbod ltac:(rewrite map_length, Lb; exact L1)) as [_ H2].
    destruct (app_eq_len _ _ _ _ H2 ltac:(rewrite map_length, Lb; exact L2)) as [H3 _]. exact H3. }
  intros b fb Hsb Hbb.
  assert (HB0 : is_before F (fst (snd (hd dflt rm))) pi).
  { destruct mid as [|sz mid']; [congruence|]. destruct rm as [|[body0 [B0 E0]] rm']; [simpl in Hlm; discriminate|].
    simpl in Hcm. simpl. tauto. }
  pose proof (chunks_at_last mid pi pj rm dflt Hmid Hcm Hfmid) as HEj.
  pose proof (frames_le _ _ _ Hfpost) as Hle1.
  destruct (replay_one b fb _ _ mid pi pj Hsb Hbb HB0 HEj Hfmid Hmid Hle1) as (b2 & Hset & b3 & l & Hra3 & Hbod3).
  exists b2. split; [exact Hset|]. exists b3, l. split; [exact Hra3|]. rewrite Hbod3, Hbm. reflexivity.
Qed.

End Frames.
