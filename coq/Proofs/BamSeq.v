(** C05 — nybble packing: sam.contract (NewSeq) and Seq.Expand over the
    generated tables n16Table / n16TableRev. *)
From Coq Require Import ZArith Lia List Bool.
From Hts Require Import Base.Prim Base.Bits Generated Model.BamCodec Base.BytesLE.
Import ListNotations.
Open Scope Z_scope.
Ltac Zify.zify_post_hook ::= Z.div_mod_to_equations.

Lemma tbl16 b : 0 <= b < 256 -> 0 <= getz sam_n16Table b < 16.
Proof.
  intros H.
  pose proof (byte_forall (fun x => (0 <=? getz sam_n16Table x) && (getz sam_n16Table x <? 16))) as F.
  specialize (F ltac:(vm_compute; reflexivity) b H). cbv beta in F.
  apply andb_true_iff in F. destruct F as [F1 F2]. apply Z.leb_le in F1. apply Z.ltb_lt in F2. lia.
Qed.

Lemma n16_codes_fixed i : 0 <= i < 16 -> getz sam_n16Table (getz sam_n16TableRev i) = i.
Proof.
  intros H.
  pose proof (byte_forall (fun x => if x <? 16 then getz sam_n16Table (getz sam_n16TableRev x) =? x else true)) as F.
  specialize (F ltac:(vm_compute; reflexivity) i ltac:(lia)). cbv beta in F.
  replace (i <? 16) with true in F by (symmetry; apply Z.ltb_lt; lia). apply Z.eqb_eq in F. exact F.
Qed.

Lemma rev16_in k : 0 <= k < 16 -> inb sam_n16TableRev k = true.
Proof.
  intros H. unfold inb. change (zlen sam_n16TableRev) with 16.
  apply andb_true_intro; split; [apply Z.leb_le|apply Z.ltb_lt]; lia.
Qed.

Lemma hi_nib x : 0 <= x < 16 -> u8 (Z.shiftl x 4) = x * 16.
Proof. intros H. rewrite Z.shiftl_mul_pow2 by lia. change (2 ^ 4) with 16. apply u8_small. change (2 ^ 8) with 256. lia. Qed.

Lemma nib_pair x y : 0 <= x < 16 -> 0 <= y < 16 ->
  Z.lor (x * 16) y = x * 16 + y.
Proof.
  intros Hx Hy. change 16 with (2 ^ 4). apply lor_high_low; [lia|change (2 ^ 4) with 16; lia].
Qed.

Lemma shr4 d : Z.shiftr d 4 = d / 16.
Proof. rewrite Z.shiftr_div_pow2 by lia. reflexivity. Qed.
Lemma and15 d : Z.land d 15 = d mod 16.
Proof. change 15 with (Z.ones 4). rewrite Z.land_ones by lia. reflexivity. Qed.

Lemma even_idx k : Z.shiftr (Z.of_nat (2 * k)) 1 = Z.of_nat k /\ Z.land (Z.of_nat (2 * k)) 1 = 0.
Proof.
  rewrite Z.shiftr_div_pow2 by lia. change (Z.land (Z.of_nat (2 * k)) 1) with (Z.land (Z.of_nat (2 * k)) (Z.ones 1)).
  rewrite Z.land_ones by lia. change (2 ^ 1) with 2. lia.
Qed.
Lemma odd_idx k : Z.shiftr (Z.of_nat (S (2 * k))) 1 = Z.of_nat k /\ Z.land (Z.of_nat (S (2 * k))) 1 = 1.
Proof.
  rewrite Z.shiftr_div_pow2 by lia. change (Z.land (Z.of_nat (S (2 * k))) 1) with (Z.land (Z.of_nat (S (2 * k))) (Z.ones 1)).
  rewrite Z.land_ones by lia. change (2 ^ 1) with 2. lia.
Qed.

Lemma inb_mid (pre : list Z) d rest : inb (pre ++ d :: rest) (Z.of_nat (length pre)) = true
  /\ getz (pre ++ d :: rest) (Z.of_nat (length pre)) = d.
Proof.
  split.
  - unfold inb, zlen. rewrite app_length. cbn [length]. apply andb_true_intro; split; [apply Z.leb_le|apply Z.ltb_lt]; lia.
  - unfold getz. rewrite Nat2Z.id. rewrite app_nth2 by lia. rewrite Nat.sub_diag. reflexivity.
Qed.

Definition canon_base (b : Z) : Z := getz sam_n16TableRev (getz sam_n16Table b).

Lemma list_pair_ind (P : list Z -> Prop) :
  P [] -> (forall a, P [a]) -> (forall a b t, P t -> P (a :: b :: t)) -> forall l, P l.
Proof.
  intros H0 H1 H2. fix IH 1. intros [|a [|b t]]; [exact H0|apply H1|apply H2, IH].
Qed.

Lemma expand_contract s : all_bytes s = true -> forall pre,
  expand_from (2 * length pre) (length s) (pre ++ contract s) = Ok (map canon_base s).
Proof.
  induction s as [|a|a b t IH] using list_pair_ind; intros Hb pre.
  - reflexivity.
  - apply all_bytes_cons in Hb. destruct Hb as [Ha _]. pose proof (tbl16 a Ha) as Ta.
    cbn [contract length expand_from]. destruct (even_idx (length pre)) as [E1 E2]. rewrite E1, E2.
    destruct (inb_mid pre (u8 (Z.shiftl (getz sam_n16Table a) 4)) []) as [I1 I2]. rewrite I1, I2. unfold chk.
    change (0 =? 0) with true. cbv iota. rewrite hi_nib, shr4 by assumption.
    replace (getz sam_n16Table a * 16 / 16) with (getz sam_n16Table a) by lia.
    rewrite rev16_in by assumption. reflexivity.
  - apply all_bytes_cons in Hb. destruct Hb as [Ha Hb]. apply all_bytes_cons in Hb. destruct Hb as [Hb Ht].
    pose proof (tbl16 a Ha) as Ta. pose proof (tbl16 b Hb) as Tb.
    cbn [contract length]. rewrite hi_nib, nib_pair by assumption.
    set (d := getz sam_n16Table a * 16 + getz sam_n16Table b).
    cbn [expand_from]. destruct (even_idx (length pre)) as [E1 E2]. rewrite E1, E2.
    destruct (inb_mid pre d (contract t)) as [I1 I2]. rewrite I1, I2. unfold chk.
    change (0 =? 0) with true. cbv iota. rewrite shr4.
    replace (d / 16) with (getz sam_n16Table a) by (unfold d; lia).
    rewrite rev16_in by assumption.
    destruct (odd_idx (length pre)) as [O1 O2]. rewrite O1, O2, I1, I2.
    change (1 =? 0) with false. cbv iota. rewrite and15.
    replace (d mod 16) with (getz sam_n16Table b) by (unfold d; lia).
    rewrite rev16_in by assumption.
    replace (S (S (2 * length pre))) with (2 * length (pre ++ [d]))%nat by (rewrite app_length; cbn [length]; lia).
    replace (pre ++ d :: contract t) with ((pre ++ [d]) ++ contract t) by (rewrite <- app_assoc; reflexivity).
    rewrite (IH Ht (pre ++ [d])). reflexivity.
Qed.

Lemma contract_len s : zlen (contract s) = (zlen s + 1) / 2.
Proof.
  induction s as [|a|a b t IH] using list_pair_ind.
  - reflexivity.
  - reflexivity.
  - cbn [contract]. rewrite !zlen_cons, IH. lia.
Qed.

Lemma contract_bytes s : all_bytes s = true -> all_bytes (contract s) = true.
Proof.
  induction s as [|a|a b t IH] using list_pair_ind; intros Hb.
  - reflexivity.
  - apply all_bytes_cons in Hb. destruct Hb as [Ha _]. pose proof (tbl16 a Ha).
    cbn [contract]. rewrite hi_nib by assumption. apply all_bytes_cons. split; [lia|reflexivity].
  - apply all_bytes_cons in Hb. destruct Hb as [Ha Hb]. apply all_bytes_cons in Hb. destruct Hb as [Hb Ht].
    pose proof (tbl16 a Ha). pose proof (tbl16 b Hb).
    cbn [contract]. rewrite hi_nib, nib_pair by assumption. apply all_bytes_cons. split; [lia|apply IH; assumption].
Qed.

(** The pad nybble NewSeq leaves after an odd-length sequence is zero. *)
Lemma contract_pad s : all_bytes s = true -> Z.odd (zlen s) = true -> last (contract s) 0 mod 16 = 0.
Proof.
  induction s as [|a|a b t IH] using list_pair_ind; intros Hb Ho.
  - discriminate Ho.
  - apply all_bytes_cons in Hb. destruct Hb as [Ha _]. pose proof (tbl16 a Ha).
    cbn [contract last]. rewrite hi_nib by assumption. lia.
  - apply all_bytes_cons in Hb. destruct Hb as [_ Hb]. apply all_bytes_cons in Hb. destruct Hb as [_ Ht].
    rewrite !zlen_cons in Ho. replace (1 + (1 + zlen t)) with (Z.succ (Z.succ (zlen t))) in Ho by lia.
    rewrite Z.odd_succ, Z.even_succ in Ho.
    cbn [contract]. specialize (IH Ht Ho).
    destruct (contract t) eqn:Ec; [|exact IH].
    exfalso. pose proof (contract_len t) as L. rewrite Ec, zlen_nil in L.
    assert (zlen t = 0) by (pose proof (zlen_nonneg t); lia). rewrite H in Ho. discriminate Ho.
Qed.

Theorem seq_roundtrip s : all_bytes s = true ->
  expand (zlen s) (contract s) = Ok (map (fun b => getz sam_n16TableRev (getz sam_n16Table b)) s)
  /\ zlen (contract s) = (zlen s + 1) / 2
  /\ all_bytes (contract s) = true.
Proof.
  intros Hb. split; [|split; [apply contract_len|apply contract_bytes; assumption]].
  unfold expand. replace (zlen s <? 0) with false by (symmetry; apply Z.ltb_ge; apply zlen_nonneg).
  unfold zlen. rewrite Nat2Z.id. exact (expand_contract s Hb []).
Qed.
