(** C05 — the encoder's bytes are the specification's bytes (Model/BamSpec.v)
    for the record read as specification values, up to the bin field. *)
From Coq Require Import ZArith Lia List Bool.
From Hts Require Import Base.Prim Base.Bits Generated Model.BamCodec Model.BamSpec Base.BytesLE
  Proofs.BamCodec Proofs.BamAux Proofs.BamRecord.
Import ListNotations.
Open Scope Z_scope.
Ltac Zify.zify_post_hook ::= Z.div_mod_to_equations.

(** * spec_le against le_put for the widths of the format *)
Lemma spec_le_1 v : spec_le 1 v = le_put 1 (v mod 2 ^ 8).
Proof.
  unfold spec_le. cbn [seq map le_put]. change (8 * Z.of_nat 1) with 8. change (8 * Z.of_nat 0) with 0.
  change (2 ^ 0) with 1. rewrite Z.div_1_r. reflexivity.
Qed.

Lemma spec_le_2 v : spec_le 2 v = le_put 2 (v mod 2 ^ 16).
Proof.
  unfold spec_le. cbn [seq map le_put]. change (8 * Z.of_nat 2) with 16. change (8 * Z.of_nat 0) with 0.
  change (8 * Z.of_nat 1) with 8. change (2 ^ 0) with 1. change (2 ^ 8) with 256. rewrite Z.div_1_r. reflexivity.
Qed.

Lemma spec_le_4 v : spec_le 4 v = le_put 4 (v mod 2 ^ 32).
Proof.
  unfold spec_le. cbn [seq map le_put]. change (8 * Z.of_nat 4) with 32. change (8 * Z.of_nat 0) with 0.
  change (8 * Z.of_nat 1) with 8. change (8 * Z.of_nat 2) with 16. change (8 * Z.of_nat 3) with 24.
  change (2 ^ 0) with 1. change (2 ^ 8) with 256. change (2 ^ 16) with 65536. change (2 ^ 24) with 16777216.
  set (x := v mod 2 ^ 32). rewrite Z.div_1_r.
  replace (x / 65536) with (x / 256 / 256) by lia.
  replace (x / 16777216) with (x / 256 / 256 / 256) by lia. reflexivity.
Qed.

Lemma spec_le_4_i32 x : spec_le 4 x = le_put 4 (u32 (s32 x)).
Proof. rewrite spec_le_4, u32_s32. reflexivity. Qed.

(** * Sequence *)
Lemma unpack_length n : forall dbl, zlen dbl = (Z.of_nat n + 1) / 2 -> length (unpack n dbl) = n.
Proof.
  induction n as [n IH] using lt_wf_ind. intros dbl H.
  destruct n as [|[|n]].
  - reflexivity.
  - destruct dbl; [rewrite zlen_nil in H; change (Z.of_nat 1) with 1 in H; lia|]. reflexivity.
  - destruct dbl as [|d t]; [exfalso; unfold zlen in H; cbn [length] in H; lia|].
    cbn [unpack length]. rewrite IH; [reflexivity|lia|].
    rewrite zlen_cons in H. lia.
Qed.

Lemma pack_unpack n : forall dbl,
  zlen dbl = (Z.of_nat n + 1) / 2 -> all_bytes dbl = true ->
  (if Z.odd (Z.of_nat n) then last dbl 0 mod 16 =? 0 else true) = true ->
  spec_pack (unpack n dbl) = dbl.
Proof.
  induction n as [n IH] using lt_wf_ind. intros dbl H Hb Hp.
  destruct n as [|[|n]].
  - destruct dbl; [reflexivity|]. rewrite zlen_cons in H. pose proof (zlen_nonneg dbl). change (Z.of_nat 0) with 0 in H. lia.
  - destruct dbl as [|d [|d' t]].
    + rewrite zlen_nil in H. change (Z.of_nat 1) with 1 in H. lia.
    + cbn [unpack spec_pack]. apply all_bytes_cons in Hb. destruct Hb as [Hd _].
      cbn [last] in Hp. change (Z.odd (Z.of_nat 1)) with true in Hp. cbv iota in Hp. apply Z.eqb_eq in Hp.
      f_equal. lia.
    + rewrite !zlen_cons in H. pose proof (zlen_nonneg t). change (Z.of_nat 1) with 1 in H. lia.
  - destruct dbl as [|d t]; [exfalso; rewrite zlen_nil in H; lia|].
    cbn [unpack spec_pack]. apply all_bytes_cons in Hb. destruct Hb as [Hd Ht].
    rewrite IH; [f_equal; lia|lia| |assumption|].
    + rewrite zlen_cons in H. lia.
    + replace (Z.odd (Z.of_nat n)) with (Z.odd (Z.of_nat (S (S n)))) by (rewrite !Nat2Z.inj_succ, !Z.odd_succ, Z.even_succ; reflexivity).
      destruct (Z.odd (Z.of_nat (S (S n)))) eqn:Eo; [|reflexivity].
      destruct t as [|d' t']; [|exact Hp].
      exfalso. rewrite zlen_cons, zlen_nil in H.
      assert (n = 0)%nat by lia. subst n. vm_compute in Eo. discriminate Eo.
Qed.

(** * CIGAR *)
Lemma spec_cigar c :
  forallb wf_cigar_op c = true ->
  flat_map (fun lo => spec_le 4 (fst lo * 16 + snd lo)) (map (fun op => (op / 16, op mod 16)) c) = cig_bytes c.
Proof.
  induction c as [|op t IH]; intros H; [reflexivity|].
  cbn [forallb] in H. apply andb_true_iff in H. destruct H as [Hop Ht].
  cbn [map flat_map fst snd]. unfold cig_bytes in *. cbn [flat_map]. rewrite IH by assumption.
  f_equal. rewrite spec_le_4. f_equal. unfold u32, wrapu. f_equal. lia.
Qed.

(** * Aux fields *)
Lemma type_size_width t : Z.of_nat (type_size t) = spec_width t.
Proof.
  unfold type_size, spec_width.
  destruct ((t =? 65) || (t =? 99) || (t =? 67)); [reflexivity|].
  destruct ((t =? 115) || (t =? 83)); [reflexivity|].
  destruct ((t =? 105) || (t =? 73) || (t =? 102)); reflexivity.
Qed.

Lemma type_size_cases t : 0 < spec_width t -> (type_size t = 1 \/ type_size t = 2 \/ type_size t = 4)%nat.
Proof.
  intros H. pose proof (type_size_width t) as E. unfold spec_width in *.
  destruct ((t =? 65) || (t =? 99) || (t =? 67)); [lia|].
  destruct ((t =? 115) || (t =? 83)); [lia|].
  destruct ((t =? 105) || (t =? 73) || (t =? 102)); lia.
Qed.

(** The two's complement bytes of the value read from [w] bytes are those bytes. *)
Lemma spec_le_interp t u :
  0 < spec_width t -> 0 <= u < 256 ^ Z.of_nat (type_size t) ->
  spec_le (type_size t) (interp t u) = le_put (type_size t) u.
Proof.
  intros Hw Hu. unfold interp.
  destruct (type_size_cases t Hw) as [E|[E|E]]; rewrite E in *;
    [rewrite spec_le_1|rewrite spec_le_2|rewrite spec_le_4]; f_equal;
    destruct (is_signed_type t);
    [ change (2 ^ (8 * Z.of_nat 1)) with 256; change (256 ^ Z.of_nat 1) with 256 in Hu; change (2 ^ 8) with 256;
      destruct (u <? 256 / 2); lia
    | change (256 ^ Z.of_nat 1) with 256 in Hu; change (2 ^ 8) with 256; lia
    | change (2 ^ (8 * Z.of_nat 2)) with 65536; change (256 ^ Z.of_nat 2) with 65536 in Hu; change (2 ^ 16) with 65536;
      destruct (u <? 65536 / 2); lia
    | change (256 ^ Z.of_nat 2) with 65536 in Hu; change (2 ^ 16) with 65536; lia
    | change (2 ^ (8 * Z.of_nat 4)) with 4294967296; change (256 ^ Z.of_nat 4) with 4294967296 in Hu; change (2 ^ 32) with 4294967296;
      destruct (u <? 4294967296 / 2); lia
    | change (256 ^ Z.of_nat 4) with 4294967296 in Hu; change (2 ^ 32) with 4294967296; lia ].
Qed.

Lemma split_join w : forall cnt data,
  all_bytes data = true -> length data = (cnt * w)%nat ->
  flat_map (le_put w) (split_le w cnt data) = data.
Proof.
  induction cnt as [|c IH]; intros data Hb Hl.
  - destruct data; [reflexivity|cbn in Hl; lia].
  - cbn [split_le flat_map].
    assert (Hf : length (firstn w data) = w) by (rewrite firstn_length; lia).
    rewrite <- Hf at 1. rewrite le_put_get by (apply all_bytes_firstn; assumption).
    rewrite IH; [apply firstn_skipn|apply all_bytes_skipn; assumption|rewrite skipn_length; lia].
Qed.

Lemma split_range w : forall cnt data,
  all_bytes data = true -> length data = (cnt * w)%nat ->
  Forall (fun u => 0 <= u < 256 ^ Z.of_nat w) (split_le w cnt data).
Proof.
  induction cnt as [|c IH]; intros data Hb Hl; [constructor|].
  cbn [split_le]. constructor.
  - assert (Hf : length (firstn w data) = w) by (rewrite firstn_length; lia).
    pose proof (le_get_range (firstn w data) (all_bytes_firstn w data Hb)) as R. rewrite Hf in R. exact R.
  - apply IH; [apply all_bytes_skipn; assumption|rewrite skipn_length; lia].
Qed.

Lemma split_length w cnt data : length (split_le w cnt data) = cnt.
Proof. revert data; induction cnt; intros; cbn [split_le length]; auto. Qed.

Lemma list3 (a : list Z) : 3 <= zlen a -> a = getz a 0 :: getz a 1 :: getz a 2 :: skipn 3 a.
Proof.
  intros H. destruct a as [|x [|y [|z t]]]; try (unfold zlen in H; cbn in H; lia). reflexivity.
Qed.

Lemma list8 (a : list Z) : 8 <= zlen a ->
  a = getz a 0 :: getz a 1 :: getz a 2 :: getz a 3 :: firstn 4 (skipn 4 a) ++ skipn 8 a.
Proof.
  intros H. destruct a as [|a0 [|a1 [|a2 [|a3 [|a4 [|a5 [|a6 [|a7 t]]]]]]]]; try (unfold zlen in H; cbn in H; lia).
  reflexivity.
Qed.

Lemma spec_aux_abs a : wf_aux a = true -> spec_aux (abs_aux a) = a ++ aux_term a.
Proof.
  intros Hwf. destruct (wf_aux_len a Hwf) as [H3 Hab].
  unfold wf_aux in Hwf. apply andb_true_iff in Hwf. destruct Hwf as [_ Hwf].
  unfold spec_aux, abs_aux, aux_term. cbn [a_tag1 a_tag2 a_val].
  set (t := getz a 2) in *.
  destruct (0 <? spec_width t) eqn:Hfix.
  - apply Z.ltb_lt in Hfix. apply Z.eqb_eq in Hwf.
    assert (HZ : (t =? 90) || (t =? 72) = false)
      by (destruct (spec_width_cases t Hfix) as [->|[->|[->|[->|[->|[->|[->| ->]]]]]]]; reflexivity).
    assert (HB : (t =? 66) = false)
      by (destruct (spec_width_cases t Hfix) as [->|[->|[->|[->|[->|[->|[->| ->]]]]]]]; reflexivity).
    rewrite HZ, HB. rewrite app_nil_r.
    assert (Hl : length (skipn 3 a) = type_size t).
    { rewrite skipn_length. pose proof (type_size_width t). unfold zlen in *. lia. }
    rewrite spec_le_interp; [|assumption|rewrite <- Hl; apply le_get_range; apply all_bytes_skipn; assumption].
    rewrite <- Hl. rewrite le_put_get by (apply all_bytes_skipn; assumption).
    cbn [app]. symmetry. apply list3. assumption.
  - destruct ((t =? 90) || (t =? 72)) eqn:HZ.
    + cbn [app]. rewrite (list3 a H3) at 4. cbn [app]. fold t. reflexivity.
    + destruct (t =? 66) eqn:HB; [|discriminate].
      apply Z.eqb_eq in HB.
      apply andb_true_iff in Hwf. destruct Hwf as [Hwf Hlen]. apply andb_true_iff in Hwf. destruct Hwf as [Hwf Hsub].
      apply andb_true_iff in Hwf. destruct Hwf as [H8 _].
      apply Z.leb_le in H8. apply Z.ltb_lt in Hsub. apply Z.eqb_eq in Hlen.
      rewrite app_nil_r.
      set (sub := getz a 3) in *. set (w := type_size sub).
      assert (Hw : Z.of_nat w = spec_width sub) by apply type_size_width.
      assert (Hhd : all_bytes (firstn 4 (skipn 4 a)) = true) by (apply all_bytes_firstn, all_bytes_skipn; assumption).
      assert (Hhl : length (firstn 4 (skipn 4 a)) = 4%nat) by (rewrite firstn_length, skipn_length; unfold zlen in H8; lia).
      change (zfirstn 4 (zskipn 4 a)) with (firstn 4 (skipn 4 a)) in Hlen.
      set (cnt := le_get (firstn 4 (skipn 4 a))) in *.
      assert (Hcr : 0 <= cnt < 2 ^ 32).
      { pose proof (le_get_range _ Hhd) as R. rewrite Hhl in R. exact R. }
      assert (Hdl : length (skipn 8 a) = (Z.to_nat cnt * w)%nat).
      { rewrite skipn_length. apply Nat2Z.inj.
        rewrite Nat2Z.inj_sub by (unfold zlen in H8; lia).
        rewrite Nat2Z.inj_mul, Z2Nat.id, Hw by lia. unfold zlen in Hlen. lia. }
      assert (Hdb : all_bytes (skipn 8 a) = true) by (apply all_bytes_skipn; assumption).
      unfold zlen. rewrite map_length, split_length. rewrite Z2Nat.id by lia.
      rewrite spec_le_4. rewrite Z.mod_small by lia.
      unfold cnt at 1. rewrite <- Hhl at 1. rewrite le_put_get by assumption.
      assert (Hfm : flat_map (spec_le w) (map (interp sub) (split_le w (Z.to_nat cnt) (skipn 8 a))) = skipn 8 a).
      { rewrite <- (split_join w (Z.to_nat cnt) (skipn 8 a) Hdb Hdl) at 2.
        pose proof (split_range w (Z.to_nat cnt) (skipn 8 a) Hdb Hdl) as R.
        induction R as [|u l Hu _ IHl]; [reflexivity|].
        cbn [map flat_map]. rewrite IHl. f_equal. unfold w. apply spec_le_interp; assumption. }
      rewrite Hfm.
      transitivity (getz a 0 :: getz a 1 :: t :: sub :: firstn 4 (skipn 4 a) ++ skipn 8 a); [rewrite HB; reflexivity|symmetry; exact (list8 a H8)].
Qed.

Lemma spec_aux_all aa tags :
  forallb wf_aux aa = true -> build_aux aa = Ok tags -> flat_map spec_aux (map abs_aux aa) = tags.
Proof.
  revert tags. induction aa as [|a t IH]; intros tags Hwf Hb.
  - cbn in Hb. injection Hb as <-. reflexivity.
  - cbn [forallb] in Hwf. apply andb_true_iff in Hwf. destruct Hwf as [Ha Ht].
    destruct (build_aux_ok t Ht) as [tg [Hbt _]]. destruct (wf_aux_len a Ha) as [H3 _].
    rewrite (build_aux_cons a t tg H3 Hbt) in Hb.
    assert (tags = a ++ aux_term a ++ tg) by congruence. subst tags.
    cbn [map flat_map]. rewrite (IH tg Ht Hbt), spec_aux_abs by assumption. rewrite <- app_assoc. reflexivity.
Qed.

(** * The whole record *)
Theorem encode_is_spec nrefs r :
  valid_rec nrefs r = true -> pad_ok r = true ->
  exists bin, 0 <= bin < 65536 /\ encode_record r = Ok (spec_encode (abs bin r)).
Proof.
  intros Hv Hpad. destruct (encode_valid nrefs r Hv) as [tags [bin [Hb [He Hl]]]].
  pose proof (valid_rec_props _ _ Hv) as V.
  exists (u16 bin). split; [apply u16_range|]. rewrite He. f_equal.
  assert (Hun : length (unpack (Z.to_nat (r_lseq r)) (r_seq r)) = Z.to_nat (r_lseq r)).
  { apply unpack_length. pose proof (vp_lseq _ _ V). rewrite Z2Nat.id by lia. apply (vp_seq_len _ _ V). }
  assert (Hbody : spec_body (abs (u16 bin) r) = body_of r tags bin).
  { unfold spec_body, body_of, abs.
    cbn [s_ref s_pos s_name s_mapq s_bin s_cigar s_flag s_mref s_mpos s_tlen s_seq s_qual s_aux].
    rewrite !spec_le_4_i32, !spec_le_1, !spec_le_2.
    assert (Hnc : zlen (map (fun op => (op / 16, op mod 16)) (r_cigar r)) = zlen (r_cigar r)) by (unfold zlen; rewrite map_length; reflexivity).
    rewrite Hnc.
    assert (Hls : zlen (unpack (Z.to_nat (r_lseq r)) (r_seq r)) = r_lseq r)
      by (unfold zlen; rewrite Hun; pose proof (vp_lseq _ _ V); lia).
    rewrite Hls. rewrite Hun.
    rewrite spec_cigar by apply (vp_cigar _ _ V).
    rewrite pack_unpack;
      [| pose proof (vp_lseq _ _ V); rewrite Z2Nat.id by lia; apply (vp_seq_len _ _ V)
       | apply (vp_seq_bytes _ _ V)
       | pose proof (vp_lseq _ _ V); rewrite Z2Nat.id by lia; exact Hpad ].
    rewrite (spec_aux_all _ tags (vp_aux _ _ V) Hb).
    change (match r_qual r with Some q => q | None => repeat 255 (Z.to_nat (r_lseq r)) end) with (qual_bytes r).
    change (2 ^ 8) with 256. change (2 ^ 16) with 65536.
    fold (wrapu 8 (zlen (r_name r) + 1)). fold (wrapu 8 (r_mapq r)).
    unfold u16 at 2, u8, u16, wrapu.
    change (2 ^ 16) with 65536. change (2 ^ 8) with 256.
    rewrite Z.mod_mod by lia. reflexivity. }
  unfold spec_encode. rewrite Hbody. f_equal.
  rewrite spec_le_4. f_equal. symmetry. apply Z.mod_small.
  rewrite Hl. pose proof (vp_size _ _ V). unfold block_size in *.
  pose proof (vp_name_len _ _ V). pose proof (zlen_nonneg (r_cigar r)). pose proof (zlen_nonneg (r_seq r)).
  pose proof (vp_lseq _ _ V).
  destruct (build_aux_ok _ (vp_aux _ _ V)) as [tg [_ [Htl _]]]. pose proof (zlen_nonneg tg). lia.
Qed.

(** Two values of the bin field change bytes 14..15 only. *)
Theorem spec_bin_only s b b' :
  0 <= b < 65536 -> 0 <= b' < 65536 ->
  mask_bin (spec_encode (set_bin b s)) = mask_bin (spec_encode (set_bin b' s)).
Proof.
  intros Hb Hb'. unfold mask_bin, spec_encode.
  assert (Hlen : forall x, zlen (spec_body (set_bin x s)) = zlen (spec_body (set_bin 0 s))).
  { intros x. unfold spec_body, set_bin. cbn [s_ref s_pos s_name s_mapq s_bin s_cigar s_flag s_mref s_mpos s_tlen s_seq s_qual s_aux].
    rewrite !zlen_app. rewrite !spec_le_2, !zlen_le_put. reflexivity. }
  rewrite (Hlen b), (Hlen b').
  unfold spec_body, set_bin. cbn [s_ref s_pos s_name s_mapq s_bin s_cigar s_flag s_mref s_mpos s_tlen s_seq s_qual s_aux].
  rewrite !spec_le_4, !spec_le_1, !spec_le_2.
  cbn [le_put app firstn skipn]. reflexivity.
Qed.

(** * sam.NewAux against the specification layout *)
Lemma aux_width_spec t : aux_width t = spec_width t.
Proof. reflexivity. Qed.

Lemma spec_le_mod t v :
  0 < spec_width t ->
  spec_le (type_size t) v = le_put (Z.to_nat (spec_width t)) (v mod 2 ^ (8 * spec_width t)).
Proof.
  intros Hw. pose proof (type_size_width t) as E.
  destruct (type_size_cases t Hw) as [H|[H|H]]; rewrite H in *; rewrite <- E;
    [rewrite spec_le_1|rewrite spec_le_2|rewrite spec_le_4]; reflexivity.
Qed.

Lemma flat_spec_le sub l :
  0 < spec_width sub ->
  flat_map (spec_le (type_size sub)) l
  = flat_map (fun x => le_put (Z.to_nat (spec_width sub)) (x mod 2 ^ (8 * spec_width sub))) l.
Proof.
  intros H. induction l as [|x tl IH]; [reflexivity|].
  cbn [flat_map]. rewrite spec_le_mod, IH by assumption. reflexivity.
Qed.

(** Every typed value except Hex: buildAux of the field NewAux makes is the
    specification's encoding of the value. *)
Theorem new_aux_spec_partial t1 t2 t sub v l :
  t <> 72 ->
  (0 < spec_width t \/ t = 90 \/ (t = 66 /\ 0 < spec_width sub /\ zlen l < 2 ^ 32)) ->
  build_aux [new_aux t1 t2 t sub v l] = Ok (spec_aux (mkSaux t1 t2 (typed_of t sub v l))).
Proof.
  intros Hne Hc. unfold new_aux, typed_of, spec_aux. change aux_width with spec_width. cbn [a_tag1 a_tag2 a_val].
  destruct Hc as [Hw|[->|[-> [Hs Hl]]]].
  - replace (0 <? spec_width t) with true by (symmetry; apply Z.ltb_lt; assumption).
    cbn [build_aux]. unfold chk, inb. rewrite !zlen_app, zlen_le_put.
    replace ((0 <=? 2) && (2 <? zlen [t1; t2; t] + Z.of_nat (Z.to_nat (spec_width t)))) with true
      by (symmetry; apply andb_true_intro; split; [reflexivity|apply Z.ltb_lt; change (zlen [t1; t2; t]) with 3; lia]).
    change (getz ([t1; t2; t] ++ _) 2) with t.
    assert (HZ : (t =? 90) || (t =? 72) = false)
      by (destruct (spec_width_cases t Hw) as [->|[->|[->|[->|[->|[->|[->| ->]]]]]]]; reflexivity).
    rewrite HZ. rewrite spec_le_mod by assumption. rewrite !app_nil_r. reflexivity.
  - change (0 <? spec_width 90) with false. cbv iota. change ((90 =? 90) || (90 =? 72)) with true. change (90 =? 90) with true. cbv iota.
    cbn [build_aux]. unfold chk, inb.
    replace ((0 <=? 2) && (2 <? zlen ([t1; t2; 90] ++ l))) with true
      by (symmetry; apply andb_true_intro; split; [reflexivity|apply Z.ltb_lt; rewrite zlen_app; change (zlen [t1; t2; 90]) with 3; pose proof (zlen_nonneg l); lia]).
    change (getz ([t1; t2; 90] ++ l) 2) with 90. change ((90 =? 90) || (90 =? 72)) with true. cbv iota.
    rewrite app_nil_r. rewrite <- !app_assoc. reflexivity.
  - change (0 <? spec_width 66) with false. cbv iota. change ((66 =? 90) || (66 =? 72)) with false. change (66 =? 90) with false. change (66 =? 72) with false. cbv iota.
    cbn [build_aux]. unfold chk, inb.
    replace ((0 <=? 2) && (2 <? zlen ([t1; t2; 66; sub] ++ le_put 4 (u32 (zlen l)) ++
         flat_map (fun x : Z => le_put (Z.to_nat (spec_width sub)) (x mod 2 ^ (8 * spec_width sub))) l))) with true
      by (symmetry; apply andb_true_intro; split; [reflexivity|apply Z.ltb_lt; rewrite zlen_app; change (zlen [t1; t2; 66; sub]) with 4;
          match goal with |- context [zlen (le_put ?a ?b ++ ?c)] => pose proof (zlen_nonneg (le_put a b ++ c)) end; lia]).
    change (getz ([t1; t2; 66; sub] ++ _) 2) with 66. change ((66 =? 90) || (66 =? 72)) with false. cbv iota.
    rewrite !app_nil_r. rewrite spec_le_4. pose proof (zlen_nonneg l).
    rewrite (u32_small (zlen l)) by lia. rewrite Z.mod_small by lia.
    rewrite flat_spec_le by assumption. reflexivity.
Qed.

(** Hex: NewAux stores the value bytes, the specification stores their hex text. *)
Theorem new_aux_hex_spec_refuted :
  exists t1 t2 l,
    build_aux [new_aux t1 t2 72 0 0 l] <> Ok (spec_aux (mkSaux t1 t2 (typed_of 72 0 0 l))).
Proof. exists 88, 72, [26]. vm_compute. discriminate. Qed.
