(** C05 — header frame and record loop: the whole stream reads back. *)
From Coq Require Import ZArith Lia List Bool.
From Hts Require Import Base.Prim Base.Bits Generated Model.BamCodec Base.BytesLE
  Proofs.BamCodec Proofs.BamAux Proofs.BamRecord.
Import ListNotations.
Open Scope Z_scope.
Ltac Zify.zify_post_hook ::= Z.div_mod_to_equations.

Lemma zlist_eqb_refl l : zlist_eqb l l = true.
Proof. induction l; [reflexivity|]. cbn [zlist_eqb]. rewrite Z.eqb_refl, IHl. reflexivity. Qed.

Lemma read_i32_prefix x rest :
  - 2 ^ 31 <= x < 2 ^ 31 ->
  s32 (le_get (zfirstn 4 (le_put 4 (u32 (s32 x)) ++ rest))) = x /\
  zskipn 4 (le_put 4 (u32 (s32 x)) ++ rest) = rest /\
  (zlen (le_put 4 (u32 (s32 x)) ++ rest) <? 4) = false.
Proof.
  intros H. rewrite zfirstn_app_n, zskipn_app_n by (rewrite zlen_le_put; reflexivity).
  rewrite le_get_put_small by (rewrite u32_s32; apply u32_range).
  rewrite u32_s32, s32_u32 by assumption. repeat split.
  apply Z.ltb_ge. rewrite zlen_app, zlen_le_put. pose proof (zlen_nonneg rest). lia.
Qed.

(** * Header frame *)
Lemma read_refs_enc refs rest :
  forallb (fun nl => all_bytes (fst nl) && nonzero_bytes (fst nl) && (zlen (fst nl) <? 2 ^ 31 - 1) && in_i32 (snd nl)) refs = true ->
  read_refs (length refs) (flat_map enc_ref refs ++ rest) = Ok (refs, rest).
Proof.
  induction refs as [|[nm l] t IH]; intros H; [reflexivity|].
  cbn [forallb fst snd] in H. apply andb_true_iff in H. destruct H as [H Ht].
  apply andb_true_iff in H. destruct H as [H Hl]. apply andb_true_iff in H. destruct H as [_ Hn].
  apply Z.ltb_lt in Hn. apply in_i32_iff in Hl.
  cbn [flat_map length read_refs].
  assert (HE : enc_ref (nm, l) = le_put 4 (u32 (s32 (zlen nm + 1))) ++ nm ++ [0] ++ le_put 4 (u32 (s32 l))) by reflexivity.
  rewrite HE. clear HE.
  rewrite <- !app_assoc.
  pose proof (zlen_nonneg nm) as Hnm.
  destruct (read_i32_prefix (zlen nm + 1) (nm ++ [0] ++ le_put 4 (u32 (s32 l)) ++ flat_map enc_ref t ++ rest)) as [A1 [A2 A3]]; [lia|].
  cbn [app] in *.
  rewrite A3, A1, A2.
  replace (zlen nm + 1 <? 1) with false by (symmetry; apply Z.ltb_ge; lia).
  replace (nm ++ 0 :: le_put 4 (u32 (s32 l)) ++ flat_map enc_ref t ++ rest)
    with ((nm ++ [0]) ++ le_put 4 (u32 (s32 l)) ++ flat_map enc_ref t ++ rest) by (rewrite <- app_assoc; reflexivity).
  assert (Hl1 : zlen (nm ++ [0]) = zlen nm + 1) by (rewrite zlen_app, zlen_cons, zlen_nil; lia).
  replace (zlen ((nm ++ [0]) ++ le_put 4 (u32 (s32 l)) ++ flat_map enc_ref t ++ rest) <? zlen nm + 1) with false
    by (symmetry; apply Z.ltb_ge; rewrite zlen_app, Hl1; pose proof (zlen_nonneg (le_put 4 (u32 (s32 l)) ++ flat_map enc_ref t ++ rest)); lia).
  rewrite zfirstn_app_n, zskipn_app_n by (symmetry; exact Hl1).
  replace (zlen nm + 1 - 1) with (zlen nm) by lia.
  assert (Hg : getz (nm ++ [0]) (zlen nm) = 0).
  { unfold getz, zlen. rewrite Nat2Z.id. rewrite app_nth2 by lia. rewrite Nat.sub_diag. reflexivity. }
  rewrite Hg. change (0 =? 0) with true. cbn [negb].
  destruct (read_i32_prefix l (flat_map enc_ref t ++ rest) Hl) as [B1 [B2 B3]].
  rewrite B3, B1, B2. rewrite (IH Ht). rewrite zfirstn_app. reflexivity.
Qed.

Theorem header_roundtrip h rest :
  valid_hdr h = true -> decode_header (encode_header h ++ rest) = Ok (h, rest).
Proof.
  unfold valid_hdr. intros H.
  apply andb_true_iff in H. destruct H as [H Hrefs]. apply andb_true_iff in H. destruct H as [H Hnr].
  apply andb_true_iff in H. destruct H as [_ Hlt]. apply Z.ltb_lt in Hlt, Hnr.
  unfold decode_header, encode_header. rewrite <- !app_assoc.
  assert (Hm : zlen sam_bamMagic = 4) by reflexivity.
  replace (zlen (sam_bamMagic ++ le_put 4 (u32 (s32 (zlen (h_text h)))) ++ h_text h ++
            le_put 4 (u32 (s32 (zlen (h_refs h)))) ++ flat_map enc_ref (h_refs h) ++ rest) <? 4) with false
    by (symmetry; apply Z.ltb_ge; rewrite zlen_app, Hm; match goal with |- context [zlen ?l] => pose proof (zlen_nonneg l) end; lia).
  rewrite zfirstn_app_n, zskipn_app_n by (symmetry; exact Hm).
  rewrite zlist_eqb_refl. cbn [negb].
  pose proof (zlen_nonneg (h_text h)). pose proof (zlen_nonneg (h_refs h)).
  destruct (read_i32_prefix (zlen (h_text h)) (h_text h ++ le_put 4 (u32 (s32 (zlen (h_refs h)))) ++ flat_map enc_ref (h_refs h) ++ rest)) as [A1 [A2 A3]]; [lia|].
  rewrite A3, A1, A2.
  replace (zlen (h_text h) <? 0) with false by (symmetry; apply Z.ltb_ge; lia).
  replace (zlen (h_text h ++ le_put 4 (u32 (s32 (zlen (h_refs h)))) ++ flat_map enc_ref (h_refs h) ++ rest) <? zlen (h_text h)) with false
    by (symmetry; apply Z.ltb_ge; rewrite zlen_app; match goal with |- context [zlen (le_put ?a ?b ++ ?l)] => pose proof (zlen_nonneg (le_put a b ++ l)) end; lia).
  rewrite zfirstn_app, zskipn_app.
  destruct (read_i32_prefix (zlen (h_refs h)) (flat_map enc_ref (h_refs h) ++ rest)) as [B1 [B2 B3]]; [lia|].
  rewrite B3, B1, B2.
  replace (zlen (h_refs h) <? 0) with false by (symmetry; apply Z.ltb_ge; lia).
  unfold zlen at 1. rewrite Nat2Z.id. rewrite read_refs_enc by assumption.
  destruct h; reflexivity.
Qed.

(** * Record loop *)
Lemma read_records_step nrefs r omit e f rest :
  valid_rec nrefs r = true -> encode_record r = Ok e ->
  read_records (S f) omit nrefs (e ++ rest)
  = (let '(rs, en) := read_records f omit nrefs rest in ((omit_view omit (canon r), false) :: rs, en)).
Proof.
  intros Hv He.
  destruct (encode_valid nrefs r Hv) as [tags [bin [Hb [He' Hl]]]].
  assert (Hee : e = le_put 4 (zlen (body_of r tags bin)) ++ body_of r tags bin) by congruence. subst e.
  pose proof (valid_rec_props _ _ Hv) as V.
  assert (Hbs : 34 <= block_size r < 2 ^ 31).
  { split; [|apply (vp_size _ _ V)]. unfold block_size.
    pose proof (vp_name_len _ _ V). pose proof (zlen_nonneg (r_cigar r)). pose proof (zlen_nonneg (r_seq r)).
    pose proof (vp_lseq _ _ V).
    destruct (build_aux_ok _ (vp_aux _ _ V)) as [tg [_ [Htl _]]]. pose proof (zlen_nonneg tg). lia. }
  set (body := body_of r tags bin) in *.
  cbn [read_records]. rewrite <- app_assoc.
  assert (Hz : zlen (le_put 4 (zlen body) ++ body ++ rest) = 4 + zlen body + zlen rest)
    by (rewrite !zlen_app, zlen_le_put; lia).
  pose proof (zlen_nonneg rest).
  replace (zlen (le_put 4 (zlen body) ++ body ++ rest) =? 0) with false by (symmetry; apply Z.eqb_neq; lia).
  replace (zlen (le_put 4 (zlen body) ++ body ++ rest) <? 4) with false by (symmetry; apply Z.ltb_ge; lia).
  rewrite zfirstn_app_n, zskipn_app_n by (rewrite zlen_le_put; reflexivity).
  rewrite le_get_put_small by (change (256 ^ Z.of_nat 4) with (2 ^ 32); lia).
  rewrite s32_small by lia.
  replace (zlen body =? 0) with false by (symmetry; apply Z.eqb_neq; lia).
  replace (zlen body <? 0) with false by (symmetry; apply Z.ltb_ge; lia).
  replace (zlen (body ++ rest) <? zlen body) with false by (symmetry; apply Z.ltb_ge; rewrite zlen_app; lia).
  rewrite zfirstn_app, zskipn_app.
  unfold body. rewrite (decode_body nrefs r omit _ tags bin Hv Hb). reflexivity.
Qed.

Lemma encode_records_len nrefs rs bs :
  forallb (valid_rec nrefs) rs = true -> encode_records rs = Ok bs -> (length rs <= length bs)%nat.
Proof.
  revert bs. induction rs as [|r t IH]; intros bs Hv He; [cbn; lia|].
  cbn [forallb] in Hv. apply andb_true_iff in Hv. destruct Hv as [Hr Ht].
  cbn [encode_records] in He.
  destruct (encode_valid nrefs r Hr) as [tags [bin [_ [Her _]]]]. rewrite Her in He. cbn [obind] in He.
  destruct (encode_records t) as [bt| | |] eqn:Et; cbn [obind] in He; try discriminate.
  assert (Hbs : bs = (le_put 4 (zlen (body_of r tags bin)) ++ body_of r tags bin) ++ bt) by congruence. subst bs.
  specialize (IH bt Ht eq_refl).
  rewrite !app_length, le_put_length. cbn [length]. lia.
Qed.

Theorem records_roundtrip nrefs omit rs : forall bs fuel,
  forallb (valid_rec nrefs) rs = true -> encode_records rs = Ok bs ->
  (length rs < fuel)%nat ->
  read_records fuel omit nrefs bs = (map (fun r => (omit_view omit (canon r), false)) rs, EndEOF).
Proof.
  induction rs as [|r t IH]; intros bs fuel Hv He Hf.
  - cbn [encode_records] in He. injection He as <-. destruct fuel; [inversion Hf|]. reflexivity.
  - cbn [forallb] in Hv. apply andb_true_iff in Hv. destruct Hv as [Hr Ht].
    cbn [encode_records] in He.
    destruct (encode_record r) as [e| | |] eqn:Er; cbn [obind] in He; try discriminate.
    destruct (encode_records t) as [bt| | |] eqn:Et; cbn [obind] in He; try discriminate.
    injection He as <-. destruct fuel; [inversion Hf|].
    rewrite (read_records_step nrefs r omit e fuel bt Hr Er).
    rewrite (IH bt fuel Ht eq_refl) by (cbn [length] in Hf; lia). reflexivity.
Qed.

(** Every valid header and list of valid records: the writer produces a
    stream, and the reader returns the header, the records in order (with the
    Omit mode applied) and a clean EOF. *)
Theorem stream_roundtrip h rs omit :
  valid_hdr h = true -> forallb (valid_rec (zlen (h_refs h))) rs = true ->
  exists bs,
    encode_stream h rs = Ok bs /\
    read_stream omit bs = Ok (h, (map (fun r => (omit_view omit (canon r), false)) rs, EndEOF)).
Proof.
  intros Hh Hv.
  assert (Henc : exists b, encode_records rs = Ok b).
  { clear Hh. induction rs as [|r t IH]; [eexists; reflexivity|].
    cbn [forallb] in Hv. apply andb_true_iff in Hv. destruct Hv as [Hr Ht].
    destruct (IH Ht) as [bt Hbt]. destruct (encode_valid _ r Hr) as [tags [bin [_ [Her _]]]].
    cbn [encode_records]. rewrite Her, Hbt. cbn [obind]. eexists; reflexivity. }
  destruct Henc as [b Hb]. exists (encode_header h ++ b). split.
  - unfold encode_stream. rewrite Hb. reflexivity.
  - unfold read_stream. rewrite (header_roundtrip h b Hh).
    rewrite (records_roundtrip (zlen (h_refs h)) omit rs b (S (length b)) Hv Hb); [reflexivity|].
    pose proof (encode_records_len _ rs b Hv Hb). lia.
Qed.
