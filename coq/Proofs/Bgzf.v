(** Framing lemmas: a member produced by writeBlock is read back by both
    specification readers; concatenations of members are walked correctly. *)
From Coq Require Import ZArith Lia List Bool.
From Hts Require Import Base.Prim Base.WrList Generated Model.Bgzf.
Import ListNotations.
Open Scope Z_scope.

Ltac Zify.zify_post_hook ::= Z.div_mod_to_equations.

Lemma zeqb_refl l : zeqb l l = true.
Proof. induction l; cbn; [reflexivity|]. rewrite Z.eqb_refl. assumption. Qed.

Lemma zeqb_eq a b : zeqb a b = true -> a = b.
Proof.
  revert b; induction a as [|x a IH]; destruct b as [|y b]; cbn; try discriminate; [reflexivity|].
  intros H. apply andb_prop in H. destruct H as [H1 H2]. apply Z.eqb_eq in H1. subst. f_equal. auto.
Qed.

Lemma prefixb_app p l : prefixb p (p ++ l) = true.
Proof. induction p; cbn; [reflexivity|]. rewrite Z.eqb_refl. assumption. Qed.

(** The header with explicit BSIZE bytes. *)
Definition gz_header_bs (lvl : Z) (h : gzhdr) (s0 s1 : Z) : list Z :=
  [31; 139; 8; gz_flg h] ++ le32 (gz_mtime h) ++ [gz_xfl lvl; h_os h mod 256]
  ++ le16 (zlen (gz_extra h)) ++ ([66; 67; 2; 0; s0; s1] ++ h_extra h) ++ zstr (h_name h) ++ zstr (h_comment h).

Lemma gz_header_is_bs lvl h : gz_header lvl h = gz_header_bs lvl h 0 0.
Proof. reflexivity. Qed.

Definition hdr_len (h : gzhdr) : Z := 18 + zlen (h_extra h) + zlen (zstr (h_name h)) + zlen (zstr (h_comment h)).

Lemma zlen_gz_header_bs lvl h s0 s1 : zlen (gz_header_bs lvl h s0 s1) = hdr_len h.
Proof.
  unfold gz_header_bs, hdr_len, le32, le16. cbn [app].
  repeat rewrite zlen_cons. repeat rewrite zlen_app'. lia.
Qed.

Lemma zlen_gz_extra h : zlen (gz_extra h) = 6 + zlen (h_extra h).
Proof. unfold gz_extra. rewrite zlen_app'. reflexivity. Qed.

Lemma zlen_le32 x : zlen (le32 x) = 4.
Proof. reflexivity. Qed.

(** ---- parsing, independent of the codec ------------------------------- *)
Section Parse.
  Lemma take_app a b : take (zlen a) (a ++ b) = Some (a, b).
  Proof.
    unfold take. pose proof (zlen_nonneg a). pose proof (zlen_nonneg b).
    rewrite zlen_app'.
    replace ((0 <=? zlen a) && (zlen a <=? zlen a + zlen b)) with true
      by (symmetry; apply andb_true_intro; split; apply Z.leb_le; lia).
    rewrite firstn_zlen_app, skipn_zlen_app. reflexivity.
  Qed.

  Lemma take_app_n n a b : n = zlen a -> take n (a ++ b) = Some (a, b).
  Proof. intros ->. apply take_app. Qed.

  Lemma take_zstr_app s r : s <> [] -> latin1_ok s = true -> take_zstr (zstr s ++ r) = Some (s, r).
  Proof.
    intros Hne Hok. unfold zstr. destruct s as [|x s]; [congruence|]. cbn [isnil]. clear Hne.
    revert Hok. generalize (x :: s). clear x s. intros s.
    induction s as [|y s IH]; intros Hok.
    - cbn. reflexivity.
    - cbn [latin1_ok forallb] in Hok. apply andb_prop in Hok. destruct Hok as [Hy Hs].
      apply andb_prop in Hy. destruct Hy as [Hy _]. apply Z.ltb_lt in Hy.
      cbn [app take_zstr]. replace (y =? 0) with false by (symmetry; apply Z.eqb_neq; lia).
      unfold latin1_ok in IH. rewrite (IH Hs). reflexivity.
  Qed.

  Definition hdr_legal (h : gzhdr) : Prop := hdr_err h = false.

  Lemma hdr_legal_parts h : hdr_legal h ->
    zlen (gz_extra h) <= 65535 /\ latin1_ok (h_name h) = true /\ latin1_ok (h_comment h) = true.
  Proof.
    unfold hdr_legal, hdr_err. intros H.
    apply orb_false_elim in H. destruct H as [H H3]. apply orb_false_elim in H. destruct H as [H1 H2].
    apply Z.ltb_ge in H1. apply negb_false_iff in H2. apply negb_false_iff in H3. auto.
  Qed.

  Lemma parse_zstr_flag (s r : list Z) (flag : bool) :
    latin1_ok s = true -> flag = negb (isnil s) ->
    (if flag then take_zstr (zstr s ++ r) else Some ([], zstr s ++ r)) = Some (s, r).
  Proof.
    intros Hok ->. destruct s as [|x s]; [reflexivity|].
    cbn [isnil negb]. apply take_zstr_app; [discriminate|assumption].
  Qed.

  Lemma parse_gz_header_ok lvl h s0 s1 body :
    hdr_legal h ->
    parse_gz_header (gz_header_bs lvl h s0 s1 ++ body)
    = Some (gz_flg h, [66; 67; 2; 0; s0; s1] ++ h_extra h, body).
  Proof.
    intros Hl. destruct (hdr_legal_parts h Hl) as (Hx & Hn & Hc).
    pose proof (zlen_nonneg (h_extra h)) as Hnn. rewrite zlen_gz_extra in Hx.
    set (E := [66; 67; 2; 0; s0; s1] ++ h_extra h).
    set (L := zlen (gz_extra h)).
    assert (Hshape : gz_header_bs lvl h s0 s1 ++ body =
       31 :: 139 :: 8 :: gz_flg h :: gz_mtime h mod 256 :: (gz_mtime h / 256) mod 256
       :: (gz_mtime h / 65536) mod 256 :: (gz_mtime h / 16777216) mod 256 :: gz_xfl lvl :: h_os h mod 256
       :: L mod 256 :: (L / 256) mod 256 :: E ++ (zstr (h_name h) ++ (zstr (h_comment h) ++ body))).
    { unfold gz_header_bs, le32, le16. fold E. fold L. cbn [app]. rewrite <- !app_assoc. reflexivity. }
    rewrite Hshape. unfold parse_gz_header.
    assert (Hflg : gz_flg h < 32 /\ testbit (gz_flg h) 4 = true /\ testbit (gz_flg h) 2 = false
                   /\ testbit (gz_flg h) 8 = negb (isnil (h_name h))
                   /\ testbit (gz_flg h) 16 = negb (isnil (h_comment h))).
    { unfold gz_flg, testbit. destruct (isnil (h_name h)), (isnil (h_comment h)); cbn; repeat split; lia. }
    destruct Hflg as (F1 & F2 & F3 & F4 & F5).
    replace ((31 =? 31) && (139 =? 139) && (8 =? 8) && (gz_flg h <? 32)) with true
      by (symmetry; cbn; apply Z.ltb_lt; assumption).
    rewrite F2.
    assert (HL : L mod 256 + 256 * ((L / 256) mod 256) = zlen E).
    { subst L E. rewrite zlen_gz_extra. rewrite zlen_app'. change (zlen [66; 67; 2; 0; s0; s1]) with 6. lia. }
    rewrite HL.
    rewrite (take_app E).
    rewrite F4.
    rewrite (parse_zstr_flag (h_name h) _ _ Hn eq_refl).
    rewrite F5.
    rewrite (parse_zstr_flag (h_comment h) _ _ Hc eq_refl).
    rewrite F3. reflexivity.
  Qed.

  Lemma walk_concat (one : list Z -> option (list Z * list Z)) :
    forall ms ps fuel tail dt,
      Forall2 (fun m p => m <> [] /\ forall r, one (m ++ r) = Some (p, r)) ms ps ->
      (length ms < fuel)%nat ->
      walk one (fuel - length ms) tail = Some dt ->
      walk one fuel (concat ms ++ tail) = Some (concat ps ++ dt).
  Proof.
    intros ms ps fuel tail dt HF. revert fuel.
    induction HF as [|m p ms ps [Hne Hone] HF IH]; intros fuel Hlt Ht.
    - cbn in *. rewrite Nat.sub_0_r in Ht. assumption.
    - cbn [length] in Hlt, Ht. destruct fuel as [|fuel]; [lia|].
      cbn [concat walk]. rewrite <- app_assoc.
      replace (isnil (m ++ concat ms ++ tail)) with false by (destruct m; [congruence|reflexivity]).
      rewrite Hone. rewrite (IH fuel); [|lia|].
      + rewrite <- app_assoc. reflexivity.
      + replace (fuel - length ms)%nat with (S fuel - S (length ms))%nat by lia. assumption.
  Qed.

  Lemma walk_nil one fuel : (0 < fuel)%nat -> walk one fuel [] = Some [].
  Proof. destruct fuel; [lia|reflexivity]. Qed.

  Lemma length_concat_ge (ms : list (list Z)) :
    Forall (fun m => m <> []) ms -> (length ms <= length (concat ms))%nat.
  Proof.
    induction 1 as [|m ms Hm _ IH]; cbn; [lia|]. rewrite app_length.
    destruct m; [congruence|]. cbn. lia.
  Qed.

  Lemma patch_16_17 (pre rest : list Z) (v0 v1 : Z) :
    zlen pre = 12 ->
    updz (updz (pre ++ [66; 67; 2; 0; 0; 0] ++ rest) (12 + 4) v0) (12 + 5) v1
    = pre ++ [66; 67; 2; 0; v0; v1] ++ rest.
  Proof.
    intros H. unfold zlen in H.
    destruct pre as [|a0 [|a1 [|a2 [|a3 [|a4 [|a5 [|a6 [|a7 [|a8 [|a9 [|a10 [|a11 [|a12 pre]]]]]]]]]]]]];
      cbn [length] in H; try lia.
    reflexivity.
  Qed.

  Definition hdr_small (h : gzhdr) : Prop := hdr_len h <= 217.

  (** What the proofs need from the back-patch: it hits offset 12. *)
  Definition patch_at_12 (pm : wr_patch) (guard : bool) : Prop :=
    forall pre x0 x1 rest, zlen pre = 12 ->
      patch_pos pm guard (pre ++ [66; 67; 2; 0; x0; x1] ++ rest) = Some 12.

  Definition pre12 (lvl : Z) (h : gzhdr) : list Z :=
    [31; 139; 8; gz_flg h] ++ le32 (gz_mtime h) ++ [gz_xfl lvl; h_os h mod 256] ++ le16 (zlen (gz_extra h)).

End Parse.

Section Member.
  Variable deflate : Z -> list Z -> list Z.
  Variable crc32 : list Z -> Z.

  Lemma zlen_gz_trailer p : zlen (gz_trailer crc32 p) = 8.
  Proof. reflexivity. Qed.

  (** A member with explicit BSIZE bytes. *)
  Definition member_bs (lvl : Z) (h : gzhdr) (s0 s1 : Z) (p : list Z) : list Z :=
    gz_header_bs lvl h s0 s1 ++ deflate lvl p ++ gz_trailer crc32 p.

  Lemma zlen_member_bs lvl h s0 s1 p :
    zlen (member_bs lvl h s0 s1 p) = hdr_len h + zlen (deflate lvl p) + 8.
  Proof. unfold member_bs. rewrite !zlen_app', zlen_gz_header_bs, zlen_gz_trailer. lia. Qed.

  Lemma raw_member_shape lvl h p :
    raw_member deflate crc32 lvl h p
    = pre12 lvl h ++ [66; 67; 2; 0; 0; 0]
      ++ (h_extra h ++ zstr (h_name h) ++ zstr (h_comment h)) ++ deflate lvl p ++ gz_trailer crc32 p.
  Proof.
    unfold raw_member, gz_header, pre12, gz_extra, bgzf_bgzfExtra. rewrite <- !app_assoc. reflexivity.
  Qed.

  Lemma member_bs_shape lvl h s0 s1 p :
    member_bs lvl h s0 s1 p
    = pre12 lvl h ++ [66; 67; 2; 0; s0; s1]
      ++ (h_extra h ++ zstr (h_name h) ++ zstr (h_comment h)) ++ deflate lvl p ++ gz_trailer crc32 p.
  Proof.
    unfold member_bs, gz_header_bs, pre12. rewrite <- !app_assoc. reflexivity.
  Qed.

  Lemma zlen_raw_member lvl h p :
    zlen (raw_member deflate crc32 lvl h p) = hdr_len h + zlen (deflate lvl p) + 8.
  Proof.
    unfold raw_member. rewrite !zlen_app', gz_header_is_bs, zlen_gz_header_bs, zlen_gz_trailer. lia.
  Qed.

  Definition bsize_of (lvl : Z) (h : gzhdr) (p : list Z) : Z := hdr_len h + zlen (deflate lvl p) + 8 - 1.

  Definition member_of (lvl : Z) (h : gzhdr) (p : list Z) : list Z :=
    member_bs lvl h (bsize_of lvl h p mod 256) ((bsize_of lvl h p / 256) mod 256) p.

  Lemma zlen_member_of lvl h p : zlen (member_of lvl h p) = bsize_of lvl h p + 1.
  Proof. unfold member_of. rewrite zlen_member_bs. unfold bsize_of. lia. Qed.

  Lemma member_of_nonempty lvl h p : member_of lvl h p <> [].
  Proof.
    intros H. pose proof (zlen_member_of lvl h p) as Hz. rewrite H in Hz. cbn in Hz.
    unfold bsize_of in Hz. pose proof (zlen_nonneg (deflate lvl p)).
    unfold hdr_len in Hz. pose proof (zlen_nonneg (h_extra h)). pose proof (zlen_nonneg (zstr (h_name h))).
    pose proof (zlen_nonneg (zstr (h_comment h))). lia.
  Qed.

  (** writeBlock for any header and any block: what the size check does. *)
  Lemma member_bs_fields lvl h s0 s1 p :
    firstn 4 (skipn 12 (member_bs lvl h s0 s1 p)) = [66; 67; 2; 0]
    /\ getz (member_bs lvl h s0 s1 p) 16 = s0 /\ getz (member_bs lvl h s0 s1 p) 17 = s1.
  Proof.
    rewrite member_bs_shape. unfold pre12, le32, le16. cbn [app]. unfold getz.
    change (Z.to_nat 16) with 16%nat. change (Z.to_nat 17) with 17%nat. cbn [nth skipn firstn]. auto.
  Qed.

  Lemma write_block_spec pm guard ovf lvl h p :
    patch_at_12 pm guard -> hdr_err h = false ->
    write_block deflate crc32 pm guard ovf lvl h [] p =
      let size := zlen (raw_member deflate crc32 lvl h p) - 1 in
      if ovf && (bgzf_MaxBlockSize <=? size) then Err 5
      else Ok (member_bs lvl h (size mod 256) ((size / 256) mod 256) p).
  Proof.
    intros Hpa Hl. unfold write_block. rewrite Hl. cbn [app]. unfold finish_block.
    rewrite raw_member_shape at 1.
    assert (H12 : zlen (pre12 lvl h) = 12) by reflexivity.
    rewrite (Hpa (pre12 lvl h) 0 0 _ H12). cbv zeta.
    destruct (ovf && (bgzf_MaxBlockSize <=? zlen (raw_member deflate crc32 lvl h p) - 1)); [reflexivity|].
    rewrite raw_member_shape at 1. rewrite patch_16_17 by assumption.
    rewrite member_bs_shape. reflexivity.
  Qed.

End Member.

Section Bound.
  Variable deflate : Z -> list Z -> list Z.
  Variable crc32 : list Z -> Z.
  Hypothesis deflate_bound : forall l d,
    zlen (deflate l d) <= zlen d + zlen d / 2^12 + zlen d / 2^14 + zlen d / 2^25 + 13.
  Local Notation bsize_of := (bsize_of deflate).
  Local Notation member_of := (member_of deflate crc32).
  Local Notation member_bs := (member_bs deflate crc32).

  Lemma bsize_small lvl h p :
    hdr_small h -> zlen p <= bgzf_BlockSize -> 0 <= bsize_of lvl h p < 65536.
  Proof.
    intros Hs Hp. unfold bsize_of, hdr_small in *.
    pose proof (deflate_bound lvl p) as Hb.
    change (2 ^ 12) with 4096 in Hb. change (2 ^ 14) with 16384 in Hb. change (2 ^ 25) with 33554432 in Hb.
    pose proof (zlen_nonneg p). pose proof (zlen_nonneg (deflate lvl p)).
    unfold bgzf_BlockSize in Hp.
    assert (0 <= hdr_len h).
    { unfold hdr_len. pose proof (zlen_nonneg (h_extra h)). pose proof (zlen_nonneg (zstr (h_name h))).
      pose proof (zlen_nonneg (zstr (h_comment h))). lia. }
    lia.
  Qed.

  Lemma write_block_ok pm guard ovf lvl h p :
    patch_at_12 pm guard -> hdr_legal h -> hdr_small h -> zlen p <= bgzf_BlockSize ->
    write_block deflate crc32 pm guard ovf lvl h [] p = Ok (member_of lvl h p).
  Proof.
    intros Hpa Hl Hs Hp. unfold write_block. rewrite Hl. cbn [app]. unfold finish_block.
    rewrite raw_member_shape.
    assert (H12 : zlen (pre12 lvl h) = 12) by reflexivity.
    rewrite (Hpa (pre12 lvl h) 0 0 _ H12).
    rewrite <- raw_member_shape. rewrite zlen_raw_member.
    fold (bsize_of lvl h p).
    pose proof (bsize_small lvl h p Hs Hp) as Hb.
    replace (bgzf_MaxBlockSize <=? bsize_of lvl h p) with false
      by (symmetry; apply Z.leb_gt; unfold bgzf_MaxBlockSize; lia).
    rewrite andb_false_r.
    rewrite raw_member_shape. rewrite patch_16_17 by assumption.
    unfold member_of. rewrite member_bs_shape. reflexivity.
  Qed.

  Lemma member_of_fields lvl h p :
    hdr_small h -> zlen p <= bgzf_BlockSize ->
    firstn 4 (skipn 12 (member_of lvl h p)) = [66; 67; 2; 0]
    /\ getz (member_of lvl h p) 16 + 256 * getz (member_of lvl h p) 17 = zlen (member_of lvl h p) - 1
    /\ zlen (member_of lvl h p) <= 65536.
  Proof.
    intros Hs Hp. pose proof (bsize_small lvl h p Hs Hp) as Hb.
    rewrite zlen_member_of. unfold member_of at 1 2 3. rewrite member_bs_shape.
    unfold pre12, le32, le16. cbn [app]. unfold getz.
    change (Z.to_nat 16) with 16%nat. change (Z.to_nat 17) with 17%nat.
    cbn [nth skipn firstn].
    repeat split; try lia.
  Qed.

End Bound.

Section Inverse.
  Variable deflate : Z -> list Z -> list Z.
  Variable inflate : list Z -> option (list Z * list Z).
  Variable crc32 : list Z -> Z.
  Hypothesis inflate_deflate : forall l d rest, inflate (deflate l d ++ rest) = Some (d, rest).
  Local Notation member_of := (member_of deflate crc32).
  Local Notation member_bs := (member_bs deflate crc32).

  Lemma gunzip_member_ok lvl h s0 s1 p rest :
    hdr_legal h ->
    gunzip_member inflate crc32 (member_bs lvl h s0 s1 p ++ rest) = Some (p, rest).
  Proof.
    intros Hl. unfold gunzip_member, member_bs.
    rewrite <- !app_assoc. rewrite (parse_gz_header_ok lvl h s0 s1 _ Hl).
    rewrite inflate_deflate.
    rewrite (take_app_n 8 (gz_trailer crc32 p) rest) by reflexivity.
    rewrite zeqb_refl. reflexivity.
  Qed.

  Lemma bgzf_member_ok lvl h s0 s1 p rest :
    hdr_legal h -> 0 <= s0 < 256 -> 0 <= s1 < 256 ->
    s0 + 256 * s1 = zlen (member_bs lvl h s0 s1 p) - 1 ->
    bgzf_member inflate crc32 (member_bs lvl h s0 s1 p ++ rest) = Some (p, rest).
  Proof.
    intros Hl H0 H1 Hs. unfold bgzf_member.
    assert (Hp : parse_gz_header (member_bs lvl h s0 s1 p ++ rest)
                 = Some (gz_flg h, [66; 67; 2; 0; s0; s1] ++ h_extra h,
                         deflate lvl p ++ gz_trailer crc32 p ++ rest)).
    { unfold member_bs. rewrite <- !app_assoc. apply parse_gz_header_ok. assumption. }
    rewrite Hp.
    assert (Hf : find_bc (length ([66; 67; 2; 0; s0; s1] ++ h_extra h)) ([66; 67; 2; 0; s0; s1] ++ h_extra h)
                 = Some (s0 + 256 * s1)).
    { cbn [app length find_bc]. change (2 + 256 * 0) with 2.
      change (s0 :: s1 :: h_extra h) with ([s0; s1] ++ h_extra h).
      rewrite (take_app_n 2 [s0; s1] (h_extra h)) by reflexivity.
      reflexivity. }
    rewrite Hf.
    rewrite (take_app_n (s0 + 256 * s1 + 1) (member_bs lvl h s0 s1 p) rest) by lia.
    rewrite <- (app_nil_r (member_bs lvl h s0 s1 p)) at 1.
    rewrite gunzip_member_ok by assumption. reflexivity.
  Qed.

  Lemma member_of_gunzip lvl h p rest :
    hdr_legal h -> gunzip_member inflate crc32 (member_of lvl h p ++ rest) = Some (p, rest).
  Proof. intros Hl. unfold member_of. apply gunzip_member_ok. assumption. Qed.

  Hypothesis deflate_bound : forall l d,
    zlen (deflate l d) <= zlen d + zlen d / 2^12 + zlen d / 2^14 + zlen d / 2^25 + 13.

  Lemma member_of_bgzf lvl h p rest :
    hdr_legal h -> hdr_small h -> zlen p <= bgzf_BlockSize ->
    bgzf_member inflate crc32 (member_of lvl h p ++ rest) = Some (p, rest).
  Proof.
    intros Hl Hs Hp. assert (Hb : 0 <= bsize_of deflate lvl h p < 65536) by (eapply bsize_small; eassumption).
    unfold Bgzf.member_of. apply bgzf_member_ok; try assumption; try lia.
    rewrite zlen_member_bs. unfold bsize_of in *. lia.
  Qed.
End Inverse.

Section Eof.
  Variable inflate : list Z -> option (list Z * list Z).
  Variable crc32 : list Z -> Z.
  Hypothesis inflate_empty : forall rest, inflate (3 :: 0 :: rest) = Some ([], rest).
  Hypothesis crc32_nil : crc32 [] = 0.

  Lemma magic_shape :
    bgzf_magicBlock = gz_header_bs 0 default_hdr 27 0 ++ [3; 0] ++ [0; 0; 0; 0; 0; 0; 0; 0].
  Proof. reflexivity. Qed.

  Lemma default_legal : hdr_legal default_hdr.
  Proof. reflexivity. Qed.

  Lemma gunzip_magic rest : gunzip_member inflate crc32 (bgzf_magicBlock ++ rest) = Some ([], rest).
  Proof.
    unfold gunzip_member. rewrite magic_shape. rewrite <- !app_assoc.
    rewrite (parse_gz_header_ok 0 default_hdr 27 0 _ default_legal).
    cbn [app]. rewrite inflate_empty.
    change (0 :: 0 :: 0 :: 0 :: 0 :: 0 :: 0 :: 0 :: rest) with ([0; 0; 0; 0; 0; 0; 0; 0] ++ rest).
    rewrite (take_app_n 8 [0; 0; 0; 0; 0; 0; 0; 0] rest) by reflexivity.
    unfold gz_trailer. rewrite crc32_nil. reflexivity.
  Qed.

  Lemma bgzf_magic rest : bgzf_member inflate crc32 (bgzf_magicBlock ++ rest) = Some ([], rest).
  Proof.
    unfold bgzf_member.
    assert (Hp : parse_gz_header (bgzf_magicBlock ++ rest)
                 = Some (gz_flg default_hdr, [66; 67; 2; 0; 27; 0] ++ h_extra default_hdr,
                         [3; 0] ++ [0; 0; 0; 0; 0; 0; 0; 0] ++ rest)).
    { rewrite magic_shape. rewrite <- !app_assoc. apply parse_gz_header_ok. apply default_legal. }
    rewrite Hp.
    replace (find_bc (length ([66; 67; 2; 0; 27; 0] ++ h_extra default_hdr)) ([66; 67; 2; 0; 27; 0] ++ h_extra default_hdr))
      with (Some 27) by reflexivity.
    rewrite (take_app_n (27 + 1) bgzf_magicBlock rest) by reflexivity.
    rewrite <- (app_nil_r bgzf_magicBlock) at 1. rewrite gunzip_magic. reflexivity.
  Qed.

End Eof.
