(** C16: proofs about the bin functions (BAI fixed scheme and CSI). *)
From Coq Require Import ZArith Lia List Bool.
From Hts Require Import Base.Prim Base.Bits Base.BinArith Generated
  Model.SamSpecArith Model.Cigar Model.Bins.
Import ListNotations.
Open Scope Z_scope.

(** ** Ranges *)
Lemma count_up_zcount b n : count_up b n = zcount b n.
Proof. revert b; induction n; intros; simpl; [reflexivity|]. rewrite IHn. reflexivity. Qed.

Lemma zrange_zcount b n : zrange b n = zcount b n.
Proof. revert b; induction n; intros; simpl; [reflexivity|]. rewrite IHn. reflexivity. Qed.

Lemma In_range_incl x lo hi : In x (range_incl lo hi) <-> lo <= x <= hi.
Proof.
  unfold range_incl. change (count_up lo (Z.to_nat (hi - lo + 1))) with (zcount lo (Z.to_nat (hi - lo + 1))).
  rewrite In_zcount. lia.
Qed.

Lemma NoDup_range_incl lo hi : NoDup (range_incl lo hi).
Proof. unfold range_incl. exact (NoDup_zcount lo (Z.to_nat (hi - lo + 1))). Qed.

Lemma loop_u32_spec b e : e < 2 ^ 32 - 1 -> loop_u32 b e = Ok (range_incl b e).
Proof.
  intros H. unfold loop_u32. destruct (Z.eqb_spec e (2 ^ 32 - 1)) as [E|E]; [lia|].
  reflexivity.
Qed.

Lemma shiftr_le_pow (a s k : Z) : 0 <= s -> 0 <= k -> a <= 2 ^ (s + k) -> Z.shiftr a s <= 2 ^ k.
Proof.
  intros Hs Hk H. rewrite shiftr_div by assumption.
  apply Z.div_le_upper_bound; [apply Z.pow_pos_nonneg; lia|].
  rewrite <- Z.pow_add_r by lia. assumption.
Qed.

Lemma shiftr_ge_m1 (a s : Z) : 0 <= s -> -1 <= a -> -1 <= Z.shiftr a s.
Proof. intros Hs H. rewrite <- (shiftr_neg1 s Hs). apply shiftr_mono; assumption. Qed.

Lemma shiftr_lt_same (a s k : Z) : 0 <= s -> 0 <= k -> a < 2 ^ k -> Z.shiftr a s < 2 ^ k.
Proof.
  intros Hs Hk H. rewrite shiftr_div by assumption.
  assert (0 < 2 ^ s) by (apply Z.pow_pos_nonneg; lia).
  assert (0 < 2 ^ k) by (apply Z.pow_pos_nonneg; lia).
  apply Z.div_lt_upper_bound; [assumption|]. nia.
Qed.

(** [offset + uint32(x >> shift)] does not wrap for coordinates below 2^31. *)
Lemma bin_nowrap off x s :
  0 <= s -> 1 <= off < 2 ^ 31 -> -1 <= x < 2 ^ 31 ->
  u32 (off + u32 (Z.shiftr x s)) = off + Z.shiftr x s.
Proof.
  intros Hs Ho Hx. apply u32_add_small.
  pose proof (shiftr_ge_m1 x s Hs ltac:(lia)).
  pose proof (shiftr_lt_same x s 31 Hs ltac:(lia) ltac:(lia)). lia.
Qed.

(** ** BAI: BinFor is the reg2bin of SAMv1 5.3 *)
Lemma binfor_is_spec_gen b e :
  -1 <= b < 2 ^ 31 -> internal_BinFor b e = Ok (spec_reg2bin b e).
Proof.
  intros Hb. unfold internal_BinFor, spec_reg2bin. cbv zeta.
  change ((Z.shiftl 1 15 - 1) / 7) with 4681.
  change ((Z.shiftl 1 12 - 1) / 7) with 585.
  change ((Z.shiftl 1 9 - 1) / 7) with 73.
  change ((Z.shiftl 1 6 - 1) / 7) with 9.
  change ((Z.shiftl 1 3 - 1) / 7) with 1.
  repeat match goal with
  | |- context [if ?c then _ else _] => destruct c
  end; try reflexivity; rewrite bin_nowrap by lia; reflexivity.
Qed.

(** ** BAI: OverlappingBinsFor is the reg2bins of SAMv1 5.3 *)
Fixpoint spec_levels (ls : list (Z * Z)) (beg e : Z) : list Z :=
  match ls with
  | [] => []
  | (off, sh) :: tl =>
      range_incl (off + Z.shiftr beg sh) (off + Z.shiftr e sh) ++ spec_levels tl beg e
  end.

Definition level_ok (p : Z * Z) : Prop := 1 <= fst p < 2 ^ 31 /\ 0 <= snd p.

Lemma obf_loop_spec ls b e acc :
  Forall level_ok ls -> -1 <= b < 2 ^ 31 -> -1 <= e < 2 ^ 31 ->
  obf_loop ls b e acc = Ok (acc ++ spec_levels ls b e).
Proof.
  intros Hls Hb He. revert acc. induction Hls as [|[off sh] tl [Ho Hs] _ IH]; intros acc; simpl.
  - rewrite app_nil_r. reflexivity.
  - simpl in Ho, Hs.
    rewrite !bin_nowrap by lia.
    pose proof (shiftr_lt_same e sh 31 Hs ltac:(lia) ltac:(lia)).
    rewrite loop_u32_spec by lia. simpl. rewrite IH, <- app_assoc. reflexivity.
Qed.

Lemma bai_levels_ok : Forall level_ok bai_levels.
Proof.
  unfold bai_levels. repeat (apply Forall_cons; [unfold level_ok; repeat split; vm_compute; (reflexivity || discriminate)|]). apply Forall_nil.
Qed.

Lemma spec_reg2bins_levels b e : spec_reg2bins b e = [0] ++ spec_levels bai_levels b (e - 1).
Proof.
  unfold spec_reg2bins, bai_levels, spec_levels. cbv zeta.
  rewrite app_nil_r. reflexivity.
Qed.

Lemma obf_is_spec_gen b e :
  -1 <= b < 2 ^ 31 -> 0 <= e <= 2 ^ 31 ->
  overlapping_bins_for b e = Ok (spec_reg2bins b e).
Proof.
  intros Hb He. unfold overlapping_bins_for. cbv zeta.
  rewrite obf_loop_spec by (try apply bai_levels_ok; lia).
  rewrite spec_reg2bins_levels. reflexivity.
Qed.

Lemma In_spec_levels k ls b e :
  In k (spec_levels ls b e) <->
  exists off sh, In (off, sh) ls /\ off + Z.shiftr b sh <= k <= off + Z.shiftr e sh.
Proof.
  induction ls as [|[off sh] tl IH]; simpl.
  - split; [tauto|]. intros (o & s & [] & _).
  - rewrite in_app_iff, In_range_incl, IH. split.
    + intros [H|(o & s & Hin & H)].
      * exists off, sh. auto.
      * exists o, s. auto.
    + intros (o & s & [E|Hin] & H).
      * inversion E; subst. left; assumption.
      * right. exists o, s. auto.
Qed.

(** The bin of one interval is listed for every interval that overlaps it. *)
Lemma bai_bin_in_bins_spec b1 e1 b2 e2 :
  0 <= b1 -> 0 <= b2 -> b1 < e1 -> b2 < e2 -> b1 < e2 -> b2 < e1 ->
  In (spec_reg2bin b1 e1) (spec_reg2bins b2 e2).
Proof.
  intros H1 H2 H3 H4 H5 H6.
  rewrite spec_reg2bins_levels. apply in_or_app.
  unfold spec_reg2bin. cbv zeta.
  change ((Z.shiftl 1 15 - 1) / 7) with 4681.
  change ((Z.shiftl 1 12 - 1) / 7) with 585.
  change ((Z.shiftl 1 9 - 1) / 7) with 73.
  change ((Z.shiftl 1 6 - 1) / 7) with 9.
  change ((Z.shiftl 1 3 - 1) / 7) with 1.
  assert (M : forall s, 0 <= s ->
            Z.shiftr b1 s = Z.shiftr (e1 - 1) s ->
            Z.shiftr b2 s <= Z.shiftr b1 s <= Z.shiftr (e2 - 1) s).
  { intros s Hs E. split.
    - rewrite E. apply shiftr_mono; lia.
    - apply shiftr_mono; lia. }
  repeat match goal with
  | |- context [if ?x =? ?y then _ else _] => destruct (Z.eqb_spec x y)
  end.
  6: { left. simpl. auto. }
  all: right; apply In_spec_levels.
  - exists 4681, 14. split; [simpl; tauto|]. specialize (M 14 ltac:(lia) ltac:(assumption)). lia.
  - exists 585, 17. split; [simpl; tauto|]. specialize (M 17 ltac:(lia) ltac:(assumption)). lia.
  - exists 73, 20. split; [simpl; tauto|]. specialize (M 20 ltac:(lia) ltac:(assumption)). lia.
  - exists 9, 23. split; [simpl; tauto|]. specialize (M 23 ltac:(lia) ltac:(assumption)). lia.
  - exists 1, 26. split; [simpl; tauto|]. specialize (M 26 ltac:(lia) ltac:(assumption)). lia.
Qed.

Lemma bai_bin_in_bins_gen b1 e1 b2 e2 :
  0 <= b1 -> 0 <= b2 -> b1 < e1 <= 2 ^ 29 -> b2 < e2 <= 2 ^ 29 -> b1 < e2 -> b2 < e1 ->
  exists k l, internal_BinFor b1 e1 = Ok k /\ overlapping_bins_for b2 e2 = Ok l /\ In k l.
Proof.
  intros. exists (spec_reg2bin b1 e1), (spec_reg2bins b2 e2).
  split; [apply binfor_is_spec_gen; lia|].
  split; [apply obf_is_spec_gen; lia|].
  apply bai_bin_in_bins_spec; lia.
Qed.

(** ** CSI: the spec loops in closed form, by induction on the level with the
    invariant t_l = (8^l - 1)/7 = geo8 l. *)
Lemma spec_t0 depth : 0 <= depth ->
  (Z.shiftl 1 (depth * 3) - 1) / 7 = geo8 (Z.to_nat depth).
Proof.
  intros H. rewrite shiftl_1 by lia. rewrite geo8_div, Z2Nat.id by lia.
  rewrite pow8_pow2 by lia. f_equal. f_equal. f_equal. lia.
Qed.

Lemma geo8_step_down n : geo8 (S n) - Z.shiftl 1 (Z.of_nat n * 3) = geo8 n.
Proof.
  cbn [geo8]. rewrite shiftl_1 by lia. rewrite pow8_pow2 by lia.
  replace (Z.of_nat n * 3) with (3 * Z.of_nat n) by lia. lia.
Qed.

Lemma geo8_step_up n : geo8 n + Z.shiftl 1 (Z.of_nat n * 3) = geo8 (S n).
Proof. pose proof (geo8_step_down n). lia. Qed.

(** reg2bin returns 0 or, for some level m, the bin of level m in which both
    ends of the interval fall. *)
Lemma spec_reg2bin_loop_char n b e s :
  let r := spec_csi_reg2bin_loop n b e s (geo8 n) in
  r = 0 \/
  exists m, (1 <= m <= n)%nat /\
    Z.shiftr b (s + 3 * (Z.of_nat n - Z.of_nat m)) = Z.shiftr e (s + 3 * (Z.of_nat n - Z.of_nat m)) /\
    r = geo8 m + Z.shiftr b (s + 3 * (Z.of_nat n - Z.of_nat m)).
Proof.
  revert s. induction n as [|n IH]; intros s; cbn [spec_csi_reg2bin_loop]; [left; reflexivity|].
  destruct (Z.eqb_spec (Z.shiftr b s) (Z.shiftr e s)) as [E|E].
  - right. exists (S n). replace (s + 3 * (Z.of_nat (S n) - Z.of_nat (S n))) with s by lia.
    split; [lia|]. split; [assumption|reflexivity].
  - rewrite geo8_step_down. destruct (IH (s + 3)) as [H|(m & Hm & E1 & E2)]; [left; assumption|].
    right. exists m.
    replace (s + 3 * (Z.of_nat (S n) - Z.of_nat m)) with (s + 3 + 3 * (Z.of_nat n - Z.of_nat m)) by lia.
    split; [lia|]. split; assumption.
Qed.

(** reg2bins lists, for every level m, the bins between the tiles of the two ends. *)
Lemma In_spec_reg2bins_loop k todo l b e s :
  In k (spec_csi_reg2bins_loop todo (Z.of_nat l) b e s (geo8 l)) <->
  exists m, (l <= m < l + todo)%nat /\
    geo8 m + Z.shiftr b (s - 3 * (Z.of_nat m - Z.of_nat l)) <= k
    <= geo8 m + Z.shiftr e (s - 3 * (Z.of_nat m - Z.of_nat l)).
Proof.
  revert l s. induction todo as [|todo IH]; intros l s; cbn [spec_csi_reg2bins_loop].
  - split; [intros []|]. intros (m & Hm & _). lia.
  - rewrite in_app_iff, In_range_incl.
    replace (Z.of_nat l + 1) with (Z.of_nat (S l)) by lia.
    rewrite geo8_step_up, IH. split.
    + intros [H|(m & Hm & H)].
      * exists l. replace (s - 3 * (Z.of_nat l - Z.of_nat l)) with s by lia. split; [lia|assumption].
      * exists m. split; [lia|].
        replace (s - 3 * (Z.of_nat m - Z.of_nat l)) with (s - 3 - 3 * (Z.of_nat m - Z.of_nat (S l))) by lia.
        assumption.
    + intros (m & Hm & H). destruct (Nat.eq_dec m l) as [->|Hne].
      * left. replace (s - 3 * (Z.of_nat l - Z.of_nat l)) with s in H by lia. assumption.
      * right. exists m. split; [lia|].
        replace (s - 3 * (Z.of_nat m - Z.of_nat l)) with (s - 3 - 3 * (Z.of_nat m - Z.of_nat (S l))) in H by lia.
        assumption.
Qed.

Lemma In_spec_csi_reg2bins k b e ms depth :
  0 <= depth ->
  (In k (spec_csi_reg2bins b e ms depth) <->
   exists m, (m <= Z.to_nat depth)%nat /\
     geo8 m + Z.shiftr b (ms + 3 * (depth - Z.of_nat m)) <= k
     <= geo8 m + Z.shiftr (e - 1) (ms + 3 * (depth - Z.of_nat m))).
Proof.
  intros Hd. unfold spec_csi_reg2bins.
  change (spec_csi_reg2bins_loop (S (Z.to_nat depth)) 0 b (e - 1) (ms + depth * 3) 0)
    with (spec_csi_reg2bins_loop (S (Z.to_nat depth)) (Z.of_nat 0) b (e - 1) (ms + depth * 3) (geo8 0)).
  rewrite In_spec_reg2bins_loop.
  split; intros (m & Hm & H); exists m; (split; [lia|]).
  - replace (ms + 3 * (depth - Z.of_nat m)) with (ms + depth * 3 - 3 * (Z.of_nat m - Z.of_nat 0)) by lia.
    assumption.
  - replace (ms + depth * 3 - 3 * (Z.of_nat m - Z.of_nat 0)) with (ms + 3 * (depth - Z.of_nat m)) by lia.
    assumption.
Qed.

Lemma spec_csi_reg2bin_char b e ms depth :
  0 <= depth ->
  let r := spec_csi_reg2bin b e ms depth in
  r = 0 \/
  exists m, (1 <= m <= Z.to_nat depth)%nat /\
    Z.shiftr b (ms + 3 * (depth - Z.of_nat m)) = Z.shiftr (e - 1) (ms + 3 * (depth - Z.of_nat m)) /\
    r = geo8 m + Z.shiftr b (ms + 3 * (depth - Z.of_nat m)).
Proof.
  intros Hd. unfold spec_csi_reg2bin. rewrite spec_t0 by assumption.
  pose proof (spec_reg2bin_loop_char (Z.to_nat depth) b (e - 1) ms) as H. cbv zeta in H.
  rewrite Z2Nat.id in H by assumption. exact H.
Qed.

(** For every geometry: the bin of an interval is in the bin list of every
    interval that overlaps it. Monotonicity of x / 2^s, no enumeration. *)
Lemma csi_bin_in_bins_spec ms depth b1 e1 b2 e2 :
  0 <= ms -> 0 <= depth ->
  0 <= b1 -> 0 <= b2 -> b1 < e1 -> b2 < e2 <= 2 ^ (ms + 3 * depth) -> b1 < e2 -> b2 < e1 ->
  In (spec_csi_reg2bin b1 e1 ms depth) (spec_csi_reg2bins b2 e2 ms depth).
Proof.
  intros Hms Hd H1 H2 H3 H4 H5 H6.
  apply In_spec_csi_reg2bins; [assumption|].
  destruct (spec_csi_reg2bin_char b1 e1 ms depth Hd) as [E|(m & Hm & E1 & E2)].
  - rewrite E. exists 0%nat. split; [lia|]. cbn [geo8].
    replace (ms + 3 * (depth - Z.of_nat 0)) with (ms + 3 * depth) by lia.
    assert (Z.shiftr b2 (ms + 3 * depth) = 0).
    { rewrite shiftr_div by lia. apply Z.div_small. lia. }
    pose proof (shiftr_nonneg (e2 - 1) (ms + 3 * depth) ltac:(lia)). lia.
  - rewrite E2. exists m. split; [lia|].
    set (s := ms + 3 * (depth - Z.of_nat m)) in *.
    assert (Hs : 0 <= s) by (unfold s; lia).
    split.
    + apply Zplus_le_compat_l. rewrite E1. apply shiftr_mono; lia.
    + apply Zplus_le_compat_l. apply shiftr_mono; lia.
Qed.

(** ** CSI: the Go functions (uint32 arithmetic) equal the spec functions when
    depth <= 10 and min_shift + 3*depth <= 62. *)
Lemma csi_t_step n : (n <= 9)%nat ->
  u32 (geo8 (S n) - u32 (Z.shiftl 1 (u32 (u32 (Z.of_nat (S n) - 1) * csi_nextBinShift)))) = geo8 n.
Proof.
  intros H. change csi_nextBinShift with 3.
  replace (Z.of_nat (S n) - 1) with (Z.of_nat n) by lia.
  rewrite (u32_id (Z.of_nat n)) by lia.
  rewrite (u32_id (Z.of_nat n * 3)) by lia.
  rewrite u32_sub_u32, geo8_step_down. apply u32_id.
  pose proof (geo8_nonneg n). pose proof (geo8_bound n ltac:(lia)). rewrite geo8_11 in *. lia.
Qed.

Lemma pow2_le_30 k : 0 <= k <= 30 -> 2 ^ k <= 2 ^ 30.
Proof. intros. apply Z.pow_le_mono_r; lia. Qed.

Lemma reg2bin_loop_model n b e s :
  (n <= 10)%nat -> 0 <= s -> s + 3 * Z.of_nat n <= 62 ->
  0 <= b <= 2 ^ (s + 3 * Z.of_nat n) ->
  reg2bin_loop n (Z.of_nat n) b e s (geo8 n) = Ok (spec_csi_reg2bin_loop n b e s (geo8 n)).
Proof.
  revert s. induction n as [|n IH]; intros s Hn Hs Hs62 Hb; [reflexivity|].
  cbn [reg2bin_loop spec_csi_reg2bin_loop].
  destruct (Z.shiftr b s =? Z.shiftr e s).
  - f_equal. apply u32_add_small.
    pose proof (shiftr_nonneg b s ltac:(lia)).
    pose proof (shiftr_le_pow b s (3 * Z.of_nat (S n)) Hs ltac:(lia) ltac:(lia)).
    pose proof (pow2_le_30 (3 * Z.of_nat (S n)) ltac:(lia)).
    pose proof (geo8_nonneg (S n)). pose proof (geo8_bound (S n) ltac:(lia)). rewrite geo8_11 in *. lia.
  - rewrite csi_t_step by lia. rewrite geo8_step_down.
    change csi_nextBinShift with 3.
    replace (u32 (Z.of_nat (S n) - 1)) with (Z.of_nat n) by (rewrite u32_id; lia).
    rewrite (u32_id (s + 3)) by lia.
    apply IH; try lia.
    replace (s + 3 + 3 * Z.of_nat n) with (s + 3 * Z.of_nat (S n)) by lia. assumption.
Qed.

Lemma csi_t0_geo8 depth : 0 <= depth <= 10 -> csi_t0 depth = geo8 (Z.to_nat depth).
Proof.
  intros H. unfold csi_t0. change csi_nextBinShift with 3.
  rewrite (u32_id (depth * 3)) by lia.
  rewrite shiftl_1 by lia.
  pose proof (pow2_le_30 (depth * 3) ltac:(lia)).
  assert (0 < 2 ^ (depth * 3)) by (apply Z.pow_pos_nonneg; lia).
  rewrite (u32_id (2 ^ (depth * 3))) by lia.
  rewrite (u32_id (2 ^ (depth * 3) - 1)) by lia.
  rewrite Z.quot_div_nonneg by lia.
  rewrite <- (shiftl_1 (depth * 3)) by lia. rewrite spec_t0 by lia.
  apply u32_id. pose proof (geo8_nonneg (Z.to_nat depth)).
  pose proof (geo8_bound (Z.to_nat depth) ltac:(lia)). rewrite geo8_11 in *. lia.
Qed.

Lemma pow2_le_62 k : 0 <= k <= 62 -> 2 ^ k <= 2 ^ 62.
Proof. intros. apply Z.pow_le_mono_r; lia. Qed.

Lemma csi_reg2bin_is_spec_gen b e ms depth :
  0 <= ms -> 0 <= depth <= 10 -> ms + 3 * depth <= 62 ->
  0 <= b <= 2 ^ (ms + 3 * depth) -> 0 <= e <= 2 ^ (ms + 3 * depth) ->
  csi_reg2bin b e ms depth = Ok (spec_csi_reg2bin b e ms depth).
Proof.
  intros Hms Hd H62 Hb He. unfold csi_reg2bin, spec_csi_reg2bin. cbv zeta.
  pose proof (pow2_le_62 (ms + 3 * depth) ltac:(lia)).
  rewrite s64_id by lia.
  rewrite csi_t0_geo8, spec_t0 by lia.
  rewrite <- (Z2Nat.id depth) at 2 by lia.
  apply reg2bin_loop_model; try lia.
  rewrite Z2Nat.id by lia. assumption.
Qed.

Lemma reg2bins_loop_model todo l b e s acc :
  (l + todo <= 11)%nat -> s = 3 * (Z.of_nat todo - 1) + (s - 3 * (Z.of_nat todo - 1)) ->
  0 <= s - 3 * (Z.of_nat todo - 1) -> s + 3 * Z.of_nat l <= 62 ->
  0 <= b <= 2 ^ (s + 3 * Z.of_nat l) -> 0 <= e < 2 ^ (s + 3 * Z.of_nat l) ->
  reg2bins_loop todo (Z.of_nat l) b e s (geo8 l) acc
  = Ok (acc ++ spec_csi_reg2bins_loop todo (Z.of_nat l) b e s (geo8 l)).
Proof.
  revert l s acc. induction todo as [|todo IH]; intros l s acc Hl _ Hs H62 Hb He.
  - cbn. rewrite app_nil_r. reflexivity.
  - cbn [reg2bins_loop spec_csi_reg2bins_loop].
    assert (Hs0 : 0 <= s) by lia.
    pose proof (shiftr_nonneg b s ltac:(lia)).
    pose proof (shiftr_nonneg e s ltac:(lia)).
    pose proof (shiftr_le_pow b s (3 * Z.of_nat l) Hs0 ltac:(lia) ltac:(lia)).
    pose proof (shiftr_le_pow e s (3 * Z.of_nat l) Hs0 ltac:(lia) ltac:(lia)).
    pose proof (pow2_le_30 (3 * Z.of_nat l) ltac:(lia)).
    pose proof (geo8_nonneg l). pose proof (geo8_bound l ltac:(lia)). rewrite geo8_11 in *.
    rewrite !u32_add_small by lia.
    rewrite loop_u32_spec by lia. cbn [obind].
    change csi_nextBinShift with 3.
    rewrite (u32_id (Z.of_nat l * 3)) by lia.
    rewrite u32_add_u32. rewrite !geo8_step_up.
    pose proof (geo8_nonneg (S l)). pose proof (geo8_bound (S l) ltac:(lia)). rewrite geo8_11 in *.
    rewrite (u32_id (geo8 (S l))) by lia.
    replace (u32 (Z.of_nat l + 1)) with (Z.of_nat (S l)) by (rewrite u32_id; lia).
    replace (Z.of_nat l + 1) with (Z.of_nat (S l)) by lia.
    destruct todo as [|todo].
    + cbn. rewrite app_nil_r. reflexivity.
    + rewrite (u32_id (s - 3)) by lia.
      rewrite IH; try lia.
      * rewrite <- app_assoc. reflexivity.
      * replace (s - 3 + 3 * Z.of_nat (S l)) with (s + 3 * Z.of_nat l) by lia. assumption.
      * replace (s - 3 + 3 * Z.of_nat (S l)) with (s + 3 * Z.of_nat l) by lia. assumption.
Qed.

Lemma csi_reg2bins_is_spec_gen b e ms depth :
  0 <= ms -> 0 <= depth <= 10 -> ms + 3 * depth <= 62 ->
  0 <= b <= 2 ^ (ms + 3 * depth) -> 1 <= e <= 2 ^ (ms + 3 * depth) ->
  csi_reg2bins b e ms depth = Ok (spec_csi_reg2bins b e ms depth).
Proof.
  intros Hms Hd H62 Hb He. unfold csi_reg2bins, spec_csi_reg2bins. cbv zeta.
  pose proof (pow2_le_62 (ms + 3 * depth) ltac:(lia)).
  rewrite s64_id by lia.
  change csi_nextBinShift with 3.
  rewrite (u32_id (depth * 3)) by lia.
  rewrite (u32_id (ms + depth * 3)) by lia.
  change (reg2bins_loop (S (Z.to_nat depth)) 0 b (e - 1) (ms + depth * 3) 0 [])
    with (reg2bins_loop (S (Z.to_nat depth)) (Z.of_nat 0) b (e - 1) (ms + depth * 3) (geo8 0) []).
  change (spec_csi_reg2bins_loop (S (Z.to_nat depth)) 0 b (e - 1) (ms + depth * 3) 0)
    with (spec_csi_reg2bins_loop (S (Z.to_nat depth)) (Z.of_nat 0) b (e - 1) (ms + depth * 3) (geo8 0)).
  rewrite reg2bins_loop_model; try lia.
  - reflexivity.
  - replace (ms + depth * 3 + 3 * Z.of_nat 0) with (ms + 3 * depth) by lia. assumption.
  - replace (ms + depth * 3 + 3 * Z.of_nat 0) with (ms + 3 * depth) by lia. lia.
Qed.

Lemma csi_bin_in_bins_gen ms depth b1 e1 b2 e2 :
  0 <= ms -> 0 <= depth <= 10 -> ms + 3 * depth <= 62 ->
  0 <= b1 -> 0 <= b2 -> b1 < e1 <= 2 ^ (ms + 3 * depth) -> b2 < e2 <= 2 ^ (ms + 3 * depth) ->
  b1 < e2 -> b2 < e1 ->
  exists k l, csi_reg2bin b1 e1 ms depth = Ok k /\ csi_reg2bins b2 e2 ms depth = Ok l /\ In k l.
Proof.
  intros. exists (spec_csi_reg2bin b1 e1 ms depth), (spec_csi_reg2bins b2 e2 ms depth).
  split; [apply csi_reg2bin_is_spec_gen; lia|].
  split; [apply csi_reg2bins_is_spec_gen; lia|].
  apply csi_bin_in_bins_spec; lia.
Qed.

(** An empty query ending at 0 makes the uint32 loop bound wrap to 2^32-1:
    the Go loop never ends (the C code of the specification, with signed
    ints, returns the empty range). *)
Lemma csi_reg2bins_end0_stuck b ms depth :
  0 <= ms -> 0 <= depth <= 10 -> ms + 3 * depth <= 62 -> 0 <= b <= 2 ^ (ms + 3 * depth) ->
  csi_reg2bins b 0 ms depth = Stuck.
Proof.
  intros Hms Hd H62 Hb. unfold csi_reg2bins. cbv zeta.
  change (s64 (0 - 1)) with (-1). cbn [reg2bins_loop].
  change csi_nextBinShift with 3.
  rewrite (u32_id (depth * 3)) by lia.
  rewrite (u32_id (ms + depth * 3)) by lia.
  rewrite shiftr_neg1 by lia.
  change (u32 (0 + u32 (-1))) with (2 ^ 32 - 1).
  unfold loop_u32. rewrite Z.eqb_refl. reflexivity.
Qed.

(** ** The default CSI geometry is the BAI scheme. *)
Lemma csi_default_reg2bin_spec b e : spec_csi_reg2bin b e 14 5 = spec_reg2bin b e.
Proof. reflexivity. Qed.

Lemma csi_default_reg2bins_spec b e :
  0 <= b < 2 ^ 29 -> 1 <= e <= 2 ^ 29 ->
  spec_csi_reg2bins b e 14 5 = spec_reg2bins b e.
Proof.
  intros Hb He.
  unfold spec_csi_reg2bins, spec_reg2bins.
  change (Z.to_nat 5) with 5%nat. cbn [spec_csi_reg2bins_loop].
  cbv zeta. rewrite app_nil_r.
  change (14 + 5 * 3) with 29.
  assert (H : Z.shiftr b 29 = 0) by (rewrite shiftr_div by lia; apply Z.div_small; lia).
  assert (H0 : Z.shiftr (e - 1) 29 = 0) by (rewrite shiftr_div by lia; apply Z.div_small; lia).
  rewrite H, H0.
  reflexivity.
Qed.

Lemma csi_default_is_bai_gen b e :
  0 <= b < 2 ^ 29 -> 1 <= e <= 2 ^ 29 ->
  csi_reg2bin b e csi_DefaultShift csi_DefaultDepth = internal_BinFor b e /\
  csi_reg2bins b e csi_DefaultShift csi_DefaultDepth = overlapping_bins_for b e.
Proof.
  intros Hb He. change csi_DefaultShift with 14. change csi_DefaultDepth with 5.
  split.
  - rewrite csi_reg2bin_is_spec_gen by (try change (2 ^ (14 + 3 * 5)) with (2 ^ 29); lia).
    rewrite binfor_is_spec_gen by lia. rewrite csi_default_reg2bin_spec. reflexivity.
  - rewrite csi_reg2bins_is_spec_gen by (try change (2 ^ (14 + 3 * 5)) with (2 ^ 29); lia).
    rewrite obf_is_spec_gen by lia. rewrite csi_default_reg2bins_spec by lia. reflexivity.
Qed.

(** ** Bin lists are exactly the bins whose interval meets the query. *)
Lemma csi_bins_exact_spec k b e ms depth :
  0 <= ms -> 0 <= depth ->
  (In k (spec_csi_reg2bins b e ms depth) <->
   exists m i, (m <= Z.to_nat depth)%nat /\ k = geo8 m + i /\
     bin_lo ms depth (Z.of_nat m) i < e /\ b < bin_hi ms depth (Z.of_nat m) i).
Proof.
  intros Hms Hd. rewrite In_spec_csi_reg2bins by assumption.
  unfold bin_lo, bin_hi, level_shift.
  split.
  - intros (m & Hm & H). exists m, (k - geo8 m). split; [assumption|]. split; [lia|].
    assert (Hs : 0 <= ms + 3 * (depth - Z.of_nat m)) by lia.
    destruct H as [Ha Hb].
    assert (Ha' : Z.shiftr b (ms + 3 * (depth - Z.of_nat m)) <= k - geo8 m) by lia.
    assert (Hb' : k - geo8 m <= Z.shiftr (e - 1) (ms + 3 * (depth - Z.of_nat m))) by lia.
    apply shiftr_le_iff in Ha'; [|assumption].
    apply shiftr_ge_iff in Hb'; [|assumption]. lia.
  - intros (m & i & Hm & -> & Hlo & Hhi). exists m. split; [assumption|].
    assert (Hs : 0 <= ms + 3 * (depth - Z.of_nat m)) by lia.
    assert (Ha' : Z.shiftr b (ms + 3 * (depth - Z.of_nat m)) <= i) by (apply shiftr_le_iff; [assumption|lia]).
    assert (Hb' : i <= Z.shiftr (e - 1) (ms + 3 * (depth - Z.of_nat m))) by (apply shiftr_ge_iff; [assumption|lia]).
    lia.
Qed.

(** The bin of an interval contains the interval, and no bin of a finer level does. *)
Lemma csi_bin_contains_spec b e ms depth :
  0 <= ms -> 0 <= depth -> 0 <= b < e -> e <= 2 ^ (ms + 3 * depth) ->
  exists m i, (m <= Z.to_nat depth)%nat /\ spec_csi_reg2bin b e ms depth = geo8 m + i /\
    bin_lo ms depth (Z.of_nat m) i <= b /\ e <= bin_hi ms depth (Z.of_nat m) i.
Proof.
  intros Hms Hd Hb He.
  destruct (spec_csi_reg2bin_char b e ms depth Hd) as [E|(m & Hm & E1 & E2)].
  - exists 0%nat, 0. split; [lia|]. split; [rewrite E; reflexivity|].
    unfold bin_lo, bin_hi, level_shift. replace (depth - Z.of_nat 0) with depth by lia. lia.
  - exists m, (Z.shiftr b (ms + 3 * (depth - Z.of_nat m))). split; [lia|]. split; [assumption|].
    unfold bin_lo, bin_hi, level_shift.
    assert (Hs : 0 <= ms + 3 * (depth - Z.of_nat m)) by lia.
    split.
    + apply shiftr_ge_iff; [assumption|lia].
    + assert (e - 1 < (Z.shiftr b (ms + 3 * (depth - Z.of_nat m)) + 1) * 2 ^ (ms + 3 * (depth - Z.of_nat m))).
      { apply shiftr_le_iff; [assumption|]. rewrite E1. lia. }
      lia.
Qed.

(** Generated level constants are the geometric offsets and the shifts of the
    (14, 5) geometry. *)
Lemma bai_levels_geometric :
  [internal_level0; internal_level1; internal_level2; internal_level3; internal_level4; internal_level5]
  = map level_offset [0; 1; 2; 3; 4; 5]
  /\ [internal_level0Shift; internal_level1Shift; internal_level2Shift; internal_level3Shift;
      internal_level4Shift; internal_level5Shift]
     = map (level_shift 14 5) [0; 1; 2; 3; 4; 5]
  /\ internal_nextBinShift = 3 /\ csi_nextBinShift = 3
  /\ csi_DefaultShift = 14 /\ csi_DefaultDepth = 5 /\ internal_indexWordBits = 14 + 3 * 5.
Proof. repeat split; reflexivity. Qed.

Lemma geo8_level_offset m : geo8 m = level_offset (Z.of_nat m).
Proof. unfold level_offset. apply geo8_div. Qed.

(** ** reg2bin returns the smallest containing bin: no finer level has a tile
    holding both ends. *)
Lemma spec_reg2bin_loop_char2 n b e s :
  let r := spec_csi_reg2bin_loop n b e s (geo8 n) in
  exists m, (m <= n)%nat /\
    (m = 0%nat -> r = 0) /\
    ((1 <= m)%nat ->
       Z.shiftr b (s + 3 * (Z.of_nat n - Z.of_nat m)) = Z.shiftr e (s + 3 * (Z.of_nat n - Z.of_nat m)) /\
       r = geo8 m + Z.shiftr b (s + 3 * (Z.of_nat n - Z.of_nat m))) /\
    (forall j, (m < j <= n)%nat ->
       Z.shiftr b (s + 3 * (Z.of_nat n - Z.of_nat j)) <> Z.shiftr e (s + 3 * (Z.of_nat n - Z.of_nat j))).
Proof.
  revert s. induction n as [|n IH]; intros s; cbn [spec_csi_reg2bin_loop].
  - exists 0%nat. split; [lia|]. split; [reflexivity|]. split; [lia|]. intros j Hj. lia.
  - destruct (Z.eqb_spec (Z.shiftr b s) (Z.shiftr e s)) as [E|E].
    + exists (S n). replace (s + 3 * (Z.of_nat (S n) - Z.of_nat (S n))) with s by lia.
      split; [lia|]. split; [lia|]. split; [auto|]. intros j Hj. lia.
    + rewrite geo8_step_down. destruct (IH (s + 3)) as (m & Hm & H0 & H1 & Hmin).
      exists m. split; [lia|]. split; [assumption|]. split.
      * intros Hm1.
        replace (s + 3 * (Z.of_nat (S n) - Z.of_nat m)) with (s + 3 + 3 * (Z.of_nat n - Z.of_nat m)) by lia.
        apply H1. assumption.
      * intros j Hj. destruct (Nat.eq_dec j (S n)) as [->|Hne].
        -- replace (s + 3 * (Z.of_nat (S n) - Z.of_nat (S n))) with s by lia. assumption.
        -- replace (s + 3 * (Z.of_nat (S n) - Z.of_nat j)) with (s + 3 + 3 * (Z.of_nat n - Z.of_nat j)) by lia.
           apply Hmin. lia.
Qed.

Lemma csi_bin_smallest_spec b e ms depth :
  0 <= ms -> 0 <= depth -> 0 <= b < e -> e <= 2 ^ (ms + 3 * depth) ->
  exists m i, (m <= Z.to_nat depth)%nat /\ spec_csi_reg2bin b e ms depth = geo8 m + i /\
    bin_lo ms depth (Z.of_nat m) i <= b /\ e <= bin_hi ms depth (Z.of_nat m) i /\
    forall j i', (m < j <= Z.to_nat depth)%nat ->
      ~ (bin_lo ms depth (Z.of_nat j) i' <= b /\ e <= bin_hi ms depth (Z.of_nat j) i').
Proof.
  intros Hms Hd Hb He. unfold spec_csi_reg2bin. rewrite spec_t0 by assumption.
  destruct (spec_reg2bin_loop_char2 (Z.to_nat depth) b (e - 1) ms) as (m & Hm & H0 & H1 & Hmin).
  rewrite Z2Nat.id in * by assumption.
  assert (Hfiner : forall j i', (m < j <= Z.to_nat depth)%nat ->
            ~ (bin_lo ms depth (Z.of_nat j) i' <= b /\ e <= bin_hi ms depth (Z.of_nat j) i')).
  { intros j i' Hj [Hlo Hhi]. apply (Hmin j Hj).
    unfold bin_lo, bin_hi, level_shift in Hlo, Hhi.
    assert (Hs : 0 <= ms + 3 * (depth - Z.of_nat j)) by lia.
    assert (Z.shiftr b (ms + 3 * (depth - Z.of_nat j)) = i').
    { apply Z.le_antisymm; [apply shiftr_le_iff|apply shiftr_ge_iff]; try assumption; lia. }
    assert (Z.shiftr (e - 1) (ms + 3 * (depth - Z.of_nat j)) = i').
    { apply Z.le_antisymm; [apply shiftr_le_iff|apply shiftr_ge_iff]; try assumption; lia. }
    congruence. }
  destruct m as [|m'].
  - exists 0%nat, 0. split; [lia|]. split; [rewrite (H0 eq_refl); reflexivity|].
    unfold bin_lo, bin_hi, level_shift. replace (depth - Z.of_nat 0) with depth by lia.
    split; [lia|]. split; [lia|]. exact Hfiner.
  - destruct (H1 ltac:(lia)) as [E1 E2].
    exists (S m'), (Z.shiftr b (ms + 3 * (depth - Z.of_nat (S m')))).
    split; [lia|]. split; [exact E2|].
    unfold bin_lo, bin_hi, level_shift.
    assert (Hs : 0 <= ms + 3 * (depth - Z.of_nat (S m'))) by lia.
    split; [apply shiftr_ge_iff; [assumption|lia]|].
    split; [|exact Hfiner].
    assert (e - 1 < (Z.shiftr b (ms + 3 * (depth - Z.of_nat (S m'))) + 1) * 2 ^ (ms + 3 * (depth - Z.of_nat (S m')))).
    { apply shiftr_le_iff; [assumption|]. rewrite E1. lia. }
    lia.
Qed.

(** ** Bin lists never repeat a bin. *)
Lemma NoDup_app_intro {A} (a b : list A) :
  NoDup a -> NoDup b -> (forall x, In x a -> ~ In x b) -> NoDup (a ++ b).
Proof.
  induction a as [|x a IH]; intros Ha Hb Hd; [assumption|].
  inversion Ha as [|? ? Hx Ha']; subst. cbn [app]. constructor.
  - rewrite in_app_iff. intros [H|H]; [contradiction|]. apply (Hd x); [left; reflexivity|assumption].
  - apply IH; try assumption. intros y Hy. apply Hd. right. assumption.
Qed.

Lemma geo8_mono m m' : (m <= m')%nat -> geo8 m <= geo8 m'.
Proof.
  induction 1 as [|m' _ IH]; [lia|]. cbn [geo8].
  assert (0 < 8 ^ Z.of_nat m') by (apply Z.pow_pos_nonneg; lia). lia.
Qed.

Lemma NoDup_spec_reg2bins_loop todo : forall l b e s,
  0 <= b -> 0 <= s - 3 * (Z.of_nat todo - 1) -> e < 2 ^ (s + 3 * Z.of_nat l) ->
  NoDup (spec_csi_reg2bins_loop todo (Z.of_nat l) b e s (geo8 l)).
Proof.
  induction todo as [|todo IH]; intros l b e s Hb Hs He; cbn [spec_csi_reg2bins_loop]; [constructor|].
  replace (Z.of_nat l + 1) with (Z.of_nat (S l)) by lia. rewrite geo8_step_up.
  apply NoDup_app_intro.
  - apply NoDup_range_incl.
  - destruct todo as [|todo']; [constructor|].
    apply IH; try lia.
    replace (s - 3 + 3 * Z.of_nat (S l)) with (s + 3 * Z.of_nat l) by lia. assumption.
  - intros k Hk Hin. apply In_range_incl in Hk.
    apply In_spec_reg2bins_loop in Hin as (m & Hm & Hlo & _).
    assert (Hs0 : 0 <= s) by lia.
    pose proof (shiftr_lt_pow e s (3 * Z.of_nat l) Hs0 ltac:(lia) He) as Hlt.
    rewrite <- pow8_pow2 in Hlt by lia.
    pose proof (shiftr_nonneg b (s - 3 - 3 * (Z.of_nat m - Z.of_nat (S l))) Hb).
    pose proof (geo8_mono (S l) m ltac:(lia)) as Hmono. cbn [geo8] in Hmono. lia.
Qed.

Lemma csi_bins_nodup_spec b e ms depth :
  0 <= ms -> 0 <= depth -> 0 <= b -> e <= 2 ^ (ms + 3 * depth) ->
  NoDup (spec_csi_reg2bins b e ms depth).
Proof.
  intros Hms Hd Hb He. unfold spec_csi_reg2bins.
  change (spec_csi_reg2bins_loop (S (Z.to_nat depth)) 0 b (e - 1) (ms + depth * 3) 0)
    with (spec_csi_reg2bins_loop (S (Z.to_nat depth)) (Z.of_nat 0) b (e - 1) (ms + depth * 3) (geo8 0)).
  apply NoDup_spec_reg2bins_loop; try lia.
  replace (ms + depth * 3 + 3 * Z.of_nat 0) with (ms + 3 * depth) by lia. lia.
Qed.

(** The Go bin list, for every geometry: no repeats, and exactly the bins
    whose interval meets the query. *)
Lemma csi_model_bins_exact_gen b e ms depth :
  0 <= ms -> 0 <= depth <= 10 -> ms + 3 * depth <= 62 ->
  0 <= b <= 2 ^ (ms + 3 * depth) -> 1 <= e <= 2 ^ (ms + 3 * depth) ->
  exists l, csi_reg2bins b e ms depth = Ok l /\ NoDup l /\
    forall k, In k l <->
      exists m i, (m <= Z.to_nat depth)%nat /\ k = geo8 m + i /\
        bin_lo ms depth (Z.of_nat m) i < e /\ b < bin_hi ms depth (Z.of_nat m) i.
Proof.
  intros. exists (spec_csi_reg2bins b e ms depth).
  split; [apply csi_reg2bins_is_spec_gen; lia|].
  split; [apply csi_bins_nodup_spec; lia|].
  intros k. apply csi_bins_exact_spec; lia.
Qed.

Lemma bai_model_bins_exact_gen b e :
  0 <= b < 2 ^ 29 -> 1 <= e <= 2 ^ 29 ->
  exists l, overlapping_bins_for b e = Ok l /\ NoDup l /\
    forall k, In k l <->
      exists m i, (m <= 5)%nat /\ k = geo8 m + i /\
        bin_lo 14 5 (Z.of_nat m) i < e /\ b < bin_hi 14 5 (Z.of_nat m) i.
Proof.
  intros Hb He.
  destruct (csi_model_bins_exact_gen b e 14 5) as (l & Hl & Hnd & Hin);
    try (change (2 ^ (14 + 3 * 5)) with (2 ^ 29)); try lia.
  exists l. destruct (csi_default_is_bai_gen b e Hb He) as [_ E].
  change csi_DefaultShift with 14 in E. change csi_DefaultDepth with 5 in E.
  rewrite <- E. split; [assumption|]. split; [assumption|]. exact Hin.
Qed.
