(** C14 — proofs about Model/Cache.v: invariants of LRU/FIFO/Random for all
    histories allowed by the client protocol, refinement of the contract
    machine, and the statements of Props/C14.v. *)
From Coq Require Import ZArith List Bool Arith Lia Permutation.
From Hts Require Import Base.Prim Model.Cache.
Import ListNotations.
Open Scope Z_scope.

(** * Lists *)
Lemma last_opt_app_ne {A} (l1 l2 : list A) :
  l2 <> [] -> last_opt (l1 ++ l2) = last_opt l2.
Proof.
  induction l1 as [|a l1 IH]; intros H; simpl; auto.
  rewrite IH by auto. destruct (l1 ++ l2) eqn:E; auto.
  destruct l1; destruct l2; simpl in *; congruence.
Qed.

Lemma last_opt_snoc {A} (l : list A) (x : A) : last_opt (l ++ [x]) = Some x.
Proof. rewrite last_opt_app_ne by discriminate. reflexivity. Qed.

Lemma last_opt_rev {A} (l : list A) : last_opt (rev l) = hd_error l.
Proof. destruct l; simpl; auto. apply last_opt_snoc. Qed.

Lemma last_opt_none {A} (l : list A) : last_opt l = None -> l = [].
Proof.
  induction l as [|a l IH]; auto. simpl. destruct l; try discriminate.
  intros H. specialize (IH H). discriminate.
Qed.

Lemma last_opt_in {A} (l : list A) (x : A) : last_opt l = Some x -> In x l.
Proof.
  induction l as [|a l IH]; simpl; try discriminate.
  destruct l. - intros H; inversion H; auto. - intros H; right; auto.
Qed.

Lemma remove_rev (x : nat) (l : list nat) :
  remove Nat.eq_dec x (rev l) = rev (remove Nat.eq_dec x l).
Proof.
  induction l as [|a l IH]; simpl; auto.
  rewrite remove_app, IH. simpl.
  destruct (Nat.eq_dec x a); simpl; auto. rewrite app_nil_r; auto.
Qed.

Lemma remove_filter (f : nat -> bool) (x : nat) (l : list nat) :
  remove Nat.eq_dec x (filter f l) = filter f (remove Nat.eq_dec x l).
Proof.
  induction l as [|a l IH]; simpl; auto.
  destruct (f a) eqn:E; simpl; destruct (Nat.eq_dec x a); simpl; rewrite ?E, ?IH; auto.
Qed.

Lemma remove_length_nodup (x : nat) (l : list nat) :
  NoDup l -> In x l -> S (length (remove Nat.eq_dec x l)) = length l.
Proof.
  induction l as [|a l IH]; simpl; intros ND HI; [tauto|].
  inversion ND; subst.
  destruct (Nat.eq_dec x a).
  - subst. rewrite notin_remove; auto.
  - simpl. destruct HI; [congruence|]. rewrite IH; auto.
Qed.

Lemma filter_all_false {A} (f : A -> bool) (l : list A) :
  filter (fun x => negb (f x)) l = [] -> filter f l = l.
Proof.
  induction l as [|a l IH]; simpl; auto.
  destruct (f a); simpl; intros H; [f_equal; auto | discriminate].
Qed.

(** * Table as a function of the blocks it holds *)
Definition base_of (s : store) (b : bid) : Z := bbase (s b).
Definition used_of (s : store) (b : bid) : bool := bused (s b).
Definition tab_of (s : store) (B : list bid) : table := map (fun b => (base_of s b, b)) B.
Definition lst_of (s : store) (B : list bid) : list bid :=
  rev (filter (used_of s) B) ++ filter (fun b => negb (used_of s b)) B.

Lemma blocks_tab_of s B : blocks (tab_of s B) = B.
Proof. unfold blocks, tab_of. rewrite map_map. simpl. apply map_id. Qed.

Lemma tlen_tab_of s B : tlen (tab_of s B) = zlen B.
Proof. unfold tlen, zlen, tab_of. rewrite map_length. reflexivity. Qed.

Lemma tget_tab_of s k B : tget k (tab_of s B) = sfind s k B.
Proof.
  unfold tget, sfind. induction B as [|b B IH]; simpl; auto.
  unfold base_of at 1. destruct (bbase (s b) =? k); auto.
Qed.

Lemma tdel_tab_of s k B :
  tdel k (tab_of s B) = tab_of s (filter (fun b => negb (base_of s b =? k)) B).
Proof.
  unfold tdel. induction B as [|b B IH]; simpl; auto.
  destruct (base_of s b =? k); simpl; rewrite IH; auto.
Qed.

Lemma filter_base_remove s d B :
  NoDup (map (base_of s) B) -> In d B ->
  filter (fun b => negb (base_of s b =? base_of s d)) B = remove Nat.eq_dec d B.
Proof.
  induction B as [|b B IH]; simpl; intros ND HI; [tauto|].
  inversion ND as [|? ? Hn ND']; subst.
  destruct (Nat.eq_dec d b) as [->|Hne].
  - rewrite Z.eqb_refl. simpl.
    assert (Hd : ~ In b B) by (intros Hb; apply Hn; apply in_map; auto).
    rewrite (notin_remove Nat.eq_dec B b Hd).
    clear - Hn. induction B as [|c B IH]; simpl; auto.
    simpl in Hn. destruct (base_of s c =? base_of s b) eqn:E.
    + apply Z.eqb_eq in E. exfalso; apply Hn; left; auto.
    + simpl. f_equal. apply IH. intros H; apply Hn; right; auto.
  - destruct HI as [->|HI]; [congruence|].
    destruct (base_of s b =? base_of s d) eqn:E.
    + apply Z.eqb_eq in E. exfalso. apply Hn. rewrite E. apply in_map; auto.
    + simpl. f_equal. apply IH; auto.
Qed.

Lemma filter_base_notin s k B :
  ~ In k (map (base_of s) B) -> filter (fun b => negb (base_of s b =? k)) B = B.
Proof.
  induction B as [|b B IH]; simpl; intros H; auto.
  destruct (base_of s b =? k) eqn:E.
  - apply Z.eqb_eq in E. exfalso; apply H; auto.
  - simpl. f_equal. apply IH. tauto.
Qed.

Lemma sfind_none s k B : sfind s k B = None -> ~ In k (map (base_of s) B).
Proof.
  unfold sfind. induction B as [|b B IH]; simpl; auto.
  unfold base_of at 1. destruct (bbase (s b) =? k) eqn:E; try discriminate.
  intros H [H1|H1]; [apply Z.eqb_neq in E; auto | apply IH; auto].
Qed.

Lemma sfind_some s k B b : sfind s k B = Some b -> In b B /\ base_of s b = k.
Proof.
  unfold sfind. intros H. apply find_some in H. destruct H as [H1 H2].
  apply Z.eqb_eq in H2. auto.
Qed.

Lemma sfind_in s B b :
  NoDup (map (base_of s) B) -> In b B -> sfind s (base_of s b) B = Some b.
Proof.
  unfold sfind. induction B as [|c B IH]; simpl; intros ND HI; [tauto|].
  inversion ND as [|? ? Hn ND']; subst.
  destruct HI as [->|HI].
  - unfold base_of. rewrite Z.eqb_refl. auto.
  - destruct (bbase (s c) =? base_of s b) eqn:E.
    + apply Z.eqb_eq in E. exfalso. apply Hn. unfold base_of at 1. rewrite E. apply in_map; auto.
    + auto.
Qed.

Lemma tset_tab_of s b B :
  ~ In (base_of s b) (map (base_of s) B) ->
  tset (base_of s b) b (tab_of s B) = tab_of s (B ++ [b]).
Proof.
  intros H. unfold tset. rewrite tdel_tab_of, filter_base_notin by auto.
  unfold tab_of. rewrite map_app. reflexivity.
Qed.

Lemma nodup_base_nodup s B : NoDup (map (base_of s) B) -> NoDup B.
Proof. apply NoDup_map_inv. Qed.

(** list order and victim *)
Lemma last_lst_of s B : last_opt (lst_of s B) = svictim s B.
Proof.
  unfold lst_of, svictim.
  destruct (filter (fun b => negb (bused (s b))) B) eqn:E.
  - change (filter (fun b => negb (used_of s b)) B = []) in E.
    rewrite E, app_nil_r, last_opt_rev. simpl.
    rewrite (filter_all_false _ _ E). destruct B; reflexivity.
  - change (filter (fun b => negb (used_of s b)) B = b :: l) in E. rewrite E.
    rewrite last_opt_app_ne by discriminate.
    destruct (last_opt (b :: l)) eqn:E2; auto.
    apply last_opt_none in E2. discriminate.
Qed.

Lemma remove_lst_of s d B :
  remove Nat.eq_dec d (lst_of s B) = lst_of s (remove Nat.eq_dec d B).
Proof. unfold lst_of. rewrite remove_app, remove_rev, !remove_filter. reflexivity. Qed.

Lemma lst_of_snoc_used s B b : used_of s b = true -> lst_of s (B ++ [b]) = b :: lst_of s B.
Proof.
  intros H. unfold lst_of. rewrite !filter_app. simpl. rewrite H. simpl.
  rewrite rev_app_distr, app_nil_r. reflexivity.
Qed.

Lemma lst_of_snoc_unused s B b : used_of s b = false -> lst_of s (B ++ [b]) = lst_of s B ++ [b].
Proof.
  intros H. unfold lst_of. rewrite !filter_app. simpl. rewrite H. simpl.
  rewrite app_nil_r, app_assoc. reflexivity.
Qed.

Lemma in_lst_of s B b : In b (lst_of s B) <-> In b B.
Proof.
  unfold lst_of. rewrite in_app_iff, <- in_rev, !filter_In.
  destruct (used_of s b); simpl; intuition congruence.
Qed.

(** stores that agree on the held blocks *)
Lemma tab_of_ext s s' B : (forall b, In b B -> s' b = s b) -> tab_of s' B = tab_of s B.
Proof. intros H. unfold tab_of, base_of. apply map_ext_in. intros b Hb. rewrite H; auto. Qed.
Lemma lst_of_ext s s' B : (forall b, In b B -> s' b = s b) -> lst_of s' B = lst_of s B.
Proof.
  intros H. unfold lst_of, used_of. f_equal; [f_equal|]; apply filter_ext_in; intros b Hb; rewrite H; auto.
Qed.
Lemma map_base_ext s s' B : (forall b, In b B -> s' b = s b) -> map (base_of s') B = map (base_of s) B.
Proof. intros H. apply map_ext_in. intros b Hb. unfold base_of. rewrite H; auto. Qed.

(** * LRU / FIFO: structural invariant (table and list are functions of the
    held blocks, which have distinct bases) *)
Definition lf_ok (s : store) (c : lf) (B : list bid) : Prop :=
  tab c = tab_of s B /\ lst c = lst_of s B /\ NoDup (map (base_of s) B).

Lemma nodup_map_remove s d B :
  NoDup (map (base_of s) B) -> NoDup (map (base_of s) (remove Nat.eq_dec d B)).
Proof.
  induction B as [|b B IH]; simpl; intros ND; auto.
  inversion ND as [|? ? Hn ND']; subst.
  destruct (Nat.eq_dec d b); auto. simpl. constructor; auto.
  intros H. apply Hn. apply in_map_iff in H. destruct H as [y [Hy Hi]].
  apply in_remove in Hi. apply in_map_iff. exists y; tauto.
Qed.

Lemma nodup_map_snoc s b B :
  NoDup (map (base_of s) B) -> ~ In (base_of s b) (map (base_of s) B) ->
  NoDup (map (base_of s) (B ++ [b])).
Proof.
  intros ND Hn. rewrite map_app. simpl.
  eapply Permutation_NoDup; [apply Permutation_cons_append|]. constructor; auto.
Qed.

Lemma lf_remove_ok s c B d :
  lf_ok s c B -> In d B -> lf_ok s (lf_remove s c d) (remove Nat.eq_dec d B).
Proof.
  intros (Ht & Hl & ND) Hd. unfold lf_ok, lf_remove; simpl. repeat split.
  - rewrite Ht. change (bbase (s d)) with (base_of s d).
    rewrite tdel_tab_of, filter_base_remove; auto.
  - rewrite Hl. apply remove_lst_of.
  - apply nodup_map_remove; auto.
Qed.

Lemma lf_insert_ok s c B b :
  lf_ok s c B -> ~ In (base_of s b) (map (base_of s) B) ->
  lf_ok s (lf_insert s c b) (B ++ [b]).
Proof.
  intros (Ht & Hl & ND) Hn. unfold lf_ok, lf_insert; simpl. repeat split.
  - rewrite Ht. change (bbase (s b)) with (base_of s b). apply tset_tab_of; auto.
  - rewrite Hl. change (bused (s b)) with (used_of s b).
    destruct (used_of s b) eqn:E; [rewrite lst_of_snoc_used | rewrite lst_of_snoc_unused]; auto.
  - apply nodup_map_snoc; auto.
Qed.

Lemma svictim_in s B v : svictim s B = Some v -> In v B.
Proof.
  unfold svictim. destruct (last_opt (filter (fun b => negb (bused (s b))) B)) eqn:E.
  - intros H; inversion H; subst. apply last_opt_in in E. apply filter_In in E. tauto.
  - destruct B; [discriminate|]. intros H; inversion H; simpl; auto.
Qed.

Lemma svictim_some s B : B <> [] -> exists v, svictim s B = Some v.
Proof.
  unfold svictim. intros H.
  destruct (last_opt (filter (fun b => negb (bused (s b))) B)); eauto.
  destruct B; [congruence|eauto].
Qed.

Lemma zlen_pos_ne {A} (l : list A) : (zlen l >? 0) = true <-> l <> [].
Proof.
  unfold zlen. destruct l as [|a l]; split; intros H.
  - simpl in H. discriminate H.
  - congruence.
  - discriminate.
  - apply Z.gtb_lt. simpl length. lia.
Qed.

Lemma lf_drop_ok s f : forall c B,
  lf_ok s c B ->
  exists c', lf_drop s f c = Ok c' /\ lf_ok s c' (sdrop s f B) /\ cap c' = cap c.
Proof.
  induction f as [|f IH]; intros c B OK; simpl.
  - exists c; auto.
  - destruct OK as (Ht & Hl & ND).
    rewrite Ht, tlen_tab_of.
    destruct (zlen B >? 0) eqn:E.
    + apply zlen_pos_ne in E. destruct (svictim_some s B E) as [v Hv].
      rewrite Hl, last_lst_of, Hv.
      destruct (IH (lf_remove s c v) (remove Nat.eq_dec v B)) as (c' & H1 & H2 & H3).
      { apply lf_remove_ok; [repeat split; auto | eapply svictim_in; eauto]. }
      exists c'. split; [exact H1|]. split; [exact H2|]. rewrite H3. reflexivity.
    + assert (B = []) as ->.
      { destruct B as [|b0 B0]; auto. exfalso.
        assert ((zlen (b0 :: B0) >? 0) = true) by (apply zlen_pos_ne; discriminate). congruence. }
      exists c. simpl. repeat split; auto.
Qed.

Lemma sdrop_incl s f : forall B, incl (sdrop s f B) B.
Proof.
  induction f as [|f IH]; intros B; simpl; [apply incl_refl|].
  destruct (svictim s B); [|apply incl_refl].
  eapply incl_tran; [apply IH|]. intros x Hx. apply in_remove in Hx. tauto.
Qed.

Lemma nodup_remove (x : nat) (l : list nat) : NoDup l -> NoDup (remove Nat.eq_dec x l).
Proof.
  induction l as [|a l IH]; simpl; intros ND; auto.
  inversion ND; subst. destruct (Nat.eq_dec x a); auto.
  constructor; auto. intros Hin. apply in_remove in Hin. tauto.
Qed.

Lemma sdrop_length s f : forall B, NoDup B ->
  zlen (sdrop s f B) = Z.max 0 (zlen B - Z.of_nat f).
Proof.
  induction f as [|f IH]; intros B ND; cbn [sdrop].
  - unfold zlen; lia.
  - destruct (svictim s B) eqn:E.
    + rewrite IH.
      * pose proof (remove_length_nodup b B ND (svictim_in _ _ _ E)) as HL. unfold zlen, bid in *. lia.
      * apply nodup_remove; auto.
    + destruct B; [unfold zlen; simpl; lia|].
      exfalso. destruct (svictim_some s (b :: B)) as [v Hv]; congruence.
Qed.

(** * The LRU/FIFO code refines the contract machine (cache level) *)
Lemma not_in_remove_map s d B k :
  ~ In k (map (base_of s) B) -> ~ In k (map (base_of s) (remove Nat.eq_dec d B)).
Proof.
  intros H Hin. apply H. apply in_map_iff in Hin. destruct Hin as [y [Hy Hi]].
  apply in_remove in Hi. apply in_map_iff. exists y; tauto.
Qed.

Lemma lf_sim fifo s c B o c' x :
  lf_ok s c B -> lf_step fifo false s c o = (c', x) ->
  exists B', lf_ok s c' B' /\ spec_step fifo s (mks B (cap c)) o = (mks B' (cap c'), x).
Proof.
  intros OK. pose proof OK as (Ht & Hl & ND). destruct o; simpl.
  - (* Put *)
    rewrite Ht, tget_tab_of, tlen_tab_of.
    destruct (sfind s (bbase (s b)) B) as [b'|] eqn:F.
    + destruct (fifo && Nat.eqb b' b); intros H; inversion H; subst; exists B; auto.
    + destruct (zlen B =? cap c) eqn:EC.
      * destruct (negb (bused (s b))).
        { intros H; inversion H; subst; exists B; auto. }
        rewrite Hl, last_lst_of.
        destruct (svictim s B) as [d|] eqn:V.
        { intros H; inversion H; subst. exists (remove Nat.eq_dec d B ++ [b]). split; auto.
          apply lf_insert_ok.
          - apply lf_remove_ok; auto. eapply svictim_in; eauto.
          - apply not_in_remove_map. apply (sfind_none _ _ _ F). }
        { intros H; inversion H; subst. exists B; auto. }
      * intros H; inversion H; subst. exists (B ++ [b]). split; auto.
        apply lf_insert_ok; auto. apply (sfind_none _ _ _ F).
  - (* Get *)
    rewrite Ht, tget_tab_of.
    destruct (sfind s k B) as [b|] eqn:F.
    + destruct (fifo && bused (s b)); intros H; inversion H; subst.
      * exists B; auto.
      * exists (remove Nat.eq_dec b B). split; auto.
        apply lf_remove_ok; auto. apply (sfind_some _ _ _ _ F).
    + intros H; inversion H; subst. exists B; auto.
  - (* Peek *)
    rewrite Ht, tget_tab_of.
    destruct (sfind s k B); intros H; inversion H; subst; exists B; auto.
  - intros H; inversion H; subst. exists B. rewrite Ht, tlen_tab_of. auto.
  - intros H; inversion H; subst. exists B. auto.
  - (* Resize *)
    rewrite Ht, tlen_tab_of. unfold lf_dropZ. simpl.
    destruct (n <? zlen B) eqn:E.
    + destruct (lf_drop_ok s (Z.to_nat (zlen B - n)) c B OK) as (c2 & H1 & H2 & H3).
      rewrite H1. intros H; inversion H; subst.
      exists (sdrop s (Z.to_nat (zlen B - n)) B). split; auto.
    + intros H; inversion H; subst. exists B. split.
      * repeat split; auto.
      * simpl. replace (Z.to_nat (zlen B - n)) with O by (apply Z.ltb_ge in E; lia). reflexivity.
  - (* Drop *)
    unfold lf_dropZ. simpl.
    destruct (lf_drop_ok s (Z.to_nat n) c B OK) as (c2 & H1 & H2 & H3).
    rewrite H1. intros H; inversion H; subst.
    exists (sdrop s (Z.to_nat n) B). rewrite H3. auto.
  - intros H; inversion H; subst. exists B; auto.
  - intros H; inversion H; subst. exists B; auto.
Qed.

(** * Capacity and ownership, at the level of the contract machine *)
Definition own_ok (fifo : bool) (cl : client) (B : list bid) : Prop :=
  forall b, In b B -> if fifo then cl b <> Mine else cl b = Given.

Lemma cset_same cl b v : cset cl b v b = v.
Proof. unfold cset. rewrite Nat.eqb_refl. reflexivity. Qed.
Lemma cset_other cl b v x : x <> b -> cset cl b v x = cl x.
Proof. unfold cset. intros H. destruct (Nat.eqb_spec x b); congruence. Qed.

Lemma own_ok_cset_out fifo cl B b v : ~ In b B -> own_ok fifo cl B -> own_ok fifo (cset cl b v) B.
Proof. intros Hn H x Hx. rewrite cset_other; [apply H; auto | intros ->; auto]. Qed.

Lemma status_given_eqb st : status_eqb st Given = false -> st <> Given.
Proof. destruct st; simpl; congruence. Qed.
Lemma status_mine_eqb st : status_eqb st Mine = true -> st = Mine.
Proof. destruct st; simpl; congruence. Qed.

Lemma zlen_app1 {A} (l : list A) (x : A) : zlen (l ++ [x]) = zlen l + 1.
Proof. unfold zlen. rewrite app_length. simpl. lia. Qed.

Lemma zlen_remove (x : bid) (l : list bid) : NoDup l -> In x l -> zlen (remove Nat.eq_dec x l) = zlen l - 1.
Proof. intros ND HI. pose proof (remove_length_nodup x l ND HI). unfold zlen, bid in *. lia. Qed.

Lemma spec_step_own_cap fifo s B cp cl o B' cp' x :
  NoDup (map (base_of s) B) -> 1 <= cp -> zlen B <= cp -> own_ok fifo cl B ->
  allowedb cl o = true ->
  spec_step fifo s (mks B cp) o = (mks B' cp', x) ->
  1 <= cp' /\ zlen B' <= cp' /\ own_ok fifo (cl_update (negb fifo) cl o x) B'.
Proof.
  intros ND C1 C2 OWN AL. pose proof (nodup_base_nodup _ _ ND) as NDB.
  destruct o; simpl in *.
  - (* Put *)
    apply negb_true_iff in AL. apply status_given_eqb in AL.
    assert (Hout : sfind s (bbase (s b)) B = None \/ (exists b', sfind s (bbase (s b)) B = Some b' /\ b' <> b) -> ~ In b B).
    { intros [Hn|[b' [Hs Hne]]] Hin.
      - apply (sfind_none _ _ _ Hn). change (bbase (s b)) with (base_of s b). apply in_map; auto.
      - change (bbase (s b)) with (base_of s b) in Hs. rewrite sfind_in in Hs; auto. congruence. }
    destruct (sfind s (bbase (s b)) B) as [b'|] eqn:F.
    + destruct fifo; simpl.
      * destruct (Nat.eqb_spec b' b).
        { intros H; inversion H; subst. auto. }
        { intros H; inversion H; subst. repeat split; auto.
          apply own_ok_cset_out; auto. apply Hout. right. eauto. }
      * intros H; inversion H; subst. repeat split; auto.
        apply own_ok_cset_out; auto; try (intros Hin; apply AL; apply (OWN b Hin)).
    + assert (Hb : ~ In b B) by (apply Hout; auto).
      destruct (zlen B =? cp) eqn:EC.
      * destruct (negb (bused (s b))).
        { intros H; inversion H; subst. repeat split; auto. apply own_ok_cset_out; auto. }
        destruct (svictim s B) as [v|] eqn:V.
        { intros H; inversion H; subst. pose proof (svictim_in _ _ _ V) as Hv.
          repeat split; auto.
          - rewrite zlen_app1, zlen_remove; auto. lia.
          - intros y Hy. apply in_app_iff in Hy. destruct Hy as [Hy|[<-|[]]].
            + apply in_remove in Hy. destruct Hy as [Hy1 Hy2].
              rewrite cset_other by auto. rewrite cset_other by (intros ->; auto). apply OWN; auto.
            + rewrite cset_other by (intros ->; auto). rewrite cset_same. destruct fifo; congruence. }
        { intros H; inversion H; subst. auto. }
      * intros H; inversion H; subst. apply Z.eqb_neq in EC. repeat split; auto.
        { rewrite zlen_app1. lia. }
        intros y Hy. apply in_app_iff in Hy. destruct Hy as [Hy|[<-|[]]].
        { rewrite cset_other by (intros ->; auto). apply OWN; auto. }
        { rewrite cset_same. destruct fifo; congruence. }
  - (* Get *)
    destruct (sfind s k B) as [b|] eqn:F.
    + pose proof (sfind_some _ _ _ _ F) as [Hin _].
      destruct fifo; simpl.
      * destruct (bused (s b)); intros H; inversion H; subst; repeat split; auto.
        { intros y Hy. specialize (OWN y Hy). simpl in OWN.
          destruct (cl b) eqn:Eb; auto.
          destruct (Nat.eq_dec y b) as [->|Hne]; [rewrite cset_same; congruence|rewrite cset_other; auto]. }
        { rewrite zlen_remove; auto. lia. }
        { intros y Hy. apply in_remove in Hy. destruct Hy as [Hy1 Hy2]. specialize (OWN y Hy1). simpl in OWN.
          destruct (cl b); auto; rewrite cset_other; auto. }
      * intros H; inversion H; subst; repeat split; auto.
        { rewrite zlen_remove; auto. lia. }
        { intros y Hy. apply in_remove in Hy. destruct Hy as [Hy1 Hy2]. rewrite cset_other; auto. }
    + intros H; inversion H; subst. auto.
  - destruct (sfind s k B); intros H; inversion H; subst; auto.
  - intros H; inversion H; subst; auto.
  - intros H; inversion H; subst; auto.
  - (* Resize *)
    apply Z.leb_le in AL. intros H; inversion H; subst. repeat split; auto.
    + rewrite sdrop_length by auto. lia.
    + intros y Hy. apply OWN. eapply sdrop_incl; eauto.
  - intros H; inversion H; subst. repeat split; auto.
    + rewrite sdrop_length by auto. lia.
    + intros y Hy. apply OWN. eapply sdrop_incl; eauto.
  - intros H; inversion H; subst; auto.
  - intros H; inversion H; subst; auto.
Qed.

(** * LRU / FIFO: the invariant of all reachable states *)
Record lf_inv (fifo : bool) (w : store * lf) (cl : client) : Prop := mk_lf_inv {
  li_ok : lf_ok (fst w) (snd w) (blocks (tab (snd w)));
  li_cap : 1 <= cap (snd w) /\ zlen (blocks (tab (snd w))) <= cap (snd w);
  li_own : own_ok fifo cl (blocks (tab (snd w))) }.

Lemma lf_ok_blocks s c B : lf_ok s c B -> blocks (tab c) = B.
Proof. intros (Ht & _). rewrite Ht. apply blocks_tab_of. Qed.

Lemma lf_cstep_inv fifo s c cl o c' x :
  lf_inv fifo (s, c) cl -> allowedb cl o = true -> lf_step fifo false s c o = (c', x) ->
  lf_inv fifo (s, c') (cl_update (negb fifo) cl o x)
  /\ spec_step fifo s (lf_abs c) o = (lf_abs c', x).
Proof.
  intros [OK [C1 C2] OWN] AL ST. simpl in *.
  destruct (lf_sim fifo s c _ o c' x OK ST) as (B' & OK' & SP).
  pose proof (lf_ok_blocks _ _ _ OK') as EB.
  destruct OK as (Ht & Hl & ND).
  destruct (spec_step_own_cap fifo s _ _ cl o _ _ x ND C1 C2 OWN AL SP) as (D1 & D2 & D3).
  split.
  - constructor; simpl; rewrite EB; auto.
  - unfold lf_abs. rewrite EB. exact SP.
Qed.

Lemma lf_step_cl_free fifo cl n x y : cl_update (negb fifo) cl (Free n) x = cl_update (negb fifo) cl (Drop n) y.
Proof. reflexivity. Qed.

Lemma lf_wstep_inv fifo w cl o w' x :
  lf_inv fifo w cl -> allowedb cl o = true -> lf_wstep fifo false w o = (w', x) ->
  lf_inv fifo w' (cl_update (negb fifo) cl o x).
Proof.
  destruct w as [s c]. intros INV AL. unfold lf_wstep, wstep.
  assert (GEN : forall o0, allowedb cl o0 = true ->
            cl_update (negb fifo) cl o0 = cl_update (negb fifo) cl o ->
            (let '(c', x0) := lf_step fifo false s c o0 in (s, c', x0)) = (w', x) ->
            lf_inv fifo w' (cl_update (negb fifo) cl o x)).
  { intros o0 AL0 EQ. destruct (lf_step fifo false s c o0) as [c1 x1] eqn:ST.
    intros H; inversion H; subst. rewrite <- EQ.
    apply (lf_cstep_inv fifo s c cl o0 c1 x); auto. }
  destruct o; try (apply GEN; auto; fail).
  - (* Free *)
    unfold free_via. simpl.
    destruct (n <=? cap c - tlen (tab c)).
    + intros H; inversion H; subst. exact INV.
    + unfold lf_dropZ. simpl.
      destruct INV as [OK CAP OWN]. simpl in *.
      destruct (lf_drop_ok (fst (s, c)) (Z.to_nat (n - (cap c - tlen (tab c)))) c _ OK) as (c2 & H1 & H2 & H3).
      simpl in H1. rewrite H1. intros H; inversion H; subst.
      pose proof (lf_ok_blocks _ _ _ H2) as EB. simpl in *.
      constructor; simpl; rewrite ?EB; auto.
      * rewrite H3. split; [tauto|].
        destruct OK as (_ & _ & ND). apply nodup_base_nodup in ND.
        rewrite sdrop_length by auto. lia.
      * intros y Hy. apply OWN. eapply sdrop_incl; eauto.
  - (* Rebase *)
    intros H; inversion H; subst. simpl in AL. apply status_mine_eqb in AL.
    destruct INV as [OK CAP OWN]. simpl in *.
    assert (Hb : ~ In b (blocks (tab c))).
    { intros Hin. specialize (OWN b Hin). destruct fifo; congruence. }
    assert (EXT : forall y, In y (blocks (tab c)) -> sset s b (mkblk k u) y = s y).
    { intros y Hy. unfold sset. destruct (Nat.eqb_spec y b); congruence. }
    constructor; simpl; auto.
    destruct OK as (Ht & Hl & ND). repeat split.
    + rewrite (tab_of_ext s); auto.
    + rewrite (lst_of_ext s); auto.
    + rewrite (map_base_ext s); auto.
Qed.

Definition id_op (o : op) : op := o.
Definition lf_reach (fifo : bool) (n : Z) :=
  reach lf op id_op (lf_wstep fifo false) (negb fifo) (lf_empty n).

Lemma lf_reach_inv fifo n w cl : 1 <= n -> lf_reach fifo n w cl -> lf_inv fifo w cl.
Proof.
  intros Hn R. induction R.
  - constructor; simpl.
    + repeat split; constructor.
    + unfold zlen; simpl; lia.
    + intros b [].
  - eapply lf_wstep_inv; eauto.
Qed.

(** * Statements for LRU / FIFO *)
Lemma keys_tab_of s B : map fst (tab_of s B) = map (base_of s) B.
Proof. unfold tab_of. rewrite map_map. reflexivity. Qed.

Lemma lf_cap_inv_gen fifo n s c cl :
  1 <= n -> lf_reach fifo n (s, c) cl ->
  tlen (tab c) <= cap c /\ NoDup (map fst (tab c)) /\ 1 <= cap c.
Proof.
  intros Hn R. destruct (lf_reach_inv _ _ _ _ Hn R) as [(Ht & Hl & ND) [C1 C2] _]. simpl in *.
  rewrite Ht at 1 2. rewrite tlen_tab_of, keys_tab_of. auto.
Qed.

Lemma lf_put_refuses_gen fifo s c b :
  tlen (tab c) = cap c -> bused (s b) = false ->
  exists ev, lf_wstep fifo false (s, c) (Put b) = ((s, c), OPut ev false).
Proof.
  intros Hf Hu. unfold lf_wstep, wstep. simpl.
  destruct (tget (bbase (s b)) (tab c)).
  - destruct (fifo && Nat.eqb b0 b); eauto.
  - rewrite Hf, Z.eqb_refl, Hu. simpl. eauto.
Qed.

(** the code equals the contract machine on every reachable state *)
Definition spec_wstep (fifo : bool) := wstep sstate op id_op (fun _ o => o) (spec_step fifo).

Lemma lf_refines_gen fifo n s c cl o s' c' x :
  1 <= n -> lf_reach fifo n (s, c) cl -> allowedb cl o = true ->
  lf_wstep fifo false (s, c) o = ((s', c'), x) ->
  spec_wstep fifo (s, lf_abs c) o = ((s', lf_abs c'), x).
Proof.
  intros Hn R AL. pose proof (lf_reach_inv _ _ _ _ Hn R) as INV.
  unfold lf_wstep, spec_wstep, wstep, id_op.
  assert (GEN : forall o0, allowedb cl o0 = true ->
            (let '(c1, x0) := lf_step fifo false s c o0 in (s, c1, x0)) = (s', c', x) ->
            (let '(c1, x0) := spec_step fifo s (lf_abs c) o0 in (s, c1, x0)) = (s', lf_abs c', x)).
  { intros o0 AL0. destruct (lf_step fifo false s c o0) as [c1 x1] eqn:ST.
    destruct (lf_cstep_inv fifo s c cl o0 c1 x1 INV AL0 ST) as [_ SP].
    rewrite SP. intros H; inversion H; subst. reflexivity. }
  destruct o; try (apply GEN; auto; fail).
  - (* Free: the same composite of Cap, Len, Drop on both sides *)
    destruct INV as [OK _ _]. simpl in OK.
    assert (TL : zlen (blocks (tab c)) = tlen (tab c)).
    { destruct OK as (Ht & _). rewrite Ht at 2. rewrite tlen_tab_of. reflexivity. }
    unfold free_via. simpl. unfold lf_dropZ. simpl. rewrite TL.
    destruct (n0 <=? cap c - tlen (tab c)).
    + intros H; inversion H; subst. reflexivity.
    + destruct (lf_drop_ok s (Z.to_nat (n0 - (cap c - tlen (tab c)))) c _ OK) as (c2 & H1 & H2 & H3).
      rewrite H1. pose proof (lf_ok_blocks _ _ _ H2) as EB.
      assert (TL2 : tlen (tab c2) = zlen (sdrop s (Z.to_nat (n0 - (cap c - tlen (tab c)))) (blocks (tab c)))).
      { destruct H2 as (Ht2 & _). rewrite Ht2. apply tlen_tab_of. }
      intros H; inversion H; subst. unfold lf_abs. rewrite EB, H3, TL2. reflexivity.
  - intros H; inversion H; subst. reflexivity.
Qed.

(** what the contract machine evicts *)
Lemma svictim_spec s B v :
  svictim s B = Some v ->
  In v B
  /\ ((forall u, In u B -> bused (s u) = true) -> hd_error B = Some v)
  /\ ((exists u, In u B /\ bused (s u) = false) ->
      bused (s v) = false /\
      exists l1 l2, B = l1 ++ v :: l2 /\ forall u, In u l2 -> bused (s u) = true).
Proof.
  intros H. split; [eapply svictim_in; eauto|]. unfold svictim in H.
  destruct (last_opt (filter (fun b => negb (bused (s b))) B)) as [w|] eqn:E.
  - inversion H; subst. split.
    + intros Hall. apply last_opt_in in E. apply filter_In in E. destruct E as [E1 E2].
      rewrite (Hall v E1) in E2. discriminate.
    + intros _. clear H.
      revert E. induction B as [|a B IH]; simpl; try discriminate.
      destruct (negb (bused (s a))) eqn:Ea.
      * destruct (filter (fun b => negb (bused (s b))) B) eqn:EF.
        { intros H; inversion H; subst. split; [apply negb_true_iff; auto|].
          exists [], B. split; auto. intros u Hu.
          destruct (bused (s u)) eqn:Eu; auto.
          assert (In u (filter (fun b => negb (bused (s b))) B)) by (apply filter_In; rewrite Eu; auto).
          rewrite EF in H0. destruct H0. }
        { intros H. destruct (IH H) as (H1 & l1 & l2 & H2 & H3).
          split; auto. exists (a :: l1), l2. subst; auto. }
      * intros H. destruct (IH H) as (H1 & l1 & l2 & H2 & H3).
        split; auto. exists (a :: l1), l2. subst; auto.
  - destruct B as [|a B]; [discriminate|]. inversion H; subst. split; auto.
    intros [u [Hu1 Hu2]]. exfalso.
    apply last_opt_none in E.
    assert (In u (filter (fun b => negb (bused (s b))) (v :: B))) by (apply filter_In; rewrite Hu2; auto).
    rewrite E in H0. destruct H0.
Qed.

Lemma lf_policy_gen fifo n s c cl b v s' c' :
  1 <= n -> lf_reach fifo n (s, c) cl -> allowedb cl (Put b) = true ->
  lf_wstep fifo false (s, c) (Put b) = ((s', c'), OPut (Some v) true) ->
  svictim s (blocks (tab c)) = Some v /\ tlen (tab c) = cap c /\ bused (s b) = true
  /\ blocks (tab c') = remove Nat.eq_dec v (blocks (tab c)) ++ [b].
Proof.
  intros Hn R AL ST. pose proof (lf_refines_gen _ _ _ _ _ _ _ _ _ Hn R AL ST) as SP.
  pose proof (lf_reach_inv _ _ _ _ Hn R) as [(Ht & _) _ _]. simpl in Ht.
  unfold spec_wstep, wstep, id_op in SP. simpl in SP.
  destruct (sfind s (bbase (s b)) (blocks (tab c))).
  - destruct (fifo && Nat.eqb b0 b); inversion SP.
  - rewrite Ht at 2. rewrite tlen_tab_of.
    destruct (zlen (blocks (tab c)) =? cap c) eqn:EC; [|inversion SP].
    apply Z.eqb_eq in EC.
    destruct (bused (s b)); simpl in SP; [|inversion SP].
    destruct (svictim s (blocks (tab c))); inversion SP; subst. auto.
Qed.

Lemma lf_peek_len_cap_gen fifo n s c cl k :
  1 <= n -> lf_reach fifo n (s, c) cl ->
  snd (lf_wstep fifo false (s, c) (Peek k)) =
    match snd (lf_wstep fifo false (s, c) (Get k)) with
    | OGet (Some b) => OPeek (Some (bnext s b))
    | _ => OPeek None
    end
  /\ snd (lf_wstep fifo false (s, c) Len) = ONum (zlen (map fst (tab c)))
  /\ NoDup (map fst (tab c))
  /\ (In k (map fst (tab c)) <-> snd (lf_wstep fifo false (s, c) (Peek k)) <> OPeek None)
  /\ snd (lf_wstep fifo false (s, c) Cap) = ONum (cap c)
  /\ (forall m, cap (snd (fst (lf_wstep fifo false (s, c) (Resize m)))) = m).
Proof.
  intros Hn R. destruct (lf_cap_inv_gen _ _ _ _ _ Hn R) as (_ & ND & _).
  unfold lf_wstep, wstep. simpl. repeat split; auto.
  - destruct (tget k (tab c)) eqn:E; simpl; auto.
    destruct (fifo && bused (s b)); reflexivity.
  - unfold tlen, zlen. rewrite map_length. reflexivity.
  - intros Hin. unfold tget. destruct (find (fun p => fst p =? k) (tab c)) eqn:F; simpl; try discriminate.
    apply in_map_iff in Hin. destruct Hin as [p [Hp1 Hp2]].
    eapply find_none in F; eauto. simpl in F. apply Z.eqb_neq in F. congruence.
  - unfold tget. destruct (find (fun p => fst p =? k) (tab c)) eqn:F; simpl; try congruence.
    intros _. apply find_some in F. destruct F as [F1 F2]. apply Z.eqb_eq in F2.
    apply in_map_iff. exists p; auto.
  - intros m. unfold lf_dropZ. simpl.
    destruct (m <? tlen (tab c)); simpl; auto.
    destruct (lf_drop s (Z.to_nat (tlen (tab c) - m)) c) eqn:E; simpl; auto.
    (* the remaining outcomes keep the state; they are excluded by resize_drop_free *)
    all: pose proof (lf_reach_inv _ _ _ _ Hn R) as [OK _ _]; simpl in OK;
      destruct (lf_drop_ok s (Z.to_nat (tlen (tab c) - m)) c _ OK) as (c2 & H1 & _); congruence.
Qed.

Lemma lf_get_peek_base_gen fifo n s c cl k :
  1 <= n -> lf_reach fifo n (s, c) cl ->
  (forall b, snd (lf_wstep fifo false (s, c) (Get k)) = OGet (Some b) -> bbase (s b) = k)
  /\ (forall nx, snd (lf_wstep fifo false (s, c) (Peek k)) = OPeek (Some nx) ->
        exists b, bbase (s b) = k /\ nx = k + bsize b).
Proof.
  intros Hn R. pose proof (lf_reach_inv _ _ _ _ Hn R) as [(Ht & _) _ _]. simpl in Ht.
  unfold lf_wstep, wstep. simpl. rewrite Ht, tget_tab_of. split.
  - intros b. destruct (sfind s k (blocks (tab c))) as [b'|] eqn:F; simpl.
    + destruct (fifo && bused (s b')); simpl; intros H; inversion H; subst;
        apply (sfind_some _ _ _ _ F).
    + discriminate.
  - intros nx. destruct (sfind s k (blocks (tab c))) as [b'|] eqn:F; simpl; try discriminate.
    intros H; inversion H; subst. exists b'. destruct (sfind_some _ _ _ _ F) as [_ Hb].
    unfold bnext. unfold base_of in Hb. rewrite Hb. auto.
Qed.

Lemma lf_resize_drop_free_gen fifo n s c cl m :
  1 <= n -> lf_reach fifo n (s, c) cl ->
  (1 <= m ->
     exists c', lf_wstep fifo false (s, c) (Resize m) = ((s, c'), OUnit)
       /\ cap c' = m /\ tlen (tab c') = Z.min (tlen (tab c)) m)
  /\ (exists c', lf_wstep fifo false (s, c) (Drop m) = ((s, c'), OUnit)
       /\ cap c' = cap c /\ tlen (tab c') = Z.max 0 (tlen (tab c) - Z.max 0 m))
  /\ (exists c', lf_wstep fifo false (s, c) (Free m) = ((s, c'), OBool (m <=? cap c))
       /\ cap c' = cap c /\ (m <= cap c -> m <= cap c' - tlen (tab c'))
       /\ tlen (tab c') <= tlen (tab c)).
Proof.
  intros Hn R. pose proof (lf_reach_inv _ _ _ _ Hn R) as [OK [C1 C2] _]. simpl in *.
  pose proof OK as (Ht & _ & ND). apply nodup_base_nodup in ND.
  assert (TL : tlen (tab c) = zlen (blocks (tab c))) by (rewrite Ht at 1; apply tlen_tab_of).
  assert (T0 : 0 <= tlen (tab c)) by (unfold tlen, zlen; lia).
  assert (DROP : forall f, exists c2, lf_drop s f c = Ok c2 /\ cap c2 = cap c
             /\ tlen (tab c2) = Z.max 0 (tlen (tab c) - Z.of_nat f)).
  { intros f. destruct (lf_drop_ok s f c _ OK) as (c2 & H1 & H2 & H3).
    exists c2. repeat split; auto.
    destruct H2 as (Ht2 & _). rewrite Ht2, tlen_tab_of, sdrop_length, TL; auto. }
  unfold lf_wstep, wstep, free_via, lf_dropZ. simpl. unfold lf_dropZ. simpl. repeat split.
  - intros Hm. destruct (m <? tlen (tab c)) eqn:E.
    + destruct (DROP (Z.to_nat (tlen (tab c) - m))) as (c2 & H1 & H2 & H3). rewrite H1.
      exists (with_cap c2 m). simpl. repeat split; auto. apply Z.ltb_lt in E. lia.
    + exists (with_cap c m). simpl. repeat split; auto. apply Z.ltb_ge in E. lia.
  - destruct (DROP (Z.to_nat m)) as (c2 & H1 & H2 & H3). rewrite H1.
    exists c2. repeat split; auto. lia.
  - destruct (m <=? cap c - tlen (tab c)) eqn:E.
    + exists c. apply Z.leb_le in E. repeat split; auto; try lia.
      f_equal. f_equal. symmetry. apply Z.leb_le. lia.
    + apply Z.leb_gt in E.
      destruct (DROP (Z.to_nat (m - (cap c - tlen (tab c))))) as (c2 & H1 & H2 & H3). rewrite H1.
      exists c2. rewrite H2, H3. repeat split; auto; try lia.
      f_equal. f_equal. destruct (m <=? cap c) eqn:E2.
      * apply Z.leb_le in E2. apply Z.leb_le. lia.
      * apply Z.leb_gt in E2. apply Z.leb_gt. lia.
Qed.

(** * Random *)
Lemma zmem_in k l : zmem k l = true <-> In k l.
Proof.
  unfold zmem. rewrite existsb_exists. split.
  - intros [x [H1 H2]]. apply Z.eqb_eq in H2. subst; auto.
  - intros H. exists k. split; auto. apply Z.eqb_refl.
Qed.

Lemma znodup_in k l : In k (znodup l) <-> In k l.
Proof.
  induction l as [|a l IH]; simpl; [tauto|].
  destruct (zmem a l) eqn:E.
  - rewrite IH. apply zmem_in in E. split; auto. intros [->|H]; auto.
  - simpl. rewrite IH. tauto.
Qed.

Lemma znodup_nodup l : NoDup (znodup l).
Proof.
  induction l as [|a l IH]; simpl; [constructor|].
  destruct (zmem a l) eqn:E; auto. constructor; auto.
  rewrite znodup_in. intros H. apply zmem_in in H. congruence.
Qed.

Lemma iter_order_in ch t k : In k (iter_order ch t) <-> In k (map fst t).
Proof.
  unfold iter_order. rewrite in_app_iff, !filter_In, znodup_in, zmem_in. split.
  - intros [[_ H]|[H _]]; auto.
  - intros H. destruct (zmem k ch) eqn:E.
    + left. apply zmem_in in E. auto.
    + right. split; auto.
Qed.

Lemma nodup_app_intro {A} (l1 l2 : list A) :
  NoDup l1 -> NoDup l2 -> (forall x, In x l1 -> ~ In x l2) -> NoDup (l1 ++ l2).
Proof.
  induction l1 as [|a l1 IH]; simpl; intros N1 N2 D; auto.
  inversion N1; subst. constructor.
  - rewrite in_app_iff. intros [H|H]; auto. apply (D a); auto.
  - apply IH; auto.
Qed.

Lemma iter_order_nodup ch t : NoDup (map fst t) -> NoDup (iter_order ch t).
Proof.
  intros ND. unfold iter_order. apply nodup_app_intro.
  - apply NoDup_filter, znodup_nodup.
  - apply NoDup_filter; auto.
  - intros k H1 H2. apply filter_In in H1. apply filter_In in H2.
    destruct H1 as [H1 _]. destruct H2 as [_ H2].
    apply (proj1 (znodup_in _ _)) in H1. apply (proj2 (zmem_in _ _)) in H1. rewrite H1 in H2. discriminate.
Qed.

Lemma sfind_of_in s k B : In k (map (base_of s) B) -> exists d, sfind s k B = Some d.
Proof.
  intros H. destruct (sfind s k B) eqn:E; eauto.
  exfalso. apply (sfind_none _ _ _ E). auto.
Qed.

Lemma tdel_key s k B d :
  NoDup (map (base_of s) B) -> sfind s k B = Some d ->
  tdel k (tab_of s B) = tab_of s (remove Nat.eq_dec d B).
Proof.
  intros ND F. destruct (sfind_some _ _ _ _ F) as [Hin Hb]. subst k.
  rewrite tdel_tab_of, filter_base_remove; auto.
Qed.

Lemma in_map_remove s d B k :
  In k (map (base_of s) B) -> k <> base_of s d -> In k (map (base_of s) (remove Nat.eq_dec d B)).
Proof.
  intros H Hne. apply in_map_iff in H. destruct H as [y [Hy Hi]].
  apply in_map_iff. exists y. split; auto. apply in_in_remove; auto. intros ->. congruence.
Qed.

Lemma incl_remove (d : bid) (B : list bid) : incl (remove Nat.eq_dec d B) B.
Proof. intros x Hx. apply in_remove in Hx. tauto. Qed.

(** second loop of drop: deletes the first [m] keys of a duplicate-free order *)
Lemma rnd_drop2_ok s : forall order m B,
  NoDup (map (base_of s) B) -> NoDup order ->
  (forall k, In k order -> In k (map (base_of s) B)) ->
  exists B', rnd_drop2 order m (tab_of s B) = tab_of s B' /\ incl B' B
             /\ NoDup (map (base_of s) B')
             /\ zlen B' = zlen B - Z.of_nat (Nat.min m (length order)).
Proof.
  induction order as [|k r IH]; intros m B ND NO SUB; simpl.
  - exists B. repeat split; auto using incl_refl. rewrite Nat.min_0_r. simpl. lia.
  - destruct m as [|m'].
    + exists B. repeat split; auto using incl_refl. simpl. lia.
    + inversion NO as [|? ? Hk NO']; subst.
      destruct (sfind_of_in s k B (SUB k (or_introl eq_refl))) as [d F].
      destruct (sfind_some _ _ _ _ F) as [Hin Hb].
      rewrite (tdel_key s k B d ND F).
      destruct (IH m' (remove Nat.eq_dec d B)) as (B' & H1 & H2 & H3 & H4); auto.
      { apply nodup_map_remove; auto. }
      { intros k' Hk'. apply in_map_remove; [apply SUB; right; auto|]. rewrite Hb. intros ->. auto. }
      exists B'. repeat split; auto.
      * eapply incl_tran; eauto. apply incl_remove.
      * rewrite H4, zlen_remove; eauto using nodup_base_nodup. simpl Nat.min. lia.
Qed.

(** first loop of drop: deletes unused blocks only *)
Lemma rnd_drop1_ok s : forall order m B,
  NoDup (map (base_of s) B) ->
  exists B' m', rnd_drop1 s order m (tab_of s B) = (tab_of s B', m') /\ incl B' B
             /\ NoDup (map (base_of s) B') /\ (m' <= m)%nat
             /\ zlen B' = zlen B - Z.of_nat (m - m')
             /\ (forall b, In b B -> ~ In b B' -> bused (s b) = false).
Proof.
  induction order as [|k r IH]; intros m B ND; simpl.
  - exists B, m. repeat split; auto using incl_refl. replace (m - m)%nat with O by lia. simpl. lia. tauto.
  - destruct m as [|m'].
    + exists B, O. repeat split; auto using incl_refl. simpl. lia. tauto.
    + unfold unused_key. rewrite tget_tab_of.
      destruct (sfind s k B) as [d|] eqn:F.
      * destruct (negb (bused (s d))) eqn:U.
        { rewrite (tdel_key s k B d ND F).
          destruct (sfind_some _ _ _ _ F) as [Hin Hb].
          destruct (IH m' (remove Nat.eq_dec d B)) as (B' & m2 & H1 & H2 & H3 & H4 & H5 & H6).
          { apply nodup_map_remove; auto. }
          exists B', m2. repeat split; auto.
          - eapply incl_tran; eauto. apply incl_remove.
          - rewrite H5, zlen_remove; eauto using nodup_base_nodup. lia.
          - intros b Hb1 Hb2. destruct (Nat.eq_dec b d) as [->|Hne].
            + apply negb_true_iff; auto.
            + apply H6; auto. apply in_in_remove; auto. }
        { destruct (IH (S m') B ND) as (B' & m2 & H1 & H2 & H3 & H4 & H5 & H6).
          exists B', m2. repeat split; auto. }
      * destruct (IH (S m') B ND) as (B' & m2 & H1 & H2 & H3 & H4 & H5 & H6).
        exists B', m2. repeat split; auto.
Qed.

Lemma keys_len_eq s B order :
  NoDup (map (base_of s) B) -> NoDup order ->
  (forall k, In k order <-> In k (map (base_of s) B)) -> length order = length B.
Proof.
  intros ND NO EQ. rewrite <- (map_length (base_of s) B).
  apply Nat.le_antisymm; apply NoDup_incl_length; auto; intros k Hk; apply EQ; auto.
Qed.

Lemma rnd_drop_ok s ch1 ch2 n B :
  NoDup (map (base_of s) B) ->
  exists B', rnd_drop s ch1 ch2 n (tab_of s B) = tab_of s B' /\ incl B' B
             /\ NoDup (map (base_of s) B')
             /\ zlen B' = Z.max 0 (zlen B - Z.max 0 n).
Proof.
  intros ND. unfold rnd_drop.
  assert (Z0 : 0 <= zlen B) by (unfold zlen; lia).
  destruct (n <? 1) eqn:E.
  - apply Z.ltb_lt in E. exists B. repeat split; auto using incl_refl. lia.
  - apply Z.ltb_ge in E.
    destruct (rnd_drop1_ok s (iter_order ch1 (tab_of s B)) (Z.to_nat n) B ND)
      as (B1 & m1 & H1 & H2 & H3 & H4 & H5 & _).
    rewrite H1. destruct m1 as [|m1'].
    + exists B1. repeat split; auto. rewrite H5.
      assert (0 <= zlen B1) by (unfold zlen; lia). lia.
    + assert (NO : NoDup (iter_order ch2 (tab_of s B1))).
      { apply iter_order_nodup. rewrite keys_tab_of. auto. }
      assert (EQ : forall k, In k (iter_order ch2 (tab_of s B1)) <-> In k (map (base_of s) B1)).
      { intros k. rewrite iter_order_in, keys_tab_of. tauto. }
      destruct (rnd_drop2_ok s (iter_order ch2 (tab_of s B1)) (S m1') B1 H3 NO (fun k => proj1 (EQ k)))
        as (B2 & G1 & G2 & G3 & G4).
      exists B2. repeat split; auto.
      * eapply incl_tran; eauto.
      * rewrite G4, (keys_len_eq s B1 _ H3 NO EQ), H5.
        assert (0 <= zlen B1) by (unfold zlen; lia). unfold zlen in *. lia.
Qed.

Record rnd_inv (w : store * rnd) (cl : client) : Prop := mk_rnd_inv {
  ri_tab : rtab (snd w) = tab_of (fst w) (blocks (rtab (snd w)));
  ri_nodup : NoDup (map (base_of (fst w)) (blocks (rtab (snd w))));
  ri_cap : 1 <= rcap (snd w) /\ zlen (blocks (rtab (snd w))) <= rcap (snd w);
  ri_own : own_ok false cl (blocks (rtab (snd w))) }.

Lemma rnd_inv_intro s c cl B :
  rtab c = tab_of s B -> NoDup (map (base_of s) B) -> 1 <= rcap c -> zlen B <= rcap c ->
  own_ok false cl B -> rnd_inv (s, c) cl.
Proof.
  intros Ht ND C1 C2 OWN. assert (EB : blocks (rtab c) = B) by (rewrite Ht; apply blocks_tab_of).
  constructor; simpl; rewrite EB; auto.
Qed.

Lemma rnd_victim_in s ch1 ch2 t vk : rnd_victim s ch1 ch2 t = Some vk -> In vk (map fst t).
Proof.
  unfold rnd_victim. destruct (find (unused_key s t) (iter_order ch1 t)) eqn:F.
  - intros H; inversion H; subst. apply find_some in F. apply (iter_order_in ch1 t vk). tauto.
  - destruct (iter_order ch2 t) eqn:E; [discriminate|]. intros H; inversion H; subst.
    apply (iter_order_in ch2 t vk). rewrite E. simpl; auto.
Qed.

Lemma rnd_victim_none s ch1 ch2 t : rnd_victim s ch1 ch2 t = None -> t = [].
Proof.
  unfold rnd_victim. destruct (find (unused_key s t) (iter_order ch1 t)); [discriminate|].
  destruct (iter_order ch2 t) eqn:E; [|discriminate]. intros _.
  destruct t as [|p t]; auto. exfalso.
  assert (In (fst p) (iter_order ch2 (p :: t))) by (apply iter_order_in; simpl; auto).
  rewrite E in H. destruct H.
Qed.

(** eviction by Put prefers unused blocks *)
Lemma rnd_victim_policy s ch1 ch2 B vk d :
  rnd_victim s ch1 ch2 (tab_of s B) = Some vk -> sfind s vk B = Some d ->
  (exists u, In u B /\ bused (s u) = false) -> NoDup (map (base_of s) B) -> bused (s d) = false.
Proof.
  unfold rnd_victim. intros H F [u [Hu1 Hu2]] ND.
  destruct (find (unused_key s (tab_of s B)) (iter_order ch1 (tab_of s B))) eqn:E.
  - inversion H; subst. apply find_some in E. destruct E as [_ E].
    unfold unused_key in E. rewrite tget_tab_of, F in E. apply negb_true_iff in E. auto.
  - exfalso. assert (Hin : In (base_of s u) (iter_order ch1 (tab_of s B))).
    { apply iter_order_in. rewrite keys_tab_of. apply in_map; auto. }
    pose proof (find_none _ _ E _ Hin) as N. unfold unused_key in N.
    rewrite tget_tab_of, sfind_in in N; auto. rewrite Hu2 in N. discriminate.
Qed.

Lemma rnd_cstep_inv s c cl o ch1 ch2 c' x :
  rnd_inv (s, c) cl -> allowedb cl o = true -> rnd_step s c (o, ch1, ch2) = (c', x) ->
  rnd_inv (s, c') (cl_update true cl o x).
Proof.
  intros [Ht ND [C1 C2] OWN] AL. simpl in *. set (B := blocks (rtab c)) in *.
  pose proof (nodup_base_nodup _ _ ND) as NDB.
  destruct o; simpl.
  - (* Put *)
    apply negb_true_iff in AL. apply status_given_eqb in AL.
    assert (Hb : ~ In b B) by (intros Hin; apply AL; apply (OWN b Hin)).
    rewrite Ht, tget_tab_of, tlen_tab_of.
    destruct (sfind s (bbase (s b)) B) as [b'|] eqn:F.
    + intros H; inversion H; subst. apply (rnd_inv_intro s c' _ B); auto.
      apply own_ok_cset_out; auto.
    + pose proof (sfind_none _ _ _ F) as HF. change (bbase (s b)) with (base_of s b) in *.
      destruct (zlen B =? rcap c) eqn:EC.
      * destruct (negb (bused (s b))).
        { intros H; inversion H; subst. apply (rnd_inv_intro s c' _ B); auto. apply own_ok_cset_out; auto. }
        destruct (rnd_victim s ch1 ch2 (tab_of s B)) as [vk|] eqn:V.
        { pose proof (rnd_victim_in _ _ _ _ _ V) as Hvk. rewrite keys_tab_of in Hvk.
          destruct (sfind_of_in s vk B Hvk) as [d Fd]. destruct (sfind_some _ _ _ _ Fd) as [Hd Hbd].
          rewrite tget_tab_of, Fd, (tdel_key s vk B d ND Fd).
          intros H; inversion H; subst.
          apply (rnd_inv_intro s _ _ (remove Nat.eq_dec d B ++ [b])); simpl; auto.
          - apply tset_tab_of. apply not_in_remove_map; auto.
          - apply nodup_map_snoc; [apply nodup_map_remove; auto | apply not_in_remove_map; auto].
          - rewrite zlen_app1, zlen_remove; auto. lia.
          - intros y Hy. apply in_app_iff in Hy. destruct Hy as [Hy|[<-|[]]].
            + apply in_remove in Hy. destruct Hy as [Hy1 Hy2].
              rewrite cset_other by auto. rewrite cset_other by (intros ->; auto). apply OWN; auto.
            + rewrite cset_other by (intros ->; auto). rewrite cset_same. reflexivity. }
        { exfalso. apply rnd_victim_none in V. destruct B; [|discriminate].
          apply Z.eqb_eq in EC. unfold zlen in EC. simpl in EC. lia. }
      * intros H; inversion H; subst. apply Z.eqb_neq in EC.
        apply (rnd_inv_intro s _ _ (B ++ [b])); simpl; auto.
        { apply tset_tab_of; auto. }
        { apply nodup_map_snoc; auto. }
        { rewrite zlen_app1. lia. }
        intros y Hy. apply in_app_iff in Hy. destruct Hy as [Hy|[<-|[]]].
        { rewrite cset_other by (intros ->; auto). apply OWN; auto. }
        { rewrite cset_same. reflexivity. }
  - (* Get *)
    rewrite Ht, tget_tab_of.
    destruct (sfind s k B) as [b|] eqn:F.
    + rewrite (tdel_key s k B b ND F). destruct (sfind_some _ _ _ _ F) as [Hin _].
      intros H; inversion H; subst.
      apply (rnd_inv_intro s _ _ (remove Nat.eq_dec b B)); simpl; auto.
      * apply nodup_map_remove; auto.
      * rewrite zlen_remove; auto. lia.
      * intros y Hy. apply in_remove in Hy. destruct Hy. rewrite cset_other; auto.
    + intros H; inversion H; subst. apply (rnd_inv_intro s c' _ B); auto.
  - rewrite Ht, tget_tab_of. destruct (sfind s k B); intros H; inversion H; subst; apply (rnd_inv_intro s c' _ B); auto.
  - intros H; inversion H; subst. apply (rnd_inv_intro s c' _ B); auto.
  - intros H; inversion H; subst. apply (rnd_inv_intro s c' _ B); auto.
  - (* Resize *)
    apply Z.leb_le in AL. rewrite Ht, tlen_tab_of.
    destruct (n <? zlen B) eqn:E.
    + destruct (rnd_drop_ok s ch1 ch2 (zlen B - n) B ND) as (B' & H1 & H2 & H3 & H4).
      rewrite H1. intros H; inversion H; subst. apply Z.ltb_lt in E.
      apply (rnd_inv_intro s _ _ B'); simpl; auto; try lia.
      intros y Hy. apply OWN; auto.
    + intros H; inversion H; subst. apply Z.ltb_ge in E.
      apply (rnd_inv_intro s _ _ B); simpl; auto.
  - (* Drop *)
    rewrite Ht. destruct (rnd_drop_ok s ch1 ch2 n B ND) as (B' & H1 & H2 & H3 & H4).
    rewrite H1. intros H; inversion H; subst.
    assert (0 <= zlen B) by (unfold zlen; lia).
    apply (rnd_inv_intro s _ _ B'); simpl; auto; try lia.
    intros y Hy. apply OWN; auto.
  - intros H; inversion H; subst. apply (rnd_inv_intro s c' _ B); auto.
  - intros H; inversion H; subst. apply (rnd_inv_intro s c' _ B); auto.
Qed.

Definition rop_op (o : rop) : op := fst (fst o).

Lemma rnd_wstep_inv w cl o w' x :
  rnd_inv w cl -> allowedb cl (rop_op o) = true -> rnd_wstep w o = (w', x) ->
  rnd_inv w' (cl_update true cl (rop_op o) x).
Proof.
  destruct w as [s c]. destruct o as [[o ch1] ch2]. intros INV AL.
  unfold rnd_wstep, wstep, rop_op in *. simpl fst in *. simpl snd in *.
  assert (GEN : forall o0, allowedb cl o0 = true ->
            cl_update true cl o0 = cl_update true cl o ->
            (let '(c', x0) := rnd_step s c (o0, ch1, ch2) in (s, c', x0)) = (w', x) ->
            rnd_inv w' (cl_update true cl o x)).
  { intros o0 AL0 EQ. destruct (rnd_step s c (o0, ch1, ch2)) as [c1 x1] eqn:ST.
    intros H; inversion H; subst. rewrite <- EQ.
    apply (rnd_cstep_inv s c cl o0 ch1 ch2 c1 x); auto. }
  destruct o; try (apply GEN; auto; fail).
  - (* Free *)
    unfold free_via. simpl.
    destruct (n <=? rcap c - tlen (rtab c)).
    + intros H; inversion H; subst. exact INV.
    + destruct (rnd_step s c (Drop (n - (rcap c - tlen (rtab c))), ch1, ch2)) as [c1 x1] eqn:ST.
      pose proof (rnd_cstep_inv s c cl (Drop (n - (rcap c - tlen (rtab c)))) ch1 ch2 c1 x1 INV eq_refl ST) as INV1.
      simpl in ST. inversion ST; subst. simpl.
      intros H; inversion H; subst. exact INV1.
  - (* Rebase *)
    intros H; inversion H; subst. simpl in AL. apply status_mine_eqb in AL.
    destruct INV as [Ht ND CAP OWN]. simpl in *.
    assert (Hb : ~ In b (blocks (rtab c))).
    { intros Hin. specialize (OWN b Hin). simpl in OWN. congruence. }
    assert (EXT : forall y, In y (blocks (rtab c)) -> sset s b (mkblk k u) y = s y).
    { intros y Hy. unfold sset. destruct (Nat.eqb_spec y b); congruence. }
    constructor; simpl; auto.
    + rewrite (tab_of_ext s); auto.
    + rewrite (map_base_ext s); auto.
Qed.

Definition rnd_reach (n : Z) := reach rnd rop rop_op rnd_wstep true (rnd_empty n).

Lemma rnd_reach_inv n w cl : 1 <= n -> rnd_reach n w cl -> rnd_inv w cl.
Proof.
  intros Hn R. induction R.
  - constructor; simpl; auto.
    + constructor.
    + unfold zlen; simpl; lia.
    + intros b [].
  - eapply rnd_wstep_inv; eauto.
Qed.

Lemma rnd_cap_inv_gen n s c cl :
  1 <= n -> rnd_reach n (s, c) cl ->
  tlen (rtab c) <= rcap c /\ NoDup (map fst (rtab c)) /\ 1 <= rcap c.
Proof.
  intros Hn R. destruct (rnd_reach_inv _ _ _ Hn R) as [Ht ND [C1 C2] _]. simpl in *.
  rewrite Ht at 1 2. rewrite tlen_tab_of, keys_tab_of. auto.
Qed.

Lemma rnd_put_refuses_gen s c b ch1 ch2 :
  tlen (rtab c) = rcap c -> bused (s b) = false ->
  rnd_wstep (s, c) (Put b, ch1, ch2) = ((s, c), OPut (Some b) false).
Proof.
  intros Hf Hu. unfold rnd_wstep, wstep. simpl.
  destruct (tget (bbase (s b)) (rtab c)); auto.
  rewrite Hf, Z.eqb_refl, Hu. reflexivity.
Qed.

Lemma rnd_policy_gen n s c cl b ch1 ch2 v s' c' :
  1 <= n -> rnd_reach n (s, c) cl -> allowedb cl (Put b) = true ->
  rnd_wstep (s, c) (Put b, ch1, ch2) = ((s', c'), OPut (Some v) true) ->
  In v (blocks (rtab c)) /\ tlen (rtab c) = rcap c /\ bused (s b) = true
  /\ ((exists u, In u (blocks (rtab c)) /\ bused (s u) = false) -> bused (s v) = false)
  /\ (forall y, In y (blocks (rtab c')) <-> (In y (blocks (rtab c)) /\ y <> v) \/ y = b).
Proof.
  intros Hn R AL. destruct (rnd_reach_inv _ _ _ Hn R) as [Ht ND [C1 C2] OWN]. simpl in *.
  set (B := blocks (rtab c)) in *.
  apply negb_true_iff in AL. apply status_given_eqb in AL.
  assert (Hb : ~ In b B) by (intros Hin; apply AL; apply (OWN b Hin)).
  unfold rnd_wstep, wstep. simpl. rewrite Ht, tget_tab_of, tlen_tab_of.
  destruct (sfind s (bbase (s b)) B) eqn:F; [intros H; inversion H|].
  pose proof (sfind_none _ _ _ F) as HF. change (bbase (s b)) with (base_of s b) in *.
  destruct (zlen B =? rcap c) eqn:EC; [|intros H; inversion H].
  destruct (bused (s b)) eqn:U; simpl; [|intros H; inversion H].
  destruct (rnd_victim s ch1 ch2 (tab_of s B)) as [vk|] eqn:V; [|intros H; inversion H].
  pose proof (rnd_victim_in _ _ _ _ _ V) as Hvk. rewrite keys_tab_of in Hvk.
  destruct (sfind_of_in s vk B Hvk) as [d Fd]. destruct (sfind_some _ _ _ _ Fd) as [Hd Hbd].
  rewrite tget_tab_of, Fd, (tdel_key s vk B d ND Fd).
  intros H; inversion H; subst. apply Z.eqb_eq in EC.
  repeat split; auto.
  - intros HU. eapply rnd_victim_policy; eauto.
  - simpl rtab. rewrite tset_tab_of by (apply not_in_remove_map; auto). rewrite blocks_tab_of.
    intros Hy. apply in_app_iff in Hy. destruct Hy as [Hy|[<-|[]]]; auto.
    apply in_remove in Hy. auto.
  - simpl rtab. rewrite tset_tab_of by (apply not_in_remove_map; auto). rewrite blocks_tab_of.
    intros [[H1 H2]|E]; apply in_app_iff; [left; apply in_in_remove; auto | right; simpl; auto].
Qed.

Lemma rnd_get_peek_base_gen n s c cl k ch1 ch2 :
  1 <= n -> rnd_reach n (s, c) cl ->
  (forall b, snd (rnd_wstep (s, c) (Get k, ch1, ch2)) = OGet (Some b) -> bbase (s b) = k)
  /\ (forall nx, snd (rnd_wstep (s, c) (Peek k, ch1, ch2)) = OPeek (Some nx) ->
        exists b, bbase (s b) = k /\ nx = k + bsize b)
  /\ snd (rnd_wstep (s, c) (Peek k, ch1, ch2)) =
       match snd (rnd_wstep (s, c) (Get k, ch1, ch2)) with
       | OGet (Some b) => OPeek (Some (bnext s b)) | _ => OPeek None end
  /\ snd (rnd_wstep (s, c) (Len, ch1, ch2)) = ONum (zlen (map fst (rtab c)))
  /\ (In k (map fst (rtab c)) <-> snd (rnd_wstep (s, c) (Peek k, ch1, ch2)) <> OPeek None)
  /\ snd (rnd_wstep (s, c) (Cap, ch1, ch2)) = ONum (rcap c).
Proof.
  intros Hn R. destruct (rnd_reach_inv _ _ _ Hn R) as [Ht ND _ _]. simpl in Ht, ND.
  unfold rnd_wstep, wstep. simpl. repeat split.
  - intros b. rewrite Ht, tget_tab_of. destruct (sfind s k (blocks (rtab c))) as [b'|] eqn:F; simpl; try discriminate.
    intros H; inversion H; subst. apply (sfind_some _ _ _ _ F).
  - intros nx. rewrite Ht, tget_tab_of. destruct (sfind s k (blocks (rtab c))) as [b'|] eqn:F; simpl; try discriminate.
    intros H; inversion H; subst. exists b'. destruct (sfind_some _ _ _ _ F) as [_ Hb].
    unfold bnext. unfold base_of in Hb. rewrite Hb. auto.
  - destruct (tget k (rtab c)); reflexivity.
  - unfold tlen, zlen. rewrite map_length. reflexivity.
  - intros Hin. unfold tget. destruct (find (fun p => fst p =? k) (rtab c)) eqn:F; simpl; try discriminate.
    apply in_map_iff in Hin. destruct Hin as [p [Hp1 Hp2]].
    eapply find_none in F; eauto. simpl in F. apply Z.eqb_neq in F. congruence.
  - unfold tget. destruct (find (fun p => fst p =? k) (rtab c)) eqn:F; simpl; try congruence.
    intros _. apply find_some in F. destruct F as [F1 F2]. apply Z.eqb_eq in F2.
    apply in_map_iff. exists p; auto.
Qed.

Lemma rnd_resize_drop_free_gen n s c cl m ch1 ch2 :
  1 <= n -> rnd_reach n (s, c) cl ->
  (1 <= m ->
     exists c', rnd_wstep (s, c) (Resize m, ch1, ch2) = ((s, c'), OUnit)
       /\ rcap c' = m /\ tlen (rtab c') = Z.min (tlen (rtab c)) m)
  /\ (exists c', rnd_wstep (s, c) (Drop m, ch1, ch2) = ((s, c'), OUnit)
       /\ rcap c' = rcap c /\ tlen (rtab c') = Z.max 0 (tlen (rtab c) - Z.max 0 m))
  /\ (exists c', rnd_wstep (s, c) (Free m, ch1, ch2) = ((s, c'), OBool (m <=? rcap c))
       /\ rcap c' = rcap c /\ (m <= rcap c -> m <= rcap c' - tlen (rtab c'))
       /\ tlen (rtab c') <= tlen (rtab c)).
Proof.
  intros Hn R. destruct (rnd_reach_inv _ _ _ Hn R) as [Ht ND [C1 C2] _]. simpl in *.
  set (B := blocks (rtab c)) in *.
  assert (TL : tlen (rtab c) = zlen B) by (rewrite Ht; apply tlen_tab_of).
  assert (T0 : 0 <= zlen B) by (unfold zlen; lia).
  assert (DROP : forall d, exists t', rnd_drop s ch1 ch2 d (rtab c) = t'
             /\ tlen t' = Z.max 0 (zlen B - Z.max 0 d)).
  { intros d. destruct (rnd_drop_ok s ch1 ch2 d B ND) as (B' & H1 & _ & _ & H4).
    eexists. split; [reflexivity|]. rewrite Ht, H1, tlen_tab_of. auto. }
  unfold rnd_wstep, wstep, free_via. simpl. rewrite TL. repeat split.
  - intros Hm. destruct (m <? zlen B) eqn:E.
    + destruct (DROP (zlen B - m)) as (t' & H1 & H2). eexists. split; [reflexivity|]. simpl.
      split; auto. rewrite H1, H2. apply Z.ltb_lt in E. lia.
    + eexists. split; [reflexivity|]. simpl. split; auto. rewrite TL. apply Z.ltb_ge in E. lia.
  - destruct (DROP m) as (t' & H1 & H2). eexists. split; [reflexivity|]. simpl. split; auto.
    rewrite H1, H2. reflexivity.
  - destruct (m <=? rcap c - zlen B) eqn:E.
    + exists c. apply Z.leb_le in E. rewrite TL. repeat split; auto; try lia.
      f_equal. f_equal. symmetry. apply Z.leb_le. lia.
    + apply Z.leb_gt in E. destruct (DROP (m - (rcap c - zlen B))) as (t' & H1 & H2).
      eexists. split.
      * simpl. rewrite H1, H2. f_equal. f_equal.
        destruct (m <=? rcap c) eqn:E2.
        { apply Z.leb_le in E2. apply Z.leb_le. lia. }
        { apply Z.leb_gt in E2. apply Z.leb_gt. lia. }
      * cbn [rtab rcap]. rewrite H2. repeat split; auto; lia.
Qed.
